(** [String.leb] is a total order; insertion sort by it is invariant under permutation. *)
From Coq Require Import List String Bool Sorting.Permutation Sorting.Sorted OrderedTypeEx.
From Elfi Require Import Graph.Net.
Import ListNotations.

Lemma leb_refl s : String.leb s s = true.
Proof.
  unfold String.leb. destruct (String.compare s s) eqn:E; auto.
  assert (H : String.compare s s = Eq) by (apply (proj2 (String_as_OT.cmp_eq s s)); reflexivity). congruence.
Qed.

Lemma leb_trans a b c : String.leb a b = true -> String.leb b c = true -> String.leb a c = true.
Proof.
  unfold String.leb. intros H1 H2.
  destruct (String.compare a b) eqn:E1; try discriminate;
  destruct (String.compare b c) eqn:E2; try discriminate.
  - apply String.compare_eq_iff in E1. subst. now rewrite E2.
  - apply String.compare_eq_iff in E1. subst. now rewrite E2.
  - apply String.compare_eq_iff in E2. subst. now rewrite E1.
  - assert (L1 : String_as_OT.lt a b) by (apply String_as_OT.cmp_lt; exact E1).
    assert (L2 : String_as_OT.lt b c) by (apply String_as_OT.cmp_lt; exact E2).
    pose proof (String_as_OT.lt_trans _ _ _ L1 L2) as L3. apply String_as_OT.cmp_lt in L3.
    unfold String_as_OT.cmp in L3. now rewrite L3.
Qed.

Definition leP (a b : string) : Prop := String.leb a b = true.

Lemma insert_name_perm n l : Permutation (insert_name n l) (n :: l).
Proof.
  induction l as [|m r IH]; simpl; [reflexivity|].
  destruct (String.leb n m); [reflexivity|].
  rewrite IH. apply perm_swap.
Qed.

Lemma sort_names_perm l : Permutation (sort_names l) l.
Proof.
  induction l as [|n r IH]; simpl; [reflexivity|].
  unfold sort_names in *. simpl. rewrite insert_name_perm. now constructor.
Qed.

Lemma insert_name_sorted n l : StronglySorted leP l -> StronglySorted leP (insert_name n l).
Proof.
  induction 1 as [|m r Hr IH Hall]; simpl.
  - constructor; constructor.
  - destruct (String.leb n m) eqn:E.
    + constructor; [constructor; assumption|].
      constructor; [exact E|]. eapply Forall_impl; [|exact Hall]. intros x Hx. eapply leb_trans; eauto.
    + constructor; [exact IH|].
      assert (Hmn : leP m n) by (destruct (String.leb_total n m) as [H|H]; [congruence | exact H]).
      apply Forall_forall. intros x Hx.
      apply (Permutation_in _ (insert_name_perm n r)) in Hx. destruct Hx as [<-|Hx]; [exact Hmn|].
      rewrite Forall_forall in Hall. now apply Hall.
Qed.

Lemma sort_names_sorted l : StronglySorted leP (sort_names l).
Proof.
  induction l as [|n r IH]; simpl; [constructor|]. unfold sort_names in *. simpl. now apply insert_name_sorted.
Qed.

Lemma sorted_perm_unique : forall l1 l2,
  StronglySorted leP l1 -> StronglySorted leP l2 -> Permutation l1 l2 -> l1 = l2.
Proof.
  induction l1 as [|a r1 IH]; intros l2 H1 H2 Hp.
  - apply Permutation_nil in Hp. now subst.
  - destruct l2 as [|b r2]; [apply Permutation_sym, Permutation_nil in Hp; discriminate|].
    inversion H1 as [|? ? Hs1 Ha]; subst. inversion H2 as [|? ? Hs2 Hb]; subst.
    assert (Hab : a = b).
    { assert (Hin1 : In b (a :: r1)) by (eapply Permutation_in; [apply Permutation_sym; exact Hp | now left]).
      assert (Hin2 : In a (b :: r2)) by (eapply Permutation_in; [exact Hp | now left]).
      destruct Hin1 as [->|Hin1]; [reflexivity|]. destruct Hin2 as [<-|Hin2]; [reflexivity|].
      rewrite Forall_forall in Ha, Hb. apply String.leb_antisym; [now apply Ha | now apply Hb]. }
    subst b. f_equal. apply IH; auto. eapply Permutation_cons_inv; eauto.
Qed.

Theorem sort_names_permutation l1 l2 : Permutation l1 l2 -> sort_names l1 = sort_names l2.
Proof.
  intros Hp. apply sorted_perm_unique; try apply sort_names_sorted.
  rewrite sort_names_perm, Hp. symmetry. apply sort_names_perm.
Qed.
