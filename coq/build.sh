#!/bin/bash
# Usage: build.sh [make targets...]   (default: all)
# Regenerates _CoqProject's file list and the Makefile when the set of .v files changed,
# then runs a full .vo build (never -vos/-vok) of the given targets under a lock.
set -u
cd "$(dirname "$0")"
exec 9>.lock
flock 9
{
  echo "-Q . Elfi"
  echo "-arg -w -arg -notation-overridden,-deprecated-hint-without-locality,-deprecated-instance-without-locality,-ambiguous-paths,-redundant-canonical-projection,-notation-incompatible-format,-deprecated-since-8.15,-deprecated-since-8.16"
  find Base Graph Sched Store Num Gen Proofs Properties -name '*.v' 2>/dev/null | LC_ALL=C sort
} > _CoqProject.new
if ! cmp -s _CoqProject.new _CoqProject || [ ! -f Makefile ]; then
  mv _CoqProject.new _CoqProject
  coq_makefile -f _CoqProject -o Makefile >/dev/null || exit 2
else
  rm -f _CoqProject.new
fi
if [ $# -eq 0 ]; then
  timeout "${VERIF_MAKE_TIMEOUT:-3000}" make -j"${VERIF_JOBS:-16}" 2>&1
else
  timeout "${VERIF_MAKE_TIMEOUT:-3000}" make -j"${VERIF_JOBS:-16}" "$@" 2>&1
fi
