(** C13 — weighted-sample statistics and the mixture proposal obey their definitions.
    Model: Num/Quantile.v.  Proofs: Proofs/C13_*.v.  This file only states the theorems. *)
From Coq Require Import List ZArith QArith Bool Arith.
From Elfi Require Import Num.Quantile Proofs.C13_Rvs.
Import ListNotations.

(** The constrained sampler returns exactly [size] rows, all satisfying the constraint, for every
    stream of proposal batches and every fuel on which it finishes. *)
Theorem C13_rvs_size_and_constraint :
  forall (X : Type) (valid : X -> bool) (draw : nat -> nat -> list X) fuel size out,
    rvs X valid draw fuel size = Some out ->
    length out = size /\ Forall (fun x => valid x = true) out.
Proof. exact rvs_spec. Qed.
Print Assumptions C13_rvs_size_and_constraint.
