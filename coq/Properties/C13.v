(** C13 — weighted-sample statistics and the mixture proposal obey their definitions.
    Model: Num/Quantile.v ([wsq_idx] = weighted_sample_quantile with the argsort as an oracle,
    [normalize_weights], [compute_ess], [wvar_rows]/[weighted_var] (normalise, then [wvar_core]), [gm_pdf], [rvs]).
    Proofs: Proofs/C13_Quantile.v, C13_Stats.v, C13_Rvs.v, C13_Hist.v.  This file only states the theorems. *)
From Coq Require Import List ZArith QArith Qabs Bool Arith Permutation Sorted.
From Elfi Require Import Num.Quantile Proofs.C13_Quantile Proofs.C13_Stats Proofs.C13_Rvs Proofs.C13_Hist.
Import ListNotations.
Open Scope Q_scope.

(** * weighted_sample_quantile *)

(** For every sample, non-negative weights with positive sum, alpha in [0,1] and every argsort
    result (any permutation of the indices that sorts the values, i.e. every tie-breaking order):
    the call returns a value q that is an element of the sample, the normalised weight of
    {x <= q} is at least alpha and the normalised weight of {x < q} is at most alpha. *)
Theorem C13_quantile_spec :
  forall (xs w : list Q) index alpha,
    length w = length xs -> Forall (Qle 0) w -> 0 < qsum w ->
    sorting_perm index xs -> 0 <= alpha -> alpha <= 1 ->
    exists q, wsq_idx index xs alpha (Some w) = Some q /\ In q xs /\
              alpha <= wle q (combine xs w) / qsum w /\ wlt q (combine xs w) / qsum w <= alpha.
Proof. intros xs w index alpha Hl Hw Hs. exact (quantile_spec xs w Hl Hw Hs index alpha). Qed.
Print Assumptions C13_quantile_spec.

(** [weights=None] is the all-ones weight vector. *)
Theorem C13_quantile_equal_weights :
  forall index xs alpha, length index = length xs ->
    wsq_idx index xs alpha None = wsq_idx index xs alpha (Some (ones xs)).
Proof. exact wsq_idx_none. Qed.
Print Assumptions C13_quantile_equal_weights.

(** The value does not depend on the order the argsort gives to equal values. *)
Theorem C13_quantile_tie_independent :
  forall (xs w : list Q) index index' alpha q q',
    length w = length xs -> Forall (Qle 0) w -> 0 < qsum w ->
    sorting_perm index xs -> sorting_perm index' xs -> 0 <= alpha -> alpha <= 1 ->
    wsq_idx index xs alpha (Some w) = Some q -> wsq_idx index' xs alpha (Some w) = Some q' -> q == q'.
Proof. intros xs w index index' alpha q q' Hl Hw Hs. exact (quantile_tie_independent xs w Hl Hw Hs index index' alpha q q'). Qed.
Print Assumptions C13_quantile_tie_independent.

(** Monotone in alpha. *)
Theorem C13_quantile_monotone :
  forall (xs w : list Q) index index' a1 a2 q1 q2,
    length w = length xs -> Forall (Qle 0) w -> 0 < qsum w ->
    sorting_perm index xs -> sorting_perm index' xs -> 0 <= a1 -> a1 <= a2 -> a2 <= 1 ->
    wsq_idx index xs a1 (Some w) = Some q1 -> wsq_idx index' xs a2 (Some w) = Some q2 -> q1 <= q2.
Proof. intros xs w index index' a1 a2 q1 q2 Hl Hw Hs. exact (quantile_monotone xs w Hl Hw Hs index index' a1 a2 q1 q2). Qed.
Print Assumptions C13_quantile_monotone.

(** Invariant under w -> c*w, c > 0. *)
Theorem C13_quantile_scale_invariant :
  forall (xs w : list Q) index index' c alpha q q',
    length w = length xs -> Forall (Qle 0) w -> 0 < qsum w ->
    sorting_perm index xs -> sorting_perm index' xs -> 0 < c -> 0 <= alpha -> alpha <= 1 ->
    wsq_idx index xs alpha (Some w) = Some q ->
    wsq_idx index' xs alpha (Some (map (Qmult c) w)) = Some q' -> q == q'.
Proof. intros xs w index index' c alpha q q' Hl Hw Hs. exact (quantile_scale_invariant xs w Hl Hw Hs index index' c alpha q q'). Qed.
Print Assumptions C13_quantile_scale_invariant.

(** The oracle hypothesis is satisfiable for every sample: the executable model's own stable
    insertion argsort is a sorting permutation, and so is every index list that passes the
    boolean test applied to numpy's recorded argsort. *)
Theorem C13_argsort_sorting : forall xs, sorting_perm (argsort xs) xs.
Proof. exact argsort_sorting. Qed.
Print Assumptions C13_argsort_sorting.

Theorem C13_is_sorting_perm_sound :
  forall index xs, is_sorting_perm index xs = true -> sorting_perm index xs.
Proof. exact is_sorting_perm_sound. Qed.
Print Assumptions C13_is_sorting_perm_sound.

(** The decidable statement evaluated on the implementation's answers is sound for the
    property (with slack [tol]; [tol = 0] on exactly representable inputs) ... *)
Theorem C13_ok_sound :
  forall tol xw alpha q, 0 < wtot xw -> quant_ok tol xw alpha q = true ->
    (exists p, In p xw /\ fst p == q) /\
    alpha - tol <= wle q xw / wtot xw /\ wlt q xw / wtot xw <= alpha + tol.
Proof. exact quant_ok_sound. Qed.
Print Assumptions C13_ok_sound.

(** ... and the model's own answer satisfies it with no slack. *)
Theorem C13_model_ok :
  forall index xs w alpha q,
    sorting_perm index xs -> length w = length xs -> Forall (Qle 0) w -> 0 < qsum w ->
    0 <= alpha -> alpha <= 1 ->
    wsq_idx index xs alpha (Some w) = Some q -> quant_ok 0 (combine xs w) alpha q = true.
Proof. exact quant_model_ok. Qed.
Print Assumptions C13_model_ok.

(** * normalize_weights, compute_ess *)
Theorem C13_normalize_weights :
  forall ws nw, normalize_weights ws = Some nw ->
    qsum nw == 1 /\ Forall (Qle 0) nw /\ Forall2 (fun w u => u * qsum ws == w) ws nw.
Proof. exact normalize_weights_spec. Qed.
Print Assumptions C13_normalize_weights.

Theorem C13_normalize_weights_defined :
  forall ws, Forall (Qle 0) ws -> 0 < qsum ws -> exists nw, normalize_weights ws = Some nw.
Proof. exact normalize_weights_defined. Qed.
Print Assumptions C13_normalize_weights_defined.

(** ESS = (sum w)^2 / sum w^2 of the unnormalised weights. *)
Theorem C13_ess :
  forall ws e, compute_ess ws = Some e -> e == sq (qsum ws) / qsum (map sq ws).
Proof. exact compute_ess_spec. Qed.
Print Assumptions C13_ess.

(** The effective sample size does not depend on the common scale of the weights: for every
    c > 0, [compute_ess (c * w)] is defined whenever [compute_ess w] is, with the same value.
    (The model's weight vectors are numeric values only, so neither the magnitude nor the
    dtype / container in which the caller holds them can influence the result.) *)
Theorem C13_ess_scale_invariant :
  forall c w e, 0 < c -> compute_ess w = Some e ->
    exists e', compute_ess (map (Qmult c) w) = Some e' /\ e == e'.
Proof. exact compute_ess_scale_invariant. Qed.
Print Assumptions C13_ess_scale_invariant.

Theorem C13_ess_spec_scale_invariant :
  forall c w, ~ c == 0 -> spec_ess (map (Qmult c) w) == spec_ess w.
Proof. exact spec_ess_scale_invariant. Qed.
Print Assumptions C13_ess_spec_scale_invariant.

Theorem C13_normalize_weights_scale_invariant :
  forall c w nw, 0 < c -> normalize_weights w = Some nw ->
    exists nw', normalize_weights (map (Qmult c) w) = Some nw' /\ Forall2 Qeq nw nw'.
Proof. exact normalize_weights_scale_invariant. Qed.
Print Assumptions C13_normalize_weights_scale_invariant.

(** decidable statement over several calls on the same numeric weights (different
    representations, different exactly representable common factors): sound for the definitions
    AT THE WEIGHTS PASSED, and satisfied by the model for every list of positive factors *)
Theorem C13_weights_ok_sound :
  forall w runs r,
    wf_stat_w w = true -> ok_weights w runs = true -> In r runs -> 0 < w_scale r ->
    exists nw e, w_norm r = Some nw /\ w_ess r = Some e /\
      Qabs (1 - qsum nw) <= w_tol r * (1 + Qabs 1) /\ Forall (Qle 0) nw /\
      Qabs (spec_ess (map (Qmult (w_scale r)) w) - e)
        <= w_tol r * (1 + Qabs (spec_ess (map (Qmult (w_scale r)) w))).
Proof. exact weights_ok_sound. Qed.
Print Assumptions C13_weights_ok_sound.

Theorem C13_weights_model_ok :
  forall w (l : list (Q * Q)), Forall (fun st => 0 <= snd st) l ->
    ok_weights w (map (model_wrun w) l) = true.
Proof. exact weights_model_ok. Qed.
Print Assumptions C13_weights_model_ok.

(** * weighted_var *)
(** equals the reliability-weights unbiased estimator
    sum v_i (x_i - mu)^2 / (1 - sum v_i^2), v_i = w_i / sum w, mu = sum v_i x_i *)
Theorem C13_var_reliability : forall xw v, wvar_rows xw = Some v -> v == spec_var xw.
Proof. exact weighted_var_reliability. Qed.
Print Assumptions C13_var_reliability.

(** with equal weights: the usual unbiased sample variance sum (x - mean)^2 / (n - 1) *)
Theorem C13_var_equal_weights :
  forall xw c v, Forall (fun p => snd p == c) xw -> wvar_rows xw = Some v ->
    let n := inject_Z (Z.of_nat (length xw)) in
    let mean := qsum (map fst xw) / n in
    v == qsum (map (fun p => sq (fst p - mean)) xw) / (n - 1).
Proof. exact weighted_var_equal_weights. Qed.
Print Assumptions C13_var_equal_weights.

Theorem C13_var_equal_weights_defined :
  forall xw c, Forall (fun p => snd p == c) xw -> 0 < c -> (2 <= length xw)%nat ->
    exists v, wvar_rows xw = Some v.
Proof. exact weighted_var_equal_defined. Qed.
Print Assumptions C13_var_equal_weights_defined.

Theorem C13_var_scale_invariant :
  forall xw c v v', ~ c == 0 -> wvar_rows xw = Some v ->
    wvar_rows (map (fun p => (fst p, c * snd p)) xw) = Some v' -> v == v'.
Proof. exact weighted_var_scale_invariant. Qed.
Print Assumptions C13_var_scale_invariant.

(** ... and rescaling cannot make a defined variance undefined (the code normalises the weights in
    floating point before squaring them, so neither the magnitude nor the dtype of the caller's
    weights enters) *)
Theorem C13_var_scale_defined :
  forall xw c v, ~ c == 0 -> wvar_rows xw = Some v ->
    exists v', wvar_rows (map (fun p => (fst p, c * snd p)) xw) = Some v' /\ v == v'.
Proof. exact weighted_var_scale_defined. Qed.
Print Assumptions C13_var_scale_defined.

(** decidable statements for normalize/ess/var: sound, and satisfied by the model *)
Theorem C13_stat_ok_sound :
  forall xs w tol i_norm i_ess i_var,
    wf_stat_w w = true -> ok_stat xs (Some w) tol i_norm i_ess i_var = true ->
    exists nw e, i_norm = Some nw /\ i_ess = Some e /\
      Qabs (1 - qsum nw) <= tol * (1 + Qabs 1) /\ Forall (Qle 0) nw /\
      Qabs (spec_ess w - e) <= tol * (1 + Qabs (spec_ess w)).
Proof. exact ess_ok_sound. Qed.
Print Assumptions C13_stat_ok_sound.

Theorem C13_var_ok_sound :
  forall xs w tol i_norm i_ess i_var,
    length w = length xs -> wf_stat_w w = true -> var_defined (combine xs w) = true ->
    ok_stat xs (Some w) tol i_norm i_ess i_var = true ->
    exists v, i_var = Some v /\
      Qabs (spec_var (combine xs w) - v) <= tol * (1 + Qabs (spec_var (combine xs w))).
Proof. exact var_ok_sound. Qed.
Print Assumptions C13_var_ok_sound.

Theorem C13_stat_model_ok :
  forall xs w tol, 0 <= tol -> length w = length xs ->
    ok_stat xs (Some w) tol (normalize_weights w) (compute_ess w) (weighted_var xs (Some w)) = true.
Proof. exact stat_model_ok. Qed.
Print Assumptions C13_stat_model_ok.

(** * GMDistribution *)
(** pdf(x) = sum_i (w_i / sum w) * N(x; m_i, C) for every normal-density function [Nd] *)
Theorem C13_gm_pdf :
  forall (X M : Type) (Nd : X -> M -> Q) x means w p,
    gm_pdf_at X M Nd x means (Some w) = Some p ->
    p == qsum (map (fun wm => fst wm / qsum w * Nd x (snd wm)) (combine w means)).
Proof. exact gm_pdf_at_spec. Qed.
Print Assumptions C13_gm_pdf.

Theorem C13_gm_pdf_table :
  forall dens ws p, gm_pdf dens ws = Some p -> p == spec_pdf dens (weights_of ws dens).
Proof. exact gm_pdf_spec. Qed.
Print Assumptions C13_gm_pdf_table.

Theorem C13_gm_pdf_defined_nonneg :
  forall dens ws, Forall (Qle 0) (weights_of ws dens) -> 0 < qsum (weights_of ws dens) ->
    Forall (Qle 0) dens -> exists p, gm_pdf dens ws = Some p /\ 0 <= p.
Proof.
  intros dens ws Hw Hs Hd. destruct (gm_pdf_defined dens ws Hw Hs) as [p Hp].
  exists p. split; [exact Hp | now apply (gm_pdf_nonneg dens ws)].
Qed.
Print Assumptions C13_gm_pdf_defined_nonneg.

(** the density does not depend on the common scale of the component weights *)
Theorem C13_gm_pdf_scale_invariant :
  forall c dens w p, 0 < c -> gm_pdf dens (Some w) = Some p ->
    exists p', gm_pdf dens (Some (map (Qmult c) w)) = Some p' /\ p == p'.
Proof. exact gm_pdf_scale_invariant. Qed.
Print Assumptions C13_gm_pdf_scale_invariant.

(** logpdf = log(pdf) for every function [ln] *)
Theorem C13_gm_logpdf :
  forall (X M : Type) (Nd : X -> M -> Q) (ln : Q -> Q) x means ws,
    gm_logpdf_at X M Nd ln x means ws = option_map ln (gm_pdf_at X M Nd x means ws).
Proof. exact gm_logpdf_at_spec. Qed.
Print Assumptions C13_gm_logpdf.

Theorem C13_gm_pdf_model_ok :
  forall dens ws tol p, 0 <= tol -> gm_pdf dens ws = Some p ->
    close tol (spec_pdf dens (weights_of ws dens)) p = true.
Proof. exact pdf_model_ok. Qed.
Print Assumptions C13_gm_pdf_model_ok.

(** The constrained sampler returns exactly [size] rows, all satisfying the constraint, for every
    constraint, every stream of proposal batches and every fuel on which the loop finishes. *)
Theorem C13_rvs_size_and_constraint :
  forall (X : Type) (valid : X -> bool) (draw : nat -> nat -> list X) fuel size out,
    rvs X valid draw fuel size = Some out ->
    length out = size /\ Forall (fun x => valid x = true) out.
Proof. exact rvs_spec. Qed.
Print Assumptions C13_rvs_size_and_constraint.

(** non-vacuity of the previous theorem: a fully valid first batch ends the loop *)
Theorem C13_rvs_live :
  forall (X : Type) (valid : X -> bool) (draw : nat -> nat -> list X) size,
    length (draw 0%nat size) = size -> forallb valid (draw 0%nat size) = true ->
    rvs X valid draw 2 size = Some (draw 0%nat size).
Proof. exact rvs_live. Qed.
Print Assumptions C13_rvs_live.

Theorem C13_rvs_ok_sound :
  forall size box o, ok_rvs size box (Some o) = true ->
    length o = size /\ Forall (fun x => in_box box x = true) o.
Proof. exact rvs_ok_sound. Qed.
Print Assumptions C13_rvs_ok_sound.

(** * histories of calls on the class (wave 3)
    [pdf], [logpdf] and [rvs] are class-level functions: a caller evaluates them again and again,
    re-using (and editing in place) the arrays it passed before.  The model has no state that
    survives a call; a history is accepted iff every call is. *)
Theorem C13_hist_ok_sound :
  forall calls, ok (CHist calls) = true -> Forall (fun c => ok_call c = true) calls.
Proof. exact hist_ok_sound. Qed.
Print Assumptions C13_hist_ok_sound.

(** every sampler call of an accepted history, wherever it stands in the history, returned exactly
    [size] rows, all satisfying the constraint of that call *)
Theorem C13_hist_rvs_sound :
  forall calls size box batches o,
    ok (CHist calls) = true -> In (GRvs size box batches o) calls ->
    exists out, o = Some out /\ length out = size /\ Forall (fun x => in_box box x = true) out.
Proof. exact hist_rvs_sound. Qed.
Print Assumptions C13_hist_rvs_sound.

(** every density call ([pdf], or [logpdf] through [exp]) of an accepted history returned, at each
    point, the weighted sum of the component densities for the numbers passed at that call *)
Theorem C13_hist_pdf_sound :
  forall calls dens w tol l n d i,
    ok (CHist calls) = true ->
    In (GPdf dens (Some w) tol (Some l)) calls \/ In (GLogpdf dens (Some w) tol (Some l)) calls ->
    wf_stat_w w = true -> nth_error dens n = Some d -> nth_error l n = Some i -> length w = length d ->
    Qabs (spec_pdf d w - i) <= tol * (1 + Qabs (spec_pdf d w)).
Proof. exact hist_pdf_sound. Qed.
Print Assumptions C13_hist_pdf_sound.

Theorem C13_hist_pdf_defined :
  forall calls dens w tol o d,
    ok (CHist calls) = true ->
    In (GPdf dens (Some w) tol o) calls \/ In (GLogpdf dens (Some w) tol o) calls ->
    wf_stat_w w = true -> In d dens -> exists l, o = Some l.
Proof. exact hist_pdf_defined. Qed.
Print Assumptions C13_hist_pdf_defined.

(** for every history of well-formed calls (any length, order, mixture of dimensions, weights and
    constraints) the model's call-by-call answers pass both decidable statements *)
Theorem C13_hist_model_ok :
  forall calls, Forall call_wf calls ->
    ok (CHist (map model_call calls)) = true /\ agree (CHist (map model_call calls)) = true.
Proof. exact hist_model_ok. Qed.
Print Assumptions C13_hist_model_ok.

(** the model's answer to a call is independent of the calls before and after it *)
Theorem C13_hist_model_stateless :
  forall pre c post,
    map model_call (pre ++ c :: post) = map model_call pre ++ model_call c :: map model_call post.
Proof. exact hist_model_stateless. Qed.
Print Assumptions C13_hist_model_stateless.

(** the accept loop has no give-up exit: a trial whose batch holds no valid row only advances the
    trial counter, and whatever the loop returns has at least [size] rows (with
    [C13_rvs_size_and_constraint]: exactly [size]) however many trials that takes *)
Theorem C13_rvs_rejected_batch :
  forall (X : Type) (valid : X -> bool) (draw : nat -> nat -> list X) fuel trial size acc,
    (length acc < size)%nat ->
    length (draw trial (size - length acc)%nat) = (size - length acc)%nat ->
    filter valid (draw trial (size - length acc)%nat) = [] ->
    rvs_loop X valid draw (S fuel) trial size acc = rvs_loop X valid draw fuel (S trial) size acc.
Proof. exact rvs_rejected_batch. Qed.
Print Assumptions C13_rvs_rejected_batch.

Theorem C13_rvs_no_early_exit :
  forall (X : Type) (valid : X -> bool) (draw : nat -> nat -> list X) fuel trial size acc out,
    rvs_loop X valid draw fuel trial size acc = Some out -> (size <= length out)%nat.
Proof. exact rvs_no_early_exit. Qed.
Print Assumptions C13_rvs_no_early_exit.

(** * non-vacuity: concrete states *)
(** unsorted sample with a tie and a zero weight; alpha on a cumulative boundary (1/2), off it,
    0 and 1; the hypotheses of the quantile theorems hold for it *)
Example C13_example_quantile :
  let xs := [3; 1; 2; 2; 5] in let w := [1; 1; 0; 2; 4] in
  map (fun a => wsq xs a (Some w)) [0; 1#8; 1#4; 1#2; 9#16; 1]
  = [Some 1; Some 1; Some 2; Some 3; Some 5; Some 5]
  /\ length w = length xs /\ forallb (Qle_bool 0) w = true /\ Qltb 0 (qsum w) = true
  /\ is_sorting_perm [1; 3; 2; 0; 4]%nat xs = true /\ is_sorting_perm (argsort xs) xs = true
  /\ wsq_idx [1; 3; 2; 0; 4]%nat xs (1#4) (Some w) = wsq xs (1#4) (Some w).
Proof. vm_compute. repeat split; reflexivity. Qed.

Example C13_example_stats :
  compute_ess [1; 1; 0; 2] = Some (8 # 3)
  /\ weighted_var [3; 1; 2; 2] (Some [1; 1; 0; 2]) = Some (4 # 5)
  /\ weighted_var [3; 1; 2; 2] None = Some (2 # 3)
  /\ gm_pdf [1 # 2; 1 # 4] (Some [1; 3]) = Some (5 # 16).
Proof. vm_compute. repeat split; reflexivity. Qed.

(** the same weights at the scales 2^-1000, 1 and 2^1000: equal ESS, and the decidable statement
    accepts the model's three answers (non-vacuity of the scale-invariance / model_ok theorems) *)
Example C13_example_ess_scales :
  let w := [3; 0; 1; 4] in
  let lo := inject_Z 1 / inject_Z (2 ^ 1000) in let hi := inject_Z (2 ^ 1000) in
  map (fun c => compute_ess (map (Qmult c) w)) [lo; 1; hi] = [Some (32 # 13); Some (32 # 13); Some (32 # 13)]
  /\ wf_stat_w w = true
  /\ ok_weights w (map (model_wrun w) [(lo, 0); (1, 0); (hi, 1 # 1000)]) = true.
Proof. vm_compute. repeat split; reflexivity. Qed.

(** an accept loop that needs four trials (valid = "< 10") *)
Example C13_example_rvs :
  rvs nat (fun x => x <? 10)%nat
      (fun t n => firstn n (nth t [[1; 20; 30; 2]; [40; 50]; [3; 60]; [4; 5]] []))%nat 10 4
  = Some [1; 2; 3; 4]%nat.
Proof.
  vm_compute. reflexivity.
Qed.

(** a history: density under weights [1;3], the same points after the caller changed the
    covariance (other component densities), a constrained sampler call in between, a log-density
    call; the model's answers pass, and an answer computed from the FIRST call's densities at the
    third call (a stale cross-call state) is rejected *)
Example C13_example_history :
  let c1 := GPdf [[1 # 2; 1 # 4]] (Some [1; 3]) 0 None in
  let c2 := GRvs 2 (Some [(0, 1)]) [[[2]; [1 # 2]]; [[1 # 3]]] None in
  let c3 := GPdf [[1 # 8; 1 # 16]] (Some [1; 3]) 0 None in
  let c4 := GLogpdf [[1 # 8; 1 # 16]] None 0 None in
  map model_call [c1; c2; c3; c4]
  = [GPdf [[1 # 2; 1 # 4]] (Some [1; 3]) 0 (Some [5 # 16]);
     GRvs 2 (Some [(0, 1)]) [[[2]; [1 # 2]]; [[1 # 3]]] (Some [[1 # 2]; [1 # 3]]);
     GPdf [[1 # 8; 1 # 16]] (Some [1; 3]) 0 (Some [5 # 64]);
     GLogpdf [[1 # 8; 1 # 16]] None 0 (Some [3 # 32])]
  /\ ok (CHist (map model_call [c1; c2; c3; c4])) = true
  /\ agree (CHist (map model_call [c1; c2; c3; c4])) = true
  /\ ok (CHist [model_call c1; model_call c2; GPdf [[1 # 8; 1 # 16]] (Some [1; 3]) 0 (Some [5 # 16])]) = false
  /\ ok (CHist [GRvs 2 (Some [(0, 1)]) [[[2]; [1 # 2]]] (Some [[1 # 2]])]) = false.
Proof. vm_compute. repeat split; reflexivity. Qed.

(** ---- non-vacuity of the hypotheses (audit) ---- *)
(** One sample with a tie (positions 2 and 3) and a zero weight; two DIFFERENT sorting permutations
    of it (the two tie-breaking orders).  All hypotheses of [C13_quantile_spec],
    [C13_quantile_equal_weights], [C13_quantile_tie_independent], [C13_quantile_monotone],
    [C13_quantile_scale_invariant] and [C13_model_ok] hold together on it. *)
Definition C13_nv_xs : list Q := [3; 1; 2; 2; 5].
Definition C13_nv_w : list Q := [1; 1; 0; 2; 4].
Definition C13_nv_ix : list nat := [1; 3; 2; 0; 4]%nat.
Definition C13_nv_ix' : list nat := [1; 2; 3; 0; 4]%nat.

Example C13_quantile_hyps_nonvacuous :
  length C13_nv_w = length C13_nv_xs /\ Forall (Qle 0) C13_nv_w /\ 0 < qsum C13_nv_w
  /\ sorting_perm C13_nv_ix C13_nv_xs /\ sorting_perm C13_nv_ix' C13_nv_xs /\ C13_nv_ix <> C13_nv_ix'
  /\ length C13_nv_ix = length C13_nv_xs
  /\ 0 <= (1 # 4) /\ (1 # 4) <= (9 # 16) /\ (9 # 16) <= 1 /\ 0 < 3
  /\ wsq_idx C13_nv_ix C13_nv_xs (1 # 4) (Some C13_nv_w) = Some 2
  /\ wsq_idx C13_nv_ix' C13_nv_xs (1 # 4) (Some C13_nv_w) = Some 2
  /\ wsq_idx C13_nv_ix' C13_nv_xs (9 # 16) (Some C13_nv_w) = Some 5
  /\ wsq_idx C13_nv_ix' C13_nv_xs (1 # 4) (Some (map (Qmult 3) C13_nv_w)) = Some 2.
Proof.
  split; [reflexivity|].
  split; [repeat (apply Forall_cons; [apply Qle_bool_imp_le; vm_compute; reflexivity|]); apply Forall_nil|].
  split; [vm_compute; reflexivity|].
  split; [apply C13_is_sorting_perm_sound; vm_compute; reflexivity|].
  split; [apply C13_is_sorting_perm_sound; vm_compute; reflexivity|].
  split; [intro HH; discriminate HH|].
  split; [reflexivity|].
  split; [apply Qle_bool_imp_le; vm_compute; reflexivity|].
  split; [apply Qle_bool_imp_le; vm_compute; reflexivity|].
  split; [apply Qle_bool_imp_le; vm_compute; reflexivity|].
  split; [vm_compute; reflexivity|].
  repeat split; vm_compute; reflexivity.
Qed.

(** the theorems applied to that instance *)
Example C13_quantile_spec_nonvacuous :
  exists q, wsq_idx C13_nv_ix C13_nv_xs (1 # 4) (Some C13_nv_w) = Some q /\ In q C13_nv_xs /\
            (1 # 4) <= wle q (combine C13_nv_xs C13_nv_w) / qsum C13_nv_w /\
            wlt q (combine C13_nv_xs C13_nv_w) / qsum C13_nv_w <= (1 # 4).
Proof.
  destruct C13_quantile_hyps_nonvacuous as (H1 & H2 & H3 & H4 & _ & _ & _ & H5 & H6 & H7 & _).
  apply C13_quantile_spec; try assumption; apply Qle_trans with (9 # 16); assumption.
Qed.

Example C13_quantile_monotone_nonvacuous : (2 : Q) <= 5.
Proof.
  destruct C13_quantile_hyps_nonvacuous as (H1 & H2 & H3 & H4 & H4' & _ & _ & H5 & H6 & H7 & _ & R1 & _ & R2 & _).
  exact (C13_quantile_monotone _ _ _ _ _ _ _ _ H1 H2 H3 H4 H4' H5 H6 H7 R1 R2).
Qed.

Example C13_model_ok_nonvacuous : quant_ok 0 (combine C13_nv_xs C13_nv_w) (1 # 4) 2 = true.
Proof.
  destruct C13_quantile_hyps_nonvacuous as (H1 & H2 & H3 & H4 & _ & _ & _ & H5 & H6 & H7 & _ & R1 & _).
  apply (C13_model_ok C13_nv_ix C13_nv_xs C13_nv_w); try assumption; apply Qle_trans with (9 # 16); assumption.
Qed.

(** [C13_ok_sound]: positive total weight and an accepted answer, with and without slack *)
Example C13_ok_sound_nonvacuous :
  0 < wtot (combine C13_nv_xs C13_nv_w)
  /\ quant_ok 0 (combine C13_nv_xs C13_nv_w) (1 # 4) 2 = true
  /\ quant_ok (1 # 100) (combine C13_nv_xs C13_nv_w) (1 # 2) 3 = true
  /\ quant_ok 0 (combine C13_nv_xs C13_nv_w) (1 # 4) 3 = false.
Proof. repeat split; vm_compute; reflexivity. Qed.

(** normalize_weights / compute_ess / weighted_var / ok_stat / ok_weights: weights [1;1;0;2],
    common factor 3 (and -3 for the variance, whose theorems only ask [c <> 0]) *)
Definition C13_nv_sx : list Q := [3; 1; 2; 2].
Definition C13_nv_sw : list Q := [1; 1; 0; 2].

Example C13_normalize_weights_nonvacuous :
  normalize_weights C13_nv_sw = Some [1 # 4; 1 # 4; 0; 1 # 2]
  /\ Forall (Qle 0) C13_nv_sw /\ 0 < qsum C13_nv_sw /\ 0 < 3 /\ ~ 3 == 0 /\ ~ - (3) == 0
  /\ normalize_weights (map (Qmult 3) C13_nv_sw) = Some [1 # 4; 1 # 4; 0; 1 # 2]
  /\ compute_ess C13_nv_sw = Some (8 # 3)
  /\ compute_ess (map (Qmult 3) C13_nv_sw) = Some (8 # 3).
Proof.
  split; [vm_compute; reflexivity|].
  split; [repeat (apply Forall_cons; [apply Qle_bool_imp_le; vm_compute; reflexivity|]); apply Forall_nil|].
  split; [vm_compute; reflexivity|].
  split; [vm_compute; reflexivity|].
  split; [intro HH; vm_compute in HH; discriminate HH|].
  split; [intro HH; vm_compute in HH; discriminate HH|].
  repeat split; vm_compute; reflexivity.
Qed.

Example C13_var_nonvacuous :
  wvar_rows (combine C13_nv_sx C13_nv_sw) = Some (4 # 5)
  /\ wvar_rows (map (fun p => (fst p, 3 * snd p)) (combine C13_nv_sx C13_nv_sw)) = Some (4 # 5)
  /\ wvar_rows (map (fun p => (fst p, - (3) * snd p)) (combine C13_nv_sx C13_nv_sw)) = Some (4 # 5)
  /\ (** equal weights 2 *)
     Forall (fun p => snd p == 2) (combine C13_nv_sx [2; 2; 2; 2]) /\ 0 < 2
  /\ (2 <= length (combine C13_nv_sx [2; 2; 2; 2]))%nat
  /\ wvar_rows (combine C13_nv_sx [2; 2; 2; 2]) = Some (2 # 3).
Proof.
  split; [vm_compute; reflexivity|].
  split; [vm_compute; reflexivity|].
  split; [vm_compute; reflexivity|].
  split; [repeat (apply Forall_cons; [vm_compute; reflexivity|]); apply Forall_nil|].
  split; [vm_compute; reflexivity|].
  split; [vm_compute; repeat constructor|].
  vm_compute; reflexivity.
Qed.

Example C13_var_equal_weights_nonvacuous :
  (2 # 3) == qsum (map (fun p => sq (fst p - qsum (map fst (combine C13_nv_sx [2; 2; 2; 2])) / 4))
                       (combine C13_nv_sx [2; 2; 2; 2])) / (4 - 1).
Proof.
  destruct C13_var_nonvacuous as (_ & _ & _ & H1 & _ & _ & H2).
  exact (C13_var_equal_weights _ _ _ H1 H2).
Qed.

(** [C13_stat_ok_sound], [C13_var_ok_sound], [C13_stat_model_ok]: the decidable statement accepts
    the exact answers, the variance is defined; a wrong ESS is refused *)
Example C13_stat_ok_nonvacuous :
  length C13_nv_sw = length C13_nv_sx /\ wf_stat_w C13_nv_sw = true
  /\ var_defined (combine C13_nv_sx C13_nv_sw) = true /\ 0 <= (1 # 1000)
  /\ ok_stat C13_nv_sx (Some C13_nv_sw) (1 # 1000) (Some [1 # 4; 1 # 4; 0; 1 # 2]) (Some (8 # 3)) (Some (4 # 5)) = true
  /\ ok_stat C13_nv_sx (Some C13_nv_sw) (1 # 1000) (Some [1 # 4; 1 # 4; 0; 1 # 2]) (Some 3) (Some (4 # 5)) = false.
Proof.
  split; [reflexivity|]. split; [vm_compute; reflexivity|]. split; [vm_compute; reflexivity|].
  split; [apply Qle_bool_imp_le; vm_compute; reflexivity|].
  split; vm_compute; reflexivity.
Qed.

(** [C13_weights_ok_sound] / [C13_weights_model_ok]: a run at a positive scale inside an accepted list *)
Example C13_weights_ok_nonvacuous :
  let l := [(1 # 8, 0); (1, 0); (3, 1 # 1000)] in
  let runs := map (model_wrun C13_nv_sw) l in
  let r := model_wrun C13_nv_sw (3, 1 # 1000) in
  Forall (fun st => 0 <= snd st) l
  /\ wf_stat_w C13_nv_sw = true /\ ok_weights C13_nv_sw runs = true /\ In r runs /\ 0 < w_scale r.
Proof.
  cbv zeta.
  split; [repeat (apply Forall_cons; [apply Qle_bool_imp_le; vm_compute; reflexivity|]); apply Forall_nil|].
  split; [vm_compute; reflexivity|]. split; [vm_compute; reflexivity|].
  split; [right; right; left; reflexivity|]. vm_compute; reflexivity.
Qed.

(** GMDistribution.pdf: two components, weights [1;3], "density" x*m at x = 1/4 for the means [2;1] *)
Example C13_gm_pdf_nonvacuous :
  gm_pdf_at Q Q Qmult (1 # 4) [2; 1] (Some [1; 3]) = Some (5 # 16)
  /\ gm_pdf [1 # 2; 1 # 4] (Some [1; 3]) = Some (5 # 16)
  /\ Forall (Qle 0) (weights_of (Some [1; 3]) [1 # 2; 1 # 4]) /\ 0 < qsum (weights_of (Some [1; 3]) [1 # 2; 1 # 4])
  /\ Forall (Qle 0) [1 # 2; 1 # 4] /\ 0 < 3 /\ 0 <= (1 # 1000)
  /\ gm_pdf [1 # 2; 1 # 4] (Some (map (Qmult 3) [1; 3])) = Some (5 # 16).
Proof.
  split; [vm_compute; reflexivity|]. split; [vm_compute; reflexivity|].
  split; [repeat (apply Forall_cons; [apply Qle_bool_imp_le; vm_compute; reflexivity|]); apply Forall_nil|].
  split; [vm_compute; reflexivity|].
  split; [repeat (apply Forall_cons; [apply Qle_bool_imp_le; vm_compute; reflexivity|]); apply Forall_nil|].
  split; [vm_compute; reflexivity|].
  split; [apply Qle_bool_imp_le; vm_compute; reflexivity|].
  vm_compute; reflexivity.
Qed.

(** the accept loop: a fully valid first batch ([C13_rvs_live]); a rejected batch in trial 1 of the
    four-trial run of [C13_example_rvs] ([C13_rvs_rejected_batch]); an accepted sampler answer *)
Definition C13_nv_valid (x : nat) : bool := (x <? 10)%nat.
Definition C13_nv_draw (t n : nat) : list nat :=
  firstn n (nth t [[1; 20; 30; 2]; [40; 50]; [3; 60]; [4; 5]] [])%nat.

Example C13_rvs_live_nonvacuous :
  let draw := fun (t n : nat) => firstn n (nth t [[1; 2; 3; 4; 5]] [])%nat in
  length (draw 0%nat 4%nat) = 4%nat /\ forallb C13_nv_valid (draw 0%nat 4%nat) = true
  /\ rvs nat C13_nv_valid draw 2 4 = Some [1; 2; 3; 4]%nat.
Proof. repeat split; vm_compute; reflexivity. Qed.

Example C13_rvs_rejected_batch_nonvacuous :
  let acc := [1; 2]%nat in
  (length acc < 4)%nat
  /\ length (C13_nv_draw 1 (4 - length acc)) = (4 - length acc)%nat
  /\ filter C13_nv_valid (C13_nv_draw 1 (4 - length acc)) = []
  /\ rvs_loop nat C13_nv_valid C13_nv_draw 3 1 4 acc = Some [1; 2; 3; 4]%nat
  /\ rvs nat C13_nv_valid C13_nv_draw 10 4 = Some [1; 2; 3; 4]%nat.
Proof.
  cbv zeta. split; [vm_compute; repeat constructor|]. repeat split; vm_compute; reflexivity.
Qed.

Example C13_rvs_ok_sound_nonvacuous :
  ok_rvs 2 (Some [(0, 1)]) (Some [[1 # 2]; [1 # 3]]) = true.
Proof. vm_compute; reflexivity. Qed.

(** histories: the accepted four-call history of [C13_example_history]; its sampler call and its
    density calls satisfy every hypothesis of [C13_hist_rvs_sound], [C13_hist_pdf_sound],
    [C13_hist_pdf_defined]; its calls are well formed ([C13_hist_model_ok]) *)
Definition C13_nv_calls : list gmcall :=
  [GPdf [[1 # 2; 1 # 4]] (Some [1; 3]) 0 None;
   GRvs 2 (Some [(0, 1)]) [[[2]; [1 # 2]]; [[1 # 3]]] None;
   GPdf [[1 # 8; 1 # 16]] (Some [1; 3]) 0 None;
   GLogpdf [[1 # 8; 1 # 16]] (Some [1; 3]) (1 # 1000) None].

Example C13_hist_nonvacuous :
  let calls := map model_call C13_nv_calls in
  Forall call_wf C13_nv_calls
  /\ ok (CHist calls) = true
  /\ In (GRvs 2 (Some [(0, 1)]) [[[2]; [1 # 2]]; [[1 # 3]]] (Some [[1 # 2]; [1 # 3]])) calls
  /\ In (GPdf [[1 # 8; 1 # 16]] (Some [1; 3]) 0 (Some [5 # 64])) calls
  /\ In (GLogpdf [[1 # 8; 1 # 16]] (Some [1; 3]) (1 # 1000) (Some [5 # 64])) calls
  /\ wf_stat_w [1; 3] = true
  /\ nth_error [[1 # 8; 1 # 16]] 0 = Some [1 # 8; 1 # 16] /\ nth_error [5 # 64] 0 = Some (5 # 64)
  /\ length [1; 3] = length [1 # 8; 1 # 16] /\ In [1 # 8; 1 # 16] [[1 # 8; 1 # 16]].
Proof.
  cbv zeta.
  split.
  { repeat (apply Forall_cons || apply Forall_nil); simpl;
      try split; try (apply Qle_bool_imp_le; vm_compute; reflexivity);
      vm_compute; intro HH; discriminate HH. }
  split; [vm_compute; reflexivity|].
  split; [vm_compute; right; left; reflexivity|].
  split; [vm_compute; right; right; left; reflexivity|].
  split; [vm_compute; right; right; right; left; reflexivity|].
  split; [vm_compute; reflexivity|].
  repeat split; try reflexivity. left; reflexivity.
Qed.
