(** C17 — regression adjustment and model comparison equal their formulas.
    Models: Num/Adjust.v (lists over Q, as the code is written) and Num/AdjustMx.v (matrices over a
    field, for the affine invariance).  Only statements here; proofs in Proofs/C17_Adjust.v and
    Proofs/C17_AdjustMx.v. *)
From Coq Require Import List ZArith QArith Qabs Bool Arith Permutation Sorted.
From Elfi Require Import Num.Adjust Proofs.C17_Adjust.
Import ListNotations.

(** ** (a) finite mask: which rows are fitted, adjusted and returned *)

(** The regression of a parameter is fitted on exactly the rows [finite_indices X theta]. *)
Theorem C17_pairs_spec : forall X theta, length X = length theta ->
  pairs X theta = (map (fun i => map fget (nth i X [])) (finite_indices X theta),
                   map (fun i => fget (nth i theta None)) (finite_indices X theta)).
Proof. exact pairs_spec. Qed.
Print Assumptions C17_pairs_spec.

(** The output is the adjusted value of exactly those rows, in the original order, for whatever
    coefficient vector [b] the regression returned. *)
Theorem C17_adjust_param_spec : forall X theta b, length X = length theta ->
  adjust_param X theta b
  = map (fun i => adj1 (fget (nth i theta None)) (map fget (nth i X [])) b) (finite_indices X theta).
Proof. exact adjust_param_spec. Qed.
Print Assumptions C17_adjust_param_spec.

(** [finite_indices] = the rows whose regressors are all finite and whose parameter value is finite *)
Theorem C17_finite_indices_spec : forall X theta i,
  In i (finite_indices X theta) <->
  (i < length theta)%nat /\ Forall (fun v => exists q, v = Some q) (nth i X []) /\ exists q, nth i theta None = Some q.
Proof. exact finite_indices_spec. Qed.
Print Assumptions C17_finite_indices_spec.

Theorem C17_finite_indices_increasing : forall X theta, StronglySorted lt (finite_indices X theta).
Proof. exact finite_indices_increasing. Qed.
Print Assumptions C17_finite_indices_increasing.

(** a row of [summaries - observed] is finite iff the simulated summaries of that row are *)
Theorem C17_input_row_finite : forall row obs,
  Forall (fun o => isfinite o = true) obs -> length row = length obs ->
  row_finite (zipw fsub row obs) = row_finite row.
Proof. exact input_row_finite. Qed.
Print Assumptions C17_input_row_finite.

(** ** (b) the formula *)
Theorem C17_adjust_formula : forall th row b, adj1 th row b == th - dot row b.
Proof. exact adj1_formula. Qed.
Print Assumptions C17_adjust_formula.

(** simulated summaries = observed summaries: the draw is returned unchanged *)
Theorem C17_unchanged_at_observed : forall obs th b,
  Forall (fun o => isfinite o = true) obs -> adj1 th (map fget (zipw fsub obs obs)) b == th.
Proof. exact adjust_unchanged_at_observed. Qed.
Print Assumptions C17_unchanged_at_observed.

(** ** decidable spec [a_ok]: sound clauses, and the model satisfies them *)
Theorem C17_ok_sound_formula : forall tol Xf thf b out, close_rows tol Xf thf b out = true ->
  length out = length thf /\ length out = length Xf /\
  forall j, (j < length out)%nat ->
    Qabs (adj1 (nth j thf 0) (nth j Xf []) b - nth j out 0)
    <= tol * (1 + Qabs (nth j thf 0) + absdot (nth j Xf []) b).
Proof. exact close_rows_sound. Qed.
Print Assumptions C17_ok_sound_formula.

Theorem C17_ok_sound_fixed : forall Xf thf out, zero_rows_fixed Xf thf out = true ->
  forall j, (j < length Xf)%nat -> (j < length thf)%nat -> (j < length out)%nat ->
    Forall (fun x => x == 0) (nth j Xf []) -> nth j out 0 == nth j thf 0.
Proof. exact zero_rows_fixed_sound. Qed.
Print Assumptions C17_ok_sound_fixed.

Theorem C17_model_ok : forall X theta b, length X = length theta ->
  length (adjust_param X theta b) = length (finite_indices X theta)
  /\ (let (Xf, thf) := pairs X theta in
      close_rows tol_formula Xf thf b (adjust_param X theta b) = true
      /\ zero_rows_fixed Xf thf (adjust_param X theta b) = true).
Proof. exact model_param_ok. Qed.
Print Assumptions C17_model_ok.

(** ** (d) compare_models, for every tie order [order] *)

Theorem C17_compare_sum_one : forall ms order p, compare_models ms order = Some p -> qsum p == 1.
Proof. exact compare_sum_one. Qed.
Print Assumptions C17_compare_sum_one.

Theorem C17_compare_proportion : forall ms order p, compare_models ms order = Some p ->
  let cnts := counts_from ms (firstn (n_min ms) order) 0 in
  let sc := map (fun cm => score (fst cm) (snd cm)) (combine cnts ms) in
  ~ qsum sc == 0 /\ p = map (fun s => Qred (s / qsum sc)) sc /\
  forall i, (i < length ms)%nat -> nth i p 0 == nth i sc 0 / qsum sc.
Proof. exact compare_proportion. Qed.
Print Assumptions C17_compare_proportion.

(** no tie straddles the cut: count_i = number of model i's own discrepancies <= t *)
Theorem C17_compare_clean : forall ms order t, ms <> [] ->
  Permutation order (seq 0 (length (all_disc ms))) ->
  clean_cut (all_disc ms) (firstn (n_min ms) order) (skipn (n_min ms) order) t ->
  compare_models ms order = normalise (map (score_t t) ms).
Proof. exact compare_clean. Qed.
Print Assumptions C17_compare_clean.

Theorem C17_compare_equivariant : forall ms ms' order order' t p,
  Permutation ms ms' ->
  Permutation order (seq 0 (length (all_disc ms))) ->
  clean_cut (all_disc ms) (firstn (n_min ms) order) (skipn (n_min ms) order) t ->
  Permutation order' (seq 0 (length (all_disc ms'))) ->
  clean_cut (all_disc ms') (firstn (n_min ms') order') (skipn (n_min ms') order') t ->
  compare_models ms order = Some p ->
  p = map (prob_of t ms) ms /\ compare_models ms' order' = Some (map (prob_of t ms) ms').
Proof. exact compare_equivariant. Qed.
Print Assumptions C17_compare_equivariant.

Theorem C17_clean_threshold_exists : forall disc top rest, top <> [] ->
  (forall a b, In a top -> In b rest -> nth a disc 0 < nth b disc 0) ->
  exists t, clean_cut disc top rest t.
Proof. exact clean_threshold_exists. Qed.
Print Assumptions C17_clean_threshold_exists.

Theorem C17_valid_order_perm : forall disc order, valid_orderb disc order = true ->
  Permutation order (seq 0 (length disc)).
Proof. exact valid_order_perm. Qed.
Print Assumptions C17_valid_order_perm.

(** a model with prior weight exactly zero gets probability zero, wherever it is listed (the
    other models' entries are then given by [C17_compare_proportion] / [C17_compare_clean]) *)
Theorem C17_compare_zero_weight : forall ms order p i m, compare_models ms order = Some p ->
  nth_error ms i = Some m -> m_w m == 0 -> nth i p 0 == 0.
Proof. exact compare_zero_weight. Qed.
Print Assumptions C17_compare_zero_weight.

(** ** (e) listing order of the summaries and storage of the arrays

    The model is a function of the numeric values; a run of the code on the same numbers stored in
    another dtype / layout is compared with the same model result ([a_agree]).  Listing the summaries
    in another order: same rows, same adjusted values. *)
Theorem C17_finite_indices_listing : forall perm X theta k,
  Forall (fun row => length row = k) X -> is_perm k perm = true -> length X = length theta ->
  finite_indices (permute_cols perm X) theta = finite_indices X theta.
Proof. exact finite_indices_permute. Qed.
Print Assumptions C17_finite_indices_listing.

Theorem C17_listing_invariant : forall perm summ obs theta b,
  Forall (fun row => length row = length obs) summ -> length b = length obs ->
  is_perm (length obs) perm = true -> length summ = length theta ->
  Forall2 Qeq
    (adjust_param (input_variables (permute_cols perm summ) (permute perm obs None)) theta (permute perm b 0))
    (adjust_param (input_variables summ obs) theta b).
Proof. exact listing_invariant. Qed.
Print Assumptions C17_listing_invariant.

Theorem C17_is_perm_sound : forall k perm, is_perm k perm = true -> Permutation perm (seq 0 k).
Proof. exact is_perm_Permutation. Qed.
Print Assumptions C17_is_perm_sound.

(** what the storage tags validated per run mean *)
Theorem C17_storable_int_sound : forall t v, t = I64 \/ t = I32 -> storable t v = true ->
  exists (z : Z) (q : Q), v = Some q /\ q == inject_Z z.
Proof. exact storable_int_sound. Qed.
Print Assumptions C17_storable_int_sound.

Theorem C17_storable_bool_sound : forall v, storable B8 v = true ->
  exists q, v = Some q /\ (q == 0 \/ q == 1).
Proof. exact storable_bool_sound. Qed.
Print Assumptions C17_storable_bool_sound.

(** ** (f) configuration of the adjustment object (keyword arguments handed to the regression model)

    The adjusted values are a function of X = summaries - observed, theta and the coefficient vector
    ([C17_adjust_param_spec], for EVERY [b]): no configuration enters.  The configuration only says
    which coefficient vectors are admissible ([fit_ok]); [copy_X] and [n_jobs] are not part of that. *)
Theorem C17_fit_ok_default : forall cfg Xf thf b0 b,
  cf_fit_intercept cfg = true -> cf_positive cfg = false ->
  fit_ok cfg Xf thf b0 b = normal_eq_ok Xf thf b0 b.
Proof. exact fit_ok_default. Qed.
Print Assumptions C17_fit_ok_default.

Theorem C17_fit_ok_same_problem : forall a b' Xf thf b0 b,
  same_problem a b' = true -> fit_ok a Xf thf b0 b = fit_ok b' Xf thf b0 b.
Proof. exact fit_ok_same_problem. Qed.
Print Assumptions C17_fit_ok_same_problem.

(** what the per-case clause means for the other problems: no intercept -> intercept_ = 0 and the normal
    equations of [X]; positive -> slope >= 0, gradient >= 0 where the slope entry is 0, = 0 where it is
    positive ([grad_lim] = 1e-9 of (sum |column|) * (sum of the row scales)) *)
Theorem C17_fit_ok_sound : forall cfg Xf thf b0 b, default_problem cfg = false -> fit_ok cfg Xf thf b0 b = true ->
  (cf_fit_intercept cfg = false -> b0 == 0)
  /\ (cf_fit_intercept cfg = true -> Qabs (grad Xf thf b0 b 0) <= grad_lim Xf thf b0 b 0)
  /\ forall j, (1 <= j <= length b)%nat ->
       (cf_positive cfg = false -> Qabs (grad Xf thf b0 b j) <= grad_lim Xf thf b0 b j)
       /\ (cf_positive cfg = true ->
           0 <= nth (pred j) b 0
           /\ - grad_lim Xf thf b0 b j <= grad Xf thf b0 b j
           /\ (~ nth (pred j) b 0 == 0 -> Qabs (grad Xf thf b0 b j) <= grad_lim Xf thf b0 b j)).
Proof. exact fit_ok_sound. Qed.
Print Assumptions C17_fit_ok_sound.

(** the object's X attribute after adjust(): shape, non-finite pattern and numbers of summaries - observed *)
Theorem C17_x_attr_sound : forall X Xi, x_attr_ok X Xi = true ->
  length Xi = length X /\
  forall i, (i < length X)%nat ->
    length (nth i Xi []) = length (nth i X []) /\
    forall j, (j < length (nth i X []))%nat ->
      match nth j (nth i X []) None, nth j (nth i Xi []) None with
      | Some x, Some y => Qabs (x - y) <= tol_formula * (1 + Qabs x)
      | None, None => True
      | _, _ => False
      end.
Proof. exact x_attr_sound. Qed.
Print Assumptions C17_x_attr_sound.

Theorem C17_x_attr_model : forall X, x_attr_ok X X = true.
Proof. exact x_attr_model. Qed.
Print Assumptions C17_x_attr_model.

(** fit, then any number of adjust() calls: X is still summaries - observed and every call returns
    the arrays of [adjust_all] (the model has no state that a fit or an adjust could spoil) *)
Theorem C17_fit_adjust_state : forall summ obs thetas bs n,
  let st := fit_state summ obs thetas bs in
  st_X (fst (adjust_calls n st thetas)) = input_variables summ obs
  /\ snd (adjust_calls n st thetas) = repeat (adjust_all (input_variables summ obs) thetas bs) n.
Proof. exact fit_adjust_state. Qed.
Print Assumptions C17_fit_adjust_state.

(** ONE object used on a history of samples (each entry: a fit, then n adjust() calls): every entry
    returns what a fresh object returns for that sample -- nothing of an earlier fit survives -- and
    the object ends as its last fit made it: X of the last sample, one fitted model per parameter of
    the last fit (the per-case clause [a_impl_nmodels = length a_params]) *)
Theorem C17_history_fresh : forall h st,
  snd (run_history st h) = map fresh_result h
  /\ fst (run_history st h) = match rev h with [] => st | (a, _) :: _ => refit st a end.
Proof. exact run_history_spec. Qed.
Print Assumptions C17_history_fresh.

Theorem C17_history_last : forall st h a n,
  let st' := fst (run_history st (h ++ [(a, n)])) in
  st_X st' = input_variables (f_summ a) (f_obs a) /\ length (st_coefs st') = length (f_bs a)
  /\ length (st_masks st') = length (f_thetas a).
Proof. exact run_history_last. Qed.
Print Assumptions C17_history_last.

Example C17_example_history :
  let a1 := {| f_summ := [[Some 1]; [Some 2]; [Some 3]]; f_obs := [Some 0];
               f_thetas := [[Some 1; Some 2; Some 3]]; f_bs := [[1]] |} in
  let a2 := {| f_summ := [[Some 1]; [None]; [Some 3]]; f_obs := [Some 0];
               f_thetas := [[Some 2; Some 4; Some 6]; [Some 0; Some 1; None]]; f_bs := [[2]; [5]] |} in
  snd (run_history (fit_state [] [] [] []) [(a1, 1%nat); (a2, 2%nat)])
  = [[Some [[0; 0; 0]]]; [Some [[0; 0]; [-5]]; Some [[0; 0]; [-5]]]].
Proof. vm_compute. reflexivity. Qed.

(** non-vacuity: theta = [1;2;4] on x = [1;2;3]: (b0, b) = (-2/3, 3/2) is the fit with intercept,
    (0, 17/14) the fit through the origin; neither passes for the other configuration.  theta = [4;2;1]:
    the non-negative fit with intercept is (7/3, 0) (the unconstrained slope -3/2 is rejected). *)
Example C17_example_config :
  let Xf := [[1]; [2]; [3]] in
  let noic := {| cf_fit_intercept := false; cf_copy_X := false; cf_positive := false; cf_n_jobs := Some 2%Z |} in
  let pos := {| cf_fit_intercept := true; cf_copy_X := false; cf_positive := true; cf_n_jobs := None |} in
  fit_ok default_config Xf [1; 2; 4] (-2#3) [3#2] = true
  /\ fit_ok noic Xf [1; 2; 4] 0 [17#14] = true
  /\ fit_ok noic Xf [1; 2; 4] (-2#3) [3#2] = false
  /\ fit_ok default_config Xf [1; 2; 4] 0 [17#14] = false
  /\ fit_ok pos Xf [4; 2; 1] (7#3) [0] = true
  /\ fit_ok pos Xf [4; 2; 1] (16#3) [-3#2] = false
  /\ fit_ok default_config Xf [4; 2; 1] (16#3) [-3#2] = true
  /\ x_attr_ok [[Some 1; None]; [Some (1#2); Some 0]] [[Some 1; None]; [Some (1#2); Some 0]] = true
  /\ x_attr_ok [[Some 1; None]; [Some (1#2); Some 0]] [[Some (1#2); None]; [Some 0; Some 0]] = false.
Proof. vm_compute. repeat split; reflexivity. Qed.

(** ** non-vacuity *)
Example C17_example_listing :
  let summ := [[Some 1; Some 2]; [None; Some 0]; [Some (1#2); Some (-1)]; [Some 3; Some 1]] in
  let obs := [Some (1#2); Some (-1)] in
  let theta := [Some 2; Some 5; Some 7; None] in
  is_perm 2 [1; 0]%nat = true
  /\ adjust_param (input_variables (permute_cols [1; 0]%nat summ) (permute [1; 0]%nat obs None)) theta
                  (permute [1; 0]%nat [2; -1] 0) = [4; 7]
  /\ storable I64 (Some 3) = true /\ storable I64 (Some (1#2)) = false /\ storable B8 (Some 1) = true
  /\ storable F32 (Some (1#4)) = true /\ storable F32 (Some (1#3)) = false.
Proof. vm_compute. repeat split; reflexivity. Qed.

Example C17_example_zero_weight :
  let ms := [ {| m_disc := [1; 3; 3]; m_nsim := 10; m_w := 0 |};
              {| m_disc := [0; 2; 5; 1]; m_nsim := 20; m_w := 3#4 |};
              {| m_disc := [4; 0; 7]; m_nsim := 5; m_w := 1#4 |} ] in
  compare_models ms [3; 8; 0; 6; 4; 1; 2; 7; 5; 9]%nat = Some [0; 3#7; 4#7].
Proof. vm_compute. reflexivity. Qed.

Example C17_example_adjust :
  let X := input_variables [[Some 1; Some 2]; [None; Some 0]; [Some (1#2); Some (-1)]; [Some 3; Some 1]]
                           [Some (1#2); Some (-1)] in
  let theta := [Some 2; Some 5; Some 7; None] in
  finite_indices X theta = [0; 2]%nat /\ adjust_param X theta [2; -1] = [4; 7].
Proof. vm_compute. split; reflexivity. Qed.

Example C17_example_compare :
  let ms := [ {| m_disc := [1; 3; 3]; m_nsim := 10; m_w := 1#4 |};
              {| m_disc := [0; 2; 5; 1]; m_nsim := 20; m_w := 3#4 |} ] in
  let order := [3; 0; 6; 4; 1; 2; 5]%nat in
  valid_orderb (all_disc ms) order = true
  /\ compare_models ms order = Some [1#4; 3#4]
  /\ clean_cut (all_disc ms) (firstn (n_min ms) order) (skipn (n_min ms) order) 1.
Proof.
  split; [vm_compute; reflexivity|]. split; [vm_compute; reflexivity|].
  split; intros j Hj; simpl in Hj;
    repeat (destruct Hj as [<-|Hj]; [vm_compute; reflexivity|]); destruct Hj.
Qed.

(** ** (c) affine invariance, matrix level (mathcomp, any field) *)
From mathcomp Require Import all_ssreflect all_fingroup all_algebra.
From Elfi Require Import Num.AdjustMx Proofs.C17_AdjustMx.
Import GRing.Theory.
Local Open Scope ring_scope.

(** [_input_variables] after re-expressing simulated AND observed summaries by s |-> s A + c *)
Theorem C17_regressors_affine : forall (F : fieldType) (n k : nat) (S : 'M[F]_(n, k)) (o : 'rV[F]_k)
  (A : 'M[F]_k) (c : 'rV[F]_k),
  regressors (S *m A + ones F n *m c) (o *m A + c) = regressors S o *m A.
Proof. exact: regressors_affine. Qed.
Print Assumptions C17_regressors_affine.

(** a least-squares fit for [1 X] is transported to one for [1 (X A + 1 c)] *)
Theorem C17_fit_transport : forall (F : fieldType) (n k : nat) (X : 'M[F]_(n, k)) (theta : 'cV[F]_n)
  (A : 'M[F]_k) (c : 'rV[F]_k) (b0 : 'M[F]_1) (b : 'cV[F]_k),
  A \in unitmx -> is_fit X theta b0 b ->
  is_fit (X *m A + ones F n *m c) theta (b0 - c *m invmx A *m b) (invmx A *m b).
Proof. move=> F n k X theta A c b0 b; exact: fit_transport. Qed.
Print Assumptions C17_fit_transport.

(** full column rank (invertible Gram matrix): the fit is unique, so whatever solver is used *)
Theorem C17_fit_unique : forall (F : fieldType) (n k : nat) (X : 'M[F]_(n, k)) (theta : 'cV[F]_n)
  (b0 : 'M[F]_1) (b : 'cV[F]_k) (b0' : 'M[F]_1) (b' : 'cV[F]_k),
  gram (design X) \in unitmx -> is_fit X theta b0 b -> is_fit X theta b0' b' -> b0 = b0' /\ b = b'.
Proof. move=> F n k X theta b0 b b0' b'; exact: fit_unique. Qed.
Print Assumptions C17_fit_unique.

(** what [_adjust] does when the regressors themselves are mapped affinely: the slope term is
    subtracted, the intercept is not, so a shift shows up as a constant *)
Theorem C17_adjust_affine_shift : forall (F : fieldType) (n k : nat) (X : 'M[F]_(n, k)) (theta : 'cV[F]_n)
  (A : 'M[F]_k) (c : 'rV[F]_k) (b0 : 'M[F]_1) (b : 'cV[F]_k) (b0' : 'M[F]_1) (b' : 'cV[F]_k),
  gram (design X) \in unitmx -> A \in unitmx ->
  is_fit X theta b0 b -> is_fit (X *m A + ones F n *m c) theta b0' b' ->
  adjusted theta (X *m A + ones F n *m c) b' = adjusted theta X b - ones F n *m (c *m invmx A *m b).
Proof. move=> F n k X theta A c b0 b b0' b'; exact: adjust_affine_shift. Qed.
Print Assumptions C17_adjust_affine_shift.

(** the invariance of the property: an invertible affine re-expression of the summaries
    (simulated and observed alike) leaves every adjusted value unchanged, for any two
    least-squares fits, provided [1 X] has full column rank *)
Theorem C17_adjust_affine_invariant : forall (F : fieldType) (n k : nat) (S : 'M[F]_(n, k)) (o : 'rV[F]_k)
  (theta : 'cV[F]_n) (A : 'M[F]_k) (c : 'rV[F]_k) (b0 : 'M[F]_1) (b : 'cV[F]_k) (b0' : 'M[F]_1) (b' : 'cV[F]_k),
  gram (design (regressors S o)) \in unitmx -> A \in unitmx ->
  is_fit (regressors S o) theta b0 b ->
  is_fit (regressors (S *m A + ones F n *m c) (o *m A + c)) theta b0' b' ->
  adjusted theta (regressors (S *m A + ones F n *m c) (o *m A + c)) b' = adjusted theta (regressors S o) b.
Proof. move=> F n k S o theta A c b0 b b0' b'; exact: adjust_affine_invariant. Qed.
Print Assumptions C17_adjust_affine_invariant.

(** listing the summaries in another order (columns of the simulated and of the observed summaries
    permuted alike): the fit is the re-listed fit, and every adjusted value is unchanged *)
Theorem C17_fit_summary_perm : forall (F : fieldType) (n k : nat) (s : 'S_k) (X : 'M[F]_(n, k))
  (theta : 'cV[F]_n) (b0 : 'M[F]_1) (b : 'cV[F]_k),
  is_fit X theta b0 b -> is_fit (col_perm s X) theta b0 (row_perm s b).
Proof. move=> F n k s X theta b0 b; exact: fit_summary_perm. Qed.
Print Assumptions C17_fit_summary_perm.

Theorem C17_adjust_summary_perm : forall (F : fieldType) (n k : nat) (s : 'S_k) (S : 'M[F]_(n, k))
  (o : 'rV[F]_k) (theta : 'cV[F]_n) (b0 : 'M[F]_1) (b : 'cV[F]_k) (b0' : 'M[F]_1) (b' : 'cV[F]_k),
  gram (design (regressors S o)) \in unitmx ->
  is_fit (regressors S o) theta b0 b ->
  is_fit (regressors (col_perm s S) (col_perm s o)) theta b0' b' ->
  adjusted theta (regressors (col_perm s S) (col_perm s o)) b' = adjusted theta (regressors S o) b.
Proof. move=> F n k s S o theta b0 b b0' b'; exact: adjust_summary_perm. Qed.
Print Assumptions C17_adjust_summary_perm.

(** over an ordered field "full column rank" is exactly the Gram hypothesis used above *)
Theorem C17_full_rank_gram_unit : forall (R : realFieldType) (n p : nat) (D : 'M[R]_(n, p)),
  \rank D = p -> gram D \in unitmx.
Proof. exact: full_rank_gram_unit. Qed.
Print Assumptions C17_full_rank_gram_unit.

Theorem C17_adjusted_row0 : forall (F : fieldType) (n k : nat) (theta : 'cV[F]_n) (X : 'M[F]_(n, k))
  (b : 'cV[F]_k) (i : 'I_n), row i X = 0 -> adjusted theta X b i 0 = theta i 0.
Proof. exact: adjusted_row0. Qed.
Print Assumptions C17_adjusted_row0.

(** ---- non-vacuity of the hypotheses (audit) ---- *)
(** list level: one sample (4 rows, 2 summaries; row 1 has a non-finite summary, row 3 a non-finite parameter value,
    row 2 equals the observed summaries), one comparison of two models listed in both orders. *)
Local Open Scope Q_scope.
Definition C17_nv_summ : list (list fval) :=
  [[Some 1; Some 2]; [None; Some 0]; [Some (1#2); Some (-1)]; [Some 3; Some 1]].
Definition C17_nv_obs : list fval := [Some (1#2); Some (-1)].
Definition C17_nv_theta : list fval := [Some 2; Some 5; Some 7; None].
Definition C17_nv_X : list (list fval) := input_variables C17_nv_summ C17_nv_obs.
Definition C17_nv_b : list Q := [2; -1].

(** hypotheses of [C17_pairs_spec], [C17_adjust_param_spec], [C17_model_ok]; the mask is neither empty nor full *)
Example C17_pairs_spec_nonvacuous :
  length C17_nv_X = length C17_nv_theta /\ finite_indices C17_nv_X C17_nv_theta = [0; 2]%nat
  /\ adjust_param C17_nv_X C17_nv_theta C17_nv_b
     = List.map (fun i => Adjust.adj1 (fget (List.nth i C17_nv_theta None)) (List.map fget (List.nth i C17_nv_X [])) C17_nv_b)
                (finite_indices C17_nv_X C17_nv_theta).
Proof.
  assert (H : length C17_nv_X = length C17_nv_theta) by reflexivity.
  split; [exact H|]. split; [vm_compute; reflexivity|]. exact (C17_adjust_param_spec _ _ _ H).
Qed.

(** hypotheses of [C17_ok_sound_formula] and [C17_ok_sound_fixed] (with a fitted row whose regressors are all 0) *)
Example C17_ok_sound_nonvacuous :
  let Xf := fst (pairs C17_nv_X C17_nv_theta) in let thf := snd (pairs C17_nv_X C17_nv_theta) in
  let out := adjust_param C17_nv_X C17_nv_theta C17_nv_b in
  close_rows tol_formula Xf thf C17_nv_b out = true /\ zero_rows_fixed Xf thf out = true
  /\ length Xf = 2%nat /\ length thf = 2%nat /\ length out = 2%nat
  /\ List.Forall (fun x => x == 0) (List.nth 1 Xf []) /\ List.nth 1 out 0 == List.nth 1 thf 0.
Proof.
  cbv zeta. split; [vm_compute; reflexivity|]. split; [vm_compute; reflexivity|].
  split; [vm_compute; reflexivity|]. split; [vm_compute; reflexivity|]. split; [vm_compute; reflexivity|].
  split; [vm_compute; repeat constructor|]. vm_compute; reflexivity.
Qed.

(** hypotheses of [C17_input_row_finite] (on a row with a non-finite entry and on a finite one) and of
    [C17_unchanged_at_observed] *)
Example C17_input_row_finite_nonvacuous :
  List.Forall (fun o => isfinite o = true) C17_nv_obs
  /\ length [None; Some 0] = length C17_nv_obs /\ length [Some 3; Some 1] = length C17_nv_obs
  /\ row_finite (zipw fsub [None; Some 0] C17_nv_obs) = false
  /\ row_finite (zipw fsub [Some 3; Some 1] C17_nv_obs) = true
  /\ Adjust.adj1 7 (List.map fget (zipw fsub C17_nv_obs C17_nv_obs)) C17_nv_b == 7.
Proof.
  assert (H : List.Forall (fun o => isfinite o = true) C17_nv_obs) by (repeat constructor).
  split; [exact H|]. split; [reflexivity|]. split; [reflexivity|].
  split; [rewrite (C17_input_row_finite [None; Some 0] _ H Logic.eq_refl); reflexivity|].
  split; [rewrite (C17_input_row_finite [Some 3; Some 1] _ H Logic.eq_refl); reflexivity|].
  exact (C17_unchanged_at_observed _ 7 C17_nv_b H).
Qed.

(** hypotheses of [C17_finite_indices_listing] and [C17_listing_invariant] *)
Example C17_listing_invariant_nonvacuous :
  List.Forall (fun row => length row = length C17_nv_obs) C17_nv_summ /\ length C17_nv_b = length C17_nv_obs
  /\ is_perm (length C17_nv_obs) (1 :: [0])%nat = true /\ length C17_nv_summ = length C17_nv_theta
  /\ finite_indices (permute_cols (1 :: [0])%nat C17_nv_summ) C17_nv_theta = finite_indices C17_nv_summ C17_nv_theta.
Proof.
  assert (H : List.Forall (fun row => length row = length C17_nv_obs) C17_nv_summ) by (repeat constructor).
  split; [exact H|]. split; [reflexivity|]. split; [reflexivity|]. split; [reflexivity|].
  exact (C17_finite_indices_listing (1 :: [0])%nat _ C17_nv_theta _ H Logic.eq_refl Logic.eq_refl).
Qed.

(** model comparison: two models, listed in both orders, a valid tie order for each, a clean cut at t = 1 *)
Definition C17_nv_m1 : cmodel := {| m_disc := (1 :: [3; 3]); m_nsim := 10; m_w := 1#4 |}.
Definition C17_nv_m2 : cmodel := {| m_disc := [0; 2; 5; 1]; m_nsim := 20; m_w := 3#4 |}.
Definition C17_nv_ms : list cmodel := [C17_nv_m1; C17_nv_m2].
Definition C17_nv_ms' : list cmodel := [C17_nv_m2; C17_nv_m1].
Definition C17_nv_order : list nat := [3; 0; 6; 4; 1; 2; 5]%nat.
Definition C17_nv_order' : list nat := [0; 3; 4; 1; 5; 6; 2]%nat.

Example C17_compare_equivariant_nonvacuous :
  C17_nv_ms <> [] /\ Permutation C17_nv_ms C17_nv_ms'
  /\ Permutation C17_nv_order (List.seq 0 (length (all_disc C17_nv_ms)))
  /\ clean_cut (all_disc C17_nv_ms) (firstn (n_min C17_nv_ms) C17_nv_order) (skipn (n_min C17_nv_ms) C17_nv_order) 1
  /\ Permutation C17_nv_order' (List.seq 0 (length (all_disc C17_nv_ms')))
  /\ clean_cut (all_disc C17_nv_ms') (firstn (n_min C17_nv_ms') C17_nv_order') (skipn (n_min C17_nv_ms') C17_nv_order') 1
  /\ compare_models C17_nv_ms C17_nv_order = Some ((1#4) :: [3#4])
  /\ compare_models C17_nv_ms' C17_nv_order' = Some [3#4; 1#4].
Proof.
  split; [discriminate|]. split; [apply perm_swap|].
  split; [apply C17_valid_order_perm; vm_compute; reflexivity|].
  split; [split; intros j Hj; simpl in Hj;
          repeat (destruct Hj as [<-|Hj]; [vm_compute; reflexivity|]); destruct Hj|].
  split; [apply C17_valid_order_perm; vm_compute; reflexivity|].
  split; [split; intros j Hj; simpl in Hj;
          repeat (destruct Hj as [<-|Hj]; [vm_compute; reflexivity|]); destruct Hj|].
  split; vm_compute; reflexivity.
Qed.

(** hypotheses of [C17_clean_threshold_exists]: the three smallest discrepancies against the other four *)
Example C17_clean_threshold_exists_nonvacuous :
  [3; 0; 6]%nat <> [] /\
  (forall a b, In a [3; 0; 6]%nat -> In b [4; 1; 2; 5]%nat ->
               List.nth a (all_disc C17_nv_ms) 0 < List.nth b (all_disc C17_nv_ms) 0).
Proof.
  split; [discriminate|]. intros a b Ha Hb. simpl in Ha, Hb.
  repeat (destruct Ha as [<-|Ha];
          [repeat (destruct Hb as [<-|Hb]; [vm_compute; reflexivity|]); destruct Hb|]).
  destruct Ha.
Qed.

(** hypotheses of [C17_compare_zero_weight] (and of [C17_compare_sum_one] / [C17_compare_proportion]) *)
Example C17_compare_zero_weight_nonvacuous :
  let m0 := {| m_disc := (1 :: [3; 3]); m_nsim := 10; m_w := 0 |} in
  let ms := [ m0; {| m_disc := [0; 2; 5; 1]; m_nsim := 20; m_w := 3#4 |};
              {| m_disc := [4; 0; 7]; m_nsim := 5; m_w := 1#4 |} ] in
  compare_models ms [3; 8; 0; 6; 4; 1; 2; 7; 5; 9]%nat = Some [0; 3#7; 4#7]
  /\ nth_error ms 0 = Some m0 /\ m_w m0 == 0.
Proof. cbv zeta. split; [vm_compute; reflexivity|]. split; reflexivity. Qed.

(** hypotheses of [C17_fit_ok_default], [C17_fit_ok_same_problem] (two different configurations of one problem) and
    [C17_fit_ok_sound] (a non-default problem with an accepted fit: no intercept; non-negative slope) *)
Example C17_fit_ok_nonvacuous :
  let other := {| cf_fit_intercept := true; cf_copy_X := false; cf_positive := false; cf_n_jobs := Some (Zpos 2) |} in
  let noic := {| cf_fit_intercept := false; cf_copy_X := false; cf_positive := false; cf_n_jobs := Some (Zpos 2) |} in
  let noic' := {| cf_fit_intercept := false; cf_copy_X := true; cf_positive := false; cf_n_jobs := None |} in
  let pos := {| cf_fit_intercept := true; cf_copy_X := false; cf_positive := true; cf_n_jobs := None |} in
  cf_fit_intercept other = true /\ cf_positive other = false /\ other <> default_config
  /\ same_problem noic noic' = true /\ noic <> noic'
  /\ default_problem noic = false /\ fit_ok noic [(1 :: nil); [2]; [3]] (1 :: [2; 4]) 0 [17#14] = true
  /\ default_problem pos = false /\ fit_ok pos [(1 :: nil); [2]; [3]] [4; 2; 1] (7#3) [0] = true.
Proof. cbv zeta. repeat split; try discriminate; vm_compute; reflexivity. Qed.

(** matrix level: every design with invertible Gram matrix HAS a least-squares fit, hence the fits the invariance theorems
    assume exist for every invertible re-expression and every re-listing; and a concrete full-rank instance. *)
Local Open Scope ring_scope.
Example C17_nv_fit_exists : forall (F : fieldType) (n k : nat) (X : 'M[F]_(n, k)) (theta : 'cV[F]_n),
  gram (design X) \in unitmx ->
  let beta := invmx (gram (design X)) *m ((design X)^T *m theta) in
  is_fit X theta (usubmx beta) (dsubmx beta).
Proof.
  move=> F n k X theta HG beta. rewrite /is_fit /normal_eq vsubmxK /beta.
  rewrite /gram in HG *. by rewrite !mulmxA mulmxV // mul1mx.
Qed.

Definition C17_nv_X0 : 'M[rat]_(1 + 1, 1) := col_mx 0 1%:M.

Example C17_nv_gram_unit : gram (design C17_nv_X0) \in unitmx /\ C17_nv_X0 != 0.
Proof.
  split.
  - rewrite /gram unitmx_mul unitmx_tr andbb /design /ones /C17_nv_X0.
    rewrite -(col_mx_const 1 1) -block_mxEh unitmxE det_lblock det1 mulr1 det_mx11 mxE. exact: unitr1.
  - apply/eqP => /(congr1 dsubmx). rewrite col_mxKd => /matrixP /(_ ord0 ord0). rewrite !mxE. by [].
Qed.

Example C17_adjust_affine_invariant_nonvacuous :
  forall (F : fieldType) (n k : nat) (S : 'M[F]_(n, k)) (o : 'rV[F]_k) (theta : 'cV[F]_n) (A : 'M[F]_k) (c : 'rV[F]_k)
         (s : 'S_k),
  gram (design (regressors S o)) \in unitmx -> A \in unitmx ->
  exists (b0 : 'M[F]_1) (b : 'cV[F]_k) (b0' : 'M[F]_1) (b' : 'cV[F]_k) (b0'' : 'M[F]_1) (b'' : 'cV[F]_k),
    [/\ is_fit (regressors S o) theta b0 b,
        (exists (b0s : 'M[F]_1) (bs : 'cV[F]_k), is_fit (regressors S o *m A + ones F n *m c) theta b0s bs),
        is_fit (regressors (S *m A + ones F n *m c) (o *m A + c)) theta b0' b' &
        is_fit (regressors (col_perm s S) (col_perm s o)) theta b0'' b''].
Proof.
  move=> F n k S o theta A c s HG HA.
  have Hf := C17_nv_fit_exists F n k (regressors S o) theta HG.
  have Ht := C17_fit_transport F n k _ theta A c _ _ HA Hf.
  have Hp := C17_fit_transport F n k _ theta (perm_mx s^-1) 0 _ _ (unitmx_perm F s^-1) Hf.
  have Ht0 := C17_fit_transport F n k _ theta A 0 _ _ HA Hf. rewrite mulmx0 addr0 in Ht0.
  do 6 eexists. split; [exact: Hf | by do 2 eexists; exact: Ht | by rewrite C17_regressors_affine; exact: Ht0 |].
  have -> : col_perm s S = S *m perm_mx s^-1 + ones F n *m 0 by rewrite mulmx0 addr0 col_permE.
  have -> : col_perm s o = o *m perm_mx s^-1 + 0 by rewrite addr0 col_permE.
  rewrite C17_regressors_affine. rewrite mulmx0 addr0 in Hp. exact: Hp.
Qed.

(** a concrete full-rank instance over the rationals: two draws, one summary, summaries [3; 4] observed at 3
    (regressors [0; 1]), re-expressed by s |-> 2 s + 5 *)
Definition C17_nv_o0 : 'rV[rat]_1 := (3%:R)%:M.
Definition C17_nv_S0 : 'M[rat]_(1 + 1, 1) := C17_nv_X0 + ones [fieldType of rat] (1 + 1) *m C17_nv_o0.
Example C17_nv_concrete :
  [/\ regressors C17_nv_S0 C17_nv_o0 = C17_nv_X0,
      gram (design (regressors C17_nv_S0 C17_nv_o0)) \in unitmx,
      \rank (design C17_nv_X0) = (1 + 1)%N,
      ((2%:R)%:M : 'M[rat]_1) \in unitmx &
      row (lshift 1 0) C17_nv_X0 = 0].
Proof.
  have HX : regressors C17_nv_S0 C17_nv_o0 = C17_nv_X0 by rewrite /regressors /C17_nv_S0 addrK.
  have [HG _] := C17_nv_gram_unit.
  split => //.
  - by rewrite HX.
  - apply: mxrank_unit. move: HG. by rewrite /gram unitmx_mul unitmx_tr andbb.
  - by rewrite unitmxE det_scalar unitrX // unitfE.
  - by rewrite /C17_nv_X0 rowKu row0.
Qed.
