(** C19 placeholder, replaced below *)
From Elfi Require Import Num.Box.
