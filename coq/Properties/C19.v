(** C19 — ROMC regions: samples lie inside, density 1/volume inside and 0 outside, line search,
    posterior counts, sample weights.
    Models: Num/BoxMx.v (matrices over a field, any dimension) and Num/Box.v (executable, over Q).
    This file only states the property theorems; proofs are in Proofs/C19_BoxMx.v and Proofs/C19_Box.v.
    NOT claimed: "the density integrates to one" (needs measure theory: Lebesgue measure of the image of a
    box under an affine map, |det R| = 1).                                                              *)
From mathcomp Require all_ssreflect all_algebra.
From Elfi Require Num.BoxMx Proofs.C19_BoxMx Num.Box Proofs.C19_Box.

(** ------------------------------------------------------------------------------------------
    Part 1 (mathcomp): the two changes of frame are inverse to each other, for every dimension [n],
    every field, every invertible rotation (orthonormal or not), every centre. *)
Module Mx.
Import mathcomp.ssreflect.all_ssreflect mathcomp.algebra.all_algebra.
Import GRing.Theory Num.Theory.
Import Elfi.Num.BoxMx Elfi.Proofs.C19_BoxMx.
Local Open Scope ring_scope.

(** [contains]' frame change undoes [sample]'s frame change *)
Theorem C19_to_box_from_box :
  forall (F : fieldType) (n : nat) (R : 'M[F]_n) (c th : 'cV[F]_n),
    R \in unitmx -> to_box R c (from_box R c th) = th.
Proof. exact to_box_from_box. Qed.
Print Assumptions C19_to_box_from_box.

(** every point [sample] produces (box-frame coordinate i = lo_i + (hi_i - lo_i) u_i with a draw
    0 <= u_i <= 1, then rotated and shifted) is contained in the region *)
Theorem C19_sample_contained :
  forall (F : realFieldType) (n : nat) (R : 'M[F]_n) (c lo hi u : 'cV[F]_n),
    R \in unitmx -> (forall i, lo i 0 <= hi i 0) -> (forall i, 0 <= u i 0 <= 1) ->
    contains R c lo hi (sample_point R c lo hi u).
Proof. exact sample_contained. Qed.
Print Assumptions C19_sample_contained.

(** the region is exactly the image of the limits box: nothing else is contained *)
Theorem C19_contained_has_coords :
  forall (F : realFieldType) (n : nat) (R : 'M[F]_n) (c lo hi p : 'cV[F]_n),
    R \in unitmx -> contains R c lo hi p -> exists2 th, within lo hi th & p = from_box R c th.
Proof. exact contained_has_coords. Qed.
Print Assumptions C19_contained_has_coords.

(** non-vacuity of the invertibility hypothesis in every dimension (concrete rotated boxes with their
    validated inverses are in Part 2's Examples) *)
Example C19_unit_example : forall n : nat, (1%:M : 'M[rat]_n) \in unitmx.
Proof. by move=> n; apply: unitmx1. Qed.
End Mx.

(** ------------------------------------------------------------------------------------------
    Part 2 (stdlib, executable model over Q). *)
From Coq Require Import ZArith QArith List Bool Arith.
Import ListNotations.
Import Elfi.Num.Box Elfi.Proofs.C19_Box.
Open Scope Q_scope.

(** the early-exit loop of [contains] decides exactly [forall i, lo_i <= q_i <= hi_i] *)
Theorem C19_contains_loop :
  forall p l, length p = length l ->
    (inside_loop p l = Some true <->
     forall i, (i < length p)%nat -> fst (nth i l (0, 0)) <= nth i p 0 /\ nth i p 0 <= snd (nth i l (0, 0))).
Proof. exact contains_loop_forall. Qed.
Print Assumptions C19_contains_loop.

Theorem C19_contains_spec :
  forall b p, wf_box b -> length p = b_dim b ->
    contains b p = Some (within (to_box (b_rotinv b) (b_center b) p) (b_lims b)).
Proof. exact contains_spec. Qed.
Print Assumptions C19_contains_spec.

(** after [_secure_limits] every dimension has lo < hi (degenerate ones were widened), lengths kept *)
Theorem C19_secure_limits_proper :
  forall l l', secure_limits l = Some l' -> proper_lims l' /\ length l' = length l.
Proof. exact secure_limits_proper. Qed.
Print Assumptions C19_secure_limits_proper.

(** limits only move outwards *)
Theorem C19_secure_limits_widen :
  forall l l', secure_limits l = Some l' ->
    Forall2 (fun x y : Q * Q => fst y <= fst x /\ snd x <= snd y /\ fst x <= 0 /\ 0 <= snd x) l l'.
Proof. exact secure_limits_widen. Qed.
Print Assumptions C19_secure_limits_widen.

(** a constructed box has proper limits, a positive volume equal to the product of its side lengths,
    and an inverse that really is the inverse *)
Theorem C19_box_volume_pos :
  forall R Rinv c l b, mk_box R Rinv c l = Some b ->
    proper_lims (b_lims b) /\ 0 < b_vol b /\ b_vol b = volume (b_lims b) /\
    b_dim b = length R /\ length (b_rotinv b) = b_dim b /\ length (b_lims b) = length l /\
    is_inverse (b_dim b) (b_rotinv b) (b_rot b) = true.
Proof. exact mk_box_sound. Qed.
Print Assumptions C19_box_volume_pos.

(** density: 1/volume (positive) inside, 0 outside *)
Theorem C19_pdf_inside :
  forall R Rinv c l b p, mk_box R Rinv c l = Some b -> contains b p = Some true ->
    exists d, pdf b p = Some d /\ 0 < d /\ d * b_vol b == 1.
Proof. exact pdf_inside_pos. Qed.
Print Assumptions C19_pdf_inside.

Theorem C19_pdf_outside : forall b p, contains b p = Some false -> pdf b p = Some 0.
Proof. exact pdf_outside. Qed.
Print Assumptions C19_pdf_outside.

(** the box-frame coordinates [sample] draws are within the secured limits *)
Theorem C19_box_coords_within :
  forall l u, proper_lims l -> length u = length l ->
    Forall (fun x => 0 <= x /\ x <= 1) u -> within (box_coords l u) l = true.
Proof. exact box_coords_within. Qed.
Print Assumptions C19_box_coords_within.

(** line search, for every objective oracle, threshold, K, positive step and repetition limit:
    started below the threshold it returns a positive offset; every probed offset strictly below the
    result had the objective below the threshold, and also every probed offset equal to the result
    when rep_lim >= 1 (with rep_lim = 0 the returned fall-back step may itself have been probed
    above the threshold: see the Example below). *)
Theorem C19_line_search :
  forall (f : Q -> Q) (eps : Q), (forall x y, x == y -> f x == f y) ->
  forall K eta rep_lim res log,
    f 0 < eps -> 0 < eta ->
    line_search f eps K eta rep_lim = (res, log) ->
    0 < res /\
    (forall p, In p log -> p < res -> f p < eps) /\
    ((1 <= rep_lim)%nat -> forall p, In p log -> p <= res -> f p < eps).
Proof. exact line_search_spec. Qed.
Print Assumptions C19_line_search.

(** un-normalised posterior = prior * #{i : d_i <= eps [and region_i contains theta]} *)
Theorem C19_pdf_unnorm :
  forall surrogate bs th ds eps pr v n called,
    Forall wf_box bs -> Forall (fun b => length th = b_dim b) bs -> length bs = length ds ->
    pdf_unnorm surrogate bs th ds eps pr = Some (v, n, called) ->
    n = spec_count surrogate bs th ds eps /\ v == pr * inject_Z (Z.of_nat n).
Proof. exact pdf_unnorm_spec. Qed.
Print Assumptions C19_pdf_unnorm.

(** with surrogates, exactly the objectives of the regions containing the point are evaluated *)
Theorem C19_objectives_called :
  forall cs ds eps i, length cs = length ds ->
    snd (sum_over_regions_indicators i cs ds eps)
    = map fst (filter (fun ic : nat * bool => snd ic) (combine (seq i (length cs)) cs)).
Proof. exact sum_over_regions_indicators_calls. Qed.
Print Assumptions C19_objectives_called.

(** weight = [dist < eps] * prior / region density; for a contained sample = [dist < eps] * prior * volume *)
Theorem C19_weight :
  forall q pr dist eps, 0 < q -> weight q pr dist eps == (if Qltb dist eps then 1 else 0) * pr / q.
Proof. exact weight_spec. Qed.
Print Assumptions C19_weight.

Theorem C19_weight_of_contained :
  forall R Rinv c l b p pr dist eps,
    mk_box R Rinv c l = Some b -> contains b p = Some true ->
    exists q, pdf b p = Some q /\ 0 < q /\
      weight q pr dist eps == (if Qltb dist eps then 1 else 0) * pr * b_vol b.
Proof. exact weight_of_contained. Qed.
Print Assumptions C19_weight_of_contained.

(** the decidable checks evaluated on the implementation's outputs are sound, and the model passes them *)
Theorem C19_ok_sound_line :
  forall c o0 v0 rest,
    ok_ls c = true -> lc_impl_probes c = (o0, v0) :: rest ->
    o0 == 0 -> v0 < lc_eps c -> 0 < lc_eta c ->
    0 < lc_impl_res c /\
    (forall p v, In (p, v) (lc_impl_probes c) -> p < lc_impl_res c -> v < lc_eps c) /\
    ((1 <= lc_rep_lim c)%nat -> forall p v, In (p, v) (lc_impl_probes c) -> p <= lc_impl_res c -> v < lc_eps c).
Proof. exact ok_ls_sound. Qed.
Print Assumptions C19_ok_sound_line.

Theorem C19_ok_sound_box :
  forall c, ok_box c = true -> bc_impl_ok c = true ->
    proper_lims (bc_impl_lims c) /\ 0 < bc_impl_vol c /\ Forall (fun o => so_contains o = true) (bc_smps c).
Proof. exact ok_box_sound. Qed.
Print Assumptions C19_ok_sound_box.

Theorem C19_model_ok_line :
  forall tbl dflt eps K eta rep_lim res log,
    line_search (pw tbl dflt) eps K eta rep_lim = (res, log) ->
    ok_ls {| lc_tbl := tbl; lc_dflt := dflt; lc_eps := eps; lc_K := K; lc_eta := eta; lc_rep_lim := rep_lim;
             lc_impl_res := res; lc_impl_probes := map (fun p => (p, pw tbl dflt p)) log |} = true.
Proof. exact model_ok_ls. Qed.
Print Assumptions C19_model_ok_line.

Theorem C19_model_ok_box :
  forall R Rinv c l b, mk_box R Rinv c l = Some b ->
    forallb (fun x : Q * Q => Qltb (fst x) (snd x)) (b_lims b) = true /\ Qltb 0 (b_vol b) = true /\
    close (b_vol b) (volume (b_lims b)) = true.
Proof. exact model_ok_box. Qed.
Print Assumptions C19_model_ok_box.

(** ---- construction histories: families of boxes built from shared / re-used array objects ----
    [ok (CFam l)] holds only if EVERY member, with what it reports once the whole history is over, is a
    proper region on its own: proper limits, positive volume = product of the widths of the limits it
    reports, drawn samples contained.  The model of a family has no state shared between its members. *)
Theorem C19_ok_sound_fam :
  forall l, ok (CFam l) = true ->
    Forall (fun c => bc_impl_ok c = true ->
              proper_lims (bc_impl_lims c) /\ 0 < bc_impl_vol c /\
              close (bc_impl_vol c) (volume (bc_impl_lims c)) = true /\
              Forall (fun o => so_contains o = true) (bc_smps c)) l.
Proof. exact ok_fam_sound. Qed.
Print Assumptions C19_ok_sound_fam.

Theorem C19_model_ok_fam :
  forall ins, ok (CFam (map model_member ins)) = true /\ agree (CFam (map model_member ins)) = true.
Proof. exact model_ok_fam. Qed.
Print Assumptions C19_model_ok_fam.

(** ---- call histories on one posterior (evaluations, weights, reset_eps_cutoff) ----
    the decidable check threads the cut-off exactly as "the latest reset before the step, else the
    constructor's value" *)
Theorem C19_hist_all_spec :
  forall f steps eps,
    hist_all f eps steps = true <->
    (forall i s, nth_error steps i = Some s -> is_reset s = false -> f (cutoff_at eps steps i) s = true).
Proof. exact hist_all_spec. Qed.
Print Assumptions C19_hist_all_spec.

(** every evaluation of a history: value = prior * #{problems within the cut-off in force at that step} *)
Theorem C19_ok_sound_hist :
  forall c bs, ok (CHist c) = true -> mk_boxes (hc_regions c) = Some bs ->
    forall i e, nth_error (hc_steps c) i = Some (HEval e) ->
      all_decided (eo_tol e) bs (eo_theta e) = true ->
      close (eo_impl_val e)
            (eo_prior e * inject_Z (Z.of_nat (spec_count (hc_surrogate c) bs (eo_theta e) (eo_dists e)
                                                        (cutoff_at (hc_eps0 c) (hc_steps c) i)))) = true.
Proof. exact ok_hist_sound. Qed.
Print Assumptions C19_ok_sound_hist.

Theorem C19_ok_sound_hist_weights :
  forall c, ok (CHist c) = true ->
    forall i w r, nth_error (hc_steps c) i = Some (HWeight w) -> nth_error (hc_regions c) (ho_region w) = Some r ->
      ok_w {| wc_region := r; wc_eps := cutoff_at (hc_eps0 c) (hc_steps c) i; wc_tol := hc_tol c;
              wc_drawn := ho_drawn w; wc_obs := ho_obs w |} = true.
Proof. exact ok_hist_sound_w. Qed.
Print Assumptions C19_ok_sound_hist_weights.

(** no cross-call state in the model: the answers after any prefix of the history are those of a posterior
    freshly constructed with the cut-off the prefix leaves in force *)
Theorem C19_model_hist_fresh :
  forall sur bs s1 s2 eps,
    model_hist sur bs eps (s1 ++ s2)
    = model_hist sur bs eps s1 ++ model_hist sur bs (cutoff_at eps s1 (length s1)) s2.
Proof. exact model_hist_app. Qed.
Print Assumptions C19_model_hist_fresh.

Theorem C19_model_ok_hist :
  forall c bs, mk_boxes (hc_regions c) = Some bs -> Forall wf_box bs -> Forall (eval_wf bs) (hc_steps c) ->
    ok (CHist {| hc_regions := hc_regions c; hc_surrogate := hc_surrogate c; hc_eps0 := hc_eps0 c; hc_tol := hc_tol c;
                 hc_steps := model_hist (hc_surrogate c) bs (hc_eps0 c) (hc_steps c) |}) = true.
Proof. exact model_ok_hist. Qed.
Print Assumptions C19_model_ok_hist.

(** ---- non-vacuity ---- *)

(** a family: the same degenerate limits handed to two constructors; both members get the same once-widened
    limits (+-0.0005) and volume *)
Example C19_fam_example :
  map (fun c => (bc_impl_ok c, bc_impl_lims c))
      (map model_member [([[1]], Some [[1]], [0], [(0, 0)]); ([[-1]], Some [[-1]], [2], [(0, 0)])])
  = [(true, [(Qred (- eps_secure * (1 # 2)), Qred (eps_secure * (1 # 2)))]);
     (true, [(Qred (- eps_secure * (1 # 2)), Qred (eps_secure * (1 # 2)))])].
Proof. vm_compute. reflexivity. Qed.

(** a history: one region, objective value 1/2 at the point; cut-off 1, evaluation (count 1), reset to 1/4,
    evaluation at the same point (count 0), reset to 3/4, evaluation (count 1) *)
Example C19_hist_example :
  match mk_box [[1]] (Some [[1]]) [0] [(-1, 1)] with
  | Some b =>
      let e := {| eo_theta := [1 # 4]; eo_dists := [1 # 2]; eo_prior := 3 # 8; eo_tol := 0;
                  eo_impl_val := 0; eo_impl_called := [] |} in
      map (fun s => match s with HEval o => Some (eo_impl_val o) | _ => None end)
          (model_hist true [b] 1 [HEval e; HReset (1 # 4); HEval e; HReset (3 # 4); HEval e])
  | None => []
  end = [Some (3 # 8); None; Some 0; None; Some (3 # 8)].
Proof. vm_compute. reflexivity. Qed.

(** a rotated box with one degenerate dimension is constructed; its secured limits and volume *)
Example C19_box_example :
  option_map (fun b => (b_lims b, b_vol b))
    (mk_box [[3 # 5; -4 # 5]; [4 # 5; 3 # 5]] (Some [[3 # 5; 4 # 5]; [-4 # 5; 3 # 5]]) [1; 2] [(-1, 2); (0, 0)])
  = Some ([(-1, 2); (Qred (- eps_secure * (1 # 2)), Qred (eps_secure * (1 # 2)))], Qred (3 * eps_secure)).
Proof. vm_compute. reflexivity. Qed.

(** a point drawn with u = (1/3, 1) (on the boundary) is contained; a point beyond the limit is not *)
Example C19_sample_example :
  match mk_box [[3 # 5; -4 # 5]; [4 # 5; 3 # 5]] (Some [[3 # 5; 4 # 5]; [-4 # 5; 3 # 5]]) [1; 2] [(-1, 2); (0, 0)] with
  | Some b => (contains b (sample_point b [1 # 3; 1]), contains b (from_box (b_rot b) (b_center b) [3; 0]))
  | None => (None, None)
  end = (Some true, Some false).
Proof. vm_compute. reflexivity. Qed.

(** line search on a bump profile: below 1 on [0, 2.3), above on [2.3, 4), below again after 4.
    K = 3, eta = 1, rep_lim = 5: probes 0,1,2,3 | 2,2.5 | 2,2.25,2.5 ; result 2.25 *)
Example C19_line_example :
  line_search (pw [(23 # 10, 0); (4, 2)] 0) 1 3 1 5 = (9 # 4, [0; 1; 2; 3; 2; 5 # 2; 2; 9 # 4; 5 # 2]).
Proof. vm_compute. reflexivity. Qed.

(** rep_lim = 0: the fall-back result eta = 1 was itself probed above the threshold (hence the strict
    clause of C19_line_search cannot be made non-strict without rep_lim >= 1) *)
Example C19_line_rep_lim_0 :
  line_search (pw [(1 # 2, 0)] 5) 1 3 1 0 = (1, [0; 1]) /\ ~ pw [(1 # 2, 0)] 5 1 < 1.
Proof. split; [vm_compute; reflexivity | vm_compute; discriminate]. Qed.

(** posterior count with surrogates: two regions, the point lies in the first only; both distances are
    within the cut-off; only the first objective is evaluated; value = prior * 1 *)
Example C19_post_example :
  match mk_box [[1; 0]; [0; 1]] (Some [[1; 0]; [0; 1]]) [0; 0] [(-1, 1); (-1, 1)],
        mk_box [[0; 1]; [1; 0]] (Some [[0; 1]; [1; 0]]) [5; 5] [(-1, 1); (-1, 1)] with
  | Some b1, Some b2 => pdf_unnorm true [b1; b2] [1 # 2; 1] [1 # 4; 1 # 8] (1 # 4) (3 # 8)
  | _, _ => None
  end = Some (3 # 8, 1%nat, [0%nat]).
Proof. vm_compute. reflexivity. Qed.

(** ---- non-vacuity of the hypotheses (audit) ----
    Already witnessed above: [C19_box_example] (mk_box = Some, secure_limits = Some: a rotated box with a degenerate dimension),
    [C19_sample_example] (contains = Some true / Some false: pdf_inside, pdf_outside, weight_of_contained),
    [C19_fam_example] + [C19_model_ok_fam] (ok (CFam _) = true with members that were constructed).  The remaining ones: *)

Definition aud_rot : mat := [[3 # 5; -4 # 5]; [4 # 5; 3 # 5]].
Definition aud_rotinv : mat := [[3 # 5; 4 # 5]; [-4 # 5; 3 # 5]].
Definition aud_region : region_in := {| ri_rot := aud_rot; ri_rotinv := Some aud_rotinv; ri_center := [1; 2]; ri_lims := [(-1, 2); (-1 # 2, 1 # 2)] |}.
Definition aud_region2 : region_in := {| ri_rot := [[0; 1]; [1; 0]]; ri_rotinv := Some [[0; 1]; [1; 0]]; ri_center := [5; 5]; ri_lims := [(-1, 1); (-1, 1)] |}.

Example C19_contains_loop_nonvacuous :
  length [0; 1 # 2; -3] = length [(-1, 2); (0, 1); (-3, 0)] /\ inside_loop [0; 1 # 2; -3] [(-1, 2); (0, 1); (-3, 0)] = Some true
  /\ inside_loop [0; 3 # 2; -3] [(-1, 2); (0, 1); (-3, 0)] = Some false.
Proof. vm_compute. repeat split. Qed.

(** a rotated (non-identity) constructed box is well-formed; a point of the right length *)
Example C19_contains_spec_nonvacuous :
  match mk_boxes [aud_region] with
  | Some [b] => wf_box b /\ length [1; 2] = b_dim b /\ contains b [8 # 5; 14 # 5] = Some true /\ contains b [1; 4] = Some false
  | _ => False
  end.
Proof. vm_compute. repeat split. Qed.

Example C19_secure_limits_nonvacuous :
  secure_limits [(-1, 2); (0, 0); (-3, 0)]
  = Some [(-1, 2); (Qred (- eps_secure * (1 # 2)), Qred (eps_secure * (1 # 2))); (-3, 0)].
Proof. vm_compute. reflexivity. Qed.

Example C19_box_coords_within_nonvacuous :
  proper_lims [(-1, 2); (0, 1 # 2)] /\ length [1 # 3; 1] = length [(-1, 2); (0, 1 # 2)]
  /\ Forall (fun x => 0 <= x /\ x <= 1) [1 # 3; 1] /\ within (box_coords [(-1, 2); (0, 1 # 2)] [1 # 3; 1]) [(-1, 2); (0, 1 # 2)] = true.
Proof.
  assert (H1 : proper_lims [(-1, 2); (0, 1 # 2)]) by (repeat constructor).
  assert (H3 : Forall (fun x => 0 <= x /\ x <= 1) [1 # 3; 1]) by (repeat constructor; vm_compute; discriminate).
  refine (conj H1 (conj eq_refl (conj H3 _))). apply (C19_box_coords_within [(-1, 2); (0, 1 # 2)] [1 # 3; 1] H1); [reflexivity | exact H3].
Qed.

(** the bump profile of [C19_line_example]: the objective respects ==, starts below the threshold, positive step *)
Example C19_line_search_nonvacuous :
  (forall x y, x == y -> pw [(23 # 10, 0); (4, 2)] 0 x == pw [(23 # 10, 0); (4, 2)] 0 y)
  /\ pw [(23 # 10, 0); (4, 2)] 0 0 < 1 /\ 0 < 1
  /\ line_search (pw [(23 # 10, 0); (4, 2)] 0) 1 3 1 5 = (9 # 4, [0; 1; 2; 3; 2; 5 # 2; 2; 9 # 4; 5 # 2])
  /\ (forall p, In p [0; 1; 2; 3; 2; 5 # 2; 2; 9 # 4; 5 # 2] -> p <= 9 # 4 -> pw [(23 # 10, 0); (4, 2)] 0 p < 1).
Proof.
  assert (H1 := pw_proper [(23 # 10, 0); (4, 2)] 0).
  assert (H2 : pw [(23 # 10, 0); (4, 2)] 0 0 < 1) by reflexivity.
  assert (H3 : 0 < 1) by reflexivity.
  refine (conj H1 (conj H2 (conj H3 (conj C19_line_example _)))).
  destruct (C19_line_search _ _ H1 3%nat 1 5%nat _ _ H2 H3 C19_line_example) as (_ & _ & H). apply H. repeat constructor.
Qed.

(** the two regions of [C19_post_example]: well-formed, right point length, one distance per region *)
Example C19_pdf_unnorm_nonvacuous :
  match mk_boxes [aud_region; aud_region2] with
  | Some bs =>
      Forall wf_box bs /\ Forall (fun b => length [8 # 5; 14 # 5] = b_dim b) bs /\ length bs = length [1 # 4; 1 # 8]
      /\ pdf_unnorm true bs [8 # 5; 14 # 5] [1 # 4; 1 # 8] (1 # 4) (3 # 8) = Some (3 # 8, 1%nat, [0%nat])
      /\ pdf_unnorm false bs [8 # 5; 14 # 5] [1 # 4; 1 # 8] (1 # 4) (3 # 8) = Some (3 # 4, 2%nat, [0%nat; 1%nat])
  | None => False
  end.
Proof. vm_compute. repeat split; repeat constructor. Qed.

Example C19_objectives_called_nonvacuous :
  length [true; false; true] = length [1 # 4; 1 # 8; 1] /\ sum_over_regions_indicators 0 [true; false; true] [1 # 4; 1 # 8; 1] (1 # 2) = (1%nat, [0%nat; 2%nat]).
Proof. vm_compute. repeat split. Qed.

Definition aud_ls_case : ls_case :=
  {| lc_tbl := [(23 # 10, 0); (4, 2)]; lc_dflt := 0; lc_eps := 1; lc_K := 3; lc_eta := 1; lc_rep_lim := 5; lc_impl_res := 9 # 4;
     lc_impl_probes := map (fun p => (p, pw [(23 # 10, 0); (4, 2)] 0 p)) [0; 1; 2; 3; 2; 5 # 2; 2; 9 # 4; 5 # 2] |}.

Example C19_ok_sound_line_nonvacuous :
  ok_ls aud_ls_case = true /\ hd (1, 1) (lc_impl_probes aud_ls_case) = (0, 0) /\ 0 == 0 /\ 0 < lc_eps aud_ls_case /\ 0 < lc_eta aud_ls_case
  /\ In (3, 2) (lc_impl_probes aud_ls_case)
  /\ ok_ls {| lc_tbl := []; lc_dflt := 0; lc_eps := 1; lc_K := 3; lc_eta := 1; lc_rep_lim := 5; lc_impl_res := 3; lc_impl_probes := lc_impl_probes aud_ls_case |} = false.
Proof. vm_compute. repeat split; auto. Qed.

(** a box case as the harness emits it: constructed, widened limits, one drawn sample and two chosen points *)
Definition aud_box_case : box_case :=
  {| bc_rot := aud_rot; bc_rotinv := Some aud_rotinv; bc_center := [1; 2]; bc_lims := [(-1, 2); (-1 # 2, 1 # 2)]; bc_tol := 0;
     bc_impl_ok := true; bc_impl_lims := [(-1, 2); (-1 # 2, 1 # 2)]; bc_impl_vol := 3; bc_impl_rotinv := aud_rotinv;
     bc_pts := [ {| po_p := [8 # 5; 14 # 5]; po_tol := 0; po_contains := true; po_pdf := 1 # 3 |};
                 {| po_p := [1; 4]; po_tol := 0; po_contains := false; po_pdf := 0 |} ];
     bc_smps := [ {| so_u := [1 # 3; 1]; so_p := [3 # 5; 23 # 10]; so_contains := true; so_pdf := 1 # 3 |} ] |}.

Example C19_ok_sound_box_nonvacuous :
  ok_box aud_box_case = true /\ agree_box aud_box_case = true /\ bc_impl_ok aud_box_case = true /\ bc_smps aud_box_case <> [].
Proof. vm_compute. repeat split. discriminate. Qed.

(** a history on two regions with evaluations, resets and a weight step; the evaluations are the model's *)
Definition aud_ev : ev_obs :=
  {| eo_theta := [8 # 5; 14 # 5]; eo_dists := [1 # 2; 1 # 8]; eo_prior := 3 # 8; eo_tol := 0; eo_impl_val := 0; eo_impl_called := [] |}.
Definition aud_hw : hw_obs :=
  {| ho_region := 0; ho_drawn := true;
     ho_obs := [ {| wo_p := [8 # 5; 14 # 5]; wo_prior := 3 # 8; wo_dist := 1 # 2; wo_impl_w := 0; wo_impl_q := 1 # 3 |} ] |}.
Definition aud_hist (steps : list hstep) : hist_case :=
  {| hc_regions := [aud_region; aud_region2]; hc_surrogate := false; hc_eps0 := 1; hc_tol := 0; hc_steps := steps |}.
Definition aud_steps : list hstep :=
  [HEval {| eo_theta := [8 # 5; 14 # 5]; eo_dists := [1 # 2; 1 # 8]; eo_prior := 3 # 8; eo_tol := 0; eo_impl_val := 3 # 4; eo_impl_called := [0%nat; 1%nat] |};
   HReset (1 # 4);
   HEval {| eo_theta := [8 # 5; 14 # 5]; eo_dists := [1 # 2; 1 # 8]; eo_prior := 3 # 8; eo_tol := 0; eo_impl_val := 3 # 8; eo_impl_called := [0%nat; 1%nat] |};
   HWeight aud_hw].

Example C19_ok_sound_hist_nonvacuous :
  ok (CHist (aud_hist aud_steps)) = true /\ agree (CHist (aud_hist aud_steps)) = true
  /\ match mk_boxes (hc_regions (aud_hist aud_steps)) with
     | Some bs => Forall wf_box bs /\ Forall (eval_wf bs) [HEval aud_ev; HReset (1 # 4); HEval aud_ev; HWeight aud_hw]
                  /\ all_decided 0 bs [8 # 5; 14 # 5] = true
                  /\ model_hist false bs 1 [HEval aud_ev; HReset (1 # 4); HEval aud_ev] = firstn 3 aud_steps
     | None => False
     end
  /\ nth_error (hc_steps (aud_hist aud_steps)) 2 = nth_error aud_steps 2
  /\ cutoff_at 1 aud_steps 2 = 1 # 4
  /\ nth_error (hc_steps (aud_hist aud_steps)) 3 = Some (HWeight aud_hw)
  /\ nth_error (hc_regions (aud_hist aud_steps)) (ho_region aud_hw) = Some aud_region.
Proof. vm_compute. repeat split; repeat constructor. Qed.

(** Part 1 (mathcomp): a non-identity invertible matrix in every dimension (2 I over the rationals), limits lo = -1 <= hi = 2,
    draws u = 1/2: the hypotheses of sample_contained / contained_has_coords hold together, in every dimension *)
Module MxAudit.
Import mathcomp.ssreflect.all_ssreflect mathcomp.algebra.all_algebra.
Import GRing.Theory Num.Theory.
Import Elfi.Num.BoxMx Elfi.Proofs.C19_BoxMx.
Local Open Scope ring_scope.

Example C19_sample_contained_nonvacuous :
  forall n : nat,
    let R : 'M[rat]_n := 2%:R%:M in
    let lo : 'cV[rat]_n := const_mx (-1) in let hi : 'cV[rat]_n := const_mx 2%:R in let u : 'cV[rat]_n := const_mx (2%:R^-1) in
    [/\ R \in unitmx, (forall i, lo i 0 <= hi i 0), (forall i, 0 <= u i 0 <= 1)
      & BoxMx.contains R (const_mx 1) lo hi (BoxMx.sample_point R (const_mx 1) lo hi u)].
Proof.
move=> n R lo hi u.
have HR : R \in unitmx by rewrite /R -scalemx1 unitmxZ ?unitmx1 //.
have Hl : forall i, lo i 0 <= hi i 0 by move=> i; rewrite !mxE.
have Hu : forall i, 0 <= u i 0 <= 1 by move=> i; rewrite !mxE.
by split=> //; apply: Mx.C19_sample_contained.
Qed.
End MxAudit.
