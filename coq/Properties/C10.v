(** C10 — stub while building *)
From Coq Require Import Reals.
From Coquelicot Require Import Coquelicot.
From Elfi Require Import Gen.C10_Gradient Proofs.C10_Deriv.
Local Open Scope R_scope.

Theorem C10_gradient_is_derivative :
  forall (phi Phi mu v dmu dv : R -> R) (t : R),
    (forall z, is_derive Phi z (phi z)) -> (forall z, 0 < Phi z) -> (forall z, 0 < phi z) ->
    forall x, is_derive mu x (dmu x) -> is_derive v x (dv x) -> 0 < v x ->
      is_derive (fun x => loglik Phi t (mu x) (v x)) x (grad phi Phi t (mu x) (v x) (dmu x) (dv x)).
Proof. exact grad_is_derivative. Qed.
Print Assumptions C10_gradient_is_derivative.
