(** C10 — BOLFI posterior matches its definition; the fast GP path equals the GP.
    Models: Gen/C10_Gradient.v (GENERATED on every run from the source text of
    BolfiPosterior._unnormalized_loglikelihood / _gradient_unnormalized_loglikelihood),
    Num/Gp.v (bounds test, -inf rule, shape rule, evidence store), Num/GpMx.v (cached-RBF algebra).
    This file only states the property theorems; proofs are in Proofs/C10_*.v. *)
From Coq Require Import Reals List QArith.
From Coquelicot Require Import Coquelicot.
From Elfi Require Import Gen.C10_Gradient Num.Gp Num.GpGen
     Proofs.C10_Deriv Proofs.C10_Post Proofs.C10_Gen.
Import ListNotations.

(** ** 1. the gradient is the derivative of the log density (about the generated text) *)

(** For every threshold, every normal-like pdf/cdf pair (Phi' = phi, both positive) and every
    surrogate mean / predictive variance differentiable along the coordinate with positive variance:
    the translated gradient formula is the derivative of the translated log-likelihood. *)
Theorem C10_gradient_is_derivative :
  forall (phi Phi mu v dmu dv : R -> R) (t : R),
    (forall z, is_derive Phi z (phi z)) -> (forall z, 0 < Phi z)%R -> (forall z, 0 < phi z)%R ->
    forall x, is_derive mu x (dmu x) -> is_derive v x (dv x) -> (0 < v x)%R ->
      is_derive (fun x => loglik Phi t (mu x) (v x)) x (grad phi Phi t (mu x) (v x) (dmu x) (dv x)).
Proof. exact grad_is_derivative. Qed.
Print Assumptions C10_gradient_is_derivative.

(** The same with the predictive variance written as latent variance + constant noise variance. *)
Theorem C10_gradient_is_derivative_noise :
  forall (phi Phi mu v dmu dv : R -> R) (t sigma2 : R),
    (forall z, is_derive Phi z (phi z)) -> (forall z, 0 < Phi z)%R -> (forall z, 0 < phi z)%R ->
    forall x, is_derive mu x (dmu x) -> is_derive v x (dv x) -> (0 < v x + sigma2)%R ->
      is_derive (fun x => loglik Phi t (mu x) (v x + sigma2)) x
                (grad phi Phi t (mu x) (v x + sigma2) (dmu x) (dv x)).
Proof. exact grad_is_derivative_noise. Qed.
Print Assumptions C10_gradient_is_derivative_noise.

(** The translated gradient in chain-rule form (what the decidable spec [Gp.spec_grad_coord] evaluates). *)
Theorem C10_gradient_chain_rule_form :
  forall (phi Phi : R -> R) (t m v gm gv : R),
    (0 < v)%R -> (0 < phi ((t - m) / sqrt v))%R -> (0 < Phi ((t - m) / sqrt v))%R ->
    grad phi Phi t m v gm gv =
    (phi ((t - m) / sqrt v) / Phi ((t - m) / sqrt v) * (- gm / sqrt v - (t - m) * gv / (2 * sqrt v * v)))%R.
Proof. exact grad_chain_rule_form. Qed.
Print Assumptions C10_gradient_chain_rule_form.

(** Non-vacuity of the hypotheses above. *)
Theorem C10_gradient_hypotheses_satisfiable :
  exists (phi Phi mu v dmu dv : R -> R),
    (forall z, is_derive Phi z (phi z)) /\ (forall z, 0 < Phi z)%R /\ (forall z, 0 < phi z)%R /\
    (forall x, is_derive mu x (dmu x)) /\ (forall x, is_derive v x (dv x)) /\ (forall x, 0 < v x)%R.
Proof. exact grad_hypotheses_satisfiable. Qed.
Print Assumptions C10_gradient_hypotheses_satisfiable.

(** Cached fast path: dkdx = 2 factor (x - X) kx is the derivative of kx = rbf_var exp(r2 factor). *)
Theorem C10_rbf_dk_is_derivative :
  forall (kvar factor a c xj : R),
    is_derive (fun y => kvar * exp (((y - a) ^ 2 + c) * factor))%R xj
              (2 * factor * (xj - a) * (kvar * exp (((xj - a) ^ 2 + c) * factor)))%R.
Proof. exact rbf_dk_is_derivative. Qed.
Print Assumptions C10_rbf_dk_is_derivative.

(** The hand-written formula lines of the executable model are the generated ones. *)
Theorem C10_generated_is_model :
  forall t o gm gv,
    gradQ (fun _ => o_sd o) (fun _ => o_ratio o) (fun _ => o_pdf o) (fun _ => o_cdf o)
          (fun _ => o_logpdf o) (fun _ => o_logcdf o) t (o_mean o) (o_var o) gm gv = grad_coord t o gm gv
    /\ loglikQ (fun _ => o_sd o) (fun _ => o_logcdf o) t (o_mean o) (o_var o) = ll_value o.
Proof. intros; split; [apply gradQ_is_model | apply loglikQ_is_model]. Qed.
Print Assumptions C10_generated_is_model.

(** ** 2. -inf outside the bounds, log Phi + log prior inside *)
Local Open Scope Q_scope.

(** The coded fold over the coordinates accepts a point iff every coordinate lies in its closed interval. *)
Theorem C10_within_bounds_spec :
  forall x b, within_bounds x b = true <->
              forall xi lo hi, In (xi, (lo, hi)) (combine x b) -> lo <= xi /\ xi <= hi.
Proof. exact within_bounds_spec. Qed.
Print Assumptions C10_within_bounds_spec.

(** logpdf is -inf iff some coordinate is outside [lo, hi] (or the prior itself is -inf) ... *)
Theorem C10_logpdf_neginf_iff :
  forall b r, logpdf_row b r = NegInf <->
    (exists xi lo hi, In (xi, (lo, hi)) (combine (r_x r) b) /\ (xi < lo \/ hi < xi)) \/ r_lprior r = NegInf.
Proof. exact logpdf_row_neginf_iff. Qed.
Print Assumptions C10_logpdf_neginf_iff.

(** ... and otherwise log Phi((t - mean)/sd) + log prior. *)
Theorem C10_logpdf_inside :
  forall b r p,
    (forall xi lo hi, In (xi, (lo, hi)) (combine (r_x r) b) -> lo <= xi /\ xi <= hi) ->
    r_lprior r = Fin p -> logpdf_row b r = Fin (o_logcdf (r_orc r) + p).
Proof. exact logpdf_row_inside. Qed.
Print Assumptions C10_logpdf_inside.

(** A scalar (first row) is returned exactly for 0-d input, or 1-d input when dim > 1. *)
Theorem C10_shape_rule :
  forall (ndim dim : nat) (d : ext) rows,
    (exists a, shape_out ndim dim d rows = Scalar a) <-> (ndim = 0 \/ (ndim = 1 /\ 1 < dim))%nat.
Proof. intros. apply shape_out_scalar_iff. Qed.
Print Assumptions C10_shape_rule.

(** ** 3. adding evidence keeps all earlier evidence unchanged and in order *)

Theorem C10_update_keeps_prefix :
  forall (A : Type) (st : @evidence A) bs1 bs2,
    rows_of (final st (bs1 ++ bs2)) = rows_of (final st bs1) ++ concat bs2.
Proof. intros. apply updates_keep_prefix. Qed.
Print Assumptions C10_update_keeps_prefix.

Theorem C10_update_keeps_rows :
  forall (A : Type) (st : @evidence A) bs1 bs2 i row,
    nth_error (rows_of (final st bs1)) i = Some row ->
    nth_error (rows_of (final st (bs1 ++ bs2))) i = Some row.
Proof. intros A st bs1 bs2 i row. apply updates_keep_rows. Qed.
Print Assumptions C10_update_keeps_rows.

Theorem C10_n_evidence_counts :
  forall (A : Type) (st : @evidence A) bs,
    n_evidence (final st bs) = (n_evidence st + length (concat bs))%nat.
Proof. intros. apply n_evidence_counts. Qed.
Print Assumptions C10_n_evidence_counts.

(** ** 4. the decidable spec evaluated on the implementation's output is sound, and the model satisfies it *)

(** "the bounds" are the USER's bounds, parameter by parameter (GPyRegression.__init__ -> _within_bounds).
    The box the surrogate stores does not depend on the order in which the keys of the bounds dict were written ... *)
Theorem C10_box_order_independent :
  forall names d d', List.NoDup (map fst d) -> Permutation.Permutation d d' -> box_of names d = box_of names d'.
Proof. exact box_of_perm. Qed.
Print Assumptions C10_box_order_independent.

(** ... its coordinate i is the interval the dict binds to parameter_names[i] (one parameter: the only interval) ... *)
Theorem C10_box_by_name :
  forall names d bs, box_of names d = Some bs ->
    length bs = length names /\
    (length names <> 1%nat ->
     forall i n, nth_error names i = Some n -> exists iv, lookup d n = Some iv /\ nth_error bs i = Some iv) /\
    (length names = 1%nat -> bs = map snd d).
Proof. exact box_of_by_name. Qed.
Print Assumptions C10_box_by_name.

(** ... so the coded bounds test on that box accepts x iff EVERY parameter's coordinate lies in the closed interval
    the user gave for that parameter's NAME ... *)
Theorem C10_within_bounds_by_name :
  forall names d b x, box_of names d = Some b -> length names <> 1%nat -> length x = length names ->
    (within_bounds x b = true <->
     forall i n xi lo hi, nth_error names i = Some n -> nth_error x i = Some xi -> lookup d n = Some (lo, hi) ->
                          lo <= xi /\ xi <= hi).
Proof. exact within_bounds_named. Qed.
Print Assumptions C10_within_bounds_by_name.

(** ... and the model's log density and gradient are the same for every key order of the dict. *)
Theorem C10_posterior_order_independent :
  forall names d d' t r, List.NoDup (map fst d) -> Permutation.Permutation d d' ->
    forall b b', box_of names d = Some b -> box_of names d' = Some b' ->
      logpdf_row b r = logpdf_row b' r /\ gradpdf_row b t r = gradpdf_row b' t r.
Proof. exact posterior_order_independent. Qed.
Print Assumptions C10_posterior_order_independent.

(** The decidable spec on the implementation's output, read by parameter NAME: a row with some parameter outside
    the interval the dict gives for its name has logpdf -inf; a row with every parameter inside its own interval
    has logpdf = log Phi + log prior and the chain-rule gradient (within tol) -- [named_row_prop]. *)
Theorem C10_ok_sound :
  forall c, ok c = true ->
    match c with
    | PostCase p =>
        length (pc_impl_logpdf p) = length (pc_rows p) /\ length (pc_impl_grad p) = length (pc_rows p) /\
        forall i r lp g, nth_error (pc_rows p) i = Some r -> nth_error (pc_impl_logpdf p) i = Some lp ->
                         nth_error (pc_impl_grad p) i = Some g ->
                         named_row_prop (pc_names p) (pc_dict p) (pc_t p) r lp g
    | EvCase e =>
        map fst (ec_snaps e) = map rows_of (run_updates None (ec_batches e))
        /\ List.Forall (fun s => length (fst s) = snd s) (ec_snaps e)
    end.
Proof. intros c H; destruct c as [p|e]. - exact (post_ok_sound _ H). - exact (ev_ok_sound _ H). Qed.
Print Assumptions C10_ok_sound.

(** The model's own output (its box = [box_of parameter_names dict]) passes that by-name spec for every key order. *)
Theorem C10_model_ok_by_name :
  forall names d b t dim rows,
    box_of names d = Some b -> length names <> 1%nat -> length names = dim ->
    List.Forall (fun r => length (r_x r) = dim) rows ->
    List.Forall (fun r => o_var (r_orc r) == o_sd (r_orc r) * o_sd (r_orc r) /\ ~ o_sd (r_orc r) == 0) rows ->
    forall ndim ibs ill igl,
    ok (PostCase {| pc_dim := dim; pc_ndim := ndim; pc_names := names; pc_dict := d; pc_impl_bounds := ibs; pc_t := t;
               pc_rows := rows; pc_impl_ll := ill; pc_impl_gl := igl;
               pc_impl_logpdf := map (fun r => to_obs (logpdf_row b r)) rows;
               pc_impl_grad := map (fun r => map Some (gradpdf_row b t r)) rows |}) = true.
Proof. exact post_model_ok. Qed.
Print Assumptions C10_model_ok_by_name.

Theorem C10_model_ok :
  (forall b t rows,
     List.Forall (fun r => o_var (r_orc r) == o_sd (r_orc r) * o_sd (r_orc r) /\ ~ o_sd (r_orc r) == 0) rows ->
     rows_ok b t rows (map (fun r => to_obs (logpdf_row b r)) rows)
             (map (fun r => map Some (gradpdf_row b t r)) rows) = true)
  /\ (forall bs, ev_ok {| ec_batches := bs;
                         ec_snaps := map (fun m => (rows_of m, n_evidence m)) (run_updates (@None (list erow)) bs) |} = true).
Proof. split; [exact rows_model_ok | exact ev_model_ok]. Qed.
Print Assumptions C10_model_ok.

(** Non-vacuity: a 2-d box, a point on a bound (inside), one outside, an evidence history. *)
Example C10_example_bounds :
  within_bounds [1; 3#2] [(0, 1); (1, 2)] = true /\ within_bounds [1; 5#2] [(0, 1); (1, 2)] = false
  /\ outside [1; 5#2] [(0, 1); (1, 2)] = true.
Proof. vm_compute. repeat split. Qed.

(** a bounds dict written in another key order than parameter_names, with different intervals: the box is by name;
    (3/2, 1/2) is inside the user's box (a in [0,2], b in [-1,1]) and would be outside the positional one *)
Example C10_example_named_box :
  let a := String.String (Ascii.ascii_of_nat 97) String.EmptyString in
  let b := String.String (Ascii.ascii_of_nat 98) String.EmptyString in
  box_of [a; b] [(b, (-(1), 1)); (a, (0, 2))] = Some [(0, 2); (-(1), 1)]
  /\ box_of [a; b] [(a, (0, 2)); (b, (-(1), 1))] = Some [(0, 2); (-(1), 1)]
  /\ within_bounds [3#2; 1#2] [(0, 2); (-(1), 1)] = true /\ within_bounds [3#2; 1#2] [(-(1), 1); (0, 2)] = false
  /\ box_of [a; b] [(a, (0, 2))] = None.
Proof. vm_compute. repeat split. Qed.

Example C10_example_evidence :
  map rows_of (run_updates None [[1; 2]; [3]; [4; 5]]%nat) = [[1; 2]; [1; 2; 3]; [1; 2; 3; 4; 5]]%nat.
Proof. reflexivity. Qed.

(** ** 5. algebra of the cached-RBF fast path (mathcomp; over any commutative ring) *)
From mathcomp Require Import all_ssreflect all_algebra.
From Elfi Require Import Num.GpMx Proofs.C10_Mx.
Import GRing.Theory.
Local Open Scope ring_scope.

(** r2 as coded (|x|^2 + |X_i|^2 - 2 x.X_i) is the squared distance |x - X_i|^2, for every evidence row. *)
Theorem C10_fast_r2 :
  forall (R : comRingType) (n d : nat) (x : 'rV[R]_d) (X : 'M[R]_(n, d)), r2_fast x X = r2_def x X.
Proof. exact r2_fastE. Qed.
Print Assumptions C10_fast_r2.

Theorem C10_sqnorm_sub :
  forall (R : comRingType) (d : nat) (x y : 'rV[R]_d),
    sqnorm (x - y) = sqnorm x + sqnorm y - 2%:R * dot x y.
Proof. exact sqnorm_sub. Qed.
Print Assumptions C10_sqnorm_sub.

(** predict: the coded variance equals k** - |L^-1 k^T|^2 + sigma2 whenever W = L^-T L^-1. *)
Theorem C10_fast_variance :
  forall (R : comRingType) (n : nat) (kss noise : R) (k : 'rV[R]_n) (W Linv : 'M[R]_n),
    W = Linv^T *m Linv ->
    var_fast kss noise k W = var_W kss noise k W /\ var_fast kss noise k W = var_chol kss noise k Linv.
Proof. move=> R n kss noise k W Linv HW; split; [exact: var_fastE | exact: var_fast_chol]. Qed.
Print Assumptions C10_fast_variance.

(** predictive_gradients: with v, dv the solutions of the triangular systems and W = L^-T L^-1,
    the coded -2 (dv^T v)^T is -2 k W dk ... *)
Theorem C10_fast_variance_gradient :
  forall (R : comRingType) (n d : nat) (L Linv W : 'M[R]_n) (k : 'rV[R]_n) (dk : 'M[R]_(n, d))
         (v : 'cV[R]_n) (dv : 'M[R]_(n, d)),
    Linv *m L = 1%:M -> L *m v = k^T -> L *m dv = dk -> W = Linv^T *m Linv ->
    gradvar_fast v dv = gradvar_def k W dk.
Proof. move=> R n d L Linv W k dk v dv; exact: gradvar_fastE. Qed.
Print Assumptions C10_fast_variance_gradient.

(** ... which is the first-order part of the quadratic form the variance subtracts (W symmetric). *)
Theorem C10_variance_first_order :
  forall (R : comRingType) (n : nat) (W : 'M[R]_n) (k h : 'rV[R]_n),
    W^T = W -> qform W (k + h) = qform W k + 2%:R *: (h *m W *m k^T) + qform W h.
Proof. move=> R n W k h; exact: qform_expand. Qed.
Print Assumptions C10_variance_first_order.

Theorem C10_variance_gradient_column :
  forall (R : comRingType) (n d : nat) (W : 'M[R]_n) (k : 'rV[R]_n) (dk : 'M[R]_(n, d)) (j : 'I_d),
    W^T = W -> (gradvar_def k W dk) 0 j = (- 2%:R *: ((col j dk)^T *m W *m k^T)) 0 0.
Proof. move=> R n d W k dk j; exact: gradvar_def_col. Qed.
Print Assumptions C10_variance_gradient_column.

(** mean: linear in kx; the coded gradient (dkdx^T alpha)^T is alpha^T dkdx. *)
Theorem C10_fast_mean_gradient :
  forall (R : comRingType) (n d : nat) (k h : 'rV[R]_n) (alpha : 'cV[R]_n) (dk : 'M[R]_(n, d)),
    mean_fast (k + h) alpha = mean_fast k alpha + mean_fast h alpha
    /\ gradmean_fast dk alpha = gradmean_def dk alpha.
Proof. move=> R n d k h alpha dk; split; [exact: mean_fast_linear | exact: gradmean_fastE]. Qed.
Print Assumptions C10_fast_mean_gradient.

(** ---- non-vacuity of the hypotheses (audit) ---- *)
(** One concrete instance: parameters (a, b), the bounds dict written in the other key order, one query row inside the
    user's box with a finite prior, one outside; an evidence history of three updates. *)
Local Open Scope Q_scope.
Definition C10_nv_a : String.string := String.String (Ascii.ascii_of_nat 97) String.EmptyString.
Definition C10_nv_b : String.string := String.String (Ascii.ascii_of_nat 98) String.EmptyString.
Definition C10_nv_names : list String.string := [C10_nv_a; C10_nv_b].
Definition C10_nv_d : bdict := [(C10_nv_b, (-(1), 1)); (C10_nv_a, (0, 2))].
Definition C10_nv_d' : bdict := [(C10_nv_a, (0, 2)); (C10_nv_b, (-(1), 1))].
Definition C10_nv_box : list bound := [(0, 2); (-(1), 1)].
Definition C10_nv_orc : gp_oracle :=
  {| o_mean := 0; o_var := 4; o_gmean := [1; -(1)]; o_gvar := [1#2; 1]; o_sd := 2; o_z := 1#2;
     o_pdf := 1#3; o_cdf := 2#3; o_logpdf := -(1); o_logcdf := -(1#2); o_lr := -(1#2); o_ratio := 1#2 |}.
Definition C10_nv_row_in : Gp.row :=
  {| r_x := [3#2; 1#2]; r_orc := C10_nv_orc; r_lprior := Fin (-(1)); r_gprior := [1#4; 0] |}.
Definition C10_nv_row_out : Gp.row :=
  {| r_x := [3; 0]; r_orc := C10_nv_orc; r_lprior := Fin (-(1)); r_gprior := [1#4; 0] |}.
Definition C10_nv_rows : list Gp.row := [C10_nv_row_in; C10_nv_row_out].

Example C10_logpdf_inside_nonvacuous :
  (forall xi lo hi, In (xi, (lo, hi)) (combine (r_x C10_nv_row_in) C10_nv_box) -> lo <= xi /\ xi <= hi)
  /\ r_lprior C10_nv_row_in = Fin (-(1))
  /\ logpdf_row C10_nv_box C10_nv_row_in = Fin (o_logcdf (r_orc C10_nv_row_in) + -(1)).
Proof.
  assert (H : forall xi lo hi, In (xi, (lo, hi)) (combine (r_x C10_nv_row_in) C10_nv_box) -> lo <= xi /\ xi <= hi)
    by (apply C10_within_bounds_spec; vm_compute; reflexivity).
  split; [exact H|]. split; [reflexivity|]. apply C10_logpdf_inside; [exact H|reflexivity].
Qed.

Example C10_update_keeps_rows_nonvacuous :
  nth_error (rows_of (final None [[1; 2]; [3]]%nat)) 2 = Some 3%nat
  /\ nth_error (rows_of (final None ([[1; 2]; [3]] ++ [[4; 5]])%nat)) 2 = Some 3%nat.
Proof.
  assert (H : nth_error (rows_of (final None [[1; 2]; [3]]%nat)) 2 = Some 3%nat) by reflexivity.
  split; [exact H|]. exact (C10_update_keeps_rows nat None _ [[4; 5]]%nat _ _ H).
Qed.

Example C10_nv_nodup_perm :
  List.NoDup (List.map fst C10_nv_d) /\ Permutation.Permutation C10_nv_d C10_nv_d'.
Proof.
  split.
  - constructor; [|constructor; [|constructor]]; simpl.
    + intros [H|[]]. discriminate H.
    + intros [].
  - apply Permutation.perm_swap.
Qed.

Example C10_box_order_independent_nonvacuous :
  List.NoDup (List.map fst C10_nv_d) /\ Permutation.Permutation C10_nv_d C10_nv_d'
  /\ box_of C10_nv_names C10_nv_d = Some C10_nv_box /\ box_of C10_nv_names C10_nv_d' = Some C10_nv_box.
Proof.
  destruct C10_nv_nodup_perm as [H1 H2]. split; [exact H1|]. split; [exact H2|].
  rewrite <- (C10_box_order_independent C10_nv_names _ _ H1 H2). split; reflexivity.
Qed.

Example C10_box_by_name_nonvacuous :
  box_of C10_nv_names C10_nv_d = Some C10_nv_box /\ length C10_nv_box = length C10_nv_names.
Proof. split; [reflexivity|]. exact (proj1 (C10_box_by_name _ _ _ (Logic.eq_refl : box_of C10_nv_names C10_nv_d = Some C10_nv_box))). Qed.

Example C10_within_bounds_by_name_nonvacuous :
  box_of C10_nv_names C10_nv_d = Some C10_nv_box /\ length C10_nv_names <> 1%nat
  /\ length (r_x C10_nv_row_in) = length C10_nv_names
  /\ within_bounds (r_x C10_nv_row_in) C10_nv_box = true /\ within_bounds (r_x C10_nv_row_out) C10_nv_box = false
  /\ (forall i n xi lo hi, nth_error C10_nv_names i = Some n -> nth_error (r_x C10_nv_row_in) i = Some xi ->
                           lookup C10_nv_d n = Some (lo, hi) -> lo <= xi /\ xi <= hi).
Proof.
  assert (Hb : box_of C10_nv_names C10_nv_d = Some C10_nv_box) by reflexivity.
  assert (Hn : length C10_nv_names <> 1%nat) by discriminate.
  assert (Hx : length (r_x C10_nv_row_in) = length C10_nv_names) by reflexivity.
  split; [exact Hb|]. split; [exact Hn|]. split; [exact Hx|]. split; [reflexivity|]. split; [reflexivity|].
  apply (C10_within_bounds_by_name _ _ _ _ Hb Hn Hx). reflexivity.
Qed.

Example C10_posterior_order_independent_nonvacuous :
  List.NoDup (List.map fst C10_nv_d) /\ Permutation.Permutation C10_nv_d C10_nv_d'
  /\ box_of C10_nv_names C10_nv_d = Some C10_nv_box /\ box_of C10_nv_names C10_nv_d' = Some C10_nv_box
  /\ logpdf_row C10_nv_box C10_nv_row_in = Fin (-(3#2)).
Proof.
  destruct C10_nv_nodup_perm as [H1 H2]. repeat (split; [first [exact H1|exact H2|reflexivity]|]). reflexivity.
Qed.

Example C10_nv_rows_wf :
  List.Forall (fun r => o_var (r_orc r) == o_sd (r_orc r) * o_sd (r_orc r) /\ ~ o_sd (r_orc r) == 0) C10_nv_rows.
Proof. repeat constructor; try reflexivity; intro H; discriminate H. Qed.

(** the model's own output on the instance: hypotheses of [C10_model_ok_by_name] / [C10_model_ok], hence [ok c = true]
    (the hypothesis of [C10_ok_sound]) on a case with an inside and an outside row *)
Definition C10_nv_case : Gp.case :=
  PostCase {| pc_dim := 2; pc_ndim := 2; pc_names := C10_nv_names; pc_dict := C10_nv_d; pc_impl_bounds := C10_nv_box;
              pc_t := 1; pc_rows := C10_nv_rows; pc_impl_ll := Vec []; pc_impl_gl := Vec [];
              pc_impl_logpdf := List.map (fun r => to_obs (logpdf_row C10_nv_box r)) C10_nv_rows;
              pc_impl_grad := List.map (fun r => List.map Some (gradpdf_row C10_nv_box 1 r)) C10_nv_rows |}.

Example C10_model_ok_by_name_nonvacuous :
  box_of C10_nv_names C10_nv_d = Some C10_nv_box /\ length C10_nv_names <> 1%nat /\ length C10_nv_names = 2%nat
  /\ List.Forall (fun r => length (r_x r) = 2%nat) C10_nv_rows
  /\ List.Forall (fun r => o_var (r_orc r) == o_sd (r_orc r) * o_sd (r_orc r) /\ ~ o_sd (r_orc r) == 0) C10_nv_rows
  /\ ok C10_nv_case = true.
Proof.
  assert (Hl : List.Forall (fun r => length (r_x r) = 2%nat) C10_nv_rows) by (repeat constructor).
  split; [reflexivity|]. split; [discriminate|]. split; [reflexivity|]. split; [exact Hl|].
  split; [exact C10_nv_rows_wf|].
  apply (C10_model_ok_by_name C10_nv_names C10_nv_d C10_nv_box 1 2%nat C10_nv_rows);
    [reflexivity|discriminate|reflexivity|exact Hl|exact C10_nv_rows_wf].
Qed.

Example C10_model_ok_nonvacuous :
  rows_ok C10_nv_box 1 C10_nv_rows (List.map (fun r => to_obs (logpdf_row C10_nv_box r)) C10_nv_rows)
          (List.map (fun r => List.map Some (gradpdf_row C10_nv_box 1 r)) C10_nv_rows) = true.
Proof. exact (proj1 C10_model_ok _ _ _ C10_nv_rows_wf). Qed.

Example C10_ok_sound_nonvacuous :
  ok C10_nv_case = true
  /\ ok (EvCase {| ec_batches := [[([1], 2)]; [([3], 4); ([5], 6)]];
                   ec_snaps := [([([1], 2)], 1%nat); ([([1], 2); ([3], 4); ([5], 6)], 3%nat)] |}) = true
  /\ named_row_prop C10_nv_names C10_nv_d 1 C10_nv_row_out ONegInf (List.map Some (gradpdf_row C10_nv_box 1 C10_nv_row_out)).
Proof.
  split; [vm_compute; reflexivity|]. split; [vm_compute; reflexivity|].
  assert (H : ok C10_nv_case = true) by (vm_compute; reflexivity).
  exact (proj2 (proj2 (C10_ok_sound _ H)) 1%nat _ _ _ Logic.eq_refl Logic.eq_refl Logic.eq_refl).
Qed.

(** matrix part: the hypotheses of [C10_fast_variance], [C10_fast_variance_gradient], [C10_variance_first_order] and
    [C10_variance_gradient_column] hold together for EVERY invertible factor L (Linv := L^-1, W := Linv^T Linv,
    v, dv the solutions of the triangular systems), for every k and dk; and invertible non-identity factors exist. *)
Local Open Scope ring_scope.
Example C10_fast_variance_gradient_nonvacuous :
  forall (R : comUnitRingType) (n d : nat) (L : 'M[R]_n) (k : 'rV[R]_n) (dk : 'M[R]_(n, d)),
    L \in unitmx ->
    let Linv := invmx L in let W := Linv^T *m Linv in let v := Linv *m k^T in let dv := Linv *m dk in
    [/\ Linv *m L = 1%:M, L *m v = k^T, L *m dv = dk, W = Linv^T *m Linv & W^T = W]
    /\ gradvar_fast v dv = gradvar_def k W dk
    /\ var_fast 0 0 k W = var_chol 0 0 k Linv.
Proof.
  move=> R n d L k dk HL /=.
  have H1 : invmx L *m L = 1%:M by exact: mulVmx.
  have H2 : L *m (invmx L *m k^T) = k^T by rewrite mulmxA mulmxV // mul1mx.
  have H3 : L *m (invmx L *m dk) = dk by rewrite mulmxA mulmxV // mul1mx.
  have H5 : ((invmx L)^T *m invmx L)^T = (invmx L)^T *m invmx L by rewrite trmx_mul trmxK.
  split; [by split|]. split.
  - exact: (C10_fast_variance_gradient _ _ _ L (invmx L) _ k dk _ _ H1 H2 H3 Logic.eq_refl).
  - exact: (proj2 (C10_fast_variance _ _ 0 0 k _ (invmx L) Logic.eq_refl)).
Qed.

Example C10_nv_unit_factor :
  let L : 'M[rat]_2 := (2%:R)%:M in L \in unitmx /\ L != 1%:M.
Proof.
  split.
  - by rewrite unitmxE det_scalar unitrX // unitfE.
  - apply/eqP => /matrixP /(_ ord0 ord0). by rewrite !mxE.
Qed.

(** a richer witness for [C10_gradient_is_derivative] / [_noise] / [C10_gradient_chain_rule_form] than the one of
    [C10_gradient_hypotheses_satisfiable] (constant variance): mean 3x, predictive variance 1 + x^2 (derivative 2x, not
    identically 0), noise variance 2, Phi = phi = exp; the theorem instantiated on it *)
From Coq Require Import Lra.
Example C10_gradient_is_derivative_nonvacuous :
  let mu := fun x : R => Rmult (IZR 3) x in let dmu := fun _ : R => IZR 3 in
  let v := fun x : R => Rplus (IZR 1) (Rmult x x) in let dv := fun x : R => Rplus x x in
  let sigma2 := IZR 2 in
  (forall z, is_derive Rtrigo_def.exp z (Rtrigo_def.exp z)) /\ (forall z, Rlt (IZR 0) (Rtrigo_def.exp z))
  /\ (forall x, is_derive mu x (dmu x)) /\ (forall x, is_derive v x (dv x))
  /\ (forall x, Rlt (IZR 0) (v x)) /\ (forall x, Rlt (IZR 0) (Rplus (v x) sigma2))
  /\ (exists x, dv x <> IZR 0)
  /\ forall t x, is_derive (fun x => loglik Rtrigo_def.exp t (mu x) (Rplus (v x) sigma2)) x
                           (grad Rtrigo_def.exp Rtrigo_def.exp t (mu x) (Rplus (v x) sigma2) (dmu x) (dv x)).
Proof.
  cbv zeta.
  assert (H1 : forall z, is_derive Rtrigo_def.exp z (Rtrigo_def.exp z)) by (intro z; apply is_derive_exp).
  assert (H2 : forall z, Rlt (IZR 0) (Rtrigo_def.exp z)) by (intro z; apply exp_pos).
  assert (H3 : forall x : R, is_derive (fun x : R => Rmult (IZR 3) x) x (IZR 3)) by (intro x; auto_derive; [trivial | ring]).
  assert (H4 : forall x : R, is_derive (fun x : R => Rplus (IZR 1) (Rmult x x)) x (Rplus x x))
    by (intro x; auto_derive; [trivial | ring]).
  assert (H5 : forall x : R, Rlt (IZR 0) (Rplus (IZR 1) (Rmult x x))) by (intro x; pose proof (Rle_0_sqr x) as Hs; unfold Rsqr in Hs; lra).
  assert (H6 : forall x : R, Rlt (IZR 0) (Rplus (Rplus (IZR 1) (Rmult x x)) (IZR 2))) by (intro x; pose proof (Rle_0_sqr x) as Hs; unfold Rsqr in Hs; lra).
  split; [exact H1|]. split; [exact H2|]. split; [exact H3|]. split; [exact H4|]. split; [exact H5|].
  split; [exact H6|]. split; [exists (IZR 1); lra|].
  intros t x.
  exact (C10_gradient_is_derivative_noise Rtrigo_def.exp Rtrigo_def.exp (fun x : R => Rmult (IZR 3) x)
           (fun x : R => Rplus (IZR 1) (Rmult x x)) (fun _ => IZR 3) (fun x => Rplus x x) t (IZR 2)
           H1 H2 H2 x (H3 x) (H4 x) (H6 x)).
Qed.
