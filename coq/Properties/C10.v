(** C10 — BOLFI posterior matches its definition; the fast GP path equals the GP.
    Models: Gen/C10_Gradient.v (GENERATED on every run from the source text of
    BolfiPosterior._unnormalized_loglikelihood / _gradient_unnormalized_loglikelihood),
    Num/Gp.v (bounds test, -inf rule, shape rule, evidence store), Num/GpMx.v (cached-RBF algebra).
    This file only states the property theorems; proofs are in Proofs/C10_*.v. *)
From Coq Require Import Reals List QArith.
From Coquelicot Require Import Coquelicot.
From Elfi Require Import Gen.C10_Gradient Num.Gp Num.GpGen
     Proofs.C10_Deriv Proofs.C10_Post Proofs.C10_Gen.
Import ListNotations.

(** ** 1. the gradient is the derivative of the log density (about the generated text) *)

(** For every threshold, every normal-like pdf/cdf pair (Phi' = phi, both positive) and every
    surrogate mean / predictive variance differentiable along the coordinate with positive variance:
    the translated gradient formula is the derivative of the translated log-likelihood. *)
Theorem C10_gradient_is_derivative :
  forall (phi Phi mu v dmu dv : R -> R) (t : R),
    (forall z, is_derive Phi z (phi z)) -> (forall z, 0 < Phi z)%R -> (forall z, 0 < phi z)%R ->
    forall x, is_derive mu x (dmu x) -> is_derive v x (dv x) -> (0 < v x)%R ->
      is_derive (fun x => loglik Phi t (mu x) (v x)) x (grad phi Phi t (mu x) (v x) (dmu x) (dv x)).
Proof. exact grad_is_derivative. Qed.
Print Assumptions C10_gradient_is_derivative.

(** The same with the predictive variance written as latent variance + constant noise variance. *)
Theorem C10_gradient_is_derivative_noise :
  forall (phi Phi mu v dmu dv : R -> R) (t sigma2 : R),
    (forall z, is_derive Phi z (phi z)) -> (forall z, 0 < Phi z)%R -> (forall z, 0 < phi z)%R ->
    forall x, is_derive mu x (dmu x) -> is_derive v x (dv x) -> (0 < v x + sigma2)%R ->
      is_derive (fun x => loglik Phi t (mu x) (v x + sigma2)) x
                (grad phi Phi t (mu x) (v x + sigma2) (dmu x) (dv x)).
Proof. exact grad_is_derivative_noise. Qed.
Print Assumptions C10_gradient_is_derivative_noise.

(** The translated gradient in chain-rule form (what the decidable spec [Gp.spec_grad_coord] evaluates). *)
Theorem C10_gradient_chain_rule_form :
  forall (phi Phi : R -> R) (t m v gm gv : R),
    (0 < v)%R -> (0 < phi ((t - m) / sqrt v))%R -> (0 < Phi ((t - m) / sqrt v))%R ->
    grad phi Phi t m v gm gv =
    (phi ((t - m) / sqrt v) / Phi ((t - m) / sqrt v) * (- gm / sqrt v - (t - m) * gv / (2 * sqrt v * v)))%R.
Proof. exact grad_chain_rule_form. Qed.
Print Assumptions C10_gradient_chain_rule_form.

(** Non-vacuity of the hypotheses above. *)
Theorem C10_gradient_hypotheses_satisfiable :
  exists (phi Phi mu v dmu dv : R -> R),
    (forall z, is_derive Phi z (phi z)) /\ (forall z, 0 < Phi z)%R /\ (forall z, 0 < phi z)%R /\
    (forall x, is_derive mu x (dmu x)) /\ (forall x, is_derive v x (dv x)) /\ (forall x, 0 < v x)%R.
Proof. exact grad_hypotheses_satisfiable. Qed.
Print Assumptions C10_gradient_hypotheses_satisfiable.

(** Cached fast path: dkdx = 2 factor (x - X) kx is the derivative of kx = rbf_var exp(r2 factor). *)
Theorem C10_rbf_dk_is_derivative :
  forall (kvar factor a c xj : R),
    is_derive (fun y => kvar * exp (((y - a) ^ 2 + c) * factor))%R xj
              (2 * factor * (xj - a) * (kvar * exp (((xj - a) ^ 2 + c) * factor)))%R.
Proof. exact rbf_dk_is_derivative. Qed.
Print Assumptions C10_rbf_dk_is_derivative.

(** The hand-written formula lines of the executable model are the generated ones. *)
Theorem C10_generated_is_model :
  forall t o gm gv,
    gradQ (fun _ => o_sd o) (fun _ => o_ratio o) (fun _ => o_pdf o) (fun _ => o_cdf o)
          (fun _ => o_logpdf o) (fun _ => o_logcdf o) t (o_mean o) (o_var o) gm gv = grad_coord t o gm gv
    /\ loglikQ (fun _ => o_sd o) (fun _ => o_logcdf o) t (o_mean o) (o_var o) = ll_value o.
Proof. intros; split; [apply gradQ_is_model | apply loglikQ_is_model]. Qed.
Print Assumptions C10_generated_is_model.

(** ** 2. -inf outside the bounds, log Phi + log prior inside *)
Local Open Scope Q_scope.

(** The coded fold over the coordinates accepts a point iff every coordinate lies in its closed interval. *)
Theorem C10_within_bounds_spec :
  forall x b, within_bounds x b = true <->
              forall xi lo hi, In (xi, (lo, hi)) (combine x b) -> lo <= xi /\ xi <= hi.
Proof. exact within_bounds_spec. Qed.
Print Assumptions C10_within_bounds_spec.

(** logpdf is -inf iff some coordinate is outside [lo, hi] (or the prior itself is -inf) ... *)
Theorem C10_logpdf_neginf_iff :
  forall b r, logpdf_row b r = NegInf <->
    (exists xi lo hi, In (xi, (lo, hi)) (combine (r_x r) b) /\ (xi < lo \/ hi < xi)) \/ r_lprior r = NegInf.
Proof. exact logpdf_row_neginf_iff. Qed.
Print Assumptions C10_logpdf_neginf_iff.

(** ... and otherwise log Phi((t - mean)/sd) + log prior. *)
Theorem C10_logpdf_inside :
  forall b r p,
    (forall xi lo hi, In (xi, (lo, hi)) (combine (r_x r) b) -> lo <= xi /\ xi <= hi) ->
    r_lprior r = Fin p -> logpdf_row b r = Fin (o_logcdf (r_orc r) + p).
Proof. exact logpdf_row_inside. Qed.
Print Assumptions C10_logpdf_inside.

(** A scalar (first row) is returned exactly for 0-d input, or 1-d input when dim > 1. *)
Theorem C10_shape_rule :
  forall (ndim dim : nat) (d : ext) rows,
    (exists a, shape_out ndim dim d rows = Scalar a) <-> (ndim = 0 \/ (ndim = 1 /\ 1 < dim))%nat.
Proof. intros. apply shape_out_scalar_iff. Qed.
Print Assumptions C10_shape_rule.

(** ** 3. adding evidence keeps all earlier evidence unchanged and in order *)

Theorem C10_update_keeps_prefix :
  forall (A : Type) (st : @evidence A) bs1 bs2,
    rows_of (final st (bs1 ++ bs2)) = rows_of (final st bs1) ++ concat bs2.
Proof. intros. apply updates_keep_prefix. Qed.
Print Assumptions C10_update_keeps_prefix.

Theorem C10_update_keeps_rows :
  forall (A : Type) (st : @evidence A) bs1 bs2 i row,
    nth_error (rows_of (final st bs1)) i = Some row ->
    nth_error (rows_of (final st (bs1 ++ bs2))) i = Some row.
Proof. intros A st bs1 bs2 i row. apply updates_keep_rows. Qed.
Print Assumptions C10_update_keeps_rows.

Theorem C10_n_evidence_counts :
  forall (A : Type) (st : @evidence A) bs,
    n_evidence (final st bs) = (n_evidence st + length (concat bs))%nat.
Proof. intros. apply n_evidence_counts. Qed.
Print Assumptions C10_n_evidence_counts.

(** ** 4. the decidable spec evaluated on the implementation's output is sound, and the model satisfies it *)

(** "the bounds" are the USER's bounds, parameter by parameter (GPyRegression.__init__ -> _within_bounds).
    The box the surrogate stores does not depend on the order in which the keys of the bounds dict were written ... *)
Theorem C10_box_order_independent :
  forall names d d', List.NoDup (map fst d) -> Permutation.Permutation d d' -> box_of names d = box_of names d'.
Proof. exact box_of_perm. Qed.
Print Assumptions C10_box_order_independent.

(** ... its coordinate i is the interval the dict binds to parameter_names[i] (one parameter: the only interval) ... *)
Theorem C10_box_by_name :
  forall names d bs, box_of names d = Some bs ->
    length bs = length names /\
    (length names <> 1%nat ->
     forall i n, nth_error names i = Some n -> exists iv, lookup d n = Some iv /\ nth_error bs i = Some iv) /\
    (length names = 1%nat -> bs = map snd d).
Proof. exact box_of_by_name. Qed.
Print Assumptions C10_box_by_name.

(** ... so the coded bounds test on that box accepts x iff EVERY parameter's coordinate lies in the closed interval
    the user gave for that parameter's NAME ... *)
Theorem C10_within_bounds_by_name :
  forall names d b x, box_of names d = Some b -> length names <> 1%nat -> length x = length names ->
    (within_bounds x b = true <->
     forall i n xi lo hi, nth_error names i = Some n -> nth_error x i = Some xi -> lookup d n = Some (lo, hi) ->
                          lo <= xi /\ xi <= hi).
Proof. exact within_bounds_named. Qed.
Print Assumptions C10_within_bounds_by_name.

(** ... and the model's log density and gradient are the same for every key order of the dict. *)
Theorem C10_posterior_order_independent :
  forall names d d' t r, List.NoDup (map fst d) -> Permutation.Permutation d d' ->
    forall b b', box_of names d = Some b -> box_of names d' = Some b' ->
      logpdf_row b r = logpdf_row b' r /\ gradpdf_row b t r = gradpdf_row b' t r.
Proof. exact posterior_order_independent. Qed.
Print Assumptions C10_posterior_order_independent.

(** The decidable spec on the implementation's output, read by parameter NAME: a row with some parameter outside
    the interval the dict gives for its name has logpdf -inf; a row with every parameter inside its own interval
    has logpdf = log Phi + log prior and the chain-rule gradient (within tol) -- [named_row_prop]. *)
Theorem C10_ok_sound :
  forall c, ok c = true ->
    match c with
    | PostCase p =>
        length (pc_impl_logpdf p) = length (pc_rows p) /\ length (pc_impl_grad p) = length (pc_rows p) /\
        forall i r lp g, nth_error (pc_rows p) i = Some r -> nth_error (pc_impl_logpdf p) i = Some lp ->
                         nth_error (pc_impl_grad p) i = Some g ->
                         named_row_prop (pc_names p) (pc_dict p) (pc_t p) r lp g
    | EvCase e =>
        map fst (ec_snaps e) = map rows_of (run_updates None (ec_batches e))
        /\ List.Forall (fun s => length (fst s) = snd s) (ec_snaps e)
    end.
Proof. intros c H; destruct c as [p|e]. - exact (post_ok_sound _ H). - exact (ev_ok_sound _ H). Qed.
Print Assumptions C10_ok_sound.

(** The model's own output (its box = [box_of parameter_names dict]) passes that by-name spec for every key order. *)
Theorem C10_model_ok_by_name :
  forall names d b t dim rows,
    box_of names d = Some b -> length names <> 1%nat -> length names = dim ->
    List.Forall (fun r => length (r_x r) = dim) rows ->
    List.Forall (fun r => o_var (r_orc r) == o_sd (r_orc r) * o_sd (r_orc r) /\ ~ o_sd (r_orc r) == 0) rows ->
    forall ndim ibs ill igl,
    ok (PostCase {| pc_dim := dim; pc_ndim := ndim; pc_names := names; pc_dict := d; pc_impl_bounds := ibs; pc_t := t;
               pc_rows := rows; pc_impl_ll := ill; pc_impl_gl := igl;
               pc_impl_logpdf := map (fun r => to_obs (logpdf_row b r)) rows;
               pc_impl_grad := map (fun r => map Some (gradpdf_row b t r)) rows |}) = true.
Proof. exact post_model_ok. Qed.
Print Assumptions C10_model_ok_by_name.

Theorem C10_model_ok :
  (forall b t rows,
     List.Forall (fun r => o_var (r_orc r) == o_sd (r_orc r) * o_sd (r_orc r) /\ ~ o_sd (r_orc r) == 0) rows ->
     rows_ok b t rows (map (fun r => to_obs (logpdf_row b r)) rows)
             (map (fun r => map Some (gradpdf_row b t r)) rows) = true)
  /\ (forall bs, ev_ok {| ec_batches := bs;
                         ec_snaps := map (fun m => (rows_of m, n_evidence m)) (run_updates (@None (list erow)) bs) |} = true).
Proof. split; [exact rows_model_ok | exact ev_model_ok]. Qed.
Print Assumptions C10_model_ok.

(** Non-vacuity: a 2-d box, a point on a bound (inside), one outside, an evidence history. *)
Example C10_example_bounds :
  within_bounds [1; 3#2] [(0, 1); (1, 2)] = true /\ within_bounds [1; 5#2] [(0, 1); (1, 2)] = false
  /\ outside [1; 5#2] [(0, 1); (1, 2)] = true.
Proof. vm_compute. repeat split. Qed.

(** a bounds dict written in another key order than parameter_names, with different intervals: the box is by name;
    (3/2, 1/2) is inside the user's box (a in [0,2], b in [-1,1]) and would be outside the positional one *)
Example C10_example_named_box :
  let a := String.String (Ascii.ascii_of_nat 97) String.EmptyString in
  let b := String.String (Ascii.ascii_of_nat 98) String.EmptyString in
  box_of [a; b] [(b, (-(1), 1)); (a, (0, 2))] = Some [(0, 2); (-(1), 1)]
  /\ box_of [a; b] [(a, (0, 2)); (b, (-(1), 1))] = Some [(0, 2); (-(1), 1)]
  /\ within_bounds [3#2; 1#2] [(0, 2); (-(1), 1)] = true /\ within_bounds [3#2; 1#2] [(-(1), 1); (0, 2)] = false
  /\ box_of [a; b] [(a, (0, 2))] = None.
Proof. vm_compute. repeat split. Qed.

Example C10_example_evidence :
  map rows_of (run_updates None [[1; 2]; [3]; [4; 5]]%nat) = [[1; 2]; [1; 2; 3]; [1; 2; 3; 4; 5]]%nat.
Proof. reflexivity. Qed.

(** ** 5. algebra of the cached-RBF fast path (mathcomp; over any commutative ring) *)
From mathcomp Require Import all_ssreflect all_algebra.
From Elfi Require Import Num.GpMx Proofs.C10_Mx.
Import GRing.Theory.
Local Open Scope ring_scope.

(** r2 as coded (|x|^2 + |X_i|^2 - 2 x.X_i) is the squared distance |x - X_i|^2, for every evidence row. *)
Theorem C10_fast_r2 :
  forall (R : comRingType) (n d : nat) (x : 'rV[R]_d) (X : 'M[R]_(n, d)), r2_fast x X = r2_def x X.
Proof. exact r2_fastE. Qed.
Print Assumptions C10_fast_r2.

Theorem C10_sqnorm_sub :
  forall (R : comRingType) (d : nat) (x y : 'rV[R]_d),
    sqnorm (x - y) = sqnorm x + sqnorm y - 2%:R * dot x y.
Proof. exact sqnorm_sub. Qed.
Print Assumptions C10_sqnorm_sub.

(** predict: the coded variance equals k** - |L^-1 k^T|^2 + sigma2 whenever W = L^-T L^-1. *)
Theorem C10_fast_variance :
  forall (R : comRingType) (n : nat) (kss noise : R) (k : 'rV[R]_n) (W Linv : 'M[R]_n),
    W = Linv^T *m Linv ->
    var_fast kss noise k W = var_W kss noise k W /\ var_fast kss noise k W = var_chol kss noise k Linv.
Proof. move=> R n kss noise k W Linv HW; split; [exact: var_fastE | exact: var_fast_chol]. Qed.
Print Assumptions C10_fast_variance.

(** predictive_gradients: with v, dv the solutions of the triangular systems and W = L^-T L^-1,
    the coded -2 (dv^T v)^T is -2 k W dk ... *)
Theorem C10_fast_variance_gradient :
  forall (R : comRingType) (n d : nat) (L Linv W : 'M[R]_n) (k : 'rV[R]_n) (dk : 'M[R]_(n, d))
         (v : 'cV[R]_n) (dv : 'M[R]_(n, d)),
    Linv *m L = 1%:M -> L *m v = k^T -> L *m dv = dk -> W = Linv^T *m Linv ->
    gradvar_fast v dv = gradvar_def k W dk.
Proof. move=> R n d L Linv W k dk v dv; exact: gradvar_fastE. Qed.
Print Assumptions C10_fast_variance_gradient.

(** ... which is the first-order part of the quadratic form the variance subtracts (W symmetric). *)
Theorem C10_variance_first_order :
  forall (R : comRingType) (n : nat) (W : 'M[R]_n) (k h : 'rV[R]_n),
    W^T = W -> qform W (k + h) = qform W k + 2%:R *: (h *m W *m k^T) + qform W h.
Proof. move=> R n W k h; exact: qform_expand. Qed.
Print Assumptions C10_variance_first_order.

Theorem C10_variance_gradient_column :
  forall (R : comRingType) (n d : nat) (W : 'M[R]_n) (k : 'rV[R]_n) (dk : 'M[R]_(n, d)) (j : 'I_d),
    W^T = W -> (gradvar_def k W dk) 0 j = (- 2%:R *: ((col j dk)^T *m W *m k^T)) 0 0.
Proof. move=> R n d W k dk j; exact: gradvar_def_col. Qed.
Print Assumptions C10_variance_gradient_column.

(** mean: linear in kx; the coded gradient (dkdx^T alpha)^T is alpha^T dkdx. *)
Theorem C10_fast_mean_gradient :
  forall (R : comRingType) (n d : nat) (k h : 'rV[R]_n) (alpha : 'cV[R]_n) (dk : 'M[R]_(n, d)),
    mean_fast (k + h) alpha = mean_fast k alpha + mean_fast h alpha
    /\ gradmean_fast dk alpha = gradmean_def dk alpha.
Proof. move=> R n d k h alpha dk; split; [exact: mean_fast_linear | exact: gradmean_fastE]. Qed.
Print Assumptions C10_fast_mean_gradient.
