(** C07 — SMC-ABC populations satisfy thresholds, prior support and importance weights.
    Model: Sched/Smc.v (round structure over the scheduler and one rejection sampler per round).
    Proofs: Proofs/C07_Smc.v (with C01 and C04). *)
From Coq Require Import List ZArith QArith Qabs Arith Bool PrimFloat.
From Elfi Require Import Sched.Sched Sched.Reject Sched.Smc Proofs.C01_Reject Proofs.C07_Smc Proofs.C07_Weights Proofs.C07_ModelOk.
From Elfi Require Num.Quantile.
Import ListNotations.
Local Close Scope Q_scope.

(** Within a round the proposals handed to batch i do not depend on when it is submitted; hence
    (C04) every worker schedule and every max_parallel_batches give the sequential result. *)
Theorem C07_smc_schedule_independent :
  forall (P : Type) (proposal : nat -> nat -> P) (compute : nat -> P -> list draw) maxp fuel s0 orc sf n,
    1 <= maxp -> sseq P proposal compute fuel s0 = Some (sf, n) ->
    exists s' tr', sinfer P proposal compute fuel maxp s0 orc = inl (s', tr') /\ st s' = sf /\ pending s' = [] /\
                   trace_ok maxp tr' = Some n.
Proof. exact smc_schedule_independent. Qed.
Print Assumptions C07_smc_schedule_independent.

(** The reported number of batches / simulations is the total consumed over all rounds. *)
Theorem C07_totals_over_rounds :
  forall table fuel n b maxp rounds sf k,
    seq_run sstate (list draw) unit sobjective sconsumed (sprepare unit (fun _ _ => tt)) (fun i _ => nth i table []) supdate
            fuel (sinit n b maxp rounds) 0 = Some (sf, k) ->
    m_total sf = sum_batches (all_populations sf) /\ m_total sf * m_b sf = sum_sims (all_populations sf).
Proof. exact smc_totals. Qed.
Print Assumptions C07_totals_over_rounds.

(** Every returned population is the result of a rejection round run with that round's threshold. *)
Theorem C07_population_is_rejection_round :
  forall table fuel n b maxp rounds sf k,
    Forall (fun batch => length batch <= b) table ->
    seq_run sstate (list draw) unit sobjective sconsumed (sprepare unit (fun _ _ => tt)) (fun i _ => nth i table []) supdate
            fuel (sinit n b maxp rounds) 0 = Some (sf, k) ->
    forall r p, nth_error (all_populations sf) r = Some p ->
      pop_of_round n b (nth r rounds (RThreshold PInf)) p.
Proof. exact smc_populations. Qed.
Print Assumptions C07_population_is_rejection_round.

(** ... so every particle's discrepancy is within the threshold in force for its round, *)
Theorem C07_particles_within_threshold :
  forall n b spec p t, pop_of_round n b spec p -> round_threshold spec = Some t ->
    forall d, In (Some d) (p_rows p) -> dle (d_disc d) t = true.
Proof. exact smc_particles_within_threshold. Qed.
Print Assumptions C07_particles_within_threshold.

(** ... and its rows are in ascending discrepancy order, at most n_samples of them. *)
Theorem C07_population_rows :
  forall n b spec p, pop_of_round n b spec p -> ascending (p_rows p) = true /\ length (p_rows p) <= n.
Proof. exact smc_population_rows. Qed.
Print Assumptions C07_population_rows.

(** A rejection state reached by consuming batches satisfies the C01 buffer invariant. *)
Theorem C07_round_invariant :
  forall n b thr r consumed, Reach n b thr r consumed -> RInv n b (bufof r) (filter (accepts thr) consumed).
Proof. exact Reach_RInv. Qed.
Print Assumptions C07_round_invariant.

(** Non-vacuity: two rounds (thresholds 3 then 1), population size 2, batch size 2. *)
Definition dq (z : Z) (c : N) : draw := {| d_disc := Fin z; d_code := c |}.
Example C07_example :
  let table := [[dq 2 0; dq 5 1]; [dq 3 2; dq 4 3]; [dq 1 4; dq 2 5]; [dq 0 6; dq 1 7]] in
  match seq_run sstate (list draw) unit sobjective sconsumed (sprepare unit (fun _ _ => tt)) (fun i _ => nth i table []) supdate
                10 (sinit 2 2 1 [RThreshold (Fin 3); RThreshold (Fin 1)]) 0 with
  | Some (s, k) =>
      Nat.eqb k 4 && Nat.eqb (length (all_populations s)) 2
      && forallb (fun p => Nat.eqb (length (p_rows p)) 2) (all_populations s)
      && Nat.eqb (sum_sims (all_populations s)) 8
  | None => false
  end = true.
Proof. vm_compute. reflexivity. Qed.

(** ---- prior support, importance weights, proposal covariance (numeric clauses) ----
    The mixture density and the weighted variance are the C13 models of GMDistribution.pdf and
    weighted_var; prior densities and normal component densities are oracle tables.  All
    comparisons are purely relative, so no statement depends on the units of a parameter. *)

(** A later weight, as the code computes it, is prior density / density of the Gaussian mixture
    centred on the previous population with that population's weights ... *)
Theorem C07_weight_is_prior_over_mixture :
  forall prior dens wprev w, model_weight prior dens wprev = Some w -> (w == spec_weight prior dens wprev)%Q.
Proof. exact smc_weight_spec. Qed.
Print Assumptions C07_weight_is_prior_over_mixture.

(** ... and depends on the previous (unnormalised) weights only through their ratios. *)
Theorem C07_weight_scale_invariant :
  forall c prior dens wprev w, (0 < c)%Q -> model_weight prior dens wprev = Some w ->
    exists w', model_weight prior dens (map (Qmult c) wprev) = Some w' /\ (w == w')%Q.
Proof. exact smc_weight_scale_invariant. Qed.
Print Assumptions C07_weight_scale_invariant.

(** The stored covariance entry of a coordinate is twice its weighted sample variance
    (reliability weights), whatever the common factor of the weights. *)
Theorem C07_cov_is_twice_weighted_variance :
  forall col ws v, model_cov col ws = Some v -> (v == 2 * Quantile.spec_var (combine col ws))%Q.
Proof. exact smc_cov_spec. Qed.
Print Assumptions C07_cov_is_twice_weighted_variance.

Theorem C07_cov_scale_invariant :
  forall c col ws v v', ~ (c == 0)%Q -> model_cov col ws = Some v -> model_cov col (map (Qmult c) ws) = Some v' -> (v == v')%Q.
Proof. exact smc_cov_scale_invariant. Qed.
Print Assumptions C07_cov_scale_invariant.

(** Soundness of the decidable numeric statement evaluated on the implementation's populations:
    every particle has positive prior density, weights are finite and non-negative, the first
    population's weights are 1, a later weight is (relative tolerance 1e-8) prior / mixture of the
    previous population with ITS weights. *)
Theorem C07_num_ok_sound :
  forall n ps i p, num_ok n ps = true -> nth_error ps i = Some p ->
    Forall (fun b => b = true) (q_support p) /\
    exists ws, finite_weights p = Some ws /\ Forall (Qle 0) ws /\
      match prev_weights ps i with
      | None => i = O -> Forall (fun w => (w == 1)%Q) ws
      | Some wprev =>
          forall k w prior dens,
            nth_error ws k = Some w -> nth_error (q_prior p) k = Some (Some prior) -> nth_error (q_dens p) k = Some dens ->
            (Qabs (spec_weight prior dens wprev - w) <= weight_tol * Qabs (spec_weight prior dens wprev))%Q
      end.
Proof. exact num_ok_sound. Qed.
Print Assumptions C07_num_ok_sound.

(** ... and the covariance is diagonal with entry (k, k) = 2 x weighted sample variance of
    coordinate k within the conditioning-aware relative tolerance, whenever that variance is
    defined and estimable in binary64 (allowance below 1). *)
Theorem C07_num_ok_cov_sound :
  forall n ps i p ws k j row e,
    num_ok n ps = true -> nth_error ps i = Some p -> finite_weights p = Some ws ->
    Quantile.var_defined (combine (nth 0 (q_cols p) []) ws) = true -> Qle_bool 1 (cov_tol ws) = false ->
    nth_error (q_cov p) k = Some row -> nth_error row j = Some e ->
    exists c, e = Some c /\
      if (j =? k)%nat
      then (Qabs (spec_cov (nth k (q_cols p) []) ws - c) <= cov_tol ws * Qabs (spec_cov (nth k (q_cols p) []) ws))%Q
      else (c == 0)%Q.
Proof. exact num_ok_cov_sound. Qed.
Print Assumptions C07_num_ok_cov_sound.

(** The model's own numbers satisfy the statement for every non-negative tolerance. *)
Theorem C07_model_weight_ok :
  forall tol prior dens wprev w, (0 <= tol)%Q -> model_weight prior dens wprev = Some w ->
    rel_close tol (spec_weight prior dens wprev) w = true.
Proof. exact model_weight_ok. Qed.
Print Assumptions C07_model_weight_ok.

Theorem C07_model_cov_ok :
  forall tol col ws v, (0 <= tol)%Q -> model_cov col ws = Some v -> rel_close tol (spec_cov col ws) v = true.
Proof. exact model_cov_ok. Qed.
Print Assumptions C07_model_cov_ok.

(** Non-vacuity: two populations of a parameter living on the scale 1e-6 (second population's
    weights computed by the model from oracle tables); the same data with an absolute floor of
    1e-6 on the variance, or with a particle outside the support, is rejected. *)
Definition ex_pop0 : npop :=
  {| q_support := [true; true; true]; q_prior := [Some (500000 # 1); Some (500000 # 1); Some (500000 # 1)]%Q;
     q_cols := [[1 # 1000000; 3 # 2000000; 1 # 2000000]]%Q; q_weights := [Some 1; Some 1; Some 1]%Q;
     q_cov := [[Some (1 # 2000000000000)]]%Q; q_dens := [] |}.
Definition ex_pop1 (c : Q) (s : bool) : npop :=
  {| q_support := [true; s]; q_prior := [Some (500000 # 1); Some (500000 # 1)]%Q;
     q_cols := [[1 # 1000000; 1 # 2000000]]%Q; q_weights := [Some (5 # 4); Some (5 # 6)]%Q;
     q_cov := [[Some c]]; q_dens := [[500000 # 1; 400000 # 1; 300000 # 1]; [300000 # 1; 600000 # 1; 900000 # 1]]%Q |}.
Example C07_numeric_example :
  num_ok 3 [ex_pop0] = true /\ num_agree [ex_pop0] = true
  /\ over_pops (fun prev p => npop_ok (length (q_support p)) prev p) None [ex_pop0; ex_pop1 (1 # 4000000000000)%Q true] = true
  /\ num_agree [ex_pop0; ex_pop1 (1 # 4000000000000)%Q true] = true
  /\ over_pops (fun prev p => npop_ok (length (q_support p)) prev p) None [ex_pop0; ex_pop1 (2 # 1000000)%Q true] = false
  /\ over_pops (fun prev p => npop_ok (length (q_support p)) prev p) None [ex_pop0; ex_pop1 (1 # 4000000000000)%Q false] = false.
Proof. vm_compute. repeat split; reflexivity. Qed.

(** ---- non-vacuity of the hypotheses (audit) ---- *)
(** the two-round run of [C07_example] (thresholds 3 then 1, draws 5 and 4 rejected in round 0):
    hypotheses of [C07_smc_schedule_independent] (with 2 parallel batches), [C07_totals_over_rounds],
    [C07_population_is_rejection_round], [C07_particles_within_threshold], [C07_population_rows] *)
Definition C07_nv_table : list (list draw) :=
  [[dq 2 0; dq 5 1]; [dq 3 2; dq 4 3]; [dq 1 4; dq 2 5]; [dq 0 6; dq 1 7]].
Definition C07_nv_rounds : list round_spec := [RThreshold (Fin 3); RThreshold (Fin 1)].
Definition C07_nv_run (maxp : nat) : option (sstate * nat) :=
  seq_run sstate (list draw) unit sobjective sconsumed (sprepare unit (fun _ _ => tt))
          (fun i _ => nth i C07_nv_table []) supdate 10 (sinit 2 2 maxp C07_nv_rounds) 0.

Example C07_smc_schedule_independent_nonvacuous :
  1 <= 2 /\ exists sf, sseq unit (fun _ _ => tt) (fun i _ => nth i C07_nv_table []) 10 (sinit 2 2 2 C07_nv_rounds) = Some (sf, 4)
                       /\ length (all_populations sf) = 2.
Proof.
  split; [repeat constructor|].
  pose (r := C07_nv_run 2). assert (E : C07_nv_run 2 = r) by reflexivity. vm_compute in r.
  match eval unfold r in r with Some (?s, _) => exists s end.
  split; [exact E | vm_compute; reflexivity].
Qed.

Example C07_population_nonvacuous :
  exists sf k p, C07_nv_run 1 = Some (sf, k) /\ Forall (fun batch => length batch <= 2) C07_nv_table
    /\ nth_error (all_populations sf) 0 = Some p
    /\ pop_of_round 2 2 (RThreshold (Fin 3)) p
    /\ round_threshold (RThreshold (Fin 3)) = Some (Fin 3)
    /\ In (Some (dq 3 2)) (p_rows p) /\ In (Some (dq 2 0)) (p_rows p) /\ p_n_sim p = 4.
Proof.
  pose (r := C07_nv_run 1). assert (E : C07_nv_run 1 = r) by reflexivity. vm_compute in r.
  assert (HT : Forall (fun batch => length batch <= 2) C07_nv_table)
    by (repeat (apply Forall_cons; [simpl; repeat constructor|]); apply Forall_nil).
  match eval unfold r in r with Some (?s, ?k) =>
    pose (sf := s); exists sf, k; fold sf in r end.
  pose (p := nth 0 (all_populations sf) (pop_of (m_rej sf))). vm_compute in p.
  exists p.
  assert (Hn : nth_error (all_populations sf) 0 = Some p) by (vm_compute; reflexivity).
  split; [exact E|]. split; [exact HT|]. split; [exact Hn|].
  split; [exact (C07_population_is_rejection_round C07_nv_table 10 2 2 1 C07_nv_rounds sf _ HT E 0 p Hn)|].
  split; [reflexivity|].
  split; [vm_compute; right; left; reflexivity|].
  split; [vm_compute; left; reflexivity|]. vm_compute; reflexivity.
Qed.

(** [C07_round_invariant]: a rejection state that has consumed one batch *)
Example C07_round_invariant_nonvacuous :
  Reach 2 2 (Some (Fin 3)) (fst (rupdate (rinit 2 2 (Some (Fin 3)) 1) [dq 2 0; dq 5 1] 0)) ([] ++ [dq 2 0; dq 5 1]).
Proof. apply Reach_step; [apply Reach_init | simpl; repeat constructor]. Qed.

(** numeric clauses: [C07_weight_is_prior_over_mixture], [C07_weight_scale_invariant],
    [C07_cov_is_twice_weighted_variance], [C07_cov_scale_invariant], [C07_model_weight_ok],
    [C07_model_cov_ok] *)
Example C07_weight_cov_nonvacuous :
  (0 < 3)%Q /\ ~ (3 == 0)%Q /\ (0 <= 1 # 1000)%Q
  /\ model_weight (500000 # 1) [500000 # 1; 400000 # 1; 300000 # 1]%Q [1; 1; 1]%Q = Some (5 # 4)%Q
  /\ model_weight (500000 # 1) [500000 # 1; 400000 # 1; 300000 # 1]%Q (map (Qmult 3) [1; 1; 1]%Q) = Some (5 # 4)%Q
  /\ model_cov [3; 1; 2; 2]%Q [1; 1; 0; 2]%Q = Some (8 # 5)%Q
  /\ model_cov [3; 1; 2; 2]%Q (map (Qmult 3) [1; 1; 0; 2]%Q) = Some (8 # 5)%Q.
Proof.
  split; [vm_compute; reflexivity|].
  split; [intro HH; vm_compute in HH; discriminate HH|].
  split; [apply Qle_bool_imp_le; vm_compute; reflexivity|].
  repeat split; vm_compute; reflexivity.
Qed.

(** [C07_num_ok_sound] on a LATER population (branch [prev_weights = Some _]) and
    [C07_num_ok_cov_sound] with two parameters (diagonal and off-diagonal entries): two populations of
    three particles, the second one's weights 5/4, 5/6, 1 = prior / mixture of the first *)
Definition C07_nv_pop0 : npop :=
  {| q_support := [true; true; true]; q_prior := [Some (500000 # 1); Some (500000 # 1); Some (500000 # 1)]%Q;
     q_cols := [[1 # 1000000; 3 # 2000000; 1 # 2000000]; [40; 10; 30]]%Q; q_weights := [Some 1; Some 1; Some 1]%Q;
     q_cov := [[Some (1 # 2000000000000); Some 0]; [Some 0; Some (1400 # 3)]]%Q; q_dens := [] |}.
Definition C07_nv_pop1 : npop :=
  {| q_support := [true; true; true]; q_prior := [Some (500000 # 1); Some (500000 # 1); Some (500000 # 1)]%Q;
     q_cols := [[1 # 1000000; 1 # 2000000; 3 # 2000000]; [20; 30; 10]]%Q;
     q_weights := [Some (5 # 4); Some (5 # 6); Some 1]%Q;
     q_cov := [[Some (9 # 20000000000000); Some 0]; [Some 0; Some 180]]%Q;
     q_dens := [[500000 # 1; 400000 # 1; 300000 # 1]; [300000 # 1; 600000 # 1; 900000 # 1];
                [500000 # 1; 500000 # 1; 500000 # 1]]%Q |}.

Example C07_num_ok_nonvacuous :
  let ps := [C07_nv_pop0; C07_nv_pop1] in
  let ws := [5 # 4; 5 # 6; 1]%Q in
  num_ok 3 ps = true /\ num_agree ps = true
  /\ nth_error ps 1 = Some C07_nv_pop1 /\ prev_weights ps 1 = Some [1; 1; 1]%Q
  /\ finite_weights C07_nv_pop1 = Some ws
  /\ Quantile.var_defined (combine (nth 0 (q_cols C07_nv_pop1) []) ws) = true
  /\ Qle_bool 1 (cov_tol ws) = false
  /\ nth_error (q_cov C07_nv_pop1) 1 = Some [Some 0; Some 180]%Q
  /\ nth_error [Some 0; Some 180]%Q 0 = Some (Some 0%Q) /\ nth_error [Some 0; Some 180]%Q 1 = Some (Some 180%Q)
  /\ (** a wrong later weight, and a non-zero off-diagonal entry, are refused *)
     num_ok 3 [C07_nv_pop0;
               {| q_support := q_support C07_nv_pop1; q_prior := q_prior C07_nv_pop1; q_cols := q_cols C07_nv_pop1;
                  q_weights := [Some (5 # 4); Some (5 # 6); Some (11 # 10)]%Q; q_cov := q_cov C07_nv_pop1;
                  q_dens := q_dens C07_nv_pop1 |}] = false
  /\ num_ok 3 [C07_nv_pop0;
               {| q_support := q_support C07_nv_pop1; q_prior := q_prior C07_nv_pop1; q_cols := q_cols C07_nv_pop1;
                  q_weights := q_weights C07_nv_pop1;
                  q_cov := [[Some (9 # 20000000000000); Some (1 # 1000000)]; [Some 0; Some 180]]%Q;
                  q_dens := q_dens C07_nv_pop1 |}] = false.
Proof. cbv zeta. repeat split; vm_compute; reflexivity. Qed.

(** ---- the model's OWN populations pass the check (Proofs/C07_ModelOk.v) ----
    [with_run c s]: the case [c] with the implementation's populations and n_sim replaced by those of the
    model's final state [s]; [sched_ok]: the scheduling / population clauses of [Smc.ok] (everything but
    the numeric clauses, [C07_ok_split]); [full_pops n ps]: row n_samples of every population holds a draw. *)
Theorem C07_ok_split :
  forall c, Smc.ok c = sched_ok c && (Nat.eqb (length (v_num c)) (length (v_pops c)) && num_ok (v_n c) (v_num c)).
Proof. exact ok_split. Qed.
Print Assumptions C07_ok_split.

(** a round that accepted at least n_samples draws ends with row n_samples holding a draw *)
Theorem C07_enough_accepted_full :
  forall n b thr rj consumed,
    0 < n -> Reach n b thr rj consumed -> n <= length (filter (accepts thr) consumed) ->
    row_filled n (pop_of rj) = true.
Proof. exact enough_accepted_full. Qed.
Print Assumptions C07_enough_accepted_full.

Theorem C07_model_sched_ok :
  forall c s,
    v_rounds c <> [] ->
    0 < v_n c ->
    Forall (fun batch => length batch <= v_b c) (v_table c) ->
    model_run c = Some s ->
    m_total s = length (v_table c) ->
    full_pops (v_n c) (all_populations s) = true ->
    sched_ok (with_run c s) = true.
Proof. exact model_sched_ok. Qed.
Print Assumptions C07_model_sched_ok.

Theorem C07_model_ok :
  forall c s,
    v_rounds c <> [] ->
    0 < v_n c ->
    Forall (fun batch => length batch <= v_b c) (v_table c) ->
    model_run c = Some s ->
    m_total s = length (v_table c) ->
    full_pops (v_n c) (all_populations s) = true ->
    length (v_num c) = length (v_rounds c) ->
    num_ok (v_n c) (v_num c) = true ->
    Smc.ok (with_run c s) = true.
Proof. exact C07_ModelOk.model_ok. Qed.
Print Assumptions C07_model_ok.

(** an implementation that agrees with the model has the property *)
Theorem C07_agree_ok :
  forall c s,
    v_rounds c <> [] ->
    0 < v_n c ->
    Forall (fun batch => length batch <= v_b c) (v_table c) ->
    model_run c = Some s ->
    m_total s = length (v_table c) ->
    full_pops (v_n c) (all_populations s) = true ->
    length (v_num c) = length (v_rounds c) ->
    num_ok (v_n c) (v_num c) = true ->
    Smc.agree c = true -> Smc.ok c = true.
Proof. exact C07_ModelOk.agree_ok. Qed.
Print Assumptions C07_agree_ok.

(** the same with every hypothesis read off the implementation's own answer *)
Theorem C07_agree_sched_ok :
  forall c,
    v_rounds c <> [] ->
    0 < v_n c ->
    Forall (fun batch => length batch <= v_b c) (v_table c) ->
    v_n_sim c = v_b c * length (v_table c) -> 0 < v_b c ->
    full_pops (v_n c) (v_pops c) = true ->
    Smc.agree c = true -> sched_ok c = true.
Proof. exact agree_sched_ok. Qed.
Print Assumptions C07_agree_sched_ok.

(** the two-round run of [C07_example] with the numeric side of [C07_num_ok_nonvacuous] (population size 3):
    every hypothesis of [C07_model_ok] holds and the model's own answer passes the whole of [Smc.ok] *)
Example C07_model_ok_example :
  let c := {| v_n := 3; v_b := 2; v_maxp := 1; v_rounds := [RThreshold (Fin 3); RThreshold (Fin 1)];
              v_table := [[dq 2 0; dq 5 1]; [dq 3 2; dq 3 3]; [dq 1 4; dq 2 5]; [dq 0 6; dq 1 7]];
              v_pops := []; v_n_sim := 0; v_num := [C07_nv_pop0; C07_nv_pop1] |} in
  match model_run c with
  | Some s => Nat.eqb (m_total s) (length (v_table c)) && full_pops (v_n c) (all_populations s)
              && Nat.eqb (length (v_num c)) (length (v_rounds c)) && num_ok (v_n c) (v_num c)
              && forallb (fun batch => Nat.leb (length batch) (v_b c)) (v_table c)
              && Smc.ok (with_run c s) && Smc.agree (with_run c s) && negb (Smc.ok c)
  | None => false
  end = true.
Proof. vm_compute. reflexivity. Qed.
