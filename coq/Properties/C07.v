(** C07 — SMC-ABC populations satisfy thresholds, prior support and importance weights.
    Model: Sched/Smc.v (round structure over the scheduler and one rejection sampler per round).
    Proofs: Proofs/C07_Smc.v (with C01 and C04). *)
From Coq Require Import List ZArith Arith Bool PrimFloat.
From Elfi Require Import Sched.Sched Sched.Reject Sched.Smc Proofs.C01_Reject Proofs.C07_Smc.
Import ListNotations.

(** Within a round the proposals handed to batch i do not depend on when it is submitted; hence
    (C04) every worker schedule and every max_parallel_batches give the sequential result. *)
Theorem C07_smc_schedule_independent :
  forall (P : Type) (proposal : nat -> nat -> P) (compute : nat -> P -> list draw) maxp fuel s0 orc sf n,
    1 <= maxp -> sseq P proposal compute fuel s0 = Some (sf, n) ->
    exists s' tr', sinfer P proposal compute fuel maxp s0 orc = inl (s', tr') /\ st s' = sf /\ pending s' = [] /\
                   trace_ok maxp tr' = Some n.
Proof. exact smc_schedule_independent. Qed.
Print Assumptions C07_smc_schedule_independent.

(** The reported number of batches / simulations is the total consumed over all rounds. *)
Theorem C07_totals_over_rounds :
  forall table fuel n b maxp rounds sf k,
    seq_run sstate (list draw) unit sobjective sconsumed (sprepare unit (fun _ _ => tt)) (fun i _ => nth i table []) supdate
            fuel (sinit n b maxp rounds) 0 = Some (sf, k) ->
    m_total sf = sum_batches (all_populations sf) /\ m_total sf * m_b sf = sum_sims (all_populations sf).
Proof. exact smc_totals. Qed.
Print Assumptions C07_totals_over_rounds.

(** Every returned population is the result of a rejection round run with that round's threshold. *)
Theorem C07_population_is_rejection_round :
  forall table fuel n b maxp rounds sf k,
    Forall (fun batch => length batch <= b) table ->
    seq_run sstate (list draw) unit sobjective sconsumed (sprepare unit (fun _ _ => tt)) (fun i _ => nth i table []) supdate
            fuel (sinit n b maxp rounds) 0 = Some (sf, k) ->
    forall r p, nth_error (all_populations sf) r = Some p ->
      pop_of_round n b (nth r rounds (RThreshold PInf)) p.
Proof. exact smc_populations. Qed.
Print Assumptions C07_population_is_rejection_round.

(** ... so every particle's discrepancy is within the threshold in force for its round, *)
Theorem C07_particles_within_threshold :
  forall n b spec p t, pop_of_round n b spec p -> round_threshold spec = Some t ->
    forall d, In (Some d) (p_rows p) -> dle (d_disc d) t = true.
Proof. exact smc_particles_within_threshold. Qed.
Print Assumptions C07_particles_within_threshold.

(** ... and its rows are in ascending discrepancy order, at most n_samples of them. *)
Theorem C07_population_rows :
  forall n b spec p, pop_of_round n b spec p -> ascending (p_rows p) = true /\ length (p_rows p) <= n.
Proof. exact smc_population_rows. Qed.
Print Assumptions C07_population_rows.

(** A rejection state reached by consuming batches satisfies the C01 buffer invariant. *)
Theorem C07_round_invariant :
  forall n b thr r consumed, Reach n b thr r consumed -> RInv n b (bufof r) (filter (accepts thr) consumed).
Proof. exact Reach_RInv. Qed.
Print Assumptions C07_round_invariant.

(** Non-vacuity: two rounds (thresholds 3 then 1), population size 2, batch size 2. *)
Definition dq (z : Z) (c : N) : draw := {| d_disc := Fin z; d_code := c |}.
Example C07_example :
  let table := [[dq 2 0; dq 5 1]; [dq 3 2; dq 4 3]; [dq 1 4; dq 2 5]; [dq 0 6; dq 1 7]] in
  match seq_run sstate (list draw) unit sobjective sconsumed (sprepare unit (fun _ _ => tt)) (fun i _ => nth i table []) supdate
                10 (sinit 2 2 1 [RThreshold (Fin 3); RThreshold (Fin 1)]) 0 with
  | Some (s, k) =>
      Nat.eqb k 4 && Nat.eqb (length (all_populations s)) 2
      && forallb (fun p => Nat.eqb (length (p_rows p)) 2) (all_populations s)
      && Nat.eqb (sum_sims (all_populations s)) 8
  | None => false
  end = true.
Proof. vm_compute. reflexivity. Qed.
