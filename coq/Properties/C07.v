(** C07 — SMC-ABC populations satisfy thresholds, prior support and importance weights.
    Model: Sched/Smc.v (round structure over the scheduler and one rejection sampler per round).
    Proofs: Proofs/C07_Smc.v (with C01 and C04). *)
From Coq Require Import List ZArith QArith Qabs Arith Bool PrimFloat.
From Elfi Require Import Sched.Sched Sched.Reject Sched.Smc Proofs.C01_Reject Proofs.C07_Smc Proofs.C07_Weights.
From Elfi Require Num.Quantile.
Import ListNotations.
Local Close Scope Q_scope.

(** Within a round the proposals handed to batch i do not depend on when it is submitted; hence
    (C04) every worker schedule and every max_parallel_batches give the sequential result. *)
Theorem C07_smc_schedule_independent :
  forall (P : Type) (proposal : nat -> nat -> P) (compute : nat -> P -> list draw) maxp fuel s0 orc sf n,
    1 <= maxp -> sseq P proposal compute fuel s0 = Some (sf, n) ->
    exists s' tr', sinfer P proposal compute fuel maxp s0 orc = inl (s', tr') /\ st s' = sf /\ pending s' = [] /\
                   trace_ok maxp tr' = Some n.
Proof. exact smc_schedule_independent. Qed.
Print Assumptions C07_smc_schedule_independent.

(** The reported number of batches / simulations is the total consumed over all rounds. *)
Theorem C07_totals_over_rounds :
  forall table fuel n b maxp rounds sf k,
    seq_run sstate (list draw) unit sobjective sconsumed (sprepare unit (fun _ _ => tt)) (fun i _ => nth i table []) supdate
            fuel (sinit n b maxp rounds) 0 = Some (sf, k) ->
    m_total sf = sum_batches (all_populations sf) /\ m_total sf * m_b sf = sum_sims (all_populations sf).
Proof. exact smc_totals. Qed.
Print Assumptions C07_totals_over_rounds.

(** Every returned population is the result of a rejection round run with that round's threshold. *)
Theorem C07_population_is_rejection_round :
  forall table fuel n b maxp rounds sf k,
    Forall (fun batch => length batch <= b) table ->
    seq_run sstate (list draw) unit sobjective sconsumed (sprepare unit (fun _ _ => tt)) (fun i _ => nth i table []) supdate
            fuel (sinit n b maxp rounds) 0 = Some (sf, k) ->
    forall r p, nth_error (all_populations sf) r = Some p ->
      pop_of_round n b (nth r rounds (RThreshold PInf)) p.
Proof. exact smc_populations. Qed.
Print Assumptions C07_population_is_rejection_round.

(** ... so every particle's discrepancy is within the threshold in force for its round, *)
Theorem C07_particles_within_threshold :
  forall n b spec p t, pop_of_round n b spec p -> round_threshold spec = Some t ->
    forall d, In (Some d) (p_rows p) -> dle (d_disc d) t = true.
Proof. exact smc_particles_within_threshold. Qed.
Print Assumptions C07_particles_within_threshold.

(** ... and its rows are in ascending discrepancy order, at most n_samples of them. *)
Theorem C07_population_rows :
  forall n b spec p, pop_of_round n b spec p -> ascending (p_rows p) = true /\ length (p_rows p) <= n.
Proof. exact smc_population_rows. Qed.
Print Assumptions C07_population_rows.

(** A rejection state reached by consuming batches satisfies the C01 buffer invariant. *)
Theorem C07_round_invariant :
  forall n b thr r consumed, Reach n b thr r consumed -> RInv n b (bufof r) (filter (accepts thr) consumed).
Proof. exact Reach_RInv. Qed.
Print Assumptions C07_round_invariant.

(** Non-vacuity: two rounds (thresholds 3 then 1), population size 2, batch size 2. *)
Definition dq (z : Z) (c : N) : draw := {| d_disc := Fin z; d_code := c |}.
Example C07_example :
  let table := [[dq 2 0; dq 5 1]; [dq 3 2; dq 4 3]; [dq 1 4; dq 2 5]; [dq 0 6; dq 1 7]] in
  match seq_run sstate (list draw) unit sobjective sconsumed (sprepare unit (fun _ _ => tt)) (fun i _ => nth i table []) supdate
                10 (sinit 2 2 1 [RThreshold (Fin 3); RThreshold (Fin 1)]) 0 with
  | Some (s, k) =>
      Nat.eqb k 4 && Nat.eqb (length (all_populations s)) 2
      && forallb (fun p => Nat.eqb (length (p_rows p)) 2) (all_populations s)
      && Nat.eqb (sum_sims (all_populations s)) 8
  | None => false
  end = true.
Proof. vm_compute. reflexivity. Qed.

(** ---- prior support, importance weights, proposal covariance (numeric clauses) ----
    The mixture density and the weighted variance are the C13 models of GMDistribution.pdf and
    weighted_var; prior densities and normal component densities are oracle tables.  All
    comparisons are purely relative, so no statement depends on the units of a parameter. *)

(** A later weight, as the code computes it, is prior density / density of the Gaussian mixture
    centred on the previous population with that population's weights ... *)
Theorem C07_weight_is_prior_over_mixture :
  forall prior dens wprev w, model_weight prior dens wprev = Some w -> (w == spec_weight prior dens wprev)%Q.
Proof. exact smc_weight_spec. Qed.
Print Assumptions C07_weight_is_prior_over_mixture.

(** ... and depends on the previous (unnormalised) weights only through their ratios. *)
Theorem C07_weight_scale_invariant :
  forall c prior dens wprev w, (0 < c)%Q -> model_weight prior dens wprev = Some w ->
    exists w', model_weight prior dens (map (Qmult c) wprev) = Some w' /\ (w == w')%Q.
Proof. exact smc_weight_scale_invariant. Qed.
Print Assumptions C07_weight_scale_invariant.

(** The stored covariance entry of a coordinate is twice its weighted sample variance
    (reliability weights), whatever the common factor of the weights. *)
Theorem C07_cov_is_twice_weighted_variance :
  forall col ws v, model_cov col ws = Some v -> (v == 2 * Quantile.spec_var (combine col ws))%Q.
Proof. exact smc_cov_spec. Qed.
Print Assumptions C07_cov_is_twice_weighted_variance.

Theorem C07_cov_scale_invariant :
  forall c col ws v v', ~ (c == 0)%Q -> model_cov col ws = Some v -> model_cov col (map (Qmult c) ws) = Some v' -> (v == v')%Q.
Proof. exact smc_cov_scale_invariant. Qed.
Print Assumptions C07_cov_scale_invariant.

(** Soundness of the decidable numeric statement evaluated on the implementation's populations:
    every particle has positive prior density, weights are finite and non-negative, the first
    population's weights are 1, a later weight is (relative tolerance 1e-8) prior / mixture of the
    previous population with ITS weights. *)
Theorem C07_num_ok_sound :
  forall n ps i p, num_ok n ps = true -> nth_error ps i = Some p ->
    Forall (fun b => b = true) (q_support p) /\
    exists ws, finite_weights p = Some ws /\ Forall (Qle 0) ws /\
      match prev_weights ps i with
      | None => i = O -> Forall (fun w => (w == 1)%Q) ws
      | Some wprev =>
          forall k w prior dens,
            nth_error ws k = Some w -> nth_error (q_prior p) k = Some (Some prior) -> nth_error (q_dens p) k = Some dens ->
            (Qabs (spec_weight prior dens wprev - w) <= weight_tol * Qabs (spec_weight prior dens wprev))%Q
      end.
Proof. exact num_ok_sound. Qed.
Print Assumptions C07_num_ok_sound.

(** ... and the covariance is diagonal with entry (k, k) = 2 x weighted sample variance of
    coordinate k within the conditioning-aware relative tolerance, whenever that variance is
    defined and estimable in binary64 (allowance below 1). *)
Theorem C07_num_ok_cov_sound :
  forall n ps i p ws k j row e,
    num_ok n ps = true -> nth_error ps i = Some p -> finite_weights p = Some ws ->
    Quantile.var_defined (combine (nth 0 (q_cols p) []) ws) = true -> Qle_bool 1 (cov_tol ws) = false ->
    nth_error (q_cov p) k = Some row -> nth_error row j = Some e ->
    exists c, e = Some c /\
      if (j =? k)%nat
      then (Qabs (spec_cov (nth k (q_cols p) []) ws - c) <= cov_tol ws * Qabs (spec_cov (nth k (q_cols p) []) ws))%Q
      else (c == 0)%Q.
Proof. exact num_ok_cov_sound. Qed.
Print Assumptions C07_num_ok_cov_sound.

(** The model's own numbers satisfy the statement for every non-negative tolerance. *)
Theorem C07_model_weight_ok :
  forall tol prior dens wprev w, (0 <= tol)%Q -> model_weight prior dens wprev = Some w ->
    rel_close tol (spec_weight prior dens wprev) w = true.
Proof. exact model_weight_ok. Qed.
Print Assumptions C07_model_weight_ok.

Theorem C07_model_cov_ok :
  forall tol col ws v, (0 <= tol)%Q -> model_cov col ws = Some v -> rel_close tol (spec_cov col ws) v = true.
Proof. exact model_cov_ok. Qed.
Print Assumptions C07_model_cov_ok.

(** Non-vacuity: two populations of a parameter living on the scale 1e-6 (second population's
    weights computed by the model from oracle tables); the same data with an absolute floor of
    1e-6 on the variance, or with a particle outside the support, is rejected. *)
Definition ex_pop0 : npop :=
  {| q_support := [true; true; true]; q_prior := [Some (500000 # 1); Some (500000 # 1); Some (500000 # 1)]%Q;
     q_cols := [[1 # 1000000; 3 # 2000000; 1 # 2000000]]%Q; q_weights := [Some 1; Some 1; Some 1]%Q;
     q_cov := [[Some (1 # 2000000000000)]]%Q; q_dens := [] |}.
Definition ex_pop1 (c : Q) (s : bool) : npop :=
  {| q_support := [true; s]; q_prior := [Some (500000 # 1); Some (500000 # 1)]%Q;
     q_cols := [[1 # 1000000; 1 # 2000000]]%Q; q_weights := [Some (5 # 4); Some (5 # 6)]%Q;
     q_cov := [[Some c]]; q_dens := [[500000 # 1; 400000 # 1; 300000 # 1]; [300000 # 1; 600000 # 1; 900000 # 1]]%Q |}.
Example C07_numeric_example :
  num_ok 3 [ex_pop0] = true /\ num_agree [ex_pop0] = true
  /\ over_pops (fun prev p => npop_ok (length (q_support p)) prev p) None [ex_pop0; ex_pop1 (1 # 4000000000000)%Q true] = true
  /\ num_agree [ex_pop0; ex_pop1 (1 # 4000000000000)%Q true] = true
  /\ over_pops (fun prev p => npop_ok (length (q_support p)) prev p) None [ex_pop0; ex_pop1 (2 # 1000000)%Q true] = false
  /\ over_pops (fun prev p => npop_ok (length (q_support p)) prev p) None [ex_pop0; ex_pop1 (1 # 4000000000000)%Q false] = false.
Proof. vm_compute. repeat split; reflexivity. Qed.
