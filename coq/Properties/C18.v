(** C18 — vectorize and external_operation behave as per-row application.
    Model: Num/Vectorize.v ([run_vectorized] with its two loops and the in-place meta update,
    [unpack_meta], [prepare_seed] on top of the C15 model of [get_sub_seed], [str.format] on the token
    language [Lit | Pos | Key]).  This file only states the property theorems; proofs are in
    Proofs/C18_Vectorize.v, Proofs/C18_Parse.v (the separator-aware parser of the command's standard output) and
    Proofs/C18_Collect.v (the returned array: numpy's collection of the typed row outputs).  All statements are for every arity, batch length, constants mask,
    keyword set and template. *)
From Coq Require Import List ZArith NArith Arith Bool String.
From Elfi Require Import Num.Seed Num.Vectorize Proofs.C15_Seed Proofs.C18_Collect Proofs.C18_Vectorize Proofs.C18_Parse.
From Coq Require Import Permutation.
Import ListNotations.

(** The two loops of [run_vectorized] (scan for constants / batch size, then per-row calls with the
    meta dict mutated in place) compute exactly: reject on a length mismatch, else the list of the
    per-row calls [expected_call 0 .. n-1] with [n = batch_len]. *)
Theorem C18_vectorize_refines_per_row :
  forall inputs constants bs kw meta df,
    run_vectorized inputs constants bs kw meta df =
      let cs := consts0 constants in
      let n := batch_len inputs cs bs in
      if mismatch_from 0 inputs cs n then VError
      else VOk (cont df) (map (expected_call inputs cs kw meta) (seq 0 n)).
Proof. exact vec_correct. Qed.
Print Assumptions C18_vectorize_refines_per_row.

(** Output length = batch length; the container is the object array exactly for dtype=False. *)
Theorem C18_output_length :
  forall inputs constants bs kw meta df k calls,
    run_vectorized inputs constants bs kw meta df = VOk k calls ->
    List.length calls = batch_len inputs (consts0 constants) bs /\ k = cont df.
Proof. exact vec_length. Qed.
Print Assumptions C18_output_length.

(** Entry [i] = the operation on row [i] of every non-constant input; marked constants and
    auto-detected non-arrays are passed as they are; keyword arguments unchanged; meta gets the row
    index.  (The row exists: no default element is ever used.) *)
Theorem C18_entry_is_row_application :
  forall inputs constants bs kw meta df k calls i,
    run_vectorized inputs constants bs kw meta df = VOk k calls ->
    i < batch_len inputs (consts0 constants) bs ->
    exists c, nth_error calls i = Some c
      /\ c_kw c = kw
      /\ c_meta c = set_index meta i
      /\ List.length (c_args c) = List.length inputs
      /\ forall j x, nth_error inputs j = Some x ->
           if is_const (consts0 constants) j x then nth_error (c_args c) j = Some x
           else exists r, nth_error (rows x) i = Some r /\ nth_error (c_args c) j = Some r.
Proof. exact vec_entry. Qed.
Print Assumptions C18_entry_is_row_application.

(** A length mismatch is rejected, and nothing else is. *)
Theorem C18_mismatch_rejected_iff :
  forall inputs constants bs kw meta df,
    run_vectorized inputs constants bs kw meta df = VError <->
    exists j x, nth_error inputs j = Some x /\ is_const (consts0 constants) j x = false
                /\ List.length (rows x) <> batch_len inputs (consts0 constants) bs.
Proof. exact vec_rejects_iff. Qed.
Print Assumptions C18_mismatch_rejected_iff.

(** Batch length: [batch_size] if given, else the length of the first non-constant input, else 1. *)
Theorem C18_batch_len_given : forall inputs cs b, batch_len inputs cs (Some b) = b.
Proof. exact batch_len_given. Qed.
Print Assumptions C18_batch_len_given.

Theorem C18_batch_len_first :
  forall pre x post cs,
    (forall k y, nth_error pre k = Some y -> is_const cs k y = true) ->
    is_const cs (List.length pre) x = false ->
    batch_len (pre ++ x :: post) cs None = List.length (rows x).
Proof. exact batch_len_first. Qed.
Print Assumptions C18_batch_len_first.

Theorem C18_batch_len_default :
  forall inputs cs, (forall k y, nth_error inputs k = Some y -> is_const cs k y = true) -> batch_len inputs cs None = 1.
Proof. exact batch_len_default. Qed.
Print Assumptions C18_batch_len_default.

(** The meta dict seen by row [i]: index_in_batch = i, every other key as given. *)
Theorem C18_meta_row_index : forall m i, lookup iib (dict_set iib (vint (Z.of_nat i)) m) = Some (vint (Z.of_nat i)).
Proof. exact meta_row_index. Qed.
Print Assumptions C18_meta_row_index.

Theorem C18_meta_other_keys : forall m i k, k <> iib -> lookup k (dict_set iib (vint (Z.of_nat i)) m) = lookup k m.
Proof. exact meta_other_keys. Qed.
Print Assumptions C18_meta_other_keys.

(** Template substitution is the homomorphism that leaves literals untouched and replaces each
    placeholder by its input ... *)
Theorem C18_format_app :
  forall a b args kw,
    format (a ++ b) args kw =
      match format a args kw with
      | FOk s => match format b args kw with FOk s' => FOk (String.append s s') | e => e end
      | e => e
      end.
Proof. exact format_app. Qed.
Print Assumptions C18_format_app.

Theorem C18_format_lit : forall s args kw, format [Lit s] args kw = FOk s.
Proof. exact format_lit. Qed.
Print Assumptions C18_format_lit.

Theorem C18_format_pos : forall n v args kw, nth_error args n = Some v -> format [Pos n] args kw = FOk (render v).
Proof. exact format_pos. Qed.
Print Assumptions C18_format_pos.

Theorem C18_format_key : forall k v args kw, lookup k kw = Some v -> format [Key k] args kw = FOk (render v).
Proof. exact format_key. Qed.
Print Assumptions C18_format_key.

(** ... it succeeds exactly when every placeholder has an input, and then no placeholder is left:
    the result is the concatenation of the per-token images. *)
Theorem C18_format_supplied :
  forall t args kw,
    supplied t args kw = true <-> format t args kw = FOk (String.concat EmptyString (map (image args kw) t)).
Proof. exact format_supplied. Qed.
Print Assumptions C18_format_supplied.

(** The executed command is the template over the positional inputs and the keywords
    (kwinputs over meta, plus the seed). *)
Theorem C18_external_command :
  forall t args kw meta rs cmd seed,
    run_external t args kw meta rs = EOk cmd seed ->
    let kw1 := unpack_meta kw meta in
    let kw2 := match seed with Some v => dict_set "seed"%string (vint (Z.of_N v)) kw1 | None => kw1 end in
    supplied t args kw2 = true /\ cmd = String.concat EmptyString (map (image args kw2) t).
Proof. exact external_command. Qed.
Print Assumptions C18_external_command.

(** The seed is the C15 sub-seed of (stream of the generator's first state word, row index): a
    function of the batch generator and the index only. *)
Theorem C18_external_seed :
  forall t args kw meta s cmd seed,
    run_external t args kw meta (Some s) = EOk cmd seed ->
    exists v, seed = Some v /\ Seed.spec s (sub_index (unpack_meta kw meta)) = Some v.
Proof. exact external_seed. Qed.
Print Assumptions C18_external_seed.

Theorem C18_external_seed_deterministic :
  forall t1 a1 kw1 m1 t2 a2 kw2 m2 s c1 c2 sd1 sd2,
    run_external t1 a1 kw1 m1 (Some s) = EOk c1 sd1 ->
    run_external t2 a2 kw2 m2 (Some s) = EOk c2 sd2 ->
    sub_index (unpack_meta kw1 m1) = sub_index (unpack_meta kw2 m2) -> sd1 = sd2.
Proof. exact external_seed_deterministic. Qed.
Print Assumptions C18_external_seed_deterministic.

(** vectorize(external_operation): one result per row. *)
Theorem C18_vec_ext_length :
  forall t inputs constants bs kw meta rs res,
    run_vec_ext t inputs constants bs kw meta rs = Some res ->
    List.length res = batch_len inputs (consts0 constants) bs.
Proof. exact vec_ext_length. Qed.
Print Assumptions C18_vec_ext_length.

(** Under the uses_meta precondition (a meta dict is passed and no explicit index_in_batch keyword
    overrides it) row [i] gets the sub-seed of index [i] ... *)
Theorem C18_row_seed :
  forall t inputs constants bs kw m s res i cmd seed,
    run_vec_ext t inputs constants bs kw (Some m) (Some s) = Some res ->
    lookup iib kw = None ->
    nth_error res i = Some (EOk cmd seed) ->
    exists v, seed = Some v /\ Seed.spec s i = Some v.
Proof. exact vec_ext_row_seed. Qed.
Print Assumptions C18_row_seed.

(** ... so seeds of different rows of one batch differ (by C15's injectivity). *)
Theorem C18_row_seeds_distinct :
  forall t inputs constants bs kw m s res i j ci cj vi vj,
    run_vec_ext t inputs constants bs kw (Some m) (Some s) = Some res ->
    lookup iib kw = None ->
    nth_error res i = Some (EOk ci (Some vi)) ->
    nth_error res j = Some (EOk cj (Some vj)) ->
    i <> j -> vi <> vj.
Proof. exact vec_ext_seeds_distinct. Qed.
Print Assumptions C18_row_seeds_distinct.

(** Without run metadata the precondition fails and every row gets the same seed. *)
Theorem C18_no_meta_same_seed :
  forall t inputs constants bs kw s res i cmd seed,
    run_vec_ext t inputs constants bs kw None (Some s) = Some res ->
    nth_error res i = Some (EOk cmd seed) ->
    exists v, seed = Some v /\ Seed.spec s (sub_index kw) = Some v.
Proof. exact vec_ext_no_meta_same_seed. Qed.
Print Assumptions C18_no_meta_same_seed.

(** The decidable predicates evaluated on the implementation's observations are sound for the
    property, and the model's own outputs satisfy them. *)
Theorem C18_ok_sound : forall c, vok c = true -> vec_statement c.
Proof. exact vok_sound. Qed.
Print Assumptions C18_ok_sound.

(** the operation is uninterpreted: any [op] from the call to its typed output; [model_case] = the model's run with numpy's
    collection of the outputs of its calls as the returned array *)
Theorem C18_model_ok :
  forall op d inputs constants bs kw meta, vok (model_case op d inputs constants bs kw meta) = true.
Proof. exact vmodel_ok. Qed.
Print Assumptions C18_model_ok.

(** histories: one vectorised callable called any number of times; every call is per-row application of ITS OWN inputs *)
Theorem C18_history_ok_sound : forall h, ok_history h = true -> forall c, In (CVec c) h -> vec_statement c.
Proof. exact history_ok_sound. Qed.
Print Assumptions C18_history_ok_sound.

Theorem C18_history_model_ok : forall op constants d calls, ok_history (model_history op constants d calls) = true.
Proof. exact history_model_ok. Qed.
Print Assumptions C18_history_model_ok.

(** scalar at an unmasked position (auto-detected constant in that call), then a batch array at the same position: the second call
    is row-wise again, the mask [1] still holds in both *)
Example C18_example_history_scalar_then_array :
  map (fun c => match c with CVec v => v_impl v | CExt _ => None end)
      (model_history (fun _ => OSc (SInt 0)) (Some [1]) DNone
         [ {| h_inputs := [vint 5; VArr [vint 1; vint 2]]; h_batch_size := None; h_kw := []; h_meta := None |};
           {| h_inputs := [VArr [vint 7; vint 8]; VArr [vint 1; vint 2]]; h_batch_size := None; h_kw := []; h_meta := None |} ])
  = [ Some [mkcall [vint 5; VArr [vint 1; vint 2]] [] None];
      Some [mkcall [vint 7; VArr [vint 1; vint 2]] [] None; mkcall [vint 8; VArr [vint 1; vint 2]] [] None] ].
Proof. vm_compute. reflexivity. Qed.

Theorem C18_row_ok_sound :
  forall t args kw rs idx cmd seed p,
    row_ok t args kw rs idx (OCmd cmd seed p) = true ->
    seed = match rs with Some s => Seed.spec s idx | None => None end
    /\ (rs <> None -> seed <> None)
    /\ let kw' := match seed with Some v => dict_set "seed"%string (vint (Z.of_N v)) kw | None => kw end in
       format t args kw' = FOk cmd.
Proof. exact row_ok_sound. Qed.
Print Assumptions C18_row_ok_sound.

Theorem C18_distinct_seeds_sound :
  forall os acc, distinct_seeds os acc = true ->
  forall i j v w, i < j -> option_map seed_of (nth_error os i) = Some (Some v) ->
                  option_map seed_of (nth_error os j) = Some (Some w) -> v <> w.
Proof. exact distinct_seeds_sound. Qed.
Print Assumptions C18_distinct_seeds_sound.

Theorem C18_model_row_ok :
  forall t args kw meta rs cmd seed,
    run_external t args kw meta rs = EOk cmd seed ->
    row_ok t args (unpack_meta kw meta) rs (sub_index (unpack_meta kw meta)) (OCmd cmd seed None) = true.
Proof. exact emodel_row_ok. Qed.
Print Assumptions C18_model_row_ok.

(** ---- "parses its standard output into an array of the requested type" (stdout handler; proofs in Proofs/C18_Parse.v) ----

    [parse_stdout k sep out] = split [out] on the separator ([fields sep out], no element type involved), then convert every
    field to the element type [k].  Round trip for a separator with a non-white core (",", ";", "::", ", ", " ; ", "|", ...): the
    fields of "f1 SEP f2 ... SEP fn" followed by white space (the newline) are f1 .. fn whenever no field contains white space
    or a character of the separator; any number of fields, any separator length. *)
Theorem C18_fields_roundtrip :
  forall sep fs f tail,
    trim (chars sep) <> [] -> no_ws (trim (chars sep)) -> all_ws tail ->
    Forall (fun g => no_ws g /\ clean (trim (chars sep)) g) (fs ++ [f]) ->
    fields sep (str (join (trim (chars sep)) (fs ++ [f]) ++ tail)) = fs ++ [f].
Proof. exact fields_roundtrip. Qed.
Print Assumptions C18_fields_roundtrip.

(** the same for white-space separators (" ", tab, several blanks): any non-empty run of white space between the fields *)
Theorem C18_ws_fields_roundtrip :
  forall sep j tail fs,
    trim (chars sep) = [] -> all_ws j -> j <> [] -> all_ws tail -> fs <> [] ->
    Forall (fun g => g <> [] /\ no_ws g) fs ->
    fields sep (str (join j fs ++ tail)) = fs.
Proof. exact ws_fields_roundtrip. Qed.
Print Assumptions C18_ws_fields_roundtrip.

(** The requested type never changes the split: a successful parse is the type-independent field list, converted field by
    field; so the number of entries is the number of fields for every type ... *)
Theorem C18_parse_is_split_then_convert :
  forall k sep out vs,
    parse_stdout k sep out = Some vs -> fields sep out <> [] /\ Forall2 (fun f v => conv k f = Some v) (fields sep out) vs.
Proof. exact parse_is_split_then_convert. Qed.
Print Assumptions C18_parse_is_split_then_convert.

Theorem C18_parse_length :
  forall k sep out vs, parse_stdout k sep out = Some vs -> List.length vs = List.length (fields sep out).
Proof. exact parse_length. Qed.
Print Assumptions C18_parse_length.

(** ... and an output that parses with an integer type parses to the same values with a float type (only the element type
    differs); unsigned to signed likewise. *)
Theorem C18_parse_int_as_float :
  forall sep out vs, parse_stdout KInt sep out = Some vs -> parse_stdout KFloat sep out = Some vs.
Proof. exact parse_int_as_float. Qed.
Print Assumptions C18_parse_int_as_float.

Theorem C18_parse_uint_as_int :
  forall sep out vs, parse_stdout KUInt sep out = Some vs -> parse_stdout KInt sep out = Some vs.
Proof. exact parse_uint_as_int. Qed.
Print Assumptions C18_parse_uint_as_int.

(** Round trip on values: integers rendered as [str.format] substitutes them ([render_Z]), joined by a separator whose core has
    no white space and no character of a number, plus the newline, parse back to exactly these integers under the integer and
    the float types - for every separator of that kind and every number of values. *)
Theorem C18_parse_roundtrip_Z :
  forall sep zs z,
    trim (chars sep) <> [] -> no_ws (trim (chars sep)) -> (forall a, In a (trim (chars sep)) -> ~ In a numeric_chars) ->
    forall k, k = KInt \/ k = KFloat ->
    parse_stdout k sep (str (join (trim (chars sep)) (map (fun x => chars (render_Z x)) (zs ++ [z])) ++ chars NL))
    = Some (map (fun x => (x, 1%positive)) (zs ++ [z])).
Proof. exact parse_roundtrip_Z. Qed.
Print Assumptions C18_parse_roundtrip_Z.

(** The decidable clause used by the correspondence on every returned row ([parse_agree], inside [ok]) is sound: the row has the
    requested dtype (float64 by default) and its entries are the parse of THAT row's standard output with the separator given
    to [external_operation]; a ValueError of the run is justified by a row whose output does not parse.  The model's own row
    satisfies the clause for all separators, requests and outputs. *)
Theorem C18_parse_rows_ok_sound :
  forall sep req os,
    parse_rows_ok sep req os = true ->
    (forall o p dt vals, In o os -> pout_of o = Some p -> p_res p = Some (dt, vals) ->
       dt = result_dtype req /\
       exists vs, parse_stdout (kind_of req) sep (p_stdout p) = Some vs /\ Forall2 same_number vs vals)
    /\ ((exists o p, In o os /\ pout_of o = Some p /\ p_res p = None) ->
        exists o p, In o os /\ pout_of o = Some p /\ parse_stdout (kind_of req) sep (p_stdout p) = None).
Proof. exact parse_rows_ok_sound. Qed.
Print Assumptions C18_parse_rows_ok_sound.

Theorem C18_parse_model_ok :
  forall sep req out,
    parse_agree sep req out (option_map (fun vs => (result_dtype req, vs)) (parse_stdout (kind_of req) sep out)) = true.
Proof. exact parse_agree_model. Qed.
Print Assumptions C18_parse_model_ok.

(** the same output split by different separators, with and without a requested type: the type changes the element type only;
    a separator that does not occur leaves one field that is not a number *)
Example C18_example_parse :
  (parse_stdout KFloat ";"%string (String.append "1; 20 ;-3"%string NL),
   parse_stdout KInt ";"%string (String.append "1; 20 ;-3"%string NL),
   parse_stdout KUInt ";"%string (String.append "1; 20 ;-3"%string NL),
   parse_stdout KInt " "%string (String.append "1; 20 ;-3"%string NL),
   parse_stdout KFloat "::"%string (String.append "1.5::-0.25"%string NL),
   parse_stdout KInt "::"%string (String.append "1.5::-0.25"%string NL),
   parse_stdout KInt TAB (cat ["7"%string; TAB; "8  9"%string; NL]))
  = (Some [(1, 1%positive); (20, 1%positive); (-3, 1%positive)], Some [(1, 1%positive); (20, 1%positive); (-3, 1%positive)], None, None,
     Some [(15, 10%positive); (-25, 100%positive)], None, Some [(7, 1%positive); (8, 1%positive); (9, 1%positive)])%Z.
Proof. vm_compute. reflexivity. Qed.

(** an [ecase] as the harness emits it: a typed request with a "," separator over two rows; [ok] holds for the right rows and
    fails when a row holds only the first field (what splitting on white space would give) *)
Definition ex_parse_case (row2 : list num) : ecase :=
  {| e_toks := [Lit "echo "%string; Pos 0; Lit ",4"%string]; e_inputs := [VArr [vint 5; vint 6]]; e_constants := None;
     e_batch_size := None; e_vectorized := true; e_kw := []; e_meta := None; e_rs := None; e_sep := ","%string;
     e_req := Some "int32"%string; e_first_only := false;
     e_impl := Some [OCmd "echo 5,4"%string None (Some (mkpout (String.append "5,4"%string NL) (Some ("int32"%string, [(5, 1%positive); (4, 1%positive)]%Z))));
                     OCmd "echo 6,4"%string None (Some (mkpout (String.append "6,4"%string NL) (Some ("int32"%string, row2))))] |}.

Example C18_example_parse_case :
  (ok (CExt (ex_parse_case [(6, 1%positive); (4, 1%positive)]%Z)), agree (CExt (ex_parse_case [(6, 1%positive); (4, 1%positive)]%Z)),
   ok (CExt (ex_parse_case [(6, 1%positive)]%Z))) = (true, true, false).
Proof. vm_compute. reflexivity. Qed.

(** ---- the returned array: "the array whose i-th entry is the operation applied to the i-th row" (proofs in Proofs/C18_Collect.v) ----

    Row outputs carry their kind (bool / int / float / text of some length; scalar or flat list).  The element type numpy gives
    the collected array is the promotion over the kinds of ALL rows ([promote_all], bool < int64 < float64, texts: the longest).
    Promotion does not depend on the order of the rows ... *)
Theorem C18_promotion_order_independent : forall ks ks', Permutation ks ks' -> promote_all ks = promote_all ks'.
Proof. exact promote_all_perm. Qed.
Print Assumptions C18_promotion_order_independent.

Theorem C18_result_kind_order_independent :
  forall outs outs', Permutation outs outs' -> promote_all (kinds outs) = promote_all (kinds outs').
Proof. exact result_kind_perm. Qed.
Print Assumptions C18_result_kind_order_independent.

(** ... it is an upper bound of every row's kind, and the least one ... *)
Theorem C18_promotion_upper_bound : forall ks k, In k ks -> kind_le k (promote_all ks) = true.
Proof. exact promote_all_upper. Qed.
Print Assumptions C18_promotion_upper_bound.

Theorem C18_promotion_least :
  forall ks u, ks <> [] -> (forall k, In k ks -> kind_le k u = true) -> kind_le (promote_all ks) u = true.
Proof. exact promote_all_least. Qed.
Print Assumptions C18_promotion_least.

(** ... and a value stored into a kind above its own is representable there and unchanged (same number / same text). *)
Theorem C18_widening_total : forall x k, kind_le (kind_of_scal x) k = true -> is_other k = false -> exists y, cast k x = Some y.
Proof. exact cast_le_total. Qed.
Print Assumptions C18_widening_total.

Theorem C18_widening_keeps_value :
  forall x k y, kind_le (kind_of_scal x) k = true -> cast k x = Some y -> has_kind k y = true /\ same_value x y = true.
Proof. exact cast_le_unchanged. Qed.
Print Assumptions C18_widening_keeps_value.

(** Hence with dtype=None the collection of rows of one shape succeeds, has the promoted element type, and every row keeps its
    own value: no row is narrowed (in particular not to the type of row 0), whatever the order of the rows. *)
Theorem C18_collect_no_row_narrowed :
  forall outs, homogeneous outs = true -> is_other (promote_all (kinds outs)) = false ->
    exists rets, collect DNone outs = Some (kind_name (promote_all (kinds outs)), rets)
                 /\ list_eqb (row_unchanged (promote_all (kinds outs))) outs rets = true.
Proof. exact collect_none_unchanged. Qed.
Print Assumptions C18_collect_no_row_narrowed.

(** The decidable clause inside [ok] is sound for the statement about the returned array (dtype=False: the entries are the
    outputs themselves; dtype=None: promoted type, values unchanged; explicit dtype: every entry is its own row cast to it), and
    numpy's collection satisfies it. *)
Theorem C18_typed_ok_sound : forall d outs ret, typed_ok d outs ret = true -> typed_statement d outs ret.
Proof. exact typed_ok_sound. Qed.
Print Assumptions C18_typed_ok_sound.

Theorem C18_typed_model_ok : forall d outs ret, collect d outs = Some ret -> typed_ok d outs ret = true.
Proof. exact typed_model_ok. Qed.
Print Assumptions C18_typed_model_ok.

(** an operation that returns the int literal 0 for its first row and floats later; short and long texts; int and float pairs:
    the collection under dtype=None, and what an array typed by row 0 alone would hold (rejected by [typed_ok]) *)
Example C18_example_collect :
  (collect DNone [OSc (SInt 0); OSc (SFloat 1 2); OSc (SFloat 5 2)],
   collect DNone [OSc (SFloat 5 2); OSc (SInt 0); OSc (SBool true)],
   collect DNone [OSc (SStr "lo"); OSc (SStr "high:2.0")],
   collect DNone [OVec [SInt 0; SInt 1]; OVec [SFloat 1 2; SFloat 1 1]],
   collect (DGiven KI "int64") [OSc (SFloat (-7) 4); OSc (SBool true)],
   collect DFalse [OSc (SBool true); OSc (SInt 1)],
   collect DNone [])
  = (Some ("float64", [OSc (SFloat 0 1); OSc (SFloat 1 2); OSc (SFloat 5 2)]),
     Some ("float64", [OSc (SFloat 5 2); OSc (SFloat 0 1); OSc (SFloat 1 1)]),
     Some ("<U8", [OSc (SStr "lo"); OSc (SStr "high:2.0")]),
     Some ("float64", [OVec [SFloat 0 1; SFloat 1 1]; OVec [SFloat 1 2; SFloat 1 1]]),
     Some ("int64", [OSc (SInt (-1)); OSc (SInt 1)]),
     Some ("object", [OSc (SBool true); OSc (SInt 1)]),
     Some ("float64", []))%string%Z.
Proof. vm_compute. reflexivity. Qed.

Example C18_example_typed_by_row0_rejected :
  (typed_ok DNone [OSc (SInt 0); OSc (SFloat 1 2); OSc (SFloat 5 2)] ("float64", [OSc (SFloat 0 1); OSc (SFloat 1 2); OSc (SFloat 5 2)]),
   typed_ok DNone [OSc (SInt 0); OSc (SFloat 1 2); OSc (SFloat 5 2)] ("int64", [OSc (SInt 0); OSc (SInt 0); OSc (SInt 2)]),
   typed_ok DNone [OSc (SInt 0); OSc (SFloat 1 2); OSc (SFloat 5 2)] ("float64", [OSc (SFloat 0 1); OSc (SFloat 0 1); OSc (SFloat 2 1)]),
   typed_ok DNone [OSc (SStr "lo"); OSc (SStr "high:2.0")] ("<U2", [OSc (SStr "lo"); OSc (SStr "hi")]))%string%Z
  = (true, false, false, false).
Proof. vm_compute. reflexivity. Qed.

(** ---- non-vacuity ---- *)

Definition ex_inputs : list value :=
  [VArr [vint 1; vint 2; vint 3]; vint 5; VArr [vint 7; vint 8]; VSeq [vint 0]; VArr [VArr [vint 1; vint 2]; VArr [vint 3; vint 4]; VArr [vint 5; vint 6]]].
Definition ex_meta : option dict := Some [("batch_index"%string, vint 4)].

(** a marked array constant of another length, an auto-detected scalar and list, a 2-d input *)
Example C18_example_rows :
  run_vectorized ex_inputs (Some [2]) None [("foo"%string, vint 9)] ex_meta true
  = VOk ObjArray
      [ mkcall [vint 1; vint 5; VArr [vint 7; vint 8]; VSeq [vint 0]; VArr [vint 1; vint 2]] [("foo"%string, vint 9)]
               (Some [("batch_index"%string, vint 4); (iib, vint 0)]);
        mkcall [vint 2; vint 5; VArr [vint 7; vint 8]; VSeq [vint 0]; VArr [vint 3; vint 4]] [("foo"%string, vint 9)]
               (Some [("batch_index"%string, vint 4); (iib, vint 1)]);
        mkcall [vint 3; vint 5; VArr [vint 7; vint 8]; VSeq [vint 0]; VArr [vint 5; vint 6]] [("foo"%string, vint 9)]
               (Some [("batch_index"%string, vint 4); (iib, vint 2)]) ].
Proof. vm_compute. reflexivity. Qed.

(** the same inputs without the mask: input 2 has the wrong length *)
Example C18_example_mismatch : run_vectorized ex_inputs None None [] None false = VError.
Proof. vm_compute. reflexivity. Qed.

(** no arrays: batch_size, else one row *)
Example C18_example_batch_size :
  (match run_vectorized [vint 5] None (Some 4) [] None false with VOk _ c => List.length c | VError => 0 end,
   match run_vectorized [vint 5] None None [] None false with VOk _ c => List.length c | VError => 0 end) = (4, 1).
Proof. vm_compute. reflexivity. Qed.

Definition ex_toks : list tok :=
  [Lit "echo "%string; Pos 0; Lit " {x} "%string; Key "batch_index"%string; Lit " "%string; Key "seed"%string; Lit " "%string; Key iib].
(** a stream with forced collisions *)
Definition ex_stream : list N := [11; 11; 12; 11; 13; 14; 15]%N.

Example C18_example_external_uses_meta :
  run_vec_ext ex_toks [VArr [vint 7; vint 8; vint 9]] None (Some 3) [] ex_meta (Some ex_stream)
  = Some [EOk "echo 7 {x} 4 11 0"%string (Some 11%N); EOk "echo 8 {x} 4 12 1"%string (Some 12%N);
          EOk "echo 9 {x} 4 13 2"%string (Some 13%N)].
Proof. vm_compute. reflexivity. Qed.

(** the precondition matters: without run metadata every row gets [Seed.spec s 0] *)
Example C18_example_external_no_meta :
  run_vec_ext [Lit "echo "%string; Pos 0; Lit " "%string; Key "seed"%string] [VArr [vint 7; vint 8; vint 9]] None (Some 3) [] None (Some ex_stream)
  = Some [EOk "echo 7 11"%string (Some 11%N); EOk "echo 8 11"%string (Some 11%N); EOk "echo 9 11"%string (Some 11%N)].
Proof. vm_compute. reflexivity. Qed.

Example C18_example_missing_inputs :
  (run_external [Lit "echo "%string; Pos 1] [vint 1] [] None None,
   run_external [Lit "echo "%string; Key "seed"%string] [vint 1] [] None None)
  = (EIndexError 1, EKeyError "seed"%string).
Proof. vm_compute. reflexivity. Qed.

(** ---- non-vacuity of the hypotheses (audit) ----
    Already witnessed above: [C18_example_rows] (VOk: output_length, entry_is_row_application), [C18_example_mismatch] (VError),
    [C18_example_external_uses_meta] (vec_ext_length, row_seed, row_seeds_distinct: meta given, no [iib] keyword, three rows),
    [C18_example_external_no_meta] (no_meta_same_seed), [C18_example_parse] (parse_stdout = Some for KInt / KFloat),
    [C18_example_collect] (collect = Some), [C18_example_typed_by_row0_rejected] (typed_ok = true), [C18_model_ok] /
    [C18_history_model_ok] (vok / ok_history = true on every model run).  The remaining ones: *)

Example C18_entry_is_row_application_nonvacuous :
  run_vectorized ex_inputs (Some [2]) None [("foo"%string, vint 9)] ex_meta true
    = VOk ObjArray (map (expected_call ex_inputs [2] [("foo"%string, vint 9)] ex_meta) [0; 1; 2])
  /\ 2 < batch_len ex_inputs (consts0 (Some [2])) None
  /\ List.length (map (expected_call ex_inputs [2] [("foo"%string, vint 9)] ex_meta) [0; 1; 2]) = 3.
Proof. vm_compute. repeat split; auto. Qed.

Example C18_mismatch_rejected_iff_nonvacuous :
  nth_error ex_inputs 2 = Some (VArr [vint 7; vint 8]) /\ is_const (consts0 None) 2 (VArr [vint 7; vint 8]) = false
  /\ List.length (rows (VArr [vint 7; vint 8])) <> batch_len ex_inputs (consts0 None) None.
Proof. vm_compute. repeat split; discriminate. Qed.

Example C18_batch_len_first_nonvacuous :
  (forall k y, nth_error [vint 5; VArr [vint 7; vint 8]] k = Some y -> is_const [1] k y = true)
  /\ is_const [1] (List.length [vint 5; VArr [vint 7; vint 8]]) (VArr [vint 1; vint 2; vint 3]) = false
  /\ batch_len ([vint 5; VArr [vint 7; vint 8]] ++ VArr [vint 1; vint 2; vint 3] :: [vint 0]) [1] None = 3.
Proof.
  assert (H : forall k y, nth_error [vint 5; VArr [vint 7; vint 8]] k = Some y -> is_const [1] k y = true).
  { intros k y E. destruct k as [|[|k]]; simpl in E; try (injection E as <-; reflexivity). destruct k; discriminate. }
  split; [exact H|]. split; [reflexivity|]. apply (C18_batch_len_first [vint 5; VArr [vint 7; vint 8]] (VArr [vint 1; vint 2; vint 3]) [vint 0] [1] H); reflexivity.
Qed.

Example C18_batch_len_default_nonvacuous :
  (forall k y, nth_error [vint 5; VSeq [vint 0]; VArr [vint 7; vint 8]] k = Some y -> is_const [2] k y = true)
  /\ batch_len [vint 5; VSeq [vint 0]; VArr [vint 7; vint 8]] [2] None = 1.
Proof.
  assert (H : forall k y, nth_error [vint 5; VSeq [vint 0]; VArr [vint 7; vint 8]] k = Some y -> is_const [2] k y = true).
  { intros k y E. destruct k as [|[|[|k]]]; simpl in E; try (injection E as <-; reflexivity). destruct k; discriminate. }
  split; [exact H|]. exact (C18_batch_len_default _ _ H).
Qed.

Example C18_format_pos_key_nonvacuous :
  nth_error [vint 7; vint 8] 1 = Some (vint 8) /\ lookup "seed"%string [("x"%string, vint 1); ("seed"%string, vint 11)] = Some (vint 11)
  /\ format [Pos 1] [vint 7; vint 8] [] = FOk "8"%string
  /\ format [Key "seed"%string] [] [("x"%string, vint 1); ("seed"%string, vint 11)] = FOk "11"%string.
Proof. vm_compute. repeat split. Qed.

(** run_external = EOk with a seed drawn from a stream with collisions, a meta dict and a row index: external_command,
    external_seed, external_seed_deterministic (two different templates / inputs, the same index), model_row_ok, row_ok_sound *)
Example C18_external_nonvacuous :
  run_external ex_toks [vint 8] [] (Some [("batch_index"%string, vint 4); (iib, vint 1)]) (Some ex_stream)
    = EOk "echo 8 {x} 4 12 1"%string (Some 12%N)
  /\ run_external [Lit "run "%string; Key "seed"%string] [] [("foo"%string, vint 9)] (Some [(iib, vint 1)]) (Some ex_stream)
    = EOk "run 12"%string (Some 12%N)
  /\ sub_index (unpack_meta [] (Some [("batch_index"%string, vint 4); (iib, vint 1)])) = 1
  /\ sub_index (unpack_meta [("foo"%string, vint 9)] (Some [(iib, vint 1)])) = 1
  /\ Seed.spec ex_stream 1 = Some 12%N
  /\ row_ok ex_toks [vint 8] (unpack_meta [] (Some [("batch_index"%string, vint 4); (iib, vint 1)])) (Some ex_stream) 1
       (OCmd "echo 8 {x} 4 12 1"%string (Some 12%N) None) = true.
Proof. vm_compute. repeat split. Qed.

Example C18_distinct_seeds_sound_nonvacuous :
  distinct_seeds [OCmd "a"%string (Some 11%N) None; OKeyError "k"%string; OCmd "b"%string (Some 12%N) None; OCmd "c"%string (Some 13%N) None] [] = true
  /\ option_map seed_of (nth_error [OCmd "a"%string (Some 11%N) None; OKeyError "k"%string; OCmd "b"%string (Some 12%N) None; OCmd "c"%string (Some 13%N) None] 0) = Some (Some 11%N)
  /\ option_map seed_of (nth_error [OCmd "a"%string (Some 11%N) None; OKeyError "k"%string; OCmd "b"%string (Some 12%N) None; OCmd "c"%string (Some 13%N) None] 3) = Some (Some 13%N)
  /\ 0 < 3.
Proof. vm_compute. repeat split; auto. Qed.

(** separator " ; " (core ";"), three fields, a newline tail *)
Example C18_fields_roundtrip_nonvacuous :
  trim (chars " ; ") <> [] /\ no_ws (trim (chars " ; ")) /\ all_ws (chars NL)
  /\ Forall (fun g => no_ws g /\ clean (trim (chars " ; ")) g) ([chars "1.5"; chars "-20"] ++ [chars "abc"])
  /\ fields " ; " (str (join (trim (chars " ; ")) ([chars "1.5"; chars "-20"] ++ [chars "abc"]) ++ chars NL))
     = [chars "1.5"; chars "-20"; chars "abc"].
Proof.
  assert (H1 : trim (chars " ; ") <> []) by (vm_compute; discriminate).
  assert (H2 : no_ws (trim (chars " ; "))).
  { intros a H; vm_compute in H; repeat destruct H as [<-|H]; try reflexivity; contradiction. }
  assert (H3 : all_ws (chars NL)).
  { intros a H; vm_compute in H; repeat destruct H as [<-|H]; try reflexivity; contradiction. }
  assert (H4 : Forall (fun g => no_ws g /\ clean (trim (chars " ; ")) g) ([chars "1.5"; chars "-20"] ++ [chars "abc"])).
  { repeat constructor;
      try (intros a H; vm_compute in H; repeat destruct H as [<-|H]; try reflexivity; contradiction);
      intros a H; vm_compute in H; repeat destruct H as [<-|H]; try contradiction;
      vm_compute; intros [E|[]]; discriminate E. }
  refine (conj H1 (conj H2 (conj H3 (conj H4 _)))). exact (C18_fields_roundtrip _ _ _ _ H1 H2 H3 H4).
Qed.

(** separator tab, fields joined by a blank and a tab *)
Example C18_ws_fields_roundtrip_nonvacuous :
  trim (chars TAB) = [] /\ all_ws (chars (String.append " " TAB)) /\ chars (String.append " " TAB) <> [] /\ all_ws (chars NL)
  /\ [chars "7"; chars "8.5"; chars "x"] <> []
  /\ Forall (fun g => g <> [] /\ no_ws g) [chars "7"; chars "8.5"; chars "x"]
  /\ fields TAB (str (join (chars (String.append " " TAB)) [chars "7"; chars "8.5"; chars "x"] ++ chars NL))
     = [chars "7"; chars "8.5"; chars "x"].
Proof.
  assert (H1 : trim (chars TAB) = []) by reflexivity.
  assert (H2 : all_ws (chars (String.append " " TAB))).
  { intros a H; vm_compute in H; repeat destruct H as [<-|H]; try reflexivity; contradiction. }
  assert (H3 : chars (String.append " " TAB) <> []) by (vm_compute; discriminate).
  assert (H4 : all_ws (chars NL)).
  { intros a H; vm_compute in H; repeat destruct H as [<-|H]; try reflexivity; contradiction. }
  assert (H5 : [chars "7"; chars "8.5"; chars "x"] <> []) by discriminate.
  assert (H6 : Forall (fun g => g <> [] /\ no_ws g) [chars "7"; chars "8.5"; chars "x"]).
  { repeat constructor; try (vm_compute; discriminate);
      intros a H; vm_compute in H; repeat destruct H as [<-|H]; try reflexivity; contradiction. }
  refine (conj H1 (conj H2 (conj H3 (conj H4 (conj H5 (conj H6 _)))))). exact (C18_ws_fields_roundtrip _ _ _ _ H1 H2 H3 H4 H5 H6).
Qed.

Example C18_parse_nonvacuous :
  parse_stdout KUInt ","%string (String.append "3,14, 15"%string NL) = Some [(3, 1%positive); (14, 1%positive); (15, 1%positive)]%Z
  /\ parse_stdout KInt ","%string (String.append "3,14, 15"%string NL) = Some [(3, 1%positive); (14, 1%positive); (15, 1%positive)]%Z
  /\ parse_stdout KInt ","%string (String.append "3,-14, 15"%string NL) = Some [(3, 1%positive); (-14, 1%positive); (15, 1%positive)]%Z
  /\ parse_stdout KFloat ","%string (String.append "3,-14, 15"%string NL) = Some [(3, 1%positive); (-14, 1%positive); (15, 1%positive)]%Z
  /\ List.length (fields ","%string (String.append "3,-14, 15"%string NL)) = 3.
Proof. vm_compute. repeat split. Qed.

(** separator "::" and three integers, one negative *)
Example C18_parse_roundtrip_Z_nonvacuous :
  trim (chars "::") <> [] /\ no_ws (trim (chars "::")) /\ (forall a, In a (trim (chars "::")) -> ~ In a numeric_chars)
  /\ parse_stdout KFloat "::" (str (join (trim (chars "::")) (map (fun x => chars (render_Z x)) ([12; -3] ++ [0])%Z) ++ chars NL))
     = Some (map (fun x => (x, 1%positive)) ([12; -3] ++ [0])%Z).
Proof.
  assert (H1 : trim (chars "::") <> []) by (vm_compute; discriminate).
  assert (H2 : no_ws (trim (chars "::"))).
  { intros a H; vm_compute in H; repeat destruct H as [<-|H]; try reflexivity; contradiction. }
  assert (H3 : forall a, In a (trim (chars "::")) -> ~ In a numeric_chars).
  { intros a H; vm_compute in H; repeat destruct H as [<-|H]; try contradiction;
      vm_compute; intros E; repeat destruct E as [E|E]; try discriminate E; contradiction. }
  refine (conj H1 (conj H2 (conj H3 _))). exact (C18_parse_roundtrip_Z _ _ _ H1 H2 H3 KFloat (or_intror eq_refl)).
Qed.

(** two returned rows that are the parses of their outputs; and a run that failed with a row whose output does not parse *)
Example C18_parse_rows_ok_sound_nonvacuous :
  parse_rows_ok ","%string (Some "int32"%string)
    [OCmd "echo 5,4"%string None (Some (mkpout (String.append "5,4"%string NL) (Some ("int32"%string, [(5, 1%positive); (4, 1%positive)]%Z))));
     OCmd "echo 6,4"%string None (Some (mkpout (String.append "6,4"%string NL) (Some ("int32"%string, [(12, 2%positive); (4, 1%positive)]%Z))))] = true
  /\ parse_rows_ok ","%string None
    [OCmd "echo 5,4"%string None (Some (mkpout (String.append "5,4"%string NL) (Some ("float64"%string, [(5, 1%positive); (4, 1%positive)]%Z))));
     OCmd "echo a,4"%string None (Some (mkpout (String.append "a,4"%string NL) None))] = true.
Proof. vm_compute. repeat split. Qed.

Example C18_promotion_nonvacuous :
  Permutation [KB; KF; KI; KB] [KI; KB; KB; KF]
  /\ promote_all [KB; KF; KI; KB] = KF /\ promote_all [KI; KB; KB; KF] = KF
  /\ Permutation [OSc (SInt 0); OVec [SBool true; SFloat 1 2]] [OVec [SBool true; SFloat 1 2]; OSc (SInt 0)]
  /\ In KI [KB; KF; KI; KB] /\ kind_le KI (promote_all [KB; KF; KI; KB]) = true.
Proof.
  split.
  { apply Permutation_trans with (KB :: KI :: KF :: KB :: nil).
    - apply perm_skip. apply perm_swap.
    - apply Permutation_trans with (KI :: KB :: KF :: KB :: nil); [apply perm_swap|].
      do 2 apply perm_skip. apply perm_swap. }
  repeat split; try reflexivity; [apply perm_swap | simpl; auto].
Qed.

Example C18_promotion_least_nonvacuous :
  [KB; KI; KB] <> [] /\ (forall k, In k [KB; KI; KB] -> kind_le k KF = true) /\ promote_all [KB; KI; KB] = KI
  /\ kind_le (promote_all [KB; KI; KB]) KF = true.
Proof.
  assert (H : forall k, In k [KB; KI; KB] -> kind_le k KF = true).
  { intros k H; simpl in H; repeat destruct H as [<-|H]; try reflexivity; contradiction. }
  repeat split; auto; discriminate.
Qed.

Example C18_widening_nonvacuous :
  kind_le (kind_of_scal (SInt (-7))) KF = true /\ is_other KF = false /\ cast KF (SInt (-7)) = Some (SFloat (-7) 1)
  /\ has_kind KF (SFloat (-7) 1) = true /\ same_value (SInt (-7)) (SFloat (-7) 1) = true
  /\ kind_le (kind_of_scal (SStr "lo")) (KS 8) = true /\ cast (KS 8) (SStr "lo") = Some (SStr "lo").
Proof. vm_compute. repeat split. Qed.

Example C18_collect_no_row_narrowed_nonvacuous :
  homogeneous [OVec [SInt 0; SBool true]; OVec [SFloat 1 2; SInt 3]; OVec [SInt 4; SInt 5]] = true
  /\ is_other (promote_all (kinds [OVec [SInt 0; SBool true]; OVec [SFloat 1 2; SInt 3]; OVec [SInt 4; SInt 5]])) = false
  /\ collect DNone [OVec [SInt 0; SBool true]; OVec [SFloat 1 2; SInt 3]; OVec [SInt 4; SInt 5]]
     = Some ("float64"%string, [OVec [SFloat 0 1; SFloat 1 1]; OVec [SFloat 1 2; SFloat 3 1]; OVec [SFloat 4 1; SFloat 5 1]]).
Proof. vm_compute. repeat split. Qed.

(** vok / ok_history hold on a concrete non-degenerate model run (three rows, a marked constant, meta) *)
Example C18_ok_sound_nonvacuous :
  vok (model_case (fun c => OSc (SInt (Z.of_nat (List.length (c_args c))))) DNone ex_inputs (Some [2]) None [("foo"%string, vint 9)] ex_meta) = true
  /\ v_impl (model_case (fun c => OSc (SInt (Z.of_nat (List.length (c_args c))))) DNone ex_inputs (Some [2]) None [("foo"%string, vint 9)] ex_meta)
     <> None.
Proof. vm_compute. split; [reflexivity | discriminate]. Qed.
