(** C18 — vectorize and external_operation behave as per-row application.
    Model: Num/Vectorize.v ([run_vectorized] with its two loops and the in-place meta update,
    [unpack_meta], [prepare_seed] on top of the C15 model of [get_sub_seed], [str.format] on the token
    language [Lit | Pos | Key]).  This file only states the property theorems; proofs are in
    Proofs/C18_Vectorize.v.  All statements are for every arity, batch length, constants mask,
    keyword set and template. *)
From Coq Require Import List ZArith NArith Arith Bool String.
From Elfi Require Import Num.Seed Num.Vectorize Proofs.C15_Seed Proofs.C18_Vectorize.
Import ListNotations.

(** The two loops of [run_vectorized] (scan for constants / batch size, then per-row calls with the
    meta dict mutated in place) compute exactly: reject on a length mismatch, else the list of the
    per-row calls [expected_call 0 .. n-1] with [n = batch_len]. *)
Theorem C18_vectorize_refines_per_row :
  forall inputs constants bs kw meta df,
    run_vectorized inputs constants bs kw meta df =
      let cs := consts0 constants in
      let n := batch_len inputs cs bs in
      if mismatch_from 0 inputs cs n then VError
      else VOk (cont df) (map (expected_call inputs cs kw meta) (seq 0 n)).
Proof. exact vec_correct. Qed.
Print Assumptions C18_vectorize_refines_per_row.

(** Output length = batch length; the container is the object array exactly for dtype=False. *)
Theorem C18_output_length :
  forall inputs constants bs kw meta df k calls,
    run_vectorized inputs constants bs kw meta df = VOk k calls ->
    List.length calls = batch_len inputs (consts0 constants) bs /\ k = cont df.
Proof. exact vec_length. Qed.
Print Assumptions C18_output_length.

(** Entry [i] = the operation on row [i] of every non-constant input; marked constants and
    auto-detected non-arrays are passed as they are; keyword arguments unchanged; meta gets the row
    index.  (The row exists: no default element is ever used.) *)
Theorem C18_entry_is_row_application :
  forall inputs constants bs kw meta df k calls i,
    run_vectorized inputs constants bs kw meta df = VOk k calls ->
    i < batch_len inputs (consts0 constants) bs ->
    exists c, nth_error calls i = Some c
      /\ c_kw c = kw
      /\ c_meta c = set_index meta i
      /\ List.length (c_args c) = List.length inputs
      /\ forall j x, nth_error inputs j = Some x ->
           if is_const (consts0 constants) j x then nth_error (c_args c) j = Some x
           else exists r, nth_error (rows x) i = Some r /\ nth_error (c_args c) j = Some r.
Proof. exact vec_entry. Qed.
Print Assumptions C18_entry_is_row_application.

(** A length mismatch is rejected, and nothing else is. *)
Theorem C18_mismatch_rejected_iff :
  forall inputs constants bs kw meta df,
    run_vectorized inputs constants bs kw meta df = VError <->
    exists j x, nth_error inputs j = Some x /\ is_const (consts0 constants) j x = false
                /\ List.length (rows x) <> batch_len inputs (consts0 constants) bs.
Proof. exact vec_rejects_iff. Qed.
Print Assumptions C18_mismatch_rejected_iff.

(** Batch length: [batch_size] if given, else the length of the first non-constant input, else 1. *)
Theorem C18_batch_len_given : forall inputs cs b, batch_len inputs cs (Some b) = b.
Proof. exact batch_len_given. Qed.
Print Assumptions C18_batch_len_given.

Theorem C18_batch_len_first :
  forall pre x post cs,
    (forall k y, nth_error pre k = Some y -> is_const cs k y = true) ->
    is_const cs (List.length pre) x = false ->
    batch_len (pre ++ x :: post) cs None = List.length (rows x).
Proof. exact batch_len_first. Qed.
Print Assumptions C18_batch_len_first.

Theorem C18_batch_len_default :
  forall inputs cs, (forall k y, nth_error inputs k = Some y -> is_const cs k y = true) -> batch_len inputs cs None = 1.
Proof. exact batch_len_default. Qed.
Print Assumptions C18_batch_len_default.

(** The meta dict seen by row [i]: index_in_batch = i, every other key as given. *)
Theorem C18_meta_row_index : forall m i, lookup iib (dict_set iib (vint (Z.of_nat i)) m) = Some (vint (Z.of_nat i)).
Proof. exact meta_row_index. Qed.
Print Assumptions C18_meta_row_index.

Theorem C18_meta_other_keys : forall m i k, k <> iib -> lookup k (dict_set iib (vint (Z.of_nat i)) m) = lookup k m.
Proof. exact meta_other_keys. Qed.
Print Assumptions C18_meta_other_keys.

(** Template substitution is the homomorphism that leaves literals untouched and replaces each
    placeholder by its input ... *)
Theorem C18_format_app :
  forall a b args kw,
    format (a ++ b) args kw =
      match format a args kw with
      | FOk s => match format b args kw with FOk s' => FOk (String.append s s') | e => e end
      | e => e
      end.
Proof. exact format_app. Qed.
Print Assumptions C18_format_app.

Theorem C18_format_lit : forall s args kw, format [Lit s] args kw = FOk s.
Proof. exact format_lit. Qed.
Print Assumptions C18_format_lit.

Theorem C18_format_pos : forall n v args kw, nth_error args n = Some v -> format [Pos n] args kw = FOk (render v).
Proof. exact format_pos. Qed.
Print Assumptions C18_format_pos.

Theorem C18_format_key : forall k v args kw, lookup k kw = Some v -> format [Key k] args kw = FOk (render v).
Proof. exact format_key. Qed.
Print Assumptions C18_format_key.

(** ... it succeeds exactly when every placeholder has an input, and then no placeholder is left:
    the result is the concatenation of the per-token images. *)
Theorem C18_format_supplied :
  forall t args kw,
    supplied t args kw = true <-> format t args kw = FOk (String.concat EmptyString (map (image args kw) t)).
Proof. exact format_supplied. Qed.
Print Assumptions C18_format_supplied.

(** The executed command is the template over the positional inputs and the keywords
    (kwinputs over meta, plus the seed). *)
Theorem C18_external_command :
  forall t args kw meta rs cmd seed,
    run_external t args kw meta rs = EOk cmd seed ->
    let kw1 := unpack_meta kw meta in
    let kw2 := match seed with Some v => dict_set "seed"%string (vint (Z.of_N v)) kw1 | None => kw1 end in
    supplied t args kw2 = true /\ cmd = String.concat EmptyString (map (image args kw2) t).
Proof. exact external_command. Qed.
Print Assumptions C18_external_command.

(** The seed is the C15 sub-seed of (stream of the generator's first state word, row index): a
    function of the batch generator and the index only. *)
Theorem C18_external_seed :
  forall t args kw meta s cmd seed,
    run_external t args kw meta (Some s) = EOk cmd seed ->
    exists v, seed = Some v /\ Seed.spec s (sub_index (unpack_meta kw meta)) = Some v.
Proof. exact external_seed. Qed.
Print Assumptions C18_external_seed.

Theorem C18_external_seed_deterministic :
  forall t1 a1 kw1 m1 t2 a2 kw2 m2 s c1 c2 sd1 sd2,
    run_external t1 a1 kw1 m1 (Some s) = EOk c1 sd1 ->
    run_external t2 a2 kw2 m2 (Some s) = EOk c2 sd2 ->
    sub_index (unpack_meta kw1 m1) = sub_index (unpack_meta kw2 m2) -> sd1 = sd2.
Proof. exact external_seed_deterministic. Qed.
Print Assumptions C18_external_seed_deterministic.

(** vectorize(external_operation): one result per row. *)
Theorem C18_vec_ext_length :
  forall t inputs constants bs kw meta rs res,
    run_vec_ext t inputs constants bs kw meta rs = Some res ->
    List.length res = batch_len inputs (consts0 constants) bs.
Proof. exact vec_ext_length. Qed.
Print Assumptions C18_vec_ext_length.

(** Under the uses_meta precondition (a meta dict is passed and no explicit index_in_batch keyword
    overrides it) row [i] gets the sub-seed of index [i] ... *)
Theorem C18_row_seed :
  forall t inputs constants bs kw m s res i cmd seed,
    run_vec_ext t inputs constants bs kw (Some m) (Some s) = Some res ->
    lookup iib kw = None ->
    nth_error res i = Some (EOk cmd seed) ->
    exists v, seed = Some v /\ Seed.spec s i = Some v.
Proof. exact vec_ext_row_seed. Qed.
Print Assumptions C18_row_seed.

(** ... so seeds of different rows of one batch differ (by C15's injectivity). *)
Theorem C18_row_seeds_distinct :
  forall t inputs constants bs kw m s res i j ci cj vi vj,
    run_vec_ext t inputs constants bs kw (Some m) (Some s) = Some res ->
    lookup iib kw = None ->
    nth_error res i = Some (EOk ci (Some vi)) ->
    nth_error res j = Some (EOk cj (Some vj)) ->
    i <> j -> vi <> vj.
Proof. exact vec_ext_seeds_distinct. Qed.
Print Assumptions C18_row_seeds_distinct.

(** Without run metadata the precondition fails and every row gets the same seed. *)
Theorem C18_no_meta_same_seed :
  forall t inputs constants bs kw s res i cmd seed,
    run_vec_ext t inputs constants bs kw None (Some s) = Some res ->
    nth_error res i = Some (EOk cmd seed) ->
    exists v, seed = Some v /\ Seed.spec s (sub_index kw) = Some v.
Proof. exact vec_ext_no_meta_same_seed. Qed.
Print Assumptions C18_no_meta_same_seed.

(** The decidable predicates evaluated on the implementation's observations are sound for the
    property, and the model's own outputs satisfy them. *)
Theorem C18_ok_sound : forall c, vok c = true -> vec_statement c.
Proof. exact vok_sound. Qed.
Print Assumptions C18_ok_sound.

Theorem C18_model_ok :
  forall inputs constants bs kw meta df,
    vok {| v_inputs := inputs; v_constants := constants; v_batch_size := bs; v_kw := kw; v_meta := meta;
           v_dtype_false := df; v_impl := vview (run_vectorized inputs constants bs kw meta df); v_impl_obj := df |} = true.
Proof. exact vmodel_ok. Qed.
Print Assumptions C18_model_ok.

(** histories: one vectorised callable called any number of times; every call is per-row application of ITS OWN inputs *)
Theorem C18_history_ok_sound : forall h, ok_history h = true -> forall c, In (CVec c) h -> vec_statement c.
Proof. exact history_ok_sound. Qed.
Print Assumptions C18_history_ok_sound.

Theorem C18_history_model_ok : forall constants df calls, ok_history (model_history constants df calls) = true.
Proof. exact history_model_ok. Qed.
Print Assumptions C18_history_model_ok.

(** scalar at an unmasked position (auto-detected constant in that call), then a batch array at the same position: the second call
    is row-wise again, the mask [1] still holds in both *)
Example C18_example_history_scalar_then_array :
  map (fun c => match c with CVec v => v_impl v | CExt _ => None end)
      (model_history (Some [1]) false
         [ {| h_inputs := [vint 5; VArr [vint 1; vint 2]]; h_batch_size := None; h_kw := []; h_meta := None |};
           {| h_inputs := [VArr [vint 7; vint 8]; VArr [vint 1; vint 2]]; h_batch_size := None; h_kw := []; h_meta := None |} ])
  = [ Some [mkcall [vint 5; VArr [vint 1; vint 2]] [] None];
      Some [mkcall [vint 7; VArr [vint 1; vint 2]] [] None; mkcall [vint 8; VArr [vint 1; vint 2]] [] None] ].
Proof. vm_compute. reflexivity. Qed.

Theorem C18_row_ok_sound :
  forall t args kw rs idx cmd seed p,
    row_ok t args kw rs idx (OCmd cmd seed p) = true ->
    seed = match rs with Some s => Seed.spec s idx | None => None end
    /\ (rs <> None -> seed <> None)
    /\ let kw' := match seed with Some v => dict_set "seed"%string (vint (Z.of_N v)) kw | None => kw end in
       format t args kw' = FOk cmd.
Proof. exact row_ok_sound. Qed.
Print Assumptions C18_row_ok_sound.

Theorem C18_distinct_seeds_sound :
  forall os acc, distinct_seeds os acc = true ->
  forall i j v w, i < j -> option_map seed_of (nth_error os i) = Some (Some v) ->
                  option_map seed_of (nth_error os j) = Some (Some w) -> v <> w.
Proof. exact distinct_seeds_sound. Qed.
Print Assumptions C18_distinct_seeds_sound.

Theorem C18_model_row_ok :
  forall t args kw meta rs cmd seed,
    run_external t args kw meta rs = EOk cmd seed ->
    row_ok t args (unpack_meta kw meta) rs (sub_index (unpack_meta kw meta)) (OCmd cmd seed None) = true.
Proof. exact emodel_row_ok. Qed.
Print Assumptions C18_model_row_ok.

(** ---- non-vacuity ---- *)

Definition ex_inputs : list value :=
  [VArr [vint 1; vint 2; vint 3]; vint 5; VArr [vint 7; vint 8]; VSeq [vint 0]; VArr [VArr [vint 1; vint 2]; VArr [vint 3; vint 4]; VArr [vint 5; vint 6]]].
Definition ex_meta : option dict := Some [("batch_index"%string, vint 4)].

(** a marked array constant of another length, an auto-detected scalar and list, a 2-d input *)
Example C18_example_rows :
  run_vectorized ex_inputs (Some [2]) None [("foo"%string, vint 9)] ex_meta true
  = VOk ObjArray
      [ mkcall [vint 1; vint 5; VArr [vint 7; vint 8]; VSeq [vint 0]; VArr [vint 1; vint 2]] [("foo"%string, vint 9)]
               (Some [("batch_index"%string, vint 4); (iib, vint 0)]);
        mkcall [vint 2; vint 5; VArr [vint 7; vint 8]; VSeq [vint 0]; VArr [vint 3; vint 4]] [("foo"%string, vint 9)]
               (Some [("batch_index"%string, vint 4); (iib, vint 1)]);
        mkcall [vint 3; vint 5; VArr [vint 7; vint 8]; VSeq [vint 0]; VArr [vint 5; vint 6]] [("foo"%string, vint 9)]
               (Some [("batch_index"%string, vint 4); (iib, vint 2)]) ].
Proof. vm_compute. reflexivity. Qed.

(** the same inputs without the mask: input 2 has the wrong length *)
Example C18_example_mismatch : run_vectorized ex_inputs None None [] None false = VError.
Proof. vm_compute. reflexivity. Qed.

(** no arrays: batch_size, else one row *)
Example C18_example_batch_size :
  (match run_vectorized [vint 5] None (Some 4) [] None false with VOk _ c => List.length c | VError => 0 end,
   match run_vectorized [vint 5] None None [] None false with VOk _ c => List.length c | VError => 0 end) = (4, 1).
Proof. vm_compute. reflexivity. Qed.

Definition ex_toks : list tok :=
  [Lit "echo "%string; Pos 0; Lit " {x} "%string; Key "batch_index"%string; Lit " "%string; Key "seed"%string; Lit " "%string; Key iib].
(** a stream with forced collisions *)
Definition ex_stream : list N := [11; 11; 12; 11; 13; 14; 15]%N.

Example C18_example_external_uses_meta :
  run_vec_ext ex_toks [VArr [vint 7; vint 8; vint 9]] None (Some 3) [] ex_meta (Some ex_stream)
  = Some [EOk "echo 7 {x} 4 11 0"%string (Some 11%N); EOk "echo 8 {x} 4 12 1"%string (Some 12%N);
          EOk "echo 9 {x} 4 13 2"%string (Some 13%N)].
Proof. vm_compute. reflexivity. Qed.

(** the precondition matters: without run metadata every row gets [Seed.spec s 0] *)
Example C18_example_external_no_meta :
  run_vec_ext [Lit "echo "%string; Pos 0; Lit " "%string; Key "seed"%string] [VArr [vint 7; vint 8; vint 9]] None (Some 3) [] None (Some ex_stream)
  = Some [EOk "echo 7 11"%string (Some 11%N); EOk "echo 8 11"%string (Some 11%N); EOk "echo 9 11"%string (Some 11%N)].
Proof. vm_compute. reflexivity. Qed.

Example C18_example_missing_inputs :
  (run_external [Lit "echo "%string; Pos 1] [vint 1] [] None None,
   run_external [Lit "echo "%string; Key "seed"%string] [vint 1] [] None None)
  = (EIndexError 1, EKeyError "seed"%string).
Proof. vm_compute. reflexivity. Qed.
