(** C04 — sampler results do not depend on worker scheduling or parallelism.
    Model: Sched/Sched.v (BatchHandler + iterate/_allow_submit/finished/infer over an abstract
    method and an explicit readiness oracle), instance Sched/Reject.v.  Proofs: Proofs/C04_Sched.v. *)
From Coq Require Import List ZArith NArith Arith Bool.
From Elfi Require Import Sched.Sched Sched.Reject Proofs.C04_Sched.
Import ListNotations.

(** For every inference method whose supplied batch values do not change within a round, every
    readiness oracle and every max_parallel_batches >= 1: the inference ends in exactly the state
    of the sequential run (consume batch 0, 1, 2, ... one at a time), nothing is left pending, and
    its client-call trace is well formed: indices consumed in order exactly once, always from the
    oldest outstanding task, never more than max_parallel outstanding, cancelled tasks never read. *)
Theorem C04_schedule_independent :
  forall (S R P : Type) (objective consumed : S -> nat) (prepare : S -> nat -> P)
         (compute : nat -> P -> R) (update : S -> R -> nat -> S * bool),
    (forall s r i, snd (update s r i) = false -> forall j, prepare (fst (update s r i)) j = prepare s j) ->
    forall maxp fuel s0 orc sf n,
      1 <= maxp ->
      seq_run S R P objective consumed prepare compute update fuel s0 0 = Some (sf, n) ->
      exists s' tr',
        infer S R P objective consumed prepare compute update fuel maxp
              {| st := s0; next := 0; pending := [] |} orc [] = inl (s', tr') /\
        st s' = sf /\ pending s' = [] /\ next s' = n /\ trace_ok maxp tr' = Some n.
Proof. intros. eapply schedule_independent; eauto. Qed.
Print Assumptions C04_schedule_independent.

(** One iteration is one sequential step, whatever the oracle answers. *)
Theorem C04_iterate_is_one_step :
  forall (S R P : Type) (objective consumed : S -> nat) (prepare : S -> nat -> P)
         (compute : nat -> P -> R) (update : S -> R -> nat -> S * bool),
    (forall s r i, snd (update s r i) = false -> forall j, prepare (fst (update s r i)) j = prepare s j) ->
    forall maxp s orc tr c,
      1 <= maxp -> Inv S P prepare maxp s c ->
      chk_run maxp (0, []) tr = Some (c, idxs P (pending s)) ->
      finished S P objective consumed s = false ->
      exists s' orc' tr',
        iterate S R P objective consumed prepare compute update maxp s orc tr = inl (s', orc', tr') /\
        Inv S P prepare maxp s' (Datatypes.S c) /\
        chk_run maxp (0, []) tr' = Some (Datatypes.S c, idxs P (pending s')) /\
        st s' = fst (update (st s) (compute c (prepare (st s) c)) c).
Proof. intros. eapply iterate_sim; eauto. Qed.
Print Assumptions C04_iterate_is_one_step.

(** If the sequential run does not finish within the fuel, neither does any schedule (and vice versa
    by the theorem above): the scheduler itself never fails (no "no batches submitted", no "not in
    order"). *)
Theorem C04_no_scheduler_error :
  forall (S R P : Type) (objective consumed : S -> nat) (prepare : S -> nat -> P)
         (compute : nat -> P -> R) (update : S -> R -> nat -> S * bool),
    (forall s r i, snd (update s r i) = false -> forall j, prepare (fst (update s r i)) j = prepare s j) ->
    forall maxp fuel s0 orc,
      1 <= maxp ->
      seq_run S R P objective consumed prepare compute update fuel s0 0 = None ->
      infer S R P objective consumed prepare compute update fuel maxp
            {| st := s0; next := 0; pending := [] |} orc [] = inr EOutOfFuel.
Proof.
  intros. eapply infer_out_of_fuel; eauto; [apply Inv_initial | reflexivity].
Qed.
Print Assumptions C04_no_scheduler_error.

(** The rejection sampler instance: its final state (hence samples, threshold, n_sim) is the same
    for every schedule and every max_parallel_batches. *)
Theorem C04_rejection_schedule_independent :
  forall maxp fuel s0 table orc sf n,
    1 <= maxp -> rseq fuel s0 table = Some (sf, n) ->
    exists s' tr', rinfer fuel maxp s0 table orc = inl (s', tr') /\ st s' = sf /\ pending s' = [] /\
                   trace_ok maxp tr' = Some n.
Proof.
  intros maxp fuel s0 table orc sf n Hm H. unfold rinfer, rseq in *.
  destruct (schedule_independent rstate (list draw) unit r_objective r_nbatches (fun _ _ => tt) (batch_of table) rupdate
              (fun _ _ _ _ _ => eq_refl) maxp fuel s0 orc sf n Hm H) as [s' [tr' [A [B [C [D E]]]]]].
  exists s', tr'. auto.
Qed.
Print Assumptions C04_rejection_schedule_independent.

(** Non-vacuity: three batches of two draws, n_samples = 2, budget of 3 batches, max_parallel = 3 and
    an oracle that says "not ready" twice: same final rows as the sequential run. *)
Definition dr (z : Z) (c : N) : draw := {| d_disc := Fin z; d_code := c |}.
Definition ex_table : list (list draw) := [[dr 5 0; dr 3 1]; [dr 4 2; dr 1 3]; [dr 2 4; dr 9 5]].
Example C04_example :
  match rinfer 10 3 (rinit 2 2 None 3) ex_table [false; false; true; false], rseq 10 (rinit 2 2 None 3) ex_table with
  | inl (s, tr), Some (sf, n) =>
      rows_eqb (res_rows (extract (st s))) (res_rows (extract sf)) && Nat.eqb n 3
      && match trace_ok 3 tr with Some k => Nat.eqb k 3 | None => false end
      && rows_eqb (res_rows (extract sf)) [Some (dr 1 3); Some (dr 2 4)]
  | _, _ => false
  end = true.
Proof. vm_compute. reflexivity. Qed.
