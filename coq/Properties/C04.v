(** C04 — sampler results do not depend on worker scheduling or parallelism.
    Model: Sched/Sched.v (BatchHandler + iterate/_allow_submit/finished/infer over an abstract
    method and an explicit readiness oracle), instance Sched/Reject.v.  Proofs: Proofs/C04_Sched.v,
    Proofs/C04_Trace.v (what the trace predicate means). *)
From Coq Require Import List ZArith NArith Arith Bool.
From Elfi Require Import Sched.Sched Sched.Reject Proofs.C04_Sched Proofs.C04_Trace.
Import ListNotations.

(** For every inference method whose supplied batch values do not change within a round, every
    readiness oracle and every max_parallel_batches >= 1: the inference ends in exactly the state
    of the sequential run (consume batch 0, 1, 2, ... one at a time), nothing is left pending, and
    its client-call trace is well formed: indices consumed in order exactly once, always from the
    oldest outstanding task, never more than max_parallel outstanding, cancelled tasks never read. *)
Theorem C04_schedule_independent :
  forall (S R P : Type) (objective consumed : S -> nat) (prepare : S -> nat -> P)
         (compute : nat -> P -> R) (update : S -> R -> nat -> S * bool),
    (forall s r i, snd (update s r i) = false -> forall j, prepare (fst (update s r i)) j = prepare s j) ->
    forall maxp fuel s0 orc sf n,
      1 <= maxp ->
      seq_run S R P objective consumed prepare compute update fuel s0 0 = Some (sf, n) ->
      exists s' tr',
        infer S R P objective consumed prepare compute update fuel maxp
              {| st := s0; next := 0; pending := [] |} orc [] = inl (s', tr') /\
        st s' = sf /\ pending s' = [] /\ next s' = n /\ trace_ok maxp tr' = Some n.
Proof. intros. eapply schedule_independent; eauto. Qed.
Print Assumptions C04_schedule_independent.

(** One iteration is one sequential step, whatever the oracle answers. *)
Theorem C04_iterate_is_one_step :
  forall (S R P : Type) (objective consumed : S -> nat) (prepare : S -> nat -> P)
         (compute : nat -> P -> R) (update : S -> R -> nat -> S * bool),
    (forall s r i, snd (update s r i) = false -> forall j, prepare (fst (update s r i)) j = prepare s j) ->
    forall maxp s orc tr c,
      1 <= maxp -> Inv S P prepare maxp s c ->
      chk_run maxp (0, []) tr = Some (c, idxs P (pending s)) ->
      finished S P objective consumed s = false ->
      exists s' orc' tr',
        iterate S R P objective consumed prepare compute update maxp s orc tr = inl (s', orc', tr') /\
        Inv S P prepare maxp s' (Datatypes.S c) /\
        chk_run maxp (0, []) tr' = Some (Datatypes.S c, idxs P (pending s')) /\
        st s' = fst (update (st s) (compute c (prepare (st s) c)) c).
Proof. intros. eapply iterate_sim; eauto. Qed.
Print Assumptions C04_iterate_is_one_step.

(** If the sequential run does not finish within the fuel, neither does any schedule (and vice versa
    by the theorem above): the scheduler itself never fails (no "no batches submitted", no "not in
    order"). *)
Theorem C04_no_scheduler_error :
  forall (S R P : Type) (objective consumed : S -> nat) (prepare : S -> nat -> P)
         (compute : nat -> P -> R) (update : S -> R -> nat -> S * bool),
    (forall s r i, snd (update s r i) = false -> forall j, prepare (fst (update s r i)) j = prepare s j) ->
    forall maxp fuel s0 orc,
      1 <= maxp ->
      seq_run S R P objective consumed prepare compute update fuel s0 0 = None ->
      infer S R P objective consumed prepare compute update fuel maxp
            {| st := s0; next := 0; pending := [] |} orc [] = inr EOutOfFuel.
Proof.
  intros. eapply infer_out_of_fuel; eauto; [apply Inv_initial | reflexivity].
Qed.
Print Assumptions C04_no_scheduler_error.

(** The rejection sampler instance: its final state (hence samples, threshold, n_sim) is the same
    for every schedule and every max_parallel_batches. *)
Theorem C04_rejection_schedule_independent :
  forall maxp fuel s0 table orc sf n,
    1 <= maxp -> rseq fuel s0 table = Some (sf, n) ->
    exists s' tr', rinfer fuel maxp s0 table orc = inl (s', tr') /\ st s' = sf /\ pending s' = [] /\
                   trace_ok maxp tr' = Some n.
Proof.
  intros maxp fuel s0 table orc sf n Hm H. unfold rinfer, rseq in *.
  destruct (schedule_independent rstate (list draw) unit r_objective r_nbatches (fun _ _ => tt) (batch_of table) rupdate
              (fun _ _ _ _ _ => eq_refl) maxp fuel s0 orc sf n Hm H) as [s' [tr' [A [B [C [D E]]]]]].
  exists s', tr'. auto.
Qed.
Print Assumptions C04_rejection_schedule_independent.

(** Non-vacuity: three batches of two draws, n_samples = 2, budget of 3 batches, max_parallel = 3 and
    an oracle that says "not ready" twice: same final rows as the sequential run. *)
Definition dr (z : Z) (c : N) : draw := {| d_disc := Fin z; d_code := c |}.
Definition ex_table : list (list draw) := [[dr 5 0; dr 3 1]; [dr 4 2; dr 1 3]; [dr 2 4; dr 9 5]].
Example C04_example :
  match rinfer 10 3 (rinit 2 2 None 3) ex_table [false; false; true; false], rseq 10 (rinit 2 2 None 3) ex_table with
  | inl (s, tr), Some (sf, n) =>
      rows_eqb (res_rows (extract (st s))) (res_rows (extract sf)) && Nat.eqb n 3
      && match trace_ok 3 tr with Some k => Nat.eqb k 3 | None => false end
      && rows_eqb (res_rows (extract sf)) [Some (dr 1 3); Some (dr 2 4)]
  | _, _ => false
  end = true.
Proof. vm_compute. reflexivity. Qed.

(** ---- what [trace_ok maxp tr = Some n] means ----
    [trace_ok] is a decidable checker; the conclusions above (and the correspondence, which applies it
    to the implementation's client-call trace) are only as strong as what it enforces.  Stated with plain
    functions over the trace (Proofs/C04_Trace.v): [gets tr] the indices of the EGet events in order,
    [n_submit]/[n_get]/[n_cancel] the numbers of events of each kind,
    [outstanding p = n_submit p - n_get p - n_cancel p], and
    [live i p] = "p = p1 ++ ESubmit i :: p2 with neither ECancel i nor EGet i in p2". *)
Definition trace_spec (maxp : nat) (tr : list event) (n : nat) : Prop :=
  (* 1: consumed strictly in index order, each exactly once *)
  gets tr = seq 0 n /\
  (* 2: at every moment no more reads + removals than submissions, at most maxp tasks outstanding *)
  (forall p q, tr = p ++ q -> n_get p + n_cancel p <= n_submit p /\ outstanding p <= maxp) /\
  (* 3: nothing is left in the client at the end *)
  n_submit tr = n_get tr + n_cancel tr /\
  (* 4: the result of a cancelled batch is never used: a read of i after a cancel of i reads a task
        submitted after that cancel *)
  (forall p i q r, tr = p ++ ECancel i :: q ++ EGet i :: r -> In (ESubmit i) q) /\
  (* 5: the i-th read reads index i, from a task that is in the client; is_ready is asked only about
        that same task; only a task in the client is removed, and it is the newest one; a submission
        takes the next free index and happens only below the limit *)
  (forall p i r, tr = p ++ EGet i :: r -> In (ESubmit i) p /\ i = n_get p /\ live i p) /\
  (forall p i b r, tr = p ++ EAsk i b :: r -> In (ESubmit i) p /\ i = n_get p /\ live i p) /\
  (forall p i r, tr = p ++ ECancel i :: r -> live i p /\ Datatypes.S i = n_get p + outstanding p) /\
  (forall p i r, tr = p ++ ESubmit i :: r -> i = n_get p + outstanding p /\ outstanding p < maxp).

Theorem C04_trace_ok_meaning :
  forall maxp tr n, trace_ok maxp tr = Some n -> trace_spec maxp tr n.
Proof. exact trace_ok_meaning. Qed.
Print Assumptions C04_trace_ok_meaning.

(** and conversely: the statements 1-5 are all the checker asks for, so [trace_ok maxp tr = Some n]
    and [trace_spec maxp tr n] say the same. *)
Theorem C04_trace_ok_iff_spec :
  forall maxp tr n, trace_ok maxp tr = Some n <-> trace_spec maxp tr n.
Proof. intros maxp tr n. split; [exact (trace_ok_meaning maxp tr n) | exact (trace_ok_complete maxp tr n)]. Qed.
Print Assumptions C04_trace_ok_iff_spec.

(** For every schedule (oracle, max_parallel_batches >= 1) the client-call trace of [infer] has
    properties 1-5 with n = the number of batches the sequential run consumes. *)
Theorem C04_every_schedule_trace_meaning :
  forall (S R P : Type) (objective consumed : S -> nat) (prepare : S -> nat -> P)
         (compute : nat -> P -> R) (update : S -> R -> nat -> S * bool),
    (forall s r i, snd (update s r i) = false -> forall j, prepare (fst (update s r i)) j = prepare s j) ->
    forall maxp fuel s0 orc sf n,
      1 <= maxp ->
      seq_run S R P objective consumed prepare compute update fuel s0 0 = Some (sf, n) ->
      exists s' tr',
        infer S R P objective consumed prepare compute update fuel maxp
              {| st := s0; next := 0; pending := [] |} orc [] = inl (s', tr') /\
        st s' = sf /\ trace_spec maxp tr' n.
Proof.
  intros S R P objective consumed prepare compute update Hp maxp fuel s0 orc sf n Hm Hs.
  destruct (C04_schedule_independent S R P objective consumed prepare compute update Hp
              maxp fuel s0 orc sf n Hm Hs) as [s' [tr' [A [B [_ [_ E]]]]]].
  exists s', tr'. split; [exact A | split; [exact B | exact (C04_trace_ok_meaning _ _ _ E)]].
Qed.
Print Assumptions C04_every_schedule_trace_meaning.

(** Non-vacuity of the trace predicate: batch 1 is submitted, cancelled unread after batch 0 was
    consumed, submitted again and then read. *)
Example C04_trace_example :
  trace_ok 2 [ESubmit 0; EAsk 0 false; ESubmit 1; EGet 0; ECancel 1; ESubmit 1; EAsk 1 true; EGet 1]
  = Some 2.
Proof. vm_compute. reflexivity. Qed.
