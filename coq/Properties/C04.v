(** C04 — sampler results do not depend on worker scheduling or parallelism.
    Model: Sched/Sched.v (BatchHandler + iterate/_allow_submit/finished/infer over an abstract
    method and an explicit readiness oracle), instance Sched/Reject.v.  Proofs: Proofs/C04_Sched.v,
    Proofs/C04_Trace.v (what the trace predicate means). *)
From Coq Require Import List ZArith NArith Arith Bool.
From Elfi Require Import Sched.Sched Sched.Reject Proofs.C04_Sched Proofs.C04_Trace.
Import ListNotations.

(** For every inference method whose supplied batch values do not change within a round, every
    readiness oracle and every max_parallel_batches >= 1: the inference ends in exactly the state
    of the sequential run (consume batch 0, 1, 2, ... one at a time), nothing is left pending, and
    its client-call trace is well formed: indices consumed in order exactly once, always from the
    oldest outstanding task, never more than max_parallel outstanding, cancelled tasks never read. *)
Theorem C04_schedule_independent :
  forall (S R P : Type) (objective consumed : S -> nat) (prepare : S -> nat -> P)
         (compute : nat -> P -> R) (update : S -> R -> nat -> S * bool),
    (forall s r i, snd (update s r i) = false -> forall j, prepare (fst (update s r i)) j = prepare s j) ->
    forall maxp fuel s0 orc sf n,
      1 <= maxp ->
      seq_run S R P objective consumed prepare compute update fuel s0 0 = Some (sf, n) ->
      exists s' tr',
        infer S R P objective consumed prepare compute update fuel maxp
              {| st := s0; next := 0; pending := [] |} orc [] = inl (s', tr') /\
        st s' = sf /\ pending s' = [] /\ next s' = n /\ trace_ok maxp tr' = Some n.
Proof. intros. eapply schedule_independent; eauto. Qed.
Print Assumptions C04_schedule_independent.

(** One iteration is one sequential step, whatever the oracle answers. *)
Theorem C04_iterate_is_one_step :
  forall (S R P : Type) (objective consumed : S -> nat) (prepare : S -> nat -> P)
         (compute : nat -> P -> R) (update : S -> R -> nat -> S * bool),
    (forall s r i, snd (update s r i) = false -> forall j, prepare (fst (update s r i)) j = prepare s j) ->
    forall maxp s orc tr c,
      1 <= maxp -> Inv S P prepare maxp s c ->
      chk_run maxp (0, []) tr = Some (c, idxs P (pending s)) ->
      finished S P objective consumed s = false ->
      exists s' orc' tr',
        iterate S R P objective consumed prepare compute update maxp s orc tr = inl (s', orc', tr') /\
        Inv S P prepare maxp s' (Datatypes.S c) /\
        chk_run maxp (0, []) tr' = Some (Datatypes.S c, idxs P (pending s')) /\
        st s' = fst (update (st s) (compute c (prepare (st s) c)) c).
Proof. intros. eapply iterate_sim; eauto. Qed.
Print Assumptions C04_iterate_is_one_step.

(** If the sequential run does not finish within the fuel, neither does any schedule (and vice versa
    by the theorem above): the scheduler itself never fails (no "no batches submitted", no "not in
    order"). *)
Theorem C04_no_scheduler_error :
  forall (S R P : Type) (objective consumed : S -> nat) (prepare : S -> nat -> P)
         (compute : nat -> P -> R) (update : S -> R -> nat -> S * bool),
    (forall s r i, snd (update s r i) = false -> forall j, prepare (fst (update s r i)) j = prepare s j) ->
    forall maxp fuel s0 orc,
      1 <= maxp ->
      seq_run S R P objective consumed prepare compute update fuel s0 0 = None ->
      infer S R P objective consumed prepare compute update fuel maxp
            {| st := s0; next := 0; pending := [] |} orc [] = inr EOutOfFuel.
Proof.
  intros. eapply infer_out_of_fuel; eauto; [apply Inv_initial | reflexivity].
Qed.
Print Assumptions C04_no_scheduler_error.

(** The rejection sampler instance: its final state (hence samples, threshold, n_sim) is the same
    for every schedule and every max_parallel_batches. *)
Theorem C04_rejection_schedule_independent :
  forall maxp fuel s0 table orc sf n,
    1 <= maxp -> rseq fuel s0 table = Some (sf, n) ->
    exists s' tr', rinfer fuel maxp s0 table orc = inl (s', tr') /\ st s' = sf /\ pending s' = [] /\
                   trace_ok maxp tr' = Some n.
Proof.
  intros maxp fuel s0 table orc sf n Hm H. unfold rinfer, rseq in *.
  destruct (schedule_independent rstate (list draw) unit r_objective r_nbatches (fun _ _ => tt) (batch_of table) rupdate
              (fun _ _ _ _ _ => eq_refl) maxp fuel s0 orc sf n Hm H) as [s' [tr' [A [B [C [D E]]]]]].
  exists s', tr'. auto.
Qed.
Print Assumptions C04_rejection_schedule_independent.

(** Non-vacuity: three batches of two draws, n_samples = 2, budget of 3 batches, max_parallel = 3 and
    an oracle that says "not ready" twice: same final rows as the sequential run. *)
Definition dr (z : Z) (c : N) : draw := {| d_disc := Fin z; d_code := c |}.
Definition ex_table : list (list draw) := [[dr 5 0; dr 3 1]; [dr 4 2; dr 1 3]; [dr 2 4; dr 9 5]].
Example C04_example :
  match rinfer 10 3 (rinit 2 2 None 3) ex_table [false; false; true; false], rseq 10 (rinit 2 2 None 3) ex_table with
  | inl (s, tr), Some (sf, n) =>
      rows_eqb (res_rows (extract (st s))) (res_rows (extract sf)) && Nat.eqb n 3
      && match trace_ok 3 tr with Some k => Nat.eqb k 3 | None => false end
      && rows_eqb (res_rows (extract sf)) [Some (dr 1 3); Some (dr 2 4)]
  | _, _ => false
  end = true.
Proof. vm_compute. reflexivity. Qed.

(** ---- what [trace_ok maxp tr = Some n] means ----
    [trace_ok] is a decidable checker; the conclusions above (and the correspondence, which applies it
    to the implementation's client-call trace) are only as strong as what it enforces.  Stated with plain
    functions over the trace (Proofs/C04_Trace.v): [gets tr] the indices of the EGet events in order,
    [n_submit]/[n_get]/[n_cancel] the numbers of events of each kind,
    [outstanding p = n_submit p - n_get p - n_cancel p], and
    [live i p] = "p = p1 ++ ESubmit i :: p2 with neither ECancel i nor EGet i in p2". *)
Definition trace_spec (maxp : nat) (tr : list event) (n : nat) : Prop :=
  (* 1: consumed strictly in index order, each exactly once *)
  gets tr = seq 0 n /\
  (* 2: at every moment no more reads + removals than submissions, at most maxp tasks outstanding *)
  (forall p q, tr = p ++ q -> n_get p + n_cancel p <= n_submit p /\ outstanding p <= maxp) /\
  (* 3: nothing is left in the client at the end *)
  n_submit tr = n_get tr + n_cancel tr /\
  (* 4: the result of a cancelled batch is never used: a read of i after a cancel of i reads a task
        submitted after that cancel *)
  (forall p i q r, tr = p ++ ECancel i :: q ++ EGet i :: r -> In (ESubmit i) q) /\
  (* 5: the i-th read reads index i, from a task that is in the client; is_ready is asked only about
        that same task; only a task in the client is removed, and it is the newest one; a submission
        takes the next free index and happens only below the limit *)
  (forall p i r, tr = p ++ EGet i :: r -> In (ESubmit i) p /\ i = n_get p /\ live i p) /\
  (forall p i b r, tr = p ++ EAsk i b :: r -> In (ESubmit i) p /\ i = n_get p /\ live i p) /\
  (forall p i r, tr = p ++ ECancel i :: r -> live i p /\ Datatypes.S i = n_get p + outstanding p) /\
  (forall p i r, tr = p ++ ESubmit i :: r -> i = n_get p + outstanding p /\ outstanding p < maxp).

Theorem C04_trace_ok_meaning :
  forall maxp tr n, trace_ok maxp tr = Some n -> trace_spec maxp tr n.
Proof. exact trace_ok_meaning. Qed.
Print Assumptions C04_trace_ok_meaning.

(** and conversely: the statements 1-5 are all the checker asks for, so [trace_ok maxp tr = Some n]
    and [trace_spec maxp tr n] say the same. *)
Theorem C04_trace_ok_iff_spec :
  forall maxp tr n, trace_ok maxp tr = Some n <-> trace_spec maxp tr n.
Proof. intros maxp tr n. split; [exact (trace_ok_meaning maxp tr n) | exact (trace_ok_complete maxp tr n)]. Qed.
Print Assumptions C04_trace_ok_iff_spec.

(** For every schedule (oracle, max_parallel_batches >= 1) the client-call trace of [infer] has
    properties 1-5 with n = the number of batches the sequential run consumes. *)
Theorem C04_every_schedule_trace_meaning :
  forall (S R P : Type) (objective consumed : S -> nat) (prepare : S -> nat -> P)
         (compute : nat -> P -> R) (update : S -> R -> nat -> S * bool),
    (forall s r i, snd (update s r i) = false -> forall j, prepare (fst (update s r i)) j = prepare s j) ->
    forall maxp fuel s0 orc sf n,
      1 <= maxp ->
      seq_run S R P objective consumed prepare compute update fuel s0 0 = Some (sf, n) ->
      exists s' tr',
        infer S R P objective consumed prepare compute update fuel maxp
              {| st := s0; next := 0; pending := [] |} orc [] = inl (s', tr') /\
        st s' = sf /\ trace_spec maxp tr' n.
Proof.
  intros S R P objective consumed prepare compute update Hp maxp fuel s0 orc sf n Hm Hs.
  destruct (C04_schedule_independent S R P objective consumed prepare compute update Hp
              maxp fuel s0 orc sf n Hm Hs) as [s' [tr' [A [B [_ [_ E]]]]]].
  exists s', tr'. split; [exact A | split; [exact B | exact (C04_trace_ok_meaning _ _ _ E)]].
Qed.
Print Assumptions C04_every_schedule_trace_meaning.

(** Non-vacuity of the trace predicate: batch 1 is submitted, cancelled unread after batch 0 was
    consumed, submitted again and then read. *)
Example C04_trace_example :
  trace_ok 2 [ESubmit 0; EAsk 0 false; ESubmit 1; EGet 0; ECancel 1; ESubmit 1; EAsk 1 true; EGet 1]
  = Some 2.
Proof. vm_compute. reflexivity. Qed.

(** ---- non-vacuity of the hypotheses (audit) ----
    A method whose supplied batch values DO depend on the state (unlike the rejection instance, where
    [prepare] is constant): the state is (flag, results so far); a batch is handed the flag; the
    client computes [i] (flag off) or [10 + i] (flag on); the update appends the result, switches the
    flag on when the result is 1 and reports a cancellation exactly when the flag changed.  Objective:
    4 batches.  With max_parallel = 3 and a slow oracle, batches 1 and 2 are submitted with the flag
    off before batch 0 is read; consuming batch 1 cancels batch 2, which is resubmitted with the flag on. *)
Definition au_S : Type := (bool * list nat)%type.
Definition au_obj (s : au_S) : nat := 4.
Definition au_cons (s : au_S) : nat := List.length (snd s).
Definition au_prep (s : au_S) (j : nat) : bool := fst s.
Definition au_comp (i : nat) (p : bool) : nat := if p then 10 + i else i.
Definition au_upd (s : au_S) (r i : nat) : au_S * bool :=
  let b' := fst s || Nat.eqb r 1 in ((b', snd s ++ [r]), negb (Bool.eqb b' (fst s))).
Definition au_init : sched au_S bool := {| st := (false, []); next := 0; pending := [] |}.

Example C04_audit_prepare_stable :
  forall s r i, snd (au_upd s r i) = false -> forall j, au_prep (fst (au_upd s r i)) j = au_prep s j.
Proof.
  intros [b l] r i. unfold au_upd, au_prep. simpl. destruct b, (Nat.eqb r 1); simpl; intros H j;
    first [discriminate H | reflexivity].
Qed.

Example C04_schedule_independent_nonvacuous :
  1 <= 3
  /\ seq_run au_S nat bool au_obj au_cons au_prep au_comp au_upd 10 (false, []) 0 = Some ((true, [0; 1; 12; 13]), 4)
  /\ (exists s r i, snd (au_upd s r i) = true /\ au_prep (fst (au_upd s r i)) 0 <> au_prep s 0)
  /\ exists s' tr',
       infer au_S nat bool au_obj au_cons au_prep au_comp au_upd 10 3 au_init [false; false; false; false] [] = inl (s', tr')
       /\ st s' = (true, [0; 1; 12; 13]) /\ pending s' = [] /\ next s' = 4
       /\ In (ECancel 2) tr' /\ trace_ok 3 tr' = Some 4 /\ trace_spec 3 tr' 4.
Proof.
  assert (Hs : seq_run au_S nat bool au_obj au_cons au_prep au_comp au_upd 10 (false, []) 0
               = Some ((true, [0; 1; 12; 13]), 4)) by (vm_compute; reflexivity).
  assert (Hm : 1 <= 3) by (repeat constructor).
  split; [exact Hm|]. split; [exact Hs|].
  split; [exists (false, []), 1, 1; split; [reflexivity | vm_compute; discriminate]|].
  destruct (C04_schedule_independent au_S nat bool au_obj au_cons au_prep au_comp au_upd C04_audit_prepare_stable
              3 10 (false, []) [false; false; false; false] _ _ Hm Hs) as [s' [tr' [A [B [C [D E]]]]]].
  exists s', tr'. split; [exact A|]. split; [exact B|]. split; [exact C|]. split; [exact D|].
  split; [|split; [exact E | exact (C04_trace_ok_meaning _ _ _ E)]].
  unfold au_init in A. vm_compute in A. inversion A; subst. simpl. tauto.
Qed.

Example C04_every_schedule_trace_meaning_nonvacuous :
  exists s' tr',
    infer au_S nat bool au_obj au_cons au_prep au_comp au_upd 10 2 au_init [false; true; false] [] = inl (s', tr')
    /\ st s' = (true, [0; 1; 12; 13]) /\ trace_spec 2 tr' 4.
Proof.
  refine (C04_every_schedule_trace_meaning au_S nat bool au_obj au_cons au_prep au_comp au_upd C04_audit_prepare_stable
            2 10 (false, []) [false; true; false] _ 4 _ _); [repeat constructor | vm_compute; reflexivity].
Qed.

(** too little fuel for the sequential run (2 rounds for 4 batches): every schedule runs out of fuel *)
Example C04_no_scheduler_error_nonvacuous :
  seq_run au_S nat bool au_obj au_cons au_prep au_comp au_upd 2 (false, []) 0 = None
  /\ infer au_S nat bool au_obj au_cons au_prep au_comp au_upd 2 3 au_init [false; false] [] = inr EOutOfFuel.
Proof.
  assert (Hs : seq_run au_S nat bool au_obj au_cons au_prep au_comp au_upd 2 (false, []) 0 = None)
    by (vm_compute; reflexivity).
  split; [exact Hs|].
  refine (C04_no_scheduler_error au_S nat bool au_obj au_cons au_prep au_comp au_upd C04_audit_prepare_stable
            3 2 (false, []) [false; false] _ Hs). repeat constructor.
Qed.

(** [C04_iterate_is_one_step] away from the initial state: after the first iteration (one batch
    consumed, two pending) the hypotheses hold again, with c = 1 and a non-empty trace. *)
Example C04_iterate_is_one_step_nonvacuous :
  exists s tr,
    1 <= 3 /\ Inv au_S bool au_prep 3 s 1
    /\ chk_run 3 (0, []) tr = Some (1, idxs bool (pending s))
    /\ finished au_S bool au_obj au_cons s = false
    /\ List.length (pending s) = 2 /\ tr = [ESubmit 0; EAsk 0 false; ESubmit 1; EAsk 0 false; ESubmit 2; EGet 0]
    /\ exists s' orc' tr',
         iterate au_S nat bool au_obj au_cons au_prep au_comp au_upd 3 s [true] tr = inl (s', orc', tr')
         /\ st s' = (true, [0; 1]) /\ pending s' = [].
Proof.
  assert (Hm : 1 <= 3) by (repeat constructor).
  destruct (C04_iterate_is_one_step au_S nat bool au_obj au_cons au_prep au_comp au_upd C04_audit_prepare_stable
              3 au_init [false; false] [] 0 Hm (Inv_initial _ _ _ _ _) eq_refl eq_refl)
    as [s [orc [tr [Hit [Hinv [Hchk Hst]]]]]].
  vm_compute in Hit. inversion Hit; subst s orc tr; clear Hit.
  eexists. eexists. split; [exact Hm|]. split; [exact Hinv|]. split; [exact Hchk|].
  assert (Hf : finished au_S bool au_obj au_cons
                 {| st := (false, [0]); next := 3; pending := [(1, false); (2, false)] |} = false) by reflexivity.
  split; [exact Hf|]. split; [reflexivity|]. split; [reflexivity|].
  destruct (C04_iterate_is_one_step au_S nat bool au_obj au_cons au_prep au_comp au_upd C04_audit_prepare_stable
              3 _ [true] _ 1 Hm Hinv Hchk Hf) as [s' [orc' [tr' [Hit' _]]]].
  exists s', orc', tr'. split; [exact Hit'|]. vm_compute in Hit'. inversion Hit'; subst. split; reflexivity.
Qed.
