(** C12 — distance nodes compute the stated metric; adaptive scales ignore batching.
    Models: Num/Distance.v (shape plumbing, metrics, keyword extraction), Num/Welford.v
    (AdaptiveDistance state machine).  Only statements here; proofs in Proofs/C12_*.v. *)
From Coq Require Import String.
From Coq Require Import ZArith QArith Qabs List Bool Arith.
From Elfi Require Import Num.Distance Num.Welford Proofs.C12_Welford Proofs.C12_Distance Proofs.C12_Sampler Proofs.C12_Units.
Import ListNotations.
Open Scope Q_scope.

(** *** adaptive scale: every partition of a data set into non-empty batches *)

(** After feeding ANY list of non-empty batches of width [w] through [add_data] (the batch update
    the code performs: old mean for delta_1, new mean for delta_2), the store holds, per column,
    the row count, the mean and the sum of squared deviations from the mean of ALL rows. *)
Theorem C12_welford_all_partitions :
  forall w bs j,
    Forall (fun b => b <> [] /\ width b = w) bs -> (j < w)%nat ->
    let st := fold_left add_data bs store0 in
    let R := concat bs in
    s_n st = length R /\ bget (s_mean st) j == colmean R j /\ bget (s_m2 st) j == colss R j.
Proof. exact welford_batches. Qed.
Print Assumptions C12_welford_all_partitions.

(** Two partitions of the same data set give equal states. *)
Theorem C12_partition_independent :
  forall w bs1 bs2 j,
    Forall (fun b => b <> [] /\ width b = w) bs1 ->
    Forall (fun b => b <> [] /\ width b = w) bs2 ->
    concat bs1 = concat bs2 -> (j < w)%nat ->
    let st1 := fold_left add_data bs1 store0 in
    let st2 := fold_left add_data bs2 store0 in
    s_n st1 = s_n st2 /\ bget (s_mean st1) j == bget (s_mean st2) j /\ bget (s_m2 st1) j == bget (s_m2 st2) j.
Proof. exact welford_partition_independent. Qed.
Print Assumptions C12_partition_independent.

(** [state['scale']]^2 is the population variance of all rows of the round. *)
Theorem C12_scale_is_population_variance :
  forall w bs j,
    bs <> [] -> Forall (fun b => b <> [] /\ width b = w) bs -> (j < w)%nat ->
    nth j (scale2_of (fold_left add_data bs store0)) 0 == colvar (concat bs) j.
Proof. exact scale2_is_variance. Qed.
Print Assumptions C12_scale_is_population_variance.

(** *** no absolute scale, no storage dtype

    The model is a function of the NUMERIC values of the summaries (rationals): whatever array dtype
    holds them (float32/64, int8..int64, uint8..uint64, bool, mixed across the batches of a round) the
    statement is about the numbers.  And it has no absolute magnitude: the same data expressed in
    another unit, [scale_mat c data] (every entry multiplied by [c], for EVERY rational [c], e.g.
    2^-100 or 2^100), has variance, hence [scale]^2, multiplied by [c^2] - no floor, ceiling or
    threshold - for every partition into batches; the appended weights are divided by [c^2] (the
    squares of [w / |c|]); so the newest distance of summaries, observed values and adaptation data all
    expressed in the unit [c <> 0] is the same number. *)
Theorem C12_variance_unit_change :
  forall c R j, colvar (scale_mat c R) j == c * c * colvar R j.
Proof. exact colvar_scale. Qed.
Print Assumptions C12_variance_unit_change.

Theorem C12_scale_unit_change :
  forall c w bs j,
    bs <> [] -> Forall (fun b => b <> [] /\ width b = w) bs -> (j < w)%nat ->
    nth j (scale2_of (fold_left add_data (map (scale_mat c) bs) store0)) 0
    == c * c * nth j (scale2_of (fold_left add_data bs store0)) 0.
Proof. exact scale2_unit_change. Qed.
Print Assumptions C12_scale_unit_change.

Theorem C12_weights_unit_change :
  forall c a a' w bs,
    bs <> [] -> Forall (fun b => b <> [] /\ width b = w) bs ->
    exists a2 a2' w2 w2',
      update_distance (fold_left add_data_state bs (init_round a)) = Some a2
      /\ update_distance (fold_left add_data_state (map (scale_mat c) bs) (init_round a')) = Some a2'
      /\ a_funcs a2 = a_funcs a ++ [Some w2] /\ a_funcs a2' = a_funcs a' ++ [Some w2']
      /\ length w2 = w /\ length w2' = w
      /\ forall j, (j < w)%nat -> nth j w2' 0 == / (c * c) * nth j w2 0.
Proof. exact weights_unit_change. Qed.
Print Assumptions C12_weights_unit_change.

Theorem C12_newest_distance_unit_free :
  forall c var u o,
    ~ c == 0 -> length var = length u -> length o = length u ->
    dist2 (Some (map (fun v => c * c * v) var)) (map (Qmult c) u) (map (Qmult c) o) == dist2 (Some var) u o.
Proof. exact dist2_unit_free. Qed.
Print Assumptions C12_newest_distance_unit_free.

(** *** update_distance / nested_distance, any number of rounds *)

(** From any node state, a round of batches followed by [update_distance] appends exactly one
    distance function (weights = inverse population variances of the whole round), keeps all earlier
    ones, and resets the store.  Iterating gives the statement for any number of rounds. *)
Theorem C12_adaptive_round :
  forall a w bs,
    bs <> [] -> Forall (fun b => b <> [] /\ width b = w) bs ->
    exists a2 w2,
      update_distance (fold_left add_data_state bs (init_round a)) = Some a2
      /\ a_funcs a2 = a_funcs a ++ [Some w2] /\ a_store a2 = store0 /\ length w2 = w
      /\ forall j, (j < w)%nat -> nth j w2 0 == / colvar (concat bs) j.
Proof. exact adaptive_round. Qed.
Print Assumptions C12_adaptive_round.

Theorem C12_update_appends_one :
  forall a a', update_distance a = Some a' ->
    exists sc, a_scale2 a = Some sc
      /\ a_funcs a' = a_funcs a ++ [Some (map (fun s => Qred (/ s)) sc)]
      /\ a_w2 a' = a_w2 a ++ [Some (map (fun s => Qred (/ s)) sc)]
      /\ a_store a' = store0 /\ a_scale2 a' = a_scale2 a.
Proof. exact update_distance_spec. Qed.
Print Assumptions C12_update_appends_one.

(** Earlier distances stay available unchanged: for every metric, with one more function every
    output row is the old row followed by the new function's values. *)
Theorem C12_earlier_columns_unchanged :
  forall (K D : Type) (metric : K -> list Q -> list Q -> D) funcs f u v rows n,
    nested_distance metric funcs u v = Some (R2 n rows) ->
    nested_distance metric (funcs ++ [f]) u v
    = Some (R2 (length (funcs ++ [f]) * length v) (zipw (fun r a => r ++ map (fun b => metric f a b) v) rows u)).
Proof. exact nested_append. Qed.
Print Assumptions C12_earlier_columns_unchanged.

(** The newest distance (squared) is the sum of squared differences divided by scale^2; the first
    one is the plain Euclidean distance (squared). *)
Theorem C12_newest_distance_scaled :
  forall sc u v, weuclid2 (Some (map (fun s => Qred (/ s)) sc)) u v == dist2 (Some sc) u v.
Proof. exact newest_distance_scaled. Qed.
Print Assumptions C12_newest_distance_scaled.

Theorem C12_first_distance_plain : forall u v, weuclid2 None u v == dist2 None u v.
Proof. exact first_distance_plain. Qed.
Print Assumptions C12_first_distance_plain.

(** *** a sampler round (Rejection on an adaptive node; every population of AdaptiveDistanceSMC)

    [rejection_round a bs] = [Rejection.__init__] (new adaptation round), one [_merge_batch] per batch
    (the WHOLE batch goes to [add_data]; the acceptance mask [sb_accept] only selects the kept samples),
    [extract_result] ([update_distance]).  From ANY node state, for ANY acceptance masks (threshold,
    quantile or n_sim objective; batches in which nothing was accepted) and ANY split into batches:
    exactly one function is appended and its weights are the inverse population variances of ALL rows
    simulated in the round. *)
Theorem C12_sampler_round_all_rows :
  forall a w bs,
    round_wf w bs ->
    exists a2 w2,
      rejection_round a bs = Some a2
      /\ a_funcs a2 = a_funcs a ++ [Some w2] /\ a_w2 a2 = a_w2 a ++ [Some w2]
      /\ a_store a2 = store0 /\ length w2 = w
      /\ forall j, (j < w)%nat -> nth j w2 0 == / colvar (round_rows bs) j.
Proof. exact rejection_round_all_rows. Qed.
Print Assumptions C12_sampler_round_all_rows.

Theorem C12_sampler_round_ignores_acceptance :
  forall a bs1 bs2, map sb_data bs1 = map sb_data bs2 -> rejection_round a bs1 = rejection_round a bs2.
Proof. exact rejection_round_ignores_acceptance. Qed.
Print Assumptions C12_sampler_round_ignores_acceptance.

(** same rows, other batch sizes, other masks, other history of the node: equal newest weights *)
Theorem C12_sampler_round_ignores_batching :
  forall a1 a2 w bs1 bs2,
    round_wf w bs1 -> round_wf w bs2 -> round_rows bs1 = round_rows bs2 ->
    exists r1 r2 u1 u2,
      rejection_round a1 bs1 = Some r1 /\ rejection_round a2 bs2 = Some r2
      /\ last (a_funcs r1) None = Some u1 /\ last (a_funcs r2) None = Some u2
      /\ length u1 = w /\ length u2 = w
      /\ forall j, (j < w)%nat -> nth j u1 0 == nth j u2 0.
Proof. exact rejection_round_ignores_batching. Qed.
Print Assumptions C12_sampler_round_ignores_batching.

(** any number of rounds on one node: distance function [k+1] carries the weights of round [k] alone
    (no rows carried over from, and no change to, earlier rounds) *)
Theorem C12_sampler_rounds_all_rows :
  forall w rs a,
    Forall (round_wf w) rs ->
    exists a2 ws,
      rejection_rounds a rs = Some a2
      /\ a_funcs a2 = a_funcs a ++ map Some ws
      /\ (rs <> [] -> a_store a2 = store0)
      /\ Forall2 (fun w2 bs => length w2 = w
                               /\ forall j, (j < w)%nat -> nth j w2 0 == / colvar (round_rows bs) j) ws rs.
Proof. exact rejection_rounds_all_rows. Qed.
Print Assumptions C12_sampler_rounds_all_rows.

(** the script replayed by the correspondence check for a sampler round ([OInit], one [OBatch] per
    simulated batch, [OUpdate]) ends in the state [rejection_round] describes *)
Theorem C12_round_script_is_sampler_round :
  forall obsd a bs sb a2,
    Forall2 (fun b s => column_stack (fst b) = Some (sb_data s) /\ snd b = sb_accept s) bs sb ->
    rejection_round a sb = Some a2 ->
    exec obsd a (round_script bs) = a2.
Proof. exact round_script_is_rejection_round. Qed.
Print Assumptions C12_round_script_is_sampler_round.

(** *** plain distance nodes: shape plumbing for every metric *)

(** For every metric, keyword value [kw], number of parents, mix of 1-d / 2-d summaries with [M] rows
    each and one observed row: the node outputs a vector with one value per simulated row, the
    metric (with [kw]) between row [i] of the stacked summaries and the stacked observed row. *)
Theorem C12_distance_one_value_per_row :
  forall (K D : Type) (metric : K -> list Q -> list Q -> D) kw M summaries observed,
    well_shaped M summaries observed = true ->
    distance_node metric kw summaries observed
    = Some (D1 (map (fun i => metric kw (srow summaries i) (orow observed)) (seq 0 M))).
Proof. exact distance_node_rows. Qed.
Print Assumptions C12_distance_one_value_per_row.

Theorem C12_adaptive_node_rows :
  forall (K D : Type) (metric : K -> list Q -> list Q -> D) funcs M summaries observed,
    well_shaped M summaries observed = true ->
    distance_as_discrepancy (nested_distance metric funcs) summaries observed
    = Some (squeeze (R2 (length funcs * 1)
                        (map (fun i => map (fun f => metric f (srow summaries i) (orow observed)) funcs) (seq 0 M)))).
Proof. exact nested_node_rows. Qed.
Print Assumptions C12_adaptive_node_rows.

(** Keyword arguments: exactly the given ones among p, w, V, VI reach cdist with their values,
    everything else is passed on; construction is refused exactly when a mandatory one is missing. *)
Theorem C12_kwargs_forwarded :
  forall (V : Type) d (kw : list (string * V)) m ex rest,
    distance_init d kw = Some (m, ex, rest) ->
    m = d
    /\ (forall k v, In (k, v) ex <-> In k cdist_keys /\ lookup k kw = Some v)
    /\ (forall kv, In kv rest <-> In kv kw /\ ~ In (fst kv) cdist_keys).
Proof. exact distance_init_spec. Qed.
Print Assumptions C12_kwargs_forwarded.

Theorem C12_kwargs_rejected :
  forall (V : Type) d (kw : list (string * V)),
    distance_init d kw = None <->
    (d = "wminkowski"%string /\ has "w" kw = false)
    \/ (d = "seuclidean"%string /\ has "V" kw = false)
    \/ (d = "mahalanobis"%string /\ has "VI" kw = false).
Proof. exact distance_init_rejects. Qed.
Print Assumptions C12_kwargs_rejected.

(** *** the decidable predicates of the correspondence check *)

Theorem C12_ok_sound :
  forall c, d_ok c = true ->
    let M := match d_summaries c with [] => 0%nat | a :: _ => length (as_cols a) end in
    well_shaped M (d_summaries c) (d_observed c) = true ->
    kw_ok (d_kind c) (length (orow (d_observed c))) = true ->
    DistanceStatement c M.
Proof. exact d_ok_sound. Qed.
Print Assumptions C12_ok_sound.

Theorem C12_ok_add_sound :
  forall R n mean m2 scale, ok_add R n mean m2 scale = true -> AddStatement R n mean m2 scale.
Proof. exact ok_add_sound. Qed.
Print Assumptions C12_ok_add_sound.

Theorem C12_ok_update_sound :
  forall var weis, ok_update var weis = true ->
    length weis = length var /\ Forall2 (fun w v => 0 <= w /\ Close (w * w * v) 1) weis var.
Proof. exact ok_update_sound. Qed.
Print Assumptions C12_ok_update_sound.

(** The model's own state, for every partition, passes the check applied to the implementation. *)
Theorem C12_model_ok :
  forall w bs scale,
    bs <> [] -> Forall (fun b => b <> [] /\ width b = w) bs ->
    let st := fold_left add_data bs store0 in
    length scale = w ->
    (forall j, (j < w)%nat -> 0 <= nth j scale (-(1))
                             /\ nth j scale (-(1)) * nth j scale (-(1)) == nth j (scale2_of st) 0) ->
    ok_add (concat bs) (s_n st) (bvec_list (s_mean st)) (bvec_list (s_m2 st)) scale = true.
Proof. exact model_ok_add. Qed.
Print Assumptions C12_model_ok.

(** *** non-vacuity *)

(** two different splits of the rows [[1;10];[2;30];[6;20]]: same count, means (3, 20), M2 (14, 200),
    scale^2 (14/3, 200/3) *)
Example C12_example_partitions :
  let b1 := [[[1;10];[2;30]]; [[6;20]]] in
  let b2 := [[[1;10]]; [[2;30];[6;20]]] in
  Forall (fun b => b <> [] /\ width b = 2%nat) b1
  /\ Forall (fun b => b <> [] /\ width b = 2%nat) b2
  /\ concat b1 = concat b2
  /\ (let st := fold_left add_data b1 store0 in (s_n st, bvec_list (s_mean st), bvec_list (s_m2 st), scale2_of st))
     = (3%nat, [3; 20], [14; 200], [14 # 3; 200 # 3])
  /\ (let st := fold_left add_data b2 store0 in (s_n st, bvec_list (s_mean st), bvec_list (s_m2 st), scale2_of st))
     = (3%nat, [3; 20], [14; 200], [14 # 3; 200 # 3]).
Proof.
  cbv zeta. split; [|split; [|split; [|split]]]; try (vm_compute; reflexivity);
    repeat constructor; discriminate.
Qed.

(** a scalar summary and a 2-wide vector summary, batch of 2, observed given as 0-d and 1x2:
    well shaped; cityblock distances 3 and 3; after a round the adaptive node has two columns *)
Example C12_example_distance :
  let s := [A1 [1; 2]; A2 [[1; 2]; [3; 4]]] in
  let o := [A0 (1 # 2); A2 [[3; 5 # 2]]] in
  well_shaped 2 s o = true
  /\ distance_node metric_pow MCity s o = Some (D1 [3; 3])
  /\ (exists a2, update_distance (fold_left add_data_state [[[1;1;2]]; [[2;3;4]]] (init_round astate0)) = Some a2
                 /\ adaptive_node a2 s o = Some (D2 [[9 # 2; 21 # 4]; [9 # 2; 45 # 4]])).
Proof.
  cbv zeta. split; [vm_compute; reflexivity|]. split; [vm_compute; reflexivity|].
  eexists. split; vm_compute; reflexivity.
Qed.

(** a threshold round: three batches of two rows, the middle batch accepts nothing and only two of the
    six rows are accepted; the appended weights are 1/variance of all six rows (column 0: values
    1,2,3,4,5,9 -> variance 20/3; column 1: 0,2,0,2,0,2 -> variance 1), not of the two accepted rows
    (which would give 1/4 and a division by zero) *)
Example C12_example_sampler_round :
  let bs := [ {| sb_data := [[1;0];[2;2]]; sb_accept := [true; false] |};
              {| sb_data := [[3;0];[4;2]]; sb_accept := [false; false] |};
              {| sb_data := [[5;0];[9;2]]; sb_accept := [true; false] |} ] in
  round_wf 2 bs
  /\ (exists a2, rejection_round astate0 bs = Some a2 /\ a_funcs a2 = [None; Some [3 # 20; 1]])
  /\ map (colvar (round_rows bs)) [0%nat; 1%nat] = [20 # 3; 1].
Proof.
  cbv zeta. split; [|split].
  - split; [discriminate|]. repeat constructor; discriminate.
  - eexists. split; vm_compute; reflexivity.
  - vm_compute. reflexivity.
Qed.

(** a summary in a very small unit (2^-70, about 8.5e-22): rows 1u, 3u and a second summary 10, 30 in two
    batches; scale^2 = u^2 = 2^-140 (far below the square of the binary64 machine epsilon, 2^-104) and
    100; the appended weights are 2^140 and 1/100 - nothing is floored *)
Example C12_example_tiny_unit :
  let u := 1 # 1180591620717411303424 in
  let bs := [[[1 * u; 10]]; [[3 * u; 30]]] in
  Forall (fun b => b <> [] /\ width b = 2%nat) bs
  /\ map Qred (scale2_of (fold_left add_data bs store0)) = [Qred (u * u); 100]
  /\ Qle_bool ((1 # 4503599627370496) * (1 # 4503599627370496)) (u * u) = false
  /\ (exists a2, update_distance (fold_left add_data_state bs (init_round astate0)) = Some a2
                 /\ a_funcs a2 = [None; Some [Qred (/ (u * u)); 1 # 100]]).
Proof.
  cbv zeta. split; [repeat constructor; discriminate|].
  split; [vm_compute; reflexivity|]. split; [vm_compute; reflexivity|].
  eexists. split; vm_compute; reflexivity.
Qed.

Example C12_example_kwargs :
  distance_init "minkowski"%string [("name"%string, 0%nat); ("w"%string, 1%nat); ("p"%string, 2%nat)]
  = Some ("minkowski"%string, [("p"%string, 2%nat); ("w"%string, 1%nat)], [("name"%string, 0%nat)])
  /\ distance_init "seuclidean"%string [("p"%string, 2%nat)] = None.
Proof. split; vm_compute; reflexivity. Qed.

(** *** link with C01: the round's batches and acceptance masks are those of the Rejection model

    Proofs/C12_C01_Link.v couples the two models: one consumed batch updates the C01 sampler state
    ([Reject.rupdate]) and the C12 node ([merge_batch]) with the [sbatch] whose data are the summary
    rows of ALL draws of the batch and whose mask is [map (accepts thr) batch], [thr] being the
    threshold in the C01 state.  ABSTRACT: [summ : draw -> list Q], the summary row of a draw (the C01
    draw carries only its discrepancy under the current distance and a code for its row of outputs).
    The imports below shadow [case], [ok], [agree], [all2], [extract] of Num.Welford / Num.Distance
    with those of Sched.Reject from here on. *)
From Elfi Require Import Sched.Reject Proofs.C01_Reject Proofs.C01_History Proofs.C12_C01_Link.

(** the mask handed to the C12 model selects exactly the draws the C01 step stores; the coupled
    round is the C01 fold paired with [rejection_round] over the corresponding sbatches *)
Theorem C12_link_mask_is_C01_acceptance :
  forall (summ : draw -> list Q) thr batch,
    select (sb_accept (sbatch_of summ thr batch)) batch = filter (accepts thr) batch
    /\ length (sb_accept (sbatch_of summ thr batch)) = length (sb_data (sbatch_of summ thr batch)).
Proof. intros summ thr batch. split; [apply sbatch_mask_is_C01_filter | apply sbatch_mask_length]. Qed.
Print Assumptions C12_link_mask_is_C01_acceptance.

Theorem C12_link_round_is_both_models :
  forall (summ : draw -> list Q) s0 a bs,
    link_round summ s0 a bs = (consume s0 bs, rejection_round a (sbatches_of summ (r_thr s0) bs)).
Proof. exact link_round_split. Qed.
Print Assumptions C12_link_round_is_both_models.

(** One round of the coupled model from ANY sampler state and ANY node state: before
    [update_distance] the node holds count, mean and M2 of ALL summary rows of ALL consumed batches,
    the count being the simulations the C01 state counted; the round appends their 1/variance. *)
Theorem C12_round_sees_all_rows_of_C01_batches :
  forall (summ : draw -> list Q) s0 a w bs,
    (0 < r_b s0)%nat -> bs <> [] -> batches_wf summ w (r_b s0) bs ->
    let p := link_consume summ (s0, init_round a) bs in
    let R := map summ (concat bs) in
    fst p = consume s0 bs
    /\ NodeSawAll w (snd p) R ((r_nbatches (fst p) - r_nbatches s0) * r_b s0)
    /\ exists a2, update_distance (snd p) = Some a2
                  /\ rejection_round a (sbatches_of summ (r_thr s0) bs) = Some a2
                  /\ RoundAppends w a a2 R.
Proof. exact link_round_sees_all_rows. Qed.
Print Assumptions C12_round_sees_all_rows_of_C01_batches.

(** A finished run of the C01 model ([run_on]: set_objective on an instance in any prior state, then
    the sequential specification) and, in parallel, the node: the coupled model ends in the C01
    model's final state; the node has seen exactly [n_sim] = n_batches * batch_size rows, ALL summary
    rows of ALL consumed batches; the round appends their 1/variance; the returned rows are the best
    accepted draws under the discrepancies of this run. *)
Theorem C12_round_sees_all_simulated_rows_of_C01_run :
  forall (summ : draw -> list Q) prev c s a w,
    run_wf summ w c -> run_on prev c = Some s -> run_finished c (Reject.extract s) ->
    let res := Reject.extract s in
    let consumed := consumed_batches c res in
    let R := map summ (concat consumed) in
    let p := link_consume summ (rset_objective prev (c_n c) (c_b c) (c_form c), init_round a) consumed in
    fst p = s
    /\ snd p = fold_left merge_batch (round_of_run summ c res) (init_round a)
    /\ NodeSawAll w (snd p) R (res_n_sim res)
    /\ res_n_sim res = (res_n_batches res * c_b c)%nat
    /\ (exists a2, update_distance (snd p) = Some a2
                   /\ rejection_round a (round_of_run summ c res) = Some a2
                   /\ RoundAppends w a a2 R)
    /\ returns_best (c_n c) (run_thr c) (concat consumed) (res_rows res).
Proof. exact run_round_sees_all_simulated_rows. Qed.
Print Assumptions C12_round_sees_all_simulated_rows_of_C01_run.

(** the node half of a round does not depend on the sampler state (threshold, n, batch size, buffer) *)
Theorem C12_round_ignores_C01_threshold :
  forall (summ : draw -> list Q) s1 s2 a bs,
    snd (link_round summ s1 a bs) = snd (link_round summ s2 a bs)
    /\ snd (link_consume summ (s1, init_round a) bs) = snd (link_consume summ (s2, init_round a) bs).
Proof. exact link_round_node_ignores_threshold. Qed.
Print Assumptions C12_round_ignores_C01_threshold.

(** same summary rows in the same order, other thresholds / batch sizes / discrepancies / node
    histories: equal accumulators, equal appended weights *)
Theorem C12_round_ignores_C01_threshold_and_batching :
  forall (summ : draw -> list Q) s1 s2 a1 a2 w bs1 bs2,
    (0 < r_b s1)%nat -> (0 < r_b s2)%nat -> bs1 <> [] -> bs2 <> [] ->
    batches_wf summ w (r_b s1) bs1 -> batches_wf summ w (r_b s2) bs2 ->
    map summ (concat bs1) = map summ (concat bs2) ->
    let n1 := snd (link_consume summ (s1, init_round a1) bs1) in
    let n2 := snd (link_consume summ (s2, init_round a2) bs2) in
    s_n (a_store n1) = s_n (a_store n2)
    /\ (forall j, (j < w)%nat -> bget (s_mean (a_store n1)) j == bget (s_mean (a_store n2)) j
                                 /\ bget (s_m2 (a_store n1)) j == bget (s_m2 (a_store n2)) j)
    /\ exists r1 r2 u1 u2,
         snd (link_round summ s1 a1 bs1) = Some r1 /\ snd (link_round summ s2 a2 bs2) = Some r2
         /\ last (a_funcs r1) None = Some u1 /\ last (a_funcs r2) None = Some u2
         /\ length u1 = w /\ length u2 = w
         /\ forall j, (j < w)%nat -> nth j u1 0 == nth j u2 0.
Proof. exact link_round_ignores_threshold_and_batching. Qed.
Print Assumptions C12_round_ignores_C01_threshold_and_batching.

(** two finished C01 runs that consumed draws with the same summary rows in the same order (any
    thresholds / objective forms, batch sizes, sample counts, prior states): same [n_sim], equal weights *)
Theorem C12_C01_runs_same_draws_same_round :
  forall (summ : draw -> list Q) prev1 prev2 c1 c2 s1 s2 a1 a2 w,
    run_wf summ w c1 -> run_wf summ w c2 ->
    run_on prev1 c1 = Some s1 -> run_on prev2 c2 = Some s2 ->
    run_finished c1 (Reject.extract s1) -> run_finished c2 (Reject.extract s2) ->
    map summ (concat (consumed_batches c1 (Reject.extract s1)))
    = map summ (concat (consumed_batches c2 (Reject.extract s2))) ->
    res_n_sim (Reject.extract s1) = res_n_sim (Reject.extract s2)
    /\ exists r1 r2 u1 u2,
         rejection_round a1 (round_of_run summ c1 (Reject.extract s1)) = Some r1
         /\ rejection_round a2 (round_of_run summ c2 (Reject.extract s2)) = Some r2
         /\ last (a_funcs r1) None = Some u1 /\ last (a_funcs r2) None = Some u2
         /\ length u1 = w /\ length u2 = w
         /\ forall j, (j < w)%nat -> nth j u1 0 == nth j u2 0.
Proof. exact runs_same_draws_same_round. Qed.
Print Assumptions C12_C01_runs_same_draws_same_round.

(** summary rows determined by the row code: same codes, same data for the node *)
Theorem C12_C01_rows_by_code :
  forall (summ : draw -> list Q) (srow : N -> list Q) l1 l2,
    (forall d, summ d = srow (d_code d)) -> map d_code l1 = map d_code l2 -> map summ l1 = map summ l2.
Proof. exact summ_by_code. Qed.
Print Assumptions C12_C01_rows_by_code.

(** Consecutive runs on one Rejection instance feeding one node (threshold lists, SMC populations):
    function [k+1] is weighted by 1/variance of ALL rows run [k] simulated and of those alone, while
    every run returns the best accepted draws of its own consumed batches under its own discrepancies
    and reports n_sim = the number of rows the node saw in that round. *)
Theorem C12_C01_history_rounds_see_all_rows :
  forall (summ : draw -> list Q) prev h ress a w,
    Forall (run_wf summ w) h ->
    history_results prev h = map Some ress ->
    Forall2 run_finished h ress ->
    let runs := combine h ress in
    let rounds := map (fun cr => round_of_run summ (fst cr) (snd cr)) runs in
    (exists a2 ws,
        rejection_rounds a rounds = Some a2
        /\ a_funcs a2 = a_funcs a ++ map Some ws
        /\ (h <> [] -> a_store a2 = store0)
        /\ Forall2 (fun w2 cr =>
                      length w2 = w
                      /\ forall j, (j < w)%nat ->
                           nth j w2 0 == / colvar (map summ (concat (consumed_batches (fst cr) (snd cr)))) j)
                   ws runs)
    /\ Forall2 (fun c res =>
                  returns_best (c_n c) (run_thr c) (concat (consumed_batches c res)) (res_rows res)
                  /\ res_n_sim res = (res_n_batches res * c_b c)%nat
                  /\ res_n_sim res = length (map summ (concat (consumed_batches c res))))
               h ress.
Proof. exact history_rounds_see_all_rows. Qed.
Print Assumptions C12_C01_history_rounds_see_all_rows.

(** six draws (codes 1..6, summary row [code; 0 or 2]) consumed as 3 batches of 2 under threshold 3
    (n = 2) and as 2 batches of 3 without threshold (n = 1): the C01 halves differ (masks, returned
    rows), n_sim is 6 in both, and the node ends in the same state with weights 1/variance of all six
    rows (12/35, 1).  The second part is a finished [run_on] (n_sim = 6 given) satisfying the
    hypotheses of [C12_round_sees_all_simulated_rows_of_C01_run]. *)
Example C12_example_C01_link :
  let summ := fun d : draw => [inject_Z (Z.of_N (d_code d)); inject_Z (2 * ((Z.of_N (d_code d) + 1) mod 2))] in
  let dr := fun z k => {| d_disc := Fin z; d_code := k |} in
  let bs1 := [[dr 5%Z 1%N; dr 1%Z 2%N]; [dr 7%Z 3%N; dr 9%Z 4%N]; [dr 2%Z 5%N; dr 8%Z 6%N]] in
  let bs2 := [[dr 5%Z 1%N; dr 1%Z 2%N; dr 7%Z 3%N]; [dr 9%Z 4%N; dr 2%Z 5%N; dr 8%Z 6%N]] in
  let r1 := link_round summ (rinit 2 2 (Some (Fin 3)) 3) astate0 bs1 in
  let r2 := link_round summ (rinit 1 3 None 2) astate0 bs2 in
  let c := {| c_n := 2; c_b := 2; c_form := ByNsim 6; c_table := bs1; c_rows := []; c_threshold := PInf;
              c_n_sim := 0; c_n_batches := 0 |} in
  (map sb_accept (sbatches_of summ (Some (Fin 3)) bs1) = [[false; true]; [false; false]; [true; false]]
   /\ res_rows (Reject.extract (fst r1)) = [Some (dr 1%Z 2%N); Some (dr 2%Z 5%N)]
   /\ res_rows (Reject.extract (fst r2)) = [Some (dr 1%Z 2%N)]
   /\ res_n_sim (Reject.extract (fst r1)) = 6%nat /\ res_n_sim (Reject.extract (fst r2)) = 6%nat
   /\ snd r1 = snd r2
   /\ exists a2, snd r1 = Some a2 /\ a_funcs a2 = [None; Some [12 # 35; 1]])
  /\ (run_wf summ 2 c
      /\ exists s, run_on None c = Some s /\ run_finished c (Reject.extract s)
                   /\ res_n_sim (Reject.extract s) = 6%nat
                   /\ res_rows (Reject.extract s) = [Some (dr 1%Z 2%N); Some (dr 2%Z 5%N)]
                   /\ exists a2, rejection_round astate0 (round_of_run summ c (Reject.extract s)) = Some a2
                                 /\ a_funcs a2 = [None; Some [12 # 35; 1]]).
Proof.
  cbv zeta. split.
  - repeat (split; [vm_compute; reflexivity|]). eexists. split; vm_compute; reflexivity.
  - split.
    + split; [vm_compute; auto|]. repeat constructor.
    + eexists. split; [vm_compute; reflexivity|].
      split; [vm_compute; auto|]. split; [vm_compute; reflexivity|]. split; [vm_compute; reflexivity|].
      eexists. split; vm_compute; reflexivity.
Qed.

(** ---- non-vacuity of the hypotheses (audit) ---- *)
(** [C12_newest_distance_unit_free]: unit 2^-10, two summaries *)
Example C12_newest_distance_unit_free_nonvacuous :
  let c := 1 # 1024 in let var := [14 # 3; 200 # 3] in let u := [1; 10] in let o := [2; 30] in
  ~ c == 0 /\ length var = length u /\ length o = length u
  /\ dist2 (Some var) u o = 87 # 14
  /\ dist2 (Some (map (fun v => c * c * v) var)) (map (Qmult c) u) (map (Qmult c) o) == 87 # 14.
Proof.
  cbv zeta. split; [intro HH; vm_compute in HH; discriminate HH|].
  repeat split; vm_compute; reflexivity.
Qed.

(** [C12_earlier_columns_unchanged]: two functions (plain, weights 3/20 and 1), two rows *)
Example C12_earlier_columns_unchanged_nonvacuous :
  nested_distance weuclid2 [None; Some [3 # 20; 1]] [[1; 0]; [2; 2]] [[3; 1]]
  = Some (R2 2 [[5; 8 # 5]; [2; 23 # 20]]).
Proof. vm_compute; reflexivity. Qed.

(** sampler rounds: the six rows of [C12_example_sampler_round] as 3 batches of 2 (two masks) and as
    2 batches of 3; a second round with other rows.  Hypotheses of
    [C12_sampler_round_ignores_acceptance], [C12_sampler_round_ignores_batching],
    [C12_sampler_rounds_all_rows], [C12_round_script_is_sampler_round] *)
Definition C12_nv_round_a : list sbatch :=
  [ {| sb_data := [[1;0];[2;2]]; sb_accept := [true; false] |};
    {| sb_data := [[3;0];[4;2]]; sb_accept := [false; false] |};
    {| sb_data := [[5;0];[9;2]]; sb_accept := [true; false] |} ].
Definition C12_nv_round_a' : list sbatch :=
  [ {| sb_data := [[1;0];[2;2]]; sb_accept := [true; true] |};
    {| sb_data := [[3;0];[4;2]]; sb_accept := [true; true] |};
    {| sb_data := [[5;0];[9;2]]; sb_accept := [false; true] |} ].
Definition C12_nv_round_b : list sbatch :=
  [ {| sb_data := [[1;0];[2;2];[3;0]]; sb_accept := [false; false; false] |};
    {| sb_data := [[4;2];[5;0];[9;2]]; sb_accept := [true; true; true] |} ].
Definition C12_nv_round_c : list sbatch :=
  [ {| sb_data := [[1;1]]; sb_accept := [true] |}; {| sb_data := [[3;7];[5;4]]; sb_accept := [false; true] |} ].

Example C12_sampler_rounds_nonvacuous :
  map sb_data C12_nv_round_a = map sb_data C12_nv_round_a' /\ C12_nv_round_a <> C12_nv_round_a'
  /\ round_wf 2 C12_nv_round_a /\ round_wf 2 C12_nv_round_b
  /\ round_rows C12_nv_round_a = round_rows C12_nv_round_b
  /\ Forall (round_wf 2) [C12_nv_round_a; C12_nv_round_c]
  /\ (exists a2, rejection_rounds astate0 [C12_nv_round_a; C12_nv_round_c] = Some a2
                 /\ a_funcs a2 = [None; Some [3 # 20; 1]; Some [3 # 8; 1 # 6]]).
Proof.
  assert (Ha : round_wf 2 C12_nv_round_a)
    by (split; [discriminate|]; repeat (apply Forall_cons; [split; [discriminate|reflexivity]|]); apply Forall_nil).
  assert (Hb : round_wf 2 C12_nv_round_b)
    by (split; [discriminate|]; repeat (apply Forall_cons; [split; [discriminate|reflexivity]|]); apply Forall_nil).
  assert (Hc : round_wf 2 C12_nv_round_c)
    by (split; [discriminate|]; repeat (apply Forall_cons; [split; [discriminate|reflexivity]|]); apply Forall_nil).
  split; [reflexivity|]. split; [discriminate|]. split; [exact Ha|]. split; [exact Hb|].
  split; [reflexivity|].
  split; [apply Forall_cons; [exact Ha|]; apply Forall_cons; [exact Hc|]; apply Forall_nil|].
  eexists. split; vm_compute; reflexivity.
Qed.

Example C12_round_script_nonvacuous :
  let bs := [([A1 [1; 2]; A1 [0; 2]], [true; false]); ([A2 [[3; 0]; [4; 2]]], [false; false]);
             ([A1 [5; 9]; A2 [[0]; [2]]], [true; false])] in
  Forall2 (fun b s => column_stack (fst b) = Some (sb_data s) /\ snd b = sb_accept s) bs C12_nv_round_a
  /\ (exists a2, rejection_round astate0 C12_nv_round_a = Some a2
                 /\ exec [A0 0; A0 0] astate0 (round_script bs) = a2).
Proof.
  cbv zeta. split.
  - repeat (apply Forall2_cons; [split; [vm_compute; reflexivity | reflexivity]|]); apply Forall2_nil.
  - eexists. split; vm_compute; reflexivity.
Qed.

(** [C12_ok_sound]: the inputs of [C12_example_distance] under a weighted Minkowski metric (the weight
    vector has the stacked width 3, so [kw_ok] is a real condition); a wrong value is refused *)
Example C12_ok_sound_nonvacuous :
  let c := {| d_kind := MMink 1 (Some [1; 2; 1]); d_summaries := [A1 [1; 2]; A2 [[1; 2]; [3; 4]]];
              d_observed := [A0 (1 # 2); A2 [[3; 5 # 2]]]; d_callable := 0; d_impl := Some (D1 [5; 3]) |} in
  d_ok c = true /\ well_shaped 2 (d_summaries c) (d_observed c) = true
  /\ kw_ok (d_kind c) (length (orow (d_observed c))) = true
  /\ d_ok {| d_kind := d_kind c; d_summaries := d_summaries c; d_observed := d_observed c; d_callable := 0;
             d_impl := Some (D1 [5; 4]) |} = false.
Proof. cbv zeta. repeat split; vm_compute; reflexivity. Qed.

(** [C12_ok_add_sound], [C12_ok_update_sound], [C12_model_ok]: two batches of one row, variances 1 and
    100 (rational square roots 1 and 10) *)
Example C12_ok_add_update_nonvacuous :
  ok_add [[1; 10]; [3; 30]] 2 [2; 20] [2; 200] [1; 10] = true
  /\ ok_add [[1; 10]; [3; 30]] 2 [2; 20] [2; 200] [1; 11] = false
  /\ ok_update [1; 100] [1; 1 # 10] = true /\ ok_update [1; 100] [1; 1 # 100] = false.
Proof. repeat split; vm_compute; reflexivity. Qed.

Example C12_model_ok_nonvacuous :
  let bs := [[[1; 10]]; [[3; 30]]] in let scale := [1; 10] in
  bs <> [] /\ Forall (fun b => b <> [] /\ width b = 2%nat) bs /\ length scale = 2%nat
  /\ (forall j, (j < 2)%nat -> 0 <= nth j scale (-(1))
                               /\ nth j scale (-(1)) * nth j scale (-(1))
                                  == nth j (scale2_of (fold_left add_data bs store0)) 0).
Proof.
  cbv zeta. split; [discriminate|].
  split; [repeat (apply Forall_cons; [split; [discriminate|reflexivity]|]); apply Forall_nil|].
  split; [reflexivity|].
  intros j Hj. destruct j as [|[|j]].
  - split; [apply Qle_bool_imp_le; reflexivity | vm_compute; reflexivity].
  - split; [apply Qle_bool_imp_le; reflexivity | vm_compute; reflexivity].
  - apply Nat.ltb_lt in Hj. simpl in Hj. discriminate Hj.
Qed.

(** link with C01: the draws of [C12_example_C01_link]; hypotheses of
    [C12_round_sees_all_rows_of_C01_batches], [C12_round_ignores_C01_threshold_and_batching],
    [C12_C01_runs_same_draws_same_round], [C12_C01_rows_by_code], [C12_C01_history_rounds_see_all_rows] *)
Definition C12_nv_srow (k : N) : list Q := [inject_Z (Z.of_N k); inject_Z (2 * ((Z.of_N k + 1) mod 2))].
Definition C12_nv_summ (d : draw) : list Q := C12_nv_srow (d_code d).
Definition C12_nv_dr (z : Z) (k : N) : draw := {| d_disc := Fin z; d_code := k |}.
Definition C12_nv_bs1 : list (list draw) :=
  [[C12_nv_dr 5 1; C12_nv_dr 1 2]; [C12_nv_dr 7 3; C12_nv_dr 9 4]; [C12_nv_dr 2 5; C12_nv_dr 8 6]].
Definition C12_nv_bs2 : list (list draw) :=
  [[C12_nv_dr 5 1; C12_nv_dr 1 2; C12_nv_dr 7 3]; [C12_nv_dr 9 4; C12_nv_dr 2 5; C12_nv_dr 8 6]].
Definition C12_nv_c1 : Reject.case :=
  {| c_n := 2; c_b := 2; c_form := ByNsim 6; c_table := C12_nv_bs1; c_rows := []; c_threshold := PInf;
     c_n_sim := 0; c_n_batches := 0 |}.
Definition C12_nv_c2 : Reject.case :=
  {| c_n := 1; c_b := 3; c_form := ByNsim 6; c_table := C12_nv_bs2; c_rows := []; c_threshold := PInf;
     c_n_sim := 0; c_n_batches := 0 |}.

Example C12_link_batches_nonvacuous :
  let s1 := rinit 2 2 (Some (Fin 3)) 3 in let s2 := rinit 1 3 None 2 in
  (0 < r_b s1)%nat /\ (0 < r_b s2)%nat /\ C12_nv_bs1 <> [] /\ C12_nv_bs2 <> []
  /\ batches_wf C12_nv_summ 2 (r_b s1) C12_nv_bs1 /\ batches_wf C12_nv_summ 2 (r_b s2) C12_nv_bs2
  /\ map C12_nv_summ (concat C12_nv_bs1) = map C12_nv_summ (concat C12_nv_bs2)
  /\ (forall d, C12_nv_summ d = C12_nv_srow (d_code d))
  /\ map d_code [C12_nv_dr 5 1; C12_nv_dr 1 2] = map d_code [C12_nv_dr 0 1; C12_nv_dr 9 2]
  /\ [C12_nv_dr 5 1; C12_nv_dr 1 2] <> [C12_nv_dr 0 1; C12_nv_dr 9 2].
Proof.
  cbv zeta. split; [vm_compute; repeat constructor|]. split; [vm_compute; repeat constructor|].
  split; [discriminate|]. split; [discriminate|].
  split; [repeat (apply Forall_cons; [split; [reflexivity | repeat (apply Forall_cons; [reflexivity|]); apply Forall_nil]|]);
          apply Forall_nil|].
  split; [repeat (apply Forall_cons; [split; [reflexivity | repeat (apply Forall_cons; [reflexivity|]); apply Forall_nil]|]);
          apply Forall_nil|].
  split; [reflexivity|]. split; [intro d; reflexivity|]. split; [reflexivity | discriminate].
Qed.

Example C12_link_runs_nonvacuous :
  exists s1 s2,
    run_wf C12_nv_summ 2 C12_nv_c1 /\ run_wf C12_nv_summ 2 C12_nv_c2
    /\ run_on None C12_nv_c1 = Some s1 /\ run_on None C12_nv_c2 = Some s2
    /\ run_finished C12_nv_c1 (Reject.extract s1) /\ run_finished C12_nv_c2 (Reject.extract s2)
    /\ map C12_nv_summ (concat (consumed_batches C12_nv_c1 (Reject.extract s1)))
       = map C12_nv_summ (concat (consumed_batches C12_nv_c2 (Reject.extract s2)))
    /\ res_rows (Reject.extract s1) <> res_rows (Reject.extract s2).
Proof.
  destruct C12_link_batches_nonvacuous as (_ & _ & _ & _ & W1 & W2 & _).
  eexists. eexists.
  split; [split; [vm_compute; repeat constructor | exact W1]|].
  split; [split; [vm_compute; repeat constructor | exact W2]|].
  split; [vm_compute; reflexivity|]. split; [vm_compute; reflexivity|].
  split; [vm_compute; auto|]. split; [vm_compute; auto|].
  split; [vm_compute; reflexivity | vm_compute; discriminate].
Qed.

(** two consecutive runs on one Rejection instance (the second with another batch size and sample count) *)
Example C12_link_history_nonvacuous :
  exists ress,
    Forall (run_wf C12_nv_summ 2) [C12_nv_c1; C12_nv_c2]
    /\ history_results None [C12_nv_c1; C12_nv_c2] = map Some ress
    /\ Forall2 run_finished [C12_nv_c1; C12_nv_c2] ress
    /\ map res_n_sim ress = [6; 6]%nat.
Proof.
  destruct C12_link_batches_nonvacuous as (_ & _ & _ & _ & W1 & W2 & _).
  pose (r := history_results None [C12_nv_c1; C12_nv_c2]).
  assert (E : history_results None [C12_nv_c1; C12_nv_c2] = r) by reflexivity. vm_compute in r.
  match eval unfold r in r with [Some ?x; Some ?y] => exists [x; y] end.
  split; [repeat (apply Forall_cons || apply Forall_nil); (split; [vm_compute; repeat constructor | assumption])|].
  split; [exact E|].
  split; [repeat (apply Forall2_cons; [vm_compute; auto|]); apply Forall2_nil | vm_compute; reflexivity].
Qed.
