(** C12 — distance nodes compute the stated metric; adaptive scales ignore batching.
    Models: Num/Distance.v (shape plumbing, metrics, keyword extraction), Num/Welford.v
    (AdaptiveDistance state machine).  Only statements here; proofs in Proofs/C12_*.v. *)
From Coq Require Import String.
From Coq Require Import ZArith QArith Qabs List Bool Arith.
From Elfi Require Import Num.Distance Num.Welford Proofs.C12_Welford Proofs.C12_Distance Proofs.C12_Sampler Proofs.C12_Units.
Import ListNotations.
Open Scope Q_scope.

(** *** adaptive scale: every partition of a data set into non-empty batches *)

(** After feeding ANY list of non-empty batches of width [w] through [add_data] (the batch update
    the code performs: old mean for delta_1, new mean for delta_2), the store holds, per column,
    the row count, the mean and the sum of squared deviations from the mean of ALL rows. *)
Theorem C12_welford_all_partitions :
  forall w bs j,
    Forall (fun b => b <> [] /\ width b = w) bs -> (j < w)%nat ->
    let st := fold_left add_data bs store0 in
    let R := concat bs in
    s_n st = length R /\ bget (s_mean st) j == colmean R j /\ bget (s_m2 st) j == colss R j.
Proof. exact welford_batches. Qed.
Print Assumptions C12_welford_all_partitions.

(** Two partitions of the same data set give equal states. *)
Theorem C12_partition_independent :
  forall w bs1 bs2 j,
    Forall (fun b => b <> [] /\ width b = w) bs1 ->
    Forall (fun b => b <> [] /\ width b = w) bs2 ->
    concat bs1 = concat bs2 -> (j < w)%nat ->
    let st1 := fold_left add_data bs1 store0 in
    let st2 := fold_left add_data bs2 store0 in
    s_n st1 = s_n st2 /\ bget (s_mean st1) j == bget (s_mean st2) j /\ bget (s_m2 st1) j == bget (s_m2 st2) j.
Proof. exact welford_partition_independent. Qed.
Print Assumptions C12_partition_independent.

(** [state['scale']]^2 is the population variance of all rows of the round. *)
Theorem C12_scale_is_population_variance :
  forall w bs j,
    bs <> [] -> Forall (fun b => b <> [] /\ width b = w) bs -> (j < w)%nat ->
    nth j (scale2_of (fold_left add_data bs store0)) 0 == colvar (concat bs) j.
Proof. exact scale2_is_variance. Qed.
Print Assumptions C12_scale_is_population_variance.

(** *** no absolute scale, no storage dtype

    The model is a function of the NUMERIC values of the summaries (rationals): whatever array dtype
    holds them (float32/64, int8..int64, uint8..uint64, bool, mixed across the batches of a round) the
    statement is about the numbers.  And it has no absolute magnitude: the same data expressed in
    another unit, [scale_mat c data] (every entry multiplied by [c], for EVERY rational [c], e.g.
    2^-100 or 2^100), has variance, hence [scale]^2, multiplied by [c^2] - no floor, ceiling or
    threshold - for every partition into batches; the appended weights are divided by [c^2] (the
    squares of [w / |c|]); so the newest distance of summaries, observed values and adaptation data all
    expressed in the unit [c <> 0] is the same number. *)
Theorem C12_variance_unit_change :
  forall c R j, colvar (scale_mat c R) j == c * c * colvar R j.
Proof. exact colvar_scale. Qed.
Print Assumptions C12_variance_unit_change.

Theorem C12_scale_unit_change :
  forall c w bs j,
    bs <> [] -> Forall (fun b => b <> [] /\ width b = w) bs -> (j < w)%nat ->
    nth j (scale2_of (fold_left add_data (map (scale_mat c) bs) store0)) 0
    == c * c * nth j (scale2_of (fold_left add_data bs store0)) 0.
Proof. exact scale2_unit_change. Qed.
Print Assumptions C12_scale_unit_change.

Theorem C12_weights_unit_change :
  forall c a a' w bs,
    bs <> [] -> Forall (fun b => b <> [] /\ width b = w) bs ->
    exists a2 a2' w2 w2',
      update_distance (fold_left add_data_state bs (init_round a)) = Some a2
      /\ update_distance (fold_left add_data_state (map (scale_mat c) bs) (init_round a')) = Some a2'
      /\ a_funcs a2 = a_funcs a ++ [Some w2] /\ a_funcs a2' = a_funcs a' ++ [Some w2']
      /\ length w2 = w /\ length w2' = w
      /\ forall j, (j < w)%nat -> nth j w2' 0 == / (c * c) * nth j w2 0.
Proof. exact weights_unit_change. Qed.
Print Assumptions C12_weights_unit_change.

Theorem C12_newest_distance_unit_free :
  forall c var u o,
    ~ c == 0 -> length var = length u -> length o = length u ->
    dist2 (Some (map (fun v => c * c * v) var)) (map (Qmult c) u) (map (Qmult c) o) == dist2 (Some var) u o.
Proof. exact dist2_unit_free. Qed.
Print Assumptions C12_newest_distance_unit_free.

(** *** update_distance / nested_distance, any number of rounds *)

(** From any node state, a round of batches followed by [update_distance] appends exactly one
    distance function (weights = inverse population variances of the whole round), keeps all earlier
    ones, and resets the store.  Iterating gives the statement for any number of rounds. *)
Theorem C12_adaptive_round :
  forall a w bs,
    bs <> [] -> Forall (fun b => b <> [] /\ width b = w) bs ->
    exists a2 w2,
      update_distance (fold_left add_data_state bs (init_round a)) = Some a2
      /\ a_funcs a2 = a_funcs a ++ [Some w2] /\ a_store a2 = store0 /\ length w2 = w
      /\ forall j, (j < w)%nat -> nth j w2 0 == / colvar (concat bs) j.
Proof. exact adaptive_round. Qed.
Print Assumptions C12_adaptive_round.

Theorem C12_update_appends_one :
  forall a a', update_distance a = Some a' ->
    exists sc, a_scale2 a = Some sc
      /\ a_funcs a' = a_funcs a ++ [Some (map (fun s => Qred (/ s)) sc)]
      /\ a_w2 a' = a_w2 a ++ [Some (map (fun s => Qred (/ s)) sc)]
      /\ a_store a' = store0 /\ a_scale2 a' = a_scale2 a.
Proof. exact update_distance_spec. Qed.
Print Assumptions C12_update_appends_one.

(** Earlier distances stay available unchanged: for every metric, with one more function every
    output row is the old row followed by the new function's values. *)
Theorem C12_earlier_columns_unchanged :
  forall (K D : Type) (metric : K -> list Q -> list Q -> D) funcs f u v rows n,
    nested_distance metric funcs u v = Some (R2 n rows) ->
    nested_distance metric (funcs ++ [f]) u v
    = Some (R2 (length (funcs ++ [f]) * length v) (zipw (fun r a => r ++ map (fun b => metric f a b) v) rows u)).
Proof. exact nested_append. Qed.
Print Assumptions C12_earlier_columns_unchanged.

(** The newest distance (squared) is the sum of squared differences divided by scale^2; the first
    one is the plain Euclidean distance (squared). *)
Theorem C12_newest_distance_scaled :
  forall sc u v, weuclid2 (Some (map (fun s => Qred (/ s)) sc)) u v == dist2 (Some sc) u v.
Proof. exact newest_distance_scaled. Qed.
Print Assumptions C12_newest_distance_scaled.

Theorem C12_first_distance_plain : forall u v, weuclid2 None u v == dist2 None u v.
Proof. exact first_distance_plain. Qed.
Print Assumptions C12_first_distance_plain.

(** *** a sampler round (Rejection on an adaptive node; every population of AdaptiveDistanceSMC)

    [rejection_round a bs] = [Rejection.__init__] (new adaptation round), one [_merge_batch] per batch
    (the WHOLE batch goes to [add_data]; the acceptance mask [sb_accept] only selects the kept samples),
    [extract_result] ([update_distance]).  From ANY node state, for ANY acceptance masks (threshold,
    quantile or n_sim objective; batches in which nothing was accepted) and ANY split into batches:
    exactly one function is appended and its weights are the inverse population variances of ALL rows
    simulated in the round. *)
Theorem C12_sampler_round_all_rows :
  forall a w bs,
    round_wf w bs ->
    exists a2 w2,
      rejection_round a bs = Some a2
      /\ a_funcs a2 = a_funcs a ++ [Some w2] /\ a_w2 a2 = a_w2 a ++ [Some w2]
      /\ a_store a2 = store0 /\ length w2 = w
      /\ forall j, (j < w)%nat -> nth j w2 0 == / colvar (round_rows bs) j.
Proof. exact rejection_round_all_rows. Qed.
Print Assumptions C12_sampler_round_all_rows.

Theorem C12_sampler_round_ignores_acceptance :
  forall a bs1 bs2, map sb_data bs1 = map sb_data bs2 -> rejection_round a bs1 = rejection_round a bs2.
Proof. exact rejection_round_ignores_acceptance. Qed.
Print Assumptions C12_sampler_round_ignores_acceptance.

(** same rows, other batch sizes, other masks, other history of the node: equal newest weights *)
Theorem C12_sampler_round_ignores_batching :
  forall a1 a2 w bs1 bs2,
    round_wf w bs1 -> round_wf w bs2 -> round_rows bs1 = round_rows bs2 ->
    exists r1 r2 u1 u2,
      rejection_round a1 bs1 = Some r1 /\ rejection_round a2 bs2 = Some r2
      /\ last (a_funcs r1) None = Some u1 /\ last (a_funcs r2) None = Some u2
      /\ length u1 = w /\ length u2 = w
      /\ forall j, (j < w)%nat -> nth j u1 0 == nth j u2 0.
Proof. exact rejection_round_ignores_batching. Qed.
Print Assumptions C12_sampler_round_ignores_batching.

(** any number of rounds on one node: distance function [k+1] carries the weights of round [k] alone
    (no rows carried over from, and no change to, earlier rounds) *)
Theorem C12_sampler_rounds_all_rows :
  forall w rs a,
    Forall (round_wf w) rs ->
    exists a2 ws,
      rejection_rounds a rs = Some a2
      /\ a_funcs a2 = a_funcs a ++ map Some ws
      /\ (rs <> [] -> a_store a2 = store0)
      /\ Forall2 (fun w2 bs => length w2 = w
                               /\ forall j, (j < w)%nat -> nth j w2 0 == / colvar (round_rows bs) j) ws rs.
Proof. exact rejection_rounds_all_rows. Qed.
Print Assumptions C12_sampler_rounds_all_rows.

(** the script replayed by the correspondence check for a sampler round ([OInit], one [OBatch] per
    simulated batch, [OUpdate]) ends in the state [rejection_round] describes *)
Theorem C12_round_script_is_sampler_round :
  forall obsd a bs sb a2,
    Forall2 (fun b s => column_stack (fst b) = Some (sb_data s) /\ snd b = sb_accept s) bs sb ->
    rejection_round a sb = Some a2 ->
    exec obsd a (round_script bs) = a2.
Proof. exact round_script_is_rejection_round. Qed.
Print Assumptions C12_round_script_is_sampler_round.

(** *** plain distance nodes: shape plumbing for every metric *)

(** For every metric, keyword value [kw], number of parents, mix of 1-d / 2-d summaries with [M] rows
    each and one observed row: the node outputs a vector with one value per simulated row, the
    metric (with [kw]) between row [i] of the stacked summaries and the stacked observed row. *)
Theorem C12_distance_one_value_per_row :
  forall (K D : Type) (metric : K -> list Q -> list Q -> D) kw M summaries observed,
    well_shaped M summaries observed = true ->
    distance_node metric kw summaries observed
    = Some (D1 (map (fun i => metric kw (srow summaries i) (orow observed)) (seq 0 M))).
Proof. exact distance_node_rows. Qed.
Print Assumptions C12_distance_one_value_per_row.

Theorem C12_adaptive_node_rows :
  forall (K D : Type) (metric : K -> list Q -> list Q -> D) funcs M summaries observed,
    well_shaped M summaries observed = true ->
    distance_as_discrepancy (nested_distance metric funcs) summaries observed
    = Some (squeeze (R2 (length funcs * 1)
                        (map (fun i => map (fun f => metric f (srow summaries i) (orow observed)) funcs) (seq 0 M)))).
Proof. exact nested_node_rows. Qed.
Print Assumptions C12_adaptive_node_rows.

(** Keyword arguments: exactly the given ones among p, w, V, VI reach cdist with their values,
    everything else is passed on; construction is refused exactly when a mandatory one is missing. *)
Theorem C12_kwargs_forwarded :
  forall (V : Type) d (kw : list (string * V)) m ex rest,
    distance_init d kw = Some (m, ex, rest) ->
    m = d
    /\ (forall k v, In (k, v) ex <-> In k cdist_keys /\ lookup k kw = Some v)
    /\ (forall kv, In kv rest <-> In kv kw /\ ~ In (fst kv) cdist_keys).
Proof. exact distance_init_spec. Qed.
Print Assumptions C12_kwargs_forwarded.

Theorem C12_kwargs_rejected :
  forall (V : Type) d (kw : list (string * V)),
    distance_init d kw = None <->
    (d = "wminkowski"%string /\ has "w" kw = false)
    \/ (d = "seuclidean"%string /\ has "V" kw = false)
    \/ (d = "mahalanobis"%string /\ has "VI" kw = false).
Proof. exact distance_init_rejects. Qed.
Print Assumptions C12_kwargs_rejected.

(** *** the decidable predicates of the correspondence check *)

Theorem C12_ok_sound :
  forall c, d_ok c = true ->
    let M := match d_summaries c with [] => 0%nat | a :: _ => length (as_cols a) end in
    well_shaped M (d_summaries c) (d_observed c) = true ->
    kw_ok (d_kind c) (length (orow (d_observed c))) = true ->
    DistanceStatement c M.
Proof. exact d_ok_sound. Qed.
Print Assumptions C12_ok_sound.

Theorem C12_ok_add_sound :
  forall R n mean m2 scale, ok_add R n mean m2 scale = true -> AddStatement R n mean m2 scale.
Proof. exact ok_add_sound. Qed.
Print Assumptions C12_ok_add_sound.

Theorem C12_ok_update_sound :
  forall var weis, ok_update var weis = true ->
    length weis = length var /\ Forall2 (fun w v => 0 <= w /\ Close (w * w * v) 1) weis var.
Proof. exact ok_update_sound. Qed.
Print Assumptions C12_ok_update_sound.

(** The model's own state, for every partition, passes the check applied to the implementation. *)
Theorem C12_model_ok :
  forall w bs scale,
    bs <> [] -> Forall (fun b => b <> [] /\ width b = w) bs ->
    let st := fold_left add_data bs store0 in
    length scale = w ->
    (forall j, (j < w)%nat -> 0 <= nth j scale (-(1))
                             /\ nth j scale (-(1)) * nth j scale (-(1)) == nth j (scale2_of st) 0) ->
    ok_add (concat bs) (s_n st) (bvec_list (s_mean st)) (bvec_list (s_m2 st)) scale = true.
Proof. exact model_ok_add. Qed.
Print Assumptions C12_model_ok.

(** *** non-vacuity *)

(** two different splits of the rows [[1;10];[2;30];[6;20]]: same count, means (3, 20), M2 (14, 200),
    scale^2 (14/3, 200/3) *)
Example C12_example_partitions :
  let b1 := [[[1;10];[2;30]]; [[6;20]]] in
  let b2 := [[[1;10]]; [[2;30];[6;20]]] in
  Forall (fun b => b <> [] /\ width b = 2%nat) b1
  /\ Forall (fun b => b <> [] /\ width b = 2%nat) b2
  /\ concat b1 = concat b2
  /\ (let st := fold_left add_data b1 store0 in (s_n st, bvec_list (s_mean st), bvec_list (s_m2 st), scale2_of st))
     = (3%nat, [3; 20], [14; 200], [14 # 3; 200 # 3])
  /\ (let st := fold_left add_data b2 store0 in (s_n st, bvec_list (s_mean st), bvec_list (s_m2 st), scale2_of st))
     = (3%nat, [3; 20], [14; 200], [14 # 3; 200 # 3]).
Proof.
  cbv zeta. split; [|split; [|split; [|split]]]; try (vm_compute; reflexivity);
    repeat constructor; discriminate.
Qed.

(** a scalar summary and a 2-wide vector summary, batch of 2, observed given as 0-d and 1x2:
    well shaped; cityblock distances 3 and 3; after a round the adaptive node has two columns *)
Example C12_example_distance :
  let s := [A1 [1; 2]; A2 [[1; 2]; [3; 4]]] in
  let o := [A0 (1 # 2); A2 [[3; 5 # 2]]] in
  well_shaped 2 s o = true
  /\ distance_node metric_pow MCity s o = Some (D1 [3; 3])
  /\ (exists a2, update_distance (fold_left add_data_state [[[1;1;2]]; [[2;3;4]]] (init_round astate0)) = Some a2
                 /\ adaptive_node a2 s o = Some (D2 [[9 # 2; 21 # 4]; [9 # 2; 45 # 4]])).
Proof.
  cbv zeta. split; [vm_compute; reflexivity|]. split; [vm_compute; reflexivity|].
  eexists. split; vm_compute; reflexivity.
Qed.

(** a threshold round: three batches of two rows, the middle batch accepts nothing and only two of the
    six rows are accepted; the appended weights are 1/variance of all six rows (column 0: values
    1,2,3,4,5,9 -> variance 20/3; column 1: 0,2,0,2,0,2 -> variance 1), not of the two accepted rows
    (which would give 1/4 and a division by zero) *)
Example C12_example_sampler_round :
  let bs := [ {| sb_data := [[1;0];[2;2]]; sb_accept := [true; false] |};
              {| sb_data := [[3;0];[4;2]]; sb_accept := [false; false] |};
              {| sb_data := [[5;0];[9;2]]; sb_accept := [true; false] |} ] in
  round_wf 2 bs
  /\ (exists a2, rejection_round astate0 bs = Some a2 /\ a_funcs a2 = [None; Some [3 # 20; 1]])
  /\ map (colvar (round_rows bs)) [0%nat; 1%nat] = [20 # 3; 1].
Proof.
  cbv zeta. split; [|split].
  - split; [discriminate|]. repeat constructor; discriminate.
  - eexists. split; vm_compute; reflexivity.
  - vm_compute. reflexivity.
Qed.

(** a summary in a very small unit (2^-70, about 8.5e-22): rows 1u, 3u and a second summary 10, 30 in two
    batches; scale^2 = u^2 = 2^-140 (far below the square of the binary64 machine epsilon, 2^-104) and
    100; the appended weights are 2^140 and 1/100 - nothing is floored *)
Example C12_example_tiny_unit :
  let u := 1 # 1180591620717411303424 in
  let bs := [[[1 * u; 10]]; [[3 * u; 30]]] in
  Forall (fun b => b <> [] /\ width b = 2%nat) bs
  /\ map Qred (scale2_of (fold_left add_data bs store0)) = [Qred (u * u); 100]
  /\ Qle_bool ((1 # 4503599627370496) * (1 # 4503599627370496)) (u * u) = false
  /\ (exists a2, update_distance (fold_left add_data_state bs (init_round astate0)) = Some a2
                 /\ a_funcs a2 = [None; Some [Qred (/ (u * u)); 1 # 100]]).
Proof.
  cbv zeta. split; [repeat constructor; discriminate|].
  split; [vm_compute; reflexivity|]. split; [vm_compute; reflexivity|].
  eexists. split; vm_compute; reflexivity.
Qed.

Example C12_example_kwargs :
  distance_init "minkowski"%string [("name"%string, 0%nat); ("w"%string, 1%nat); ("p"%string, 2%nat)]
  = Some ("minkowski"%string, [("p"%string, 2%nat); ("w"%string, 1%nat)], [("name"%string, 0%nat)])
  /\ distance_init "seuclidean"%string [("p"%string, 2%nat)] = None.
Proof. split; vm_compute; reflexivity. Qed.
