(** C08 — the joint model prior equals the product of the conditional prior densities.
    Model: Graph/Prior.v (augmenter + ModelPrior._evaluate_pdf over the graph calculus).
    Proofs: Proofs/C08_Prior.v (structure), Proofs/C08_Algebra.v (products, log sums, stencil),
    Proofs/C08_History.v (array inputs, shapes of the answers, histories of calls and objects),
    Proofs/C08_Gradient.v (gradient_logpdf on array inputs: row independence, forms, soundness). *)
From Coq Require Import List String ZArith QArith Arith Bool Sorting.Permutation.
From Elfi Require Import Graph.Net Graph.Edit Graph.Prior Proofs.C14_Edit Proofs.C08_Prior Proofs.C08_Algebra Proofs.C08_History.
Import ListNotations.

(** For every model and every duplicate-free list of requested parameters, augmentation gives each
    requested parameter p a density node whose positional arguments are p followed by p's own
    positional parents, in order; it adds nothing else but those nodes and leaves every user node
    and its parents untouched (so non-requested parameters contribute no factor). *)
Theorem C08_density_nodes_structure :
  forall log P m a,
    Closed m -> NoDup P ->
    (forall p, In p P -> NoDup (p :: get_parents m p)) ->
    NoDup (map (pdf_node log) P) ->
    (forall p, In p P -> ~ In (pdf_node log p) (names m)) ->
    (forall p q, In p P -> In q P -> ~ In (pdf_node log p) (q :: get_parents m q)) ->
    add_distribution_nodes m P log = Ok a ->
    Closed a /\ names a = names m ++ map (pdf_node log) P /\
    (forall p, In p P -> get_parents a (pdf_node log p) = p :: get_parents m p) /\
    (forall k, In k (names m) -> get_parents a k = get_parents m k /\ lookup k (s_nodes a) = lookup k (s_nodes m)).
Proof. exact add_distribution_nodes_structure. Qed.
Print Assumptions C08_density_nodes_structure.

(** The reduce node (and any node created with positional parents) receives exactly the given
    parents in the given order: column i of the joint feeds factor i. *)
Theorem C08_node_parents_in_order :
  forall m n st ps obs m',
    Closed m -> NoDup ps -> ~ In n ps -> step_model m (EAddNode 0 n st ps obs) = Ok m' ->
    get_parents m' n = ps /\ names m' = names m ++ [n] /\
    s_edges m' = s_edges m ++ numbered n ps 0 /\
    (forall k, k <> n -> lookup k (s_nodes m') = lookup k (s_nodes m)).
Proof. exact add_node_with_parents. Qed.
Print Assumptions C08_node_parents_in_order.

(** functools.reduce(mul, factors) is the product of the factors. *)
Theorem C08_reduce_is_product : forall a r, fold_left Qmult r a == prodQ (a :: r).
Proof. exact reduce_is_product. Qed.
Print Assumptions C08_reduce_is_product.

(** The joint density is zero exactly where some conditional density is zero, positive where all
    are positive, and independent of the order of the requested parameters. *)
Theorem C08_joint_zero_iff : forall l, prodQ l == 0 <-> Exists (fun x => x == 0) l.
Proof. exact prodQ_zero_iff. Qed.
Print Assumptions C08_joint_zero_iff.

Theorem C08_joint_positive : forall l, Forall (fun x => 0 < x) l -> 0 < prodQ l.
Proof. exact prodQ_pos. Qed.
Print Assumptions C08_joint_positive.

Theorem C08_joint_order_independent : forall l l', Permutation l l' -> prodQ l == prodQ l'.
Proof. exact prodQ_perm. Qed.
Print Assumptions C08_joint_order_independent.

(** The joint log density is -inf exactly where some conditional log density is -inf. *)
Theorem C08_joint_log_neginf_iff : forall l, sum_ext l = NegInf <-> In NegInf l.
Proof. exact sum_ext_neginf_iff. Qed.
Print Assumptions C08_joint_log_neginf_iff.

(** The gradient stencil (central difference) is exact for quadratics, for every non-zero step. *)
Theorem C08_stencil_exact_on_quadratics :
  forall a b c x h, ~ h == 0 -> cdiff (fun t => a * t * t + b * t + c) x h == 2 * a * x + b.
Proof. exact cdiff_quadratic. Qed.
Print Assumptions C08_stencil_exact_on_quadratics.

(** Non-vacuity: a hierarchical model (t2's location is t1, a third parameter t3 not requested);
    the evaluated joint over [t2; t1] is pdf_t2(x2; x1, 1) * pdf_t1(x1; 0, 2) and nothing else. *)
Definition pst (o : option value) (op par : bool) (id : string) : sstate :=
  {| s_output := o; s_has_op := op; s_stochastic := op; s_observable := false; s_uses_observed := false;
     s_uses_batch_size := op; s_uses_meta := false; s_parameter := par; s_opid := id |}.
Definition ex_model : snet :=
  {| s_nodes := [("_c0"%string, pst (Some (VConst 0)) false false ""%string);
                 ("_c2"%string, pst (Some (VConst 2)) false false ""%string);
                 ("t1"%string, pst None true true "t1"%string);
                 ("_c1"%string, pst (Some (VConst 1)) false false ""%string);
                 ("t2"%string, pst None true true "t2"%string);
                 ("t3"%string, pst None true true "t3"%string)];
     s_edges := [("_c0"%string, "t1"%string, PInt 0); ("_c2"%string, "t1"%string, PInt 1);
                 ("t1"%string, "t2"%string, PInt 0); ("_c1"%string, "t2"%string, PInt 1);
                 ("_c0"%string, "t3"%string, PInt 0)];
     s_observed := [] |}.
Example C08_example :
  wf_request ex_model ["t2"%string; "t1"%string] = true /\
  evaluate ex_model ["t2"%string; "t1"%string] false [("t2"%string, VConst 72); ("t1"%string, VConst 71)]
  = Ok (VApp (OpUser "mul"%string)
             [VApp (OpUser "pdf:t2"%string) [VConst 72; VConst 71; VConst 1] [];
              VApp (OpUser "pdf:t1"%string) [VConst 71; VConst 0; VConst 2] []] []) /\
  joint_spec ex_model ["t2"%string; "t1"%string] false [("t2"%string, VConst 72); ("t1"%string, VConst 71)]
  = Some (VApp (OpUser "mul"%string)
             [VApp (OpUser "pdf:t2"%string) [VConst 72; VConst 71; VConst 1] [];
              VApp (OpUser "pdf:t1"%string) [VConst 71; VConst 0; VConst 2] []] []).
Proof. vm_compute. repeat split. Qed.

(** ---- array inputs, shapes, histories (wave 2) ---- *)
Close Scope Q_scope.

(** A matrix with one point per row is answered with one value per row, row i evaluated at point i
    (for every model, every request, any number of rows). *)
Theorem C08_matrix_rows :
  forall m P log rows impl,
    P <> [] -> Forall (fun r : list Z => List.length r = List.length P) rows ->
    eval_call m P {| c_log := log; c_shape := [List.length rows; List.length P]; c_data := List.concat rows; c_impl := impl |}
    = match eval_rows m P log rows with Ok vs => Some ([List.length rows], vs) | Err _ => None end.
Proof. exact eval_call_matrix. Qed.
Print Assumptions C08_matrix_rows.

(** One point handed over as a one-row matrix, as a vector (several parameters) or as a scalar /
    one-element vector (one parameter) gets the same value; only the number of axes differs. *)
Theorem C08_single_point_forms :
  forall m P log row impl,
    P <> [] -> List.length row = List.length P ->
    let ans sh := eval_call m P {| c_log := log; c_shape := sh; c_data := row; c_impl := impl |} in
    let v := eval_point m P log row in
    ans [1; List.length P] = option_map (fun v => ([1], [v])) v
    /\ (1 < List.length P -> ans [List.length P] = option_map (fun v => ([], [v])) v)
    /\ (List.length P = 1 -> ans [] = option_map (fun v => ([], [v])) v /\ ans [1] = option_map (fun v => ([1], [v])) v).
Proof. exact single_point_forms. Qed.
Print Assumptions C08_single_point_forms.

(** For every proper input (scalar, vector, matrix) of n points the model's answer has no axis for a
    single point given as scalar / vector and exactly one axis of length n otherwise. *)
Theorem C08_model_answer_shape :
  forall m P c n axis sh vs,
    P <> [] ->
    proper_form (List.length P) (c_shape c) = Some (n, axis) ->
    List.length (c_data c) = n * List.length P ->
    eval_call m P c = Some (sh, vs) ->
    sh = (if axis then [n] else []) /\ List.length vs = (if axis then n else 1).
Proof. exact eval_call_shape. Qed.
Print Assumptions C08_model_answer_shape.

(** No state between calls or objects: a history corresponds to the model iff every single call in
    it - wherever it stands, whatever was evaluated, returned or overwritten before, whichever other
    objects exist - got the answer the model gives to that call alone from the graph the object was
    built from; in particular the order and interleaving of calls and objects are immaterial. *)
Theorem C08_history_every_call_fresh :
  forall h, agree_t (History h) = true <->
            forall e c, In e h -> In c (e_calls e) -> answer_eqb (eval_call (e_model e) (e_params e) c) (c_impl c) = true.
Proof. exact agree_history_iff. Qed.
Print Assumptions C08_history_every_call_fresh.

Theorem C08_history_order_immaterial :
  forall h h', Permutation h h' -> agree_t (History h) = agree_t (History h').
Proof. exact agree_history_order. Qed.
Print Assumptions C08_history_order_immaterial.

Theorem C08_calls_order_immaterial :
  forall m P cs cs', Permutation cs cs' ->
    agree_epoch {| e_model := m; e_params := P; e_calls := cs |} = agree_epoch {| e_model := m; e_params := P; e_calls := cs' |}.
Proof. exact agree_epoch_order. Qed.
Print Assumptions C08_calls_order_immaterial.

(** The decidable statement evaluated on the implementation's answers means what it says: a proper
    input of n points was answered with the expected shape and, row by row, with the product (sum
    of logs) of the conditional densities at that row. *)
Theorem C08_ok_call_sound :
  forall m P c n axis,
    proper_form (List.length P) (c_shape c) = Some (n, axis) ->
    List.length (c_data c) = n * List.length P ->
    ok_call m P c = true ->
    exists rows vs ws,
      rows_of (List.length (c_data c)) (List.length P) (c_data c) = Some rows
      /\ c_impl c = Some ((if axis then [n] else []), vs)
      /\ spec_rows m P (c_log c) rows = Some ws
      /\ values_eqb ws vs = true.
Proof. exact ok_call_sound. Qed.
Print Assumptions C08_ok_call_sound.

(** Non-vacuity: the same point [72; 71] as a vector and as a one-row matrix, and a two-row matrix,
    on the hierarchical model above; then the model after t1 became a node holding another
    distribution object ("t1_v2", one argument): an object built from the edited graph carries the
    new conditional density, and the decidable statement rejects the old answer for it. *)
Definition ex_term (d1 : string) (x2 x1 : Z) (args1 : list value) : value :=
  VApp (OpUser "mul"%string)
       [VApp (OpUser "pdf:t2"%string) [VConst x2; VConst x1; VConst 1] [];
        VApp (OpUser d1) (VConst x1 :: args1) []] [].
Definition ex_model_edited : snet :=
  {| s_nodes := [("_c0"%string, pst (Some (VConst 0)) false false ""%string);
                 ("_c2"%string, pst (Some (VConst 2)) false false ""%string);
                 ("_c1"%string, pst (Some (VConst 1)) false false ""%string);
                 ("t2"%string, pst None true true "t2"%string);
                 ("t3"%string, pst None true true "t3"%string);
                 ("t1"%string, pst None true true "t1_v2"%string)];
     s_edges := [("_c1"%string, "t2"%string, PInt 1); ("_c0"%string, "t3"%string, PInt 0);
                 ("t1"%string, "t2"%string, PInt 0); ("_c2"%string, "t1"%string, PInt 0)];
     s_observed := [] |}.
Definition ex_old := ex_term "pdf:t1"%string 72 71 [VConst 0; VConst 2].
Definition ex_new := ex_term "pdf:t1_v2"%string 72 71 [VConst 2].
Definition ex_call (sh : list nat) (d : list Z) (ans : option (list nat * list value)) : call :=
  {| c_log := false; c_shape := sh; c_data := d; c_impl := ans |}.
Example C08_history_example :
  let P := ["t2"%string; "t1"%string] in
  let good := [ {| e_model := ex_model; e_params := P;
                   e_calls := [ex_call [2] [72; 71]%Z (Some ([], [ex_old]));
                               ex_call [1; 2] [72; 71]%Z (Some ([1], [ex_old]));
                               ex_call [2; 2] [72; 71; 82; 81]%Z
                                       (Some ([2], [ex_old; ex_term "pdf:t1"%string 82 81 [VConst 0; VConst 2]]))] |};
                {| e_model := ex_model_edited; e_params := P;
                   e_calls := [ex_call [2] [72; 71]%Z (Some ([], [ex_new]))] |} ] in
  let stale_shape := [ {| e_model := ex_model; e_params := P;
                          e_calls := [ex_call [1; 2] [72; 71]%Z (Some ([], [ex_old]))] |} ] in
  let stale_graph := [ {| e_model := ex_model_edited; e_params := P;
                          e_calls := [ex_call [2] [72; 71]%Z (Some ([], [ex_old]))] |} ] in
  wf_request ex_model_edited P = true
  /\ agree_t (History good) = true /\ ok_t (History good) = true
  /\ agree_t (History stale_shape) = false /\ ok_t (History stale_shape) = false
  /\ agree_t (History stale_graph) = false /\ ok_t (History stale_graph) = false.
Proof. vm_compute. repeat split. Qed.

(** ---- the model's evaluation IS the product specification (composition with C03) ---- *)
From Elfi Require Import Proofs.C03_Twins Proofs.C08_Compose.

(** For EVERY well-formed model (distinct node names, edges between existing nodes, one edge per
    ordered pair, no node named like a runtime node, observed data only on observable nodes without
    a constant output) and every well-formed request: whatever the modelled ModelPrior._evaluate_pdf
    returns - augmentation by add_pdf_nodes, then ElfiModel.generate of the joint node (compile,
    load, execute), then the reduce - is the product (sum of logs) of the conditional density
    factors pdf_p(x_p; values of p's positional parents at x), a parent's value being the supplied
    column or the constant.  Nothing is assumed about the names "_p_pdf" / "_joint" or about cycles:
    evaluation fails when they clash or when a requested parameter is its own parent. *)
Theorem C08_evaluate_is_joint_spec :
  forall m P log x t,
    wfsrc m ->
    wf_request m P = true ->
    map fst x = P ->
    evaluate m P log x = Ok t ->
    joint_spec m P log x = Some t.
Proof. exact evaluate_is_joint_spec. Qed.
Print Assumptions C08_evaluate_is_joint_spec.

(** The same with any supplied point whose columns are distinct nodes of the user's model and cover
    the requested parameters (extra columns may override constants: both sides read the column). *)
Theorem C08_evaluate_is_joint_spec_gen :
  forall m P log x t,
    wfsrc m ->
    wf_request m P = true ->
    NoDup (map fst x) ->
    (forall k, In k (map fst x) -> has k (s_nodes m) = true) ->
    (forall p, In p P -> In p (map fst x)) ->
    evaluate m P log x = Ok t ->
    joint_spec m P log x = Some t.
Proof. exact evaluate_is_joint_spec_gen. Qed.
Print Assumptions C08_evaluate_is_joint_spec_gen.

(** On such a request the specification is defined: the theorem is not vacuous on the right. *)
Theorem C08_joint_spec_factors_defined :
  forall m P log x,
    wf_request m P = true -> (forall p, In p P -> In p (map fst x)) ->
    exists fs, Prior.all_some (map (factor m log x) P) = Some fs.
Proof. exact joint_factors_total. Qed.
Print Assumptions C08_joint_spec_factors_defined.

(** Non-vacuity: a hierarchical model with a simulator and observed data below the parameters
    (p0 ~ dist_p0(0, 1), p1 ~ dist_p1(p0, 2), sim(p1, p0) observed, summary S, discrepancy d);
    the request [p1; p0] satisfies every hypothesis (checked by computation) and the evaluation
    returns a value, which the theorem identifies with the specification. *)
Definition hst (o : option value) (op stoch obs uo bs par : bool) (id : string) : sstate :=
  {| s_output := o; s_has_op := op; s_stochastic := stoch; s_observable := obs; s_uses_observed := uo;
     s_uses_batch_size := bs; s_uses_meta := false; s_parameter := par; s_opid := id |}.
Definition ex_hier : snet :=
  {| s_nodes := [("_c0"%string, hst (Some (VConst 0)) false false false false false false ""%string);
                 ("_c1"%string, hst (Some (VConst 1)) false false false false false false ""%string);
                 ("p0"%string, hst None true true false false true true "dist_p0"%string);
                 ("_c2"%string, hst (Some (VConst 2)) false false false false false false ""%string);
                 ("p1"%string, hst None true true false false true true "dist_p1"%string);
                 ("sim"%string, hst None true true true false true false "sim"%string);
                 ("S"%string, hst None true false true false false false "S"%string);
                 ("d"%string, hst None true false false true false false "d"%string)];
     s_edges := [("_c0"%string, "p0"%string, PInt 0); ("_c1"%string, "p0"%string, PInt 1);
                 ("p0"%string, "p1"%string, PInt 0); ("_c2"%string, "p1"%string, PInt 1);
                 ("p1"%string, "sim"%string, PInt 0); ("p0"%string, "sim"%string, PInt 1);
                 ("sim"%string, "S"%string, PInt 0); ("S"%string, "d"%string, PInt 0)];
     s_observed := [("sim"%string, VConst 5)] |}.
Definition ex_hier_P : list name := ["p1"%string; "p0"%string].
Definition ex_hier_x : list (name * value) := [("p1"%string, VConst 71); ("p0"%string, VConst 70)].
Definition ex_hier_t (log : bool) : value :=
  VApp (OpUser (if log then "add" else "mul")%string)
       [VApp (OpUser (pdf_opid log "dist_p1"%string)) [VConst 71; VConst 70; VConst 2] [];
        VApp (OpUser (pdf_opid log "dist_p0"%string)) [VConst 70; VConst 0; VConst 1] []] [].

Example C08_compose_example_hypotheses :
  wfsrc_b ex_hier = true /\ wf_request ex_hier ex_hier_P = true /\ map fst ex_hier_x = ex_hier_P
  /\ evaluate ex_hier ex_hier_P false ex_hier_x = Ok (ex_hier_t false)
  /\ evaluate ex_hier ex_hier_P true ex_hier_x = Ok (ex_hier_t true).
Proof. vm_compute. repeat split. Qed.

(** ... and the conclusion obtained from the theorem, not by evaluating the specification *)
Example C08_compose_example :
  forall log, joint_spec ex_hier ex_hier_P log ex_hier_x = Some (ex_hier_t log).
Proof.
  intros log. apply C08_evaluate_is_joint_spec.
  - apply wfsrc_b_sound. vm_compute. reflexivity.
  - vm_compute. reflexivity.
  - reflexivity.
  - destruct log; vm_compute; reflexivity.
Qed.
Print Assumptions C08_compose_example.

(** ---- gradient_logpdf on array inputs (wave 3) ---- *)
From Coq Require Import PrimFloat.
From Elfi Require Import Proofs.C08_Gradient.

(** A matrix with one point per row is answered with one gradient row per point, row i being the
    numgrad stencil of point i alone (central differences of the log density around point i, zeros
    when the stencil OF POINT i reaches a point of zero density), for every log density, every
    stepsize form (default, one, one per dimension) and any number of rows. *)
Theorem C08_gradient_matrix_rows :
  forall lp dim h hs rows an impl,
    0 < dim -> Forall (fun r : fpoint => List.length r = dim) rows ->
    expand_h dim (match h with Some v => v | None => [default_step] end) = Some hs ->
    grad_call lp dim {| g_step := h; g_shape := [List.length rows; dim]; g_data := List.concat rows; g_analytic := an; g_impl := impl |}
    = option_map (fun gs => ([List.length rows; dim], List.concat gs)) (all_some (map (grad_point lp hs) rows)).
Proof. exact grad_call_matrix. Qed.
Print Assumptions C08_gradient_matrix_rows.

(** The gradient row of a point depends on the log density only through that point's own 3*dim
    stencil points: whatever the log density is elsewhere - in particular on the stencils of the
    other rows of a matrix, -inf included - the row is the same. *)
Theorem C08_gradient_row_local :
  forall lp lp' hs x,
    (forall p, In p (stencil_points x hs) -> lp p = lp' p) -> grad_point lp hs x = grad_point lp' hs x.
Proof. exact grad_point_local. Qed.
Print Assumptions C08_gradient_row_local.

(** Row i of the answer to a matrix is the answer to point i handed over alone. *)
Theorem C08_gradient_row_alone :
  forall lp dim h hs rows an an' impl impl' i r gs,
    0 < dim -> Forall (fun r : fpoint => List.length r = dim) rows ->
    expand_h dim (match h with Some v => v | None => [default_step] end) = Some hs ->
    nth_error rows i = Some r ->
    grad_call lp dim {| g_step := h; g_shape := [List.length rows; dim]; g_data := List.concat rows; g_analytic := an; g_impl := impl |}
    = Some ([List.length rows; dim], List.concat gs) ->
    all_some (map (grad_point lp hs) rows) = Some gs ->
    grad_call lp dim {| g_step := h; g_shape := [1; dim]; g_data := r; g_analytic := an'; g_impl := impl' |}
    = option_map (fun g => ([1; dim], g)) (nth_error gs i).
Proof. exact grad_row_alone. Qed.
Print Assumptions C08_gradient_row_alone.

(** One point handed over as a one-row matrix, as a vector (several parameters) or as a scalar /
    one-element vector (one parameter) gets the same gradient row. *)
Theorem C08_gradient_single_point_forms :
  forall lp dim h hs row an impl,
    0 < dim -> List.length row = dim ->
    expand_h dim (match h with Some v => v | None => [default_step] end) = Some hs ->
    let ans sh := grad_call lp dim {| g_step := h; g_shape := sh; g_data := row; g_analytic := an; g_impl := impl |} in
    let g := grad_point lp hs row in
    ans [1; dim] = option_map (fun g => ([1; dim], g)) g
    /\ (1 < dim -> ans [dim] = option_map (fun g => ([dim], g)) g)
    /\ (dim = 1 -> ans [] = option_map (fun g => ([dim], g)) g /\ ans [1] = option_map (fun g => ([1; dim], g)) g).
Proof. exact grad_single_forms. Qed.
Print Assumptions C08_gradient_single_point_forms.

(** For every proper input of n points the model's answer has shape (dim,) for a single point given
    as scalar / vector and (n, dim) otherwise. *)
Theorem C08_gradient_answer_shape :
  forall lp dim c n axis sh vs,
    0 < dim ->
    proper_form dim (g_shape c) = Some (n, axis) ->
    List.length (g_data c) = n * dim ->
    grad_call lp dim c = Some (sh, vs) ->
    sh = (if axis then [n; dim] else [dim]).
Proof. exact grad_call_shape. Qed.
Print Assumptions C08_gradient_answer_shape.

(** The decidable statement evaluated on the implementation's answer means what it says: the
    expected shape, as many gradient rows as points, and row i passes [row_ok] at point i, i.e.
    (next two theorems) it is all zeros when the stencil of point i reaches zero density, and equals
    the central differences of the log density around point i (and the analytic derivative where
    supplied) when the log density is finite on that stencil. *)
Theorem C08_gradient_ok_sound :
  forall lp dim c n axis hs,
    proper_form dim (g_shape c) = Some (n, axis) ->
    List.length (g_data c) = n * dim ->
    expand_h dim (step_of c) = Some hs ->
    ok_gcall lp dim c = true ->
    exists rows vs grows,
      rows_ofA (List.length (g_data c)) dim (g_data c) = Some rows
      /\ g_impl c = Some ((if axis then [n; dim] else [dim]), vs)
      /\ rows_ofA (List.length vs) dim vs = Some grows
      /\ List.length grows = List.length rows
      /\ forall i x, nth_error rows i = Some x ->
           exists g an, nth_error grows i = Some g /\ row_ok lp hs x g an = true.
Proof. exact ok_gcall_sound. Qed.
Print Assumptions C08_gradient_ok_sound.

Theorem C08_gradient_row_ok_zero :
  forall lp hs x g an f0 f1 f2,
    stencil_values lp hs x = Some (f0, f1, f2) -> existsb is_neginf (f0 ++ f1 ++ f2) = true ->
    row_ok lp hs x g an = true ->
    List.length g = List.length x /\ Forall (fun v => PrimFloat.eqb v 0%float = true) g.
Proof. exact row_ok_zero. Qed.
Print Assumptions C08_gradient_row_ok_zero.

Theorem C08_gradient_row_ok_finite :
  forall lp hs x g an f0 f1 f2,
    stencil_values lp hs x = Some (f0, f1, f2) -> existsb is_neginf (f0 ++ f1 ++ f2) = false ->
    forallb is_finite (f0 ++ f1 ++ f2) = true ->
    row_ok lp hs x g an = true ->
    fclose_list tol_stencil g (cdiffs f2 f0 hs) = true /\ analytic_ok g an = true.
Proof. exact row_ok_finite. Qed.
Print Assumptions C08_gradient_row_ok_finite.

(** Non-vacuity: one parameter, stepsize 0.25, a log density with values -1, -0.5, -1.5 at 0.25, 0.5,
    0.75, -2 at 1 and -inf at 1.25 (the support ends between 1 and 1.25).  The matrix [[0.5]; [1.0]]:
    point 0.5 has a finite stencil (central difference (-1.5 - -1) / 0.5 = -1), the stencil of point
    1.0 reaches -inf (zeros).  The answer [[-1]; [0]] and the answers to the rows alone correspond and
    satisfy the statement; the answer [[0]; [0]] (zero-gradient rule applied to the whole matrix
    because ONE row reaches -inf) is rejected by both; so is a wrong derivative and a wrong shape. *)
Definition ex_lp : list (fpoint * float) :=
  [([0.25%float], (-1)%float); ([0.5%float], (-0.5)%float); ([0.75%float], (-1.5)%float);
   ([1%float], (-2)%float); ([1.25%float], neg_infinity)].
Definition ex_gcall (sh : list nat) (d : list float) (ans : option (list nat * list float)) : gcall :=
  {| g_step := Some [0.25%float]; g_shape := sh; g_data := d; g_analytic := []; g_impl := ans |}.
Definition ex_gcase (cs : list gcall) : tcase := Gradient {| gc_dim := 1; gc_table := ex_lp; gc_calls := cs |}.
Example C08_gradient_example :
  let good := ex_gcase [ex_gcall [2; 1] [0.5; 1]%float (Some ([2; 1], [-1; 0]%float));
                        ex_gcall [2] [0.5; 1]%float (Some ([2; 1], [-1; 0]%float));
                        ex_gcall [] [0.5]%float (Some ([1], [(-1)%float]));
                        ex_gcall [1; 1] [1]%float (Some ([1; 1], [0%float]))] in
  let whole_batch_zero := ex_gcase [ex_gcall [2; 1] [0.5; 1]%float (Some ([2; 1], [0; 0]%float))] in
  let wrong_derivative := ex_gcase [ex_gcall [1] [0.5]%float (Some ([1; 1], [(-0.5)%float]))] in
  let nonzero_outside := ex_gcase [ex_gcall [1] [1]%float (Some ([1; 1], [(-3)%float]))] in
  let wrong_shape := ex_gcase [ex_gcall [2; 1] [0.5; 1]%float (Some ([2], [-1; 0]%float))] in
  grad_call (table_lookup ex_lp) 1 (ex_gcall [2; 1] [0.5; 1]%float None) = Some ([2; 1], [-1; 0]%float)
  /\ agree_t good = true /\ ok_t good = true
  /\ agree_t whole_batch_zero = false /\ ok_t whole_batch_zero = false
  /\ agree_t wrong_derivative = false /\ ok_t wrong_derivative = false
  /\ agree_t nonzero_outside = false /\ ok_t nonzero_outside = false
  /\ agree_t wrong_shape = false /\ ok_t wrong_shape = false.
Proof. vm_compute. repeat split. Qed.

(** ---- non-vacuity of the hypotheses (audit) ---- *)
(** Every theorem above that has hypotheses, instantiated on concrete non-degenerate data satisfying all of
    them together (C08_evaluate_is_joint_spec: see C08_compose_example_hypotheses / C08_compose_example). *)
From Coq Require Import Lia.
Ltac vac_nodup := vm_compute; repeat (constructor; [simpl; intuition discriminate|]); constructor.
Ltac vac_cases H := simpl in H; repeat (destruct H as [H|H]; [subst|]); try contradiction.

Example vac_closed_ex_model : Closed ex_model.
Proof.
  constructor.
  - vac_nodup.
  - intros e H. vac_cases H; vm_compute; intuition.
  - intros k v H. vac_cases H.
Qed.

Definition vac_P : list name := ["t2"%string; "t1"%string].
Definition vac_aug : snet :=
  match add_distribution_nodes ex_model vac_P false with Ok a => a | Err _ => ex_model end.

Example C08_density_nodes_structure_nonvacuous :
  Closed ex_model /\ NoDup vac_P /\
  (forall p, In p vac_P -> NoDup (p :: get_parents ex_model p)) /\
  NoDup (map (pdf_node false) vac_P) /\
  (forall p, In p vac_P -> ~ In (pdf_node false p) (names ex_model)) /\
  (forall p q, In p vac_P -> In q vac_P -> ~ In (pdf_node false p) (q :: get_parents ex_model q)) /\
  add_distribution_nodes ex_model vac_P false = Ok vac_aug /\
  names vac_aug = ["_c0"; "_c2"; "t1"; "_c1"; "t2"; "t3"; "_t2_pdf"; "_t1_pdf"]%string /\
  get_parents vac_aug "_t2_pdf"%string = ["t2"; "t1"; "_c1"]%string.
Proof.
  split; [exact vac_closed_ex_model|].
  split; [vac_nodup|].
  split; [intros p H; vac_cases H; vac_nodup|].
  split; [vac_nodup|].
  split; [intros p H; vac_cases H; vm_compute; intuition discriminate|].
  split; [intros p q H H'; vac_cases H; vac_cases H'; vm_compute; intuition discriminate|].
  vm_compute. repeat split.
Qed.

Example C08_node_parents_in_order_nonvacuous :
  let ps := ["t2"; "t1"; "_c1"]%string in
  let m' := match step_model ex_model (EAddNode 0 "_t2_pdf"%string (op_state "pdf:t2"%string) ps None) with Ok a => a | Err _ => ex_model end in
  Closed ex_model /\ NoDup ps /\ ~ In "_t2_pdf"%string ps /\
  step_model ex_model (EAddNode 0 "_t2_pdf"%string (op_state "pdf:t2"%string) ps None) = Ok m' /\
  get_parents m' "_t2_pdf"%string = ps.
Proof.
  cbv zeta.
  split; [exact vac_closed_ex_model|].
  split; [vac_nodup|].
  split; [vm_compute; intuition discriminate|].
  vm_compute. repeat split.
Qed.

Example C08_joint_positive_nonvacuous :
  Forall (fun x => 0 < x)%Q [1 # 2; 3; 5 # 7]%Q /\ (0 < prodQ [1 # 2; 3; 5 # 7])%Q.
Proof.
  assert (H : Forall (fun x => 0 < x)%Q [1 # 2; 3; 5 # 7]%Q) by (repeat constructor).
  split; [exact H | exact (C08_joint_positive _ H)].
Qed.

Example C08_joint_order_independent_nonvacuous :
  Permutation [1 # 2; 3; 5 # 7]%Q [3; 5 # 7; 1 # 2]%Q /\ (prodQ [1 # 2; 3; 5 # 7] == prodQ [3; 5 # 7; 1 # 2])%Q.
Proof.
  assert (H : Permutation [1 # 2; 3; 5 # 7]%Q [3; 5 # 7; 1 # 2]%Q).
  { change (Permutation ([1 # 2]%Q ++ [3; 5 # 7]%Q) ([3; 5 # 7]%Q ++ [1 # 2]%Q)). apply Permutation_app_comm. }
  split; [exact H | exact (C08_joint_order_independent _ _ H)].
Qed.

Example C08_stencil_exact_on_quadratics_nonvacuous :
  (~ (1 # 4) == 0)%Q /\ (cdiff (fun t => 3 * t * t + 5 * t + 7) (2 # 3) (1 # 4) == 2 * 3 * (2 # 3) + 5)%Q.
Proof.
  assert (H : (~ (1 # 4) == 0)%Q) by (intro E; discriminate E).
  split; [exact H | exact (C08_stencil_exact_on_quadratics 3 5 7 (2 # 3) (1 # 4) H)].
Qed.

(* array inputs *)
Definition vac_rows : list (list Z) := [[72; 71]; [82; 81]]%Z.
Definition vac_call : call := ex_call [2; 2] [72; 71; 82; 81]%Z
   (Some ([2], [ex_old; ex_term "pdf:t1"%string 82 81 [VConst 0; VConst 2]])).

Example C08_matrix_rows_nonvacuous :
  vac_P <> [] /\ Forall (fun r : list Z => List.length r = List.length vac_P) vac_rows /\
  eval_call ex_model vac_P {| c_log := false; c_shape := [List.length vac_rows; List.length vac_P];
                              c_data := List.concat vac_rows; c_impl := None |}
  = Some ([2], [ex_old; ex_term "pdf:t1"%string 82 81 [VConst 0; VConst 2]]).
Proof. split; [discriminate|]. split; [repeat constructor|]. vm_compute. reflexivity. Qed.

Example C08_single_point_forms_nonvacuous :
  vac_P <> [] /\ List.length [72; 71]%Z = List.length vac_P /\ 1 < List.length vac_P /\
  eval_point ex_model vac_P false [72; 71]%Z = Some ex_old /\
  (* one parameter: the clause List.length P = 1 *)
  ["t1"%string] <> [] /\ List.length [71%Z] = List.length ["t1"%string] /\ List.length ["t1"%string] = 1 /\
  eval_point ex_model ["t1"%string] false [71%Z] = Some (VApp (OpUser "pdf:t1"%string) [VConst 71; VConst 0; VConst 2] []).
Proof. vm_compute. repeat split; try discriminate; lia. Qed.

Example C08_model_answer_shape_nonvacuous :
  vac_P <> [] /\
  proper_form (List.length vac_P) (c_shape vac_call) = Some (2, true) /\
  List.length (c_data vac_call) = 2 * List.length vac_P /\
  eval_call ex_model vac_P vac_call = c_impl vac_call /\
  (* a single point given as a vector: no axis *)
  proper_form (List.length vac_P) [2] = Some (1, false) /\
  eval_call ex_model vac_P (ex_call [2] [72; 71]%Z None) = Some ([], [ex_old]).
Proof. vm_compute. repeat split; discriminate. Qed.

Example C08_ok_call_sound_nonvacuous :
  proper_form (List.length vac_P) (c_shape vac_call) = Some (2, true) /\
  List.length (c_data vac_call) = 2 * List.length vac_P /\
  ok_call ex_model vac_P vac_call = true.
Proof. vm_compute. repeat split. Qed.

Definition vac_epoch1 : epoch :=
  {| e_model := ex_model; e_params := vac_P;
     e_calls := [ex_call [2] [72; 71]%Z (Some ([], [ex_old])); vac_call] |}.
Definition vac_epoch2 : epoch :=
  {| e_model := ex_model_edited; e_params := vac_P; e_calls := [ex_call [2] [72; 71]%Z (Some ([], [ex_new]))] |}.

Example C08_history_order_immaterial_nonvacuous :
  Permutation [vac_epoch1; vac_epoch2] [vac_epoch2; vac_epoch1] /\
  Permutation (e_calls vac_epoch1) (rev (e_calls vac_epoch1)) /\
  agree_t (History [vac_epoch2; vac_epoch1]) = true /\
  agree_epoch {| e_model := ex_model; e_params := vac_P; e_calls := rev (e_calls vac_epoch1) |} = true.
Proof.
  split; [apply perm_swap|]. split; [apply Permutation_rev|]. vm_compute. split; reflexivity.
Qed.

(* composition with C03: a point with an extra column overriding the constant _c2 *)
Definition vac_hier_x : list (name * value) :=
  [("p1"%string, VConst 71); ("_c2"%string, VConst 9); ("p0"%string, VConst 70)].
Definition vac_hier_t : value :=
  VApp (OpUser "mul"%string)
       [VApp (OpUser "pdf:dist_p1"%string) [VConst 71; VConst 70; VConst 9] [];
        VApp (OpUser "pdf:dist_p0"%string) [VConst 70; VConst 0; VConst 1] []] [].

Example C08_evaluate_is_joint_spec_gen_nonvacuous :
  wfsrc ex_hier /\ wf_request ex_hier ex_hier_P = true /\ NoDup (map fst vac_hier_x) /\
  (forall k, In k (map fst vac_hier_x) -> has k (s_nodes ex_hier) = true) /\
  (forall p, In p ex_hier_P -> In p (map fst vac_hier_x)) /\
  evaluate ex_hier ex_hier_P false vac_hier_x = Ok vac_hier_t /\
  map fst vac_hier_x <> ex_hier_P.
Proof.
  split; [apply wfsrc_b_sound; vm_compute; reflexivity|].
  split; [vm_compute; reflexivity|].
  split; [vac_nodup|].
  split; [intros k H; vac_cases H; vm_compute; reflexivity|].
  split; [intros p H; vac_cases H; vm_compute; intuition|].
  split; [vm_compute; reflexivity|discriminate].
Qed.

Example C08_evaluate_is_joint_spec_gen_instance :
  joint_spec ex_hier ex_hier_P false vac_hier_x = Some vac_hier_t.
Proof.
  destruct C08_evaluate_is_joint_spec_gen_nonvacuous as (H1 & H2 & H3 & H4 & H5 & H6 & _).
  exact (C08_evaluate_is_joint_spec_gen _ _ _ _ _ H1 H2 H3 H4 H5 H6).
Qed.

Example C08_joint_spec_factors_defined_nonvacuous :
  wf_request ex_hier ex_hier_P = true /\ (forall p, In p ex_hier_P -> In p (map fst vac_hier_x)) /\
  Prior.all_some (map (factor ex_hier false vac_hier_x) ex_hier_P)
  = Some [VApp (OpUser "pdf:dist_p1"%string) [VConst 71; VConst 70; VConst 9] [];
          VApp (OpUser "pdf:dist_p0"%string) [VConst 70; VConst 0; VConst 1] []].
Proof.
  split; [vm_compute; reflexivity|].
  split; [intros p H; vac_cases H; vm_compute; intuition|].
  vm_compute. reflexivity.
Qed.

(* gradient_logpdf *)
Definition vac_lp : logdens := table_lookup ex_lp.
Definition vac_lp' : logdens :=
  table_lookup [([0.25%float], (-1)%float); ([0.5%float], (-0.5)%float); ([0.75%float], (-1.5)%float);
                ([1%float], neg_infinity); ([1.25%float], 3%float)].
Definition vac_grows : list fpoint := [[0.5%float]; [1%float]].
Definition vac_gs : list (list float) := [[(-1)%float]; [0%float]].

Example C08_gradient_matrix_rows_nonvacuous :
  0 < 1 /\ Forall (fun r : fpoint => List.length r = 1) vac_grows /\
  expand_h 1 [0.25%float] = Some [0.25%float] /\
  all_some (map (grad_point vac_lp [0.25%float]) vac_grows) = Some vac_gs.
Proof. split; [lia|]. split; [repeat constructor|]. vm_compute. split; reflexivity. Qed.

(** the two log densities differ at 1 and 1.25, outside the stencil {0.25, 0.5, 0.75} of the point 0.5 *)
Example C08_gradient_row_local_nonvacuous :
  (forall p, In p (stencil_points [0.5%float] [0.25%float]) -> vac_lp p = vac_lp' p) /\
  option_map is_neginf (vac_lp [1%float]) = Some false /\ option_map is_neginf (vac_lp' [1%float]) = Some true /\
  grad_point vac_lp [0.25%float] [0.5%float] = Some [(-1)%float] /\
  grad_point vac_lp' [0.25%float] [0.5%float] = Some [(-1)%float].
Proof.
  split.
  - intros p H. vm_compute in H. repeat (destruct H as [H|H]; [subst p; vm_compute; reflexivity|]). contradiction.
  - vm_compute. repeat split.
Qed.

Example C08_gradient_row_alone_nonvacuous :
  0 < 1 /\ Forall (fun r : fpoint => List.length r = 1) vac_grows /\
  expand_h 1 [0.25%float] = Some [0.25%float] /\
  nth_error vac_grows 1 = Some [1%float] /\
  grad_call vac_lp 1 (ex_gcall [List.length vac_grows; 1] (List.concat vac_grows) None)
  = Some ([List.length vac_grows; 1], List.concat vac_gs) /\
  all_some (map (grad_point vac_lp [0.25%float]) vac_grows) = Some vac_gs /\
  grad_call vac_lp 1 (ex_gcall [1; 1] [1%float] None) = Some ([1; 1], [0%float]).
Proof. split; [lia|]. split; [repeat constructor|]. vm_compute. repeat split. Qed.

(** two parameters, the default stepsize, a constant log density: the clause 1 < dim; one parameter: the clause dim = 1 *)
Example C08_gradient_single_point_forms_nonvacuous :
  0 < 2 /\ List.length [0.5; 1]%float = 2 /\ 1 < 2 /\
  expand_h 2 [default_step] = Some [default_step; default_step] /\
  grad_point (fun _ => Some (-1)%float) [default_step; default_step] [0.5; 1]%float = Some [0; 0]%float /\
  0 < 1 /\ List.length [0.5%float] = 1 /\ expand_h 1 [0.25%float] = Some [0.25%float] /\
  grad_point vac_lp [0.25%float] [0.5%float] = Some [(-1)%float].
Proof. vm_compute. repeat split; lia. Qed.

Definition vac_gcall : gcall := ex_gcall [2; 1] [0.5; 1]%float (Some ([2; 1], [-1; 0]%float)).

Example C08_gradient_answer_shape_nonvacuous :
  0 < 1 /\ proper_form 1 (g_shape vac_gcall) = Some (2, true) /\
  List.length (g_data vac_gcall) = 2 * 1 /\
  grad_call vac_lp 1 vac_gcall = Some ([2; 1], [-1; 0]%float) /\
  (* a single point given as a scalar: no points axis *)
  proper_form 1 [] = Some (1, false) /\
  grad_call vac_lp 1 (ex_gcall [] [0.5%float] None) = Some ([1], [(-1)%float]).
Proof. vm_compute. repeat split; lia. Qed.

Example C08_gradient_ok_sound_nonvacuous :
  proper_form 1 (g_shape vac_gcall) = Some (2, true) /\
  List.length (g_data vac_gcall) = 2 * 1 /\
  expand_h 1 (step_of vac_gcall) = Some [0.25%float] /\
  ok_gcall vac_lp 1 vac_gcall = true.
Proof. vm_compute. repeat split. Qed.

Example C08_gradient_row_ok_zero_nonvacuous :
  stencil_values vac_lp [0.25%float] [1%float] = Some ([(-1.5)%float], [(-2)%float], [neg_infinity]) /\
  existsb is_neginf ([(-1.5)%float] ++ [(-2)%float] ++ [neg_infinity]) = true /\
  row_ok vac_lp [0.25%float] [1%float] [0%float] [] = true.
Proof. vm_compute. repeat split. Qed.

Example C08_gradient_row_ok_finite_nonvacuous :
  stencil_values vac_lp [0.25%float] [0.5%float] = Some ([(-1)%float], [(-0.5)%float], [(-1.5)%float]) /\
  existsb is_neginf ([(-1)%float] ++ [(-0.5)%float] ++ [(-1.5)%float]) = false /\
  forallb is_finite ([(-1)%float] ++ [(-0.5)%float] ++ [(-1.5)%float]) = true /\
  row_ok vac_lp [0.25%float] [0.5%float] [(-1)%float] [Some (-1)%float] = true.
Proof. vm_compute. repeat split. Qed.

(** ---- the model's own answers pass the decidable statements; a correspondence implies the property ---- *)
From Elfi Require Import Proofs.C08_ModelOk.

(** One evaluation: for every well-formed model and every supplied point whose columns are distinct
    user nodes covering the requested parameters, the value the modelled evaluation returns passes
    [ok].  (When the modelled evaluation FAILS on a well-formed request - name clash with "_p_pdf" /
    "_joint", a requested parameter that is its own parent - the specification is still defined and
    [ok] is false for the answer "raised": hence the hypothesis that a value was returned.) *)
Theorem C08_model_ok :
  forall m P log aug x t,
    wfsrc m -> NoDup (map fst x) ->
    (forall k, In k (map fst x) -> has k (s_nodes m) = true) ->
    (forall p, In p P -> In p (map fst x)) ->
    evaluate m P log x = Ok t ->
    ok {| p_model := m; p_params := P; p_log := log; p_augmented := aug; p_point := x; p_impl := Some t |} = true.
Proof. exact model_ok_single. Qed.
Print Assumptions C08_model_ok.

Theorem C08_agree_implies_ok :
  forall c,
    wfsrc (p_model c) -> NoDup (map fst (p_point c)) ->
    (forall k, In k (map fst (p_point c)) -> has k (s_nodes (p_model c)) = true) ->
    (forall p, In p (p_params c) -> In p (map fst (p_point c))) ->
    p_impl c <> None ->
    agree c = true -> ok c = true.
Proof. exact agree_ok_single. Qed.
Print Assumptions C08_agree_implies_ok.

(** pdf / logpdf on an array (scalar, vector, matrix; any shape, any data): the model's own answer,
    whenever it is a value, passes [ok_call]; a correspondence on an answered call implies it. *)
Theorem C08_model_ok_call :
  forall m P c ans,
    wfsrc m -> wf_request m P = true ->
    eval_call m P c = Some ans ->
    ok_call m P {| c_log := c_log c; c_shape := c_shape c; c_data := c_data c; c_impl := Some ans |} = true.
Proof. exact model_ok_call. Qed.
Print Assumptions C08_model_ok_call.

Theorem C08_agree_implies_ok_call :
  forall m P c, wfsrc m -> wf_request m P = true -> c_impl c <> None -> agree_call m P c = true -> ok_call m P c = true.
Proof. exact agree_ok_call. Qed.
Print Assumptions C08_agree_implies_ok_call.

Theorem C08_agree_implies_ok_history :
  forall h,
    (forall e, In e h -> wfsrc (e_model e)) ->
    (forall e c, In e h -> In c (e_calls e) -> c_impl c <> None) ->
    agree_t (History h) = true -> ok_t (History h) = true.
Proof. exact agree_ok_history. Qed.
Print Assumptions C08_agree_implies_ok_history.

(** gradient_logpdf: the model's own answer passes [ok_gcall] when every row is [row_exact] (nothing
    asked where the stencil reaches -inf or a non-finite value; on a finite stencil the cleaned
    central differences are not nan and are within tolerance of the analytic entries supplied). *)
Theorem C08_model_ok_gradient :
  forall lp dim c ans,
    0 < dim ->
    grad_call lp dim c = Some ans ->
    (forall hs rows, expand_h dim (step_of c) = Some hs ->
                     rows_ofA (List.length (g_data c)) dim (g_data c) = Some rows ->
                     rows_exact lp hs rows (analytic_rows dim c) = true) ->
    ok_gcall lp dim {| g_step := g_step c; g_shape := g_shape c; g_data := g_data c; g_analytic := g_analytic c;
                       g_impl := Some ans |} = true.
Proof. exact model_ok_gcall. Qed.
Print Assumptions C08_model_ok_gradient.

Theorem C08_model_row_ok :
  forall lp hs x g an,
    List.length hs = List.length x -> grad_point lp hs x = Some g -> row_exact lp hs x an = true ->
    row_ok lp hs x g an = true.
Proof. exact row_ok_model. Qed.
Print Assumptions C08_model_row_ok.

(** Non-vacuity: the hierarchical model with a simulator, a two-row matrix: the hypotheses hold and the
    model's answer is a value; the gradient example of wave 3 is row_exact; a zero stepsize makes the
    central difference 0/0 = nan, the row is not row_exact and the model's own (cleaned) row fails. *)
Example C08_model_ok_example :
  wfsrc_b ex_hier = true /\ wf_request ex_hier ex_hier_P = true
  /\ (exists ans, eval_call ex_hier ex_hier_P (ex_call [2; 2] [71; 70; 81; 80]%Z None) = Some ans
                  /\ ok_call ex_hier ex_hier_P (ex_call [2; 2] [71; 70; 81; 80]%Z (Some ans)) = true)
  /\ rows_exact vac_lp [0.25%float] vac_grows [] = true
  /\ row_exact vac_lp [0%float] [0.5%float] [] = false
  /\ option_map (fun g => row_ok vac_lp [0%float] [0.5%float] g []) (grad_point vac_lp [0%float] [0.5%float]) = Some false.
Proof.
  split; [vm_compute; reflexivity|]. split; [vm_compute; reflexivity|].
  split; [eexists; split; vm_compute; reflexivity|].
  vm_compute. repeat split.
Qed.
