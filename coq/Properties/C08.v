(** C08 — the joint model prior equals the product of the conditional prior densities.
    Model: Graph/Prior.v (augmenter + ModelPrior._evaluate_pdf over the graph calculus).
    Proofs: Proofs/C08_Prior.v (structure), Proofs/C08_Algebra.v (products, log sums, stencil). *)
From Coq Require Import List String ZArith QArith Arith Bool Sorting.Permutation.
From Elfi Require Import Graph.Net Graph.Edit Graph.Prior Proofs.C14_Edit Proofs.C08_Prior Proofs.C08_Algebra.
Import ListNotations.

(** For every model and every duplicate-free list of requested parameters, augmentation gives each
    requested parameter p a density node whose positional arguments are p followed by p's own
    positional parents, in order; it adds nothing else but those nodes and leaves every user node
    and its parents untouched (so non-requested parameters contribute no factor). *)
Theorem C08_density_nodes_structure :
  forall log P m a,
    Closed m -> NoDup P ->
    (forall p, In p P -> NoDup (p :: get_parents m p)) ->
    NoDup (map (pdf_node log) P) ->
    (forall p, In p P -> ~ In (pdf_node log p) (names m)) ->
    (forall p q, In p P -> In q P -> ~ In (pdf_node log p) (q :: get_parents m q)) ->
    add_distribution_nodes m P log = Ok a ->
    Closed a /\ names a = names m ++ map (pdf_node log) P /\
    (forall p, In p P -> get_parents a (pdf_node log p) = p :: get_parents m p) /\
    (forall k, In k (names m) -> get_parents a k = get_parents m k /\ lookup k (s_nodes a) = lookup k (s_nodes m)).
Proof. exact add_distribution_nodes_structure. Qed.
Print Assumptions C08_density_nodes_structure.

(** The reduce node (and any node created with positional parents) receives exactly the given
    parents in the given order: column i of the joint feeds factor i. *)
Theorem C08_node_parents_in_order :
  forall m n st ps obs m',
    Closed m -> NoDup ps -> ~ In n ps -> step_model m (EAddNode 0 n st ps obs) = Ok m' ->
    get_parents m' n = ps /\ names m' = names m ++ [n] /\
    s_edges m' = s_edges m ++ numbered n ps 0 /\
    (forall k, k <> n -> lookup k (s_nodes m') = lookup k (s_nodes m)).
Proof. exact add_node_with_parents. Qed.
Print Assumptions C08_node_parents_in_order.

(** functools.reduce(mul, factors) is the product of the factors. *)
Theorem C08_reduce_is_product : forall a r, fold_left Qmult r a == prodQ (a :: r).
Proof. exact reduce_is_product. Qed.
Print Assumptions C08_reduce_is_product.

(** The joint density is zero exactly where some conditional density is zero, positive where all
    are positive, and independent of the order of the requested parameters. *)
Theorem C08_joint_zero_iff : forall l, prodQ l == 0 <-> Exists (fun x => x == 0) l.
Proof. exact prodQ_zero_iff. Qed.
Print Assumptions C08_joint_zero_iff.

Theorem C08_joint_positive : forall l, Forall (fun x => 0 < x) l -> 0 < prodQ l.
Proof. exact prodQ_pos. Qed.
Print Assumptions C08_joint_positive.

Theorem C08_joint_order_independent : forall l l', Permutation l l' -> prodQ l == prodQ l'.
Proof. exact prodQ_perm. Qed.
Print Assumptions C08_joint_order_independent.

(** The joint log density is -inf exactly where some conditional log density is -inf. *)
Theorem C08_joint_log_neginf_iff : forall l, sum_ext l = NegInf <-> In NegInf l.
Proof. exact sum_ext_neginf_iff. Qed.
Print Assumptions C08_joint_log_neginf_iff.

(** The gradient stencil (central difference) is exact for quadratics, for every non-zero step. *)
Theorem C08_stencil_exact_on_quadratics :
  forall a b c x h, ~ h == 0 -> cdiff (fun t => a * t * t + b * t + c) x h == 2 * a * x + b.
Proof. exact cdiff_quadratic. Qed.
Print Assumptions C08_stencil_exact_on_quadratics.

(** Non-vacuity: a hierarchical model (t2's location is t1, a third parameter t3 not requested);
    the evaluated joint over [t2; t1] is pdf_t2(x2; x1, 1) * pdf_t1(x1; 0, 2) and nothing else. *)
Definition pst (o : option value) (op par : bool) (id : string) : sstate :=
  {| s_output := o; s_has_op := op; s_stochastic := op; s_observable := false; s_uses_observed := false;
     s_uses_batch_size := op; s_uses_meta := false; s_parameter := par; s_opid := id |}.
Definition ex_model : snet :=
  {| s_nodes := [("_c0"%string, pst (Some (VConst 0)) false false ""%string);
                 ("_c2"%string, pst (Some (VConst 2)) false false ""%string);
                 ("t1"%string, pst None true true "t1"%string);
                 ("_c1"%string, pst (Some (VConst 1)) false false ""%string);
                 ("t2"%string, pst None true true "t2"%string);
                 ("t3"%string, pst None true true "t3"%string)];
     s_edges := [("_c0"%string, "t1"%string, PInt 0); ("_c2"%string, "t1"%string, PInt 1);
                 ("t1"%string, "t2"%string, PInt 0); ("_c1"%string, "t2"%string, PInt 1);
                 ("_c0"%string, "t3"%string, PInt 0)];
     s_observed := [] |}.
Example C08_example :
  wf_request ex_model ["t2"%string; "t1"%string] = true /\
  evaluate ex_model ["t2"%string; "t1"%string] false [("t2"%string, VConst 72); ("t1"%string, VConst 71)]
  = Ok (VApp (OpUser "mul"%string)
             [VApp (OpUser "pdf:t2"%string) [VConst 72; VConst 71; VConst 1] [];
              VApp (OpUser "pdf:t1"%string) [VConst 71; VConst 0; VConst 2] []] []) /\
  joint_spec ex_model ["t2"%string; "t1"%string] false [("t2"%string, VConst 72); ("t1"%string, VConst 71)]
  = Some (VApp (OpUser "mul"%string)
             [VApp (OpUser "pdf:t2"%string) [VConst 72; VConst 71; VConst 1] [];
              VApp (OpUser "pdf:t1"%string) [VConst 71; VConst 0; VConst 2] []] []).
Proof. vm_compute. repeat split. Qed.
