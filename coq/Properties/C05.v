(** C05 — output pools are transparent: reuse never changes results or re-simulates.
    Model: Store/Pool.v (OutputPool get_batch/add_batch/remove_store, ComputationContext validation,
    one inference run over a persistent pool through the PoolLoader and the executor of Graph/Net.v).
    Proofs: Proofs/C05_Pool.v (with C03's executor theorems). *)
From Coq Require Import List String ZArith Arith Bool.
From Elfi Require Import Graph.Net Store.Pool Proofs.C03_Exec Proofs.C05_Pool.
Import ListNotations.

(** If the values supplied for some nodes are the values a fresh computation gives them, then every
    node of the net has exactly the meaning it has without the pool (also nodes downstream of the
    stored ones, whatever they are: summaries and distances may have been replaced). *)
Theorem C05_reuse_changes_no_result :
  forall g g', supplied g g' -> forall n v, Den g' n v <-> Den g n v.
Proof. exact supplied_transparent. Qed.
Print Assumptions C05_reuse_changes_no_result.

(** A stored node's operation is never invoked for a batch the pool holds, for every executor-cache
    state. *)
Theorem C05_held_store_never_runs :
  forall pool g cache n v out log cache',
    NoDup (map fst pool) -> In (n, Some v) pool -> has n (c_nodes g) = true -> CacheOK cache ->
    execute (load pool g) cache = Ok (out, log, cache') -> ~ In n log.
Proof. exact held_store_never_runs. Qed.
Print Assumptions C05_held_store_never_runs.

(** The single batch generator: when the stored set is prefix closed for the execution order, the
    stochastic operations that still run are a prefix of the full stochastic sequence, i.e. each of
    them is handed the generator in exactly the state it has in the pool-free run. *)
Theorem C05_generator_positions :
  forall is_stoch runs order,
    prefix_closed is_stoch runs order false = true ->
    exists rest, filter is_stoch order = filter is_stoch (filter runs order) ++ rest.
Proof. exact generator_positions. Qed.
Print Assumptions C05_generator_positions.

(** The callback never overwrites a held batch and afterwards the store holds the consumed batch. *)
Theorem C05_store_never_overwrites :
  forall s i v j,
    match add_to_store s i v with
    | Some st' =>
        lookup_nat j st' =
        match s with
        | Some st => match lookup_nat j st with Some x => Some x | None => if Nat.eqb j i then Some v else None end
        | None => if Nat.eqb j i then Some v else None
        end
    | None => False
    end.
Proof. exact add_to_store_spec. Qed.
Print Assumptions C05_store_never_overwrites.

Theorem C05_callback_updates_exactly_result_stores :
  forall p batch i n,
    lookup n (stores (add_batch p batch i)) =
    match lookup n (stores p) with
    | Some s => match lookup n batch with Some v => Some (add_to_store s i v) | None => Some s end
    | None => None
    end.
Proof. exact add_batch_spec. Qed.
Print Assumptions C05_callback_updates_exactly_result_stores.

(** A pool refuses exactly a batch_size or a seed that differs from the one it was created with. *)
Theorem C05_context_refusal :
  forall bs seed fresh p,
    make_context bs seed fresh p = CtxRefused <->
    exists pb ps, pl_batch_size p = Some pb /\ pl_seed p = Some ps /\
                  ((exists b, bs = Some b /\ b <> pb) \/ (exists s, seed = Some s /\ s <> ps)).
Proof. exact make_context_refuses. Qed.
Print Assumptions C05_context_refusal.

(** Non-vacuity: the MA2-like store sets ("the simulator and/or what is computed from it", with the
    priors before them in the order) are prefix closed; storing only the first of two independent
    stochastic simulators is not (the boundary case noted in DESIGN.md). *)
Example C05_example :
  let order := ["t1"; "t2"; "sim"; "s1"; "d"]%string in
  let stoch := fun n => mem n ["t1"; "t2"; "sim"]%string in
  prefix_closed stoch (fun n => negb (mem n ["sim"; "s1"]%string)) order false = true
  /\ prefix_closed stoch (fun n => negb (mem n ["sim"; "s1"; "t1"; "t2"]%string)) order false = true
  /\ prefix_closed (fun n => mem n ["Z"; "A"]%string) (fun n => negb (mem n ["Z"]%string)) ["Z"; "A"]%string false = false
  /\ prefix_closed (fun n => mem n ["Z"; "A"]%string) (fun n => negb (mem n ["A"]%string)) ["Z"; "A"]%string false = true.
Proof. vm_compute. repeat split. Qed.
