(** C05 — output pools are transparent: reuse never changes results or re-simulates.
    Model: Store/Pool.v (OutputPool get_batch/add_batch/remove_store, ComputationContext validation,
    one inference run over a persistent pool through the PoolLoader and the executor of Graph/Net.v).
    Proofs: Proofs/C05_Pool.v, Proofs/C05_Cache.v, Proofs/C05_History.v (with C03's executor and C02's cache theorems). *)
From Coq Require Import List String ZArith Arith Bool.
From Elfi Require Import Graph.Net Store.Layout Store.Pool Proofs.C03_Exec Proofs.C02_Order Proofs.C05_Pool Proofs.C05_Cache Proofs.C05_History Proofs.C05_Layout Proofs.C03_EndToEnd Proofs.C03_Twins Graph.Denote Proofs.C05_Compose.
Import ListNotations.

(** If the values supplied for some nodes are the values a fresh computation gives them, then every
    node of the net has exactly the meaning it has without the pool (also nodes downstream of the
    stored ones, whatever they are: summaries and distances may have been replaced). *)
Theorem C05_reuse_changes_no_result :
  forall g g', supplied g g' -> forall n v, Den g' n v <-> Den g n v.
Proof. exact supplied_transparent. Qed.
Print Assumptions C05_reuse_changes_no_result.

(** A stored node's operation is never invoked for a batch the pool holds, for every executor-cache
    state. *)
Theorem C05_held_store_never_runs :
  forall pool g cache n v out log cache',
    NoDup (map fst pool) -> In (n, Some v) pool -> has n (c_nodes g) = true -> CacheOK cache ->
    execute (load pool g) cache = Ok (out, log, cache') -> ~ In n log.
Proof. exact held_store_never_runs. Qed.
Print Assumptions C05_held_store_never_runs.

(** The single batch generator: when the stored set is prefix closed for the execution order, the
    stochastic operations that still run are a prefix of the full stochastic sequence, i.e. each of
    them is handed the generator in exactly the state it has in the pool-free run. *)
Theorem C05_generator_positions :
  forall is_stoch runs order,
    prefix_closed is_stoch runs order false = true ->
    exists rest, filter is_stoch order = filter is_stoch (filter runs order) ++ rest.
Proof. exact generator_positions. Qed.
Print Assumptions C05_generator_positions.

(** The callback never overwrites a held batch and afterwards the store holds the consumed batch. *)
Theorem C05_store_never_overwrites :
  forall s i v j,
    match add_to_store s i v with
    | Some st' =>
        lookup_nat j st' =
        match s with
        | Some st => match lookup_nat j st with Some x => Some x | None => if Nat.eqb j i then Some v else None end
        | None => if Nat.eqb j i then Some v else None
        end
    | None => False
    end.
Proof. exact add_to_store_spec. Qed.
Print Assumptions C05_store_never_overwrites.

Theorem C05_callback_updates_exactly_result_stores :
  forall p batch i n,
    lookup n (stores (add_batch p batch i)) =
    match lookup n (stores p) with
    | Some s => match lookup n batch with Some v => Some (add_to_store s i v) | None => Some s end
    | None => None
    end.
Proof. exact add_batch_spec. Qed.
Print Assumptions C05_callback_updates_exactly_result_stores.

(** A pool refuses exactly a batch_size or a seed that differs from the one it was created with. *)
Theorem C05_context_refusal :
  forall bs seed fresh p,
    make_context bs seed fresh p = CtxRefused <->
    exists pb ps, pl_batch_size p = Some pb /\ pl_seed p = Some ps /\
                  ((exists b, bs = Some b /\ b <> pb) \/ (exists s, seed = Some s /\ s <> ps)).
Proof. exact make_context_refuses. Qed.
Print Assumptions C05_context_refusal.

(** End to end at the level of the user's model (with C03's composition theorem): with a pool whose
    entries equal the pool-free meaning of their nodes, whatever [generate] returns - for every
    well-formed graph, observed twins included, every stored set and every requested output - is
    the pool-free meaning of the requested node; a run with the pool and the pool-free run return
    the same values. *)
Theorem C05_generate_with_pool_is_pool_free :
  forall src outs P out log,
    wfsrc src -> NoDup (map fst P) -> (forall k, In k (map fst P) -> ~ In k inames) ->
    pool_consistent src P ->
    generate src outs P = Ok (out, log) ->
    forall o v, In (o, v) out ->
      (has o (s_nodes src) = true
       \/ exists x st, lookup x (s_nodes src) = Some st /\ o = observed_name x
                       /\ (s_observable st = true \/ s_uses_observed st = true)) ->
      forall v0, den_name src [] o = Some v0 -> v = v0.
Proof. exact generate_with_pool_is_pool_free. Qed.
Print Assumptions C05_generate_with_pool_is_pool_free.

Theorem C05_generate_with_pool_equals_fresh :
  forall src outs P out log out0 log0,
    wfsrc src -> NoDup (map fst P) -> (forall k, In k (map fst P) -> ~ In k inames) ->
    pool_consistent src P ->
    generate src outs P = Ok (out, log) -> generate src outs [] = Ok (out0, log0) ->
    forall o v v0, In (o, v) out -> In (o, v0) out0 ->
      (has o (s_nodes src) = true
       \/ exists x st, lookup x (s_nodes src) = Some st /\ o = observed_name x
                       /\ (s_observable st = true \/ s_uses_observed st = true)) ->
      v = v0.
Proof. exact generate_with_pool_equals_fresh. Qed.
Print Assumptions C05_generate_with_pool_equals_fresh.

(** Along a whole inference run over a pool - any batch indices, the pool filling up and the shared
    output set growing as the PoolLoader adds the stored nodes the pool lacks - every batch returns
    the outputs and the call log that a fresh executor cache gives, and the pool ends up the same:
    the order cache shared by all batches of a run never changes what a pool run computes. *)
Theorem C05_pool_run_executor_cache_transparent :
  forall g pl idxs,
    wf_base g -> NoDup (map fst (stores pl)) ->
    visible (run_batches {| rs_net := g; rs_pool := pl; rs_cache := empty_cache |} idxs)
    = visible (run_batches_fresh {| rs_net := g; rs_pool := pl; rs_cache := empty_cache |} idxs).
Proof. exact pool_run_from_start. Qed.
Print Assumptions C05_pool_run_executor_cache_transparent.

(** Any two loaded nets of one handler (same compiled net; any two pool batches, also over DIFFERENT
    sets of stores; any two output sets) are coherent in the sense C02's history theorem asks for:
    the executor's order cache is keyed on the requested outputs that still have an operation and on
    the set of nodes whose output is loaded. *)
Theorem C05_loaded_nets_coherent :
  forall g0 outs outs' p p',
    wf_base g0 -> NoDup (map fst p) -> NoDup (map fst p') ->
    coherent (loaded g0 outs p) (loaded g0 outs' p').
Proof. exact loaded_coherent. Qed.
Print Assumptions C05_loaded_nets_coherent.

(** Histories of runs on ONE BatchHandler + ComputationContext (the same inference object sampled
    again: reset() between the runs, any batch indices, stores removed in between).  The model's only
    cross-run state is the compiled net's grown output set, the executor cache and the pool; along every
    such history no batch's call log contains a stored node the pool held for that batch before it. *)
Theorem C05_history_held_store_never_runs :
  forall h s,
    NoDup (map fst (stores (rs_pool s))) -> CacheOK (rs_cache s) -> history_clean s h.
Proof. intros h s H1 H2. apply history_held_never_runs. split; assumption. Qed.
Print Assumptions C05_history_held_store_never_runs.

Theorem C05_history_from_new_inference_object :
  forall g pl h,
    NoDup (map fst (stores pl)) -> history_clean {| rs_net := g; rs_pool := pl; rs_cache := empty_cache |} h.
Proof. exact history_from_start. Qed.
Print Assumptions C05_history_from_new_inference_object.

(** A run does not depend on the earlier runs of the same inference object: a history of runs on one
    handler (no store removed in between) returns, batch by batch, what fresh executor caches return,
    and leaves the same pool. *)
Theorem C05_same_handler_history_transparent :
  forall g pl (h : list (list nat)),
    wf_base g -> NoDup (map fst (stores pl)) ->
    visible (flat_obs (run_history {| rs_net := g; rs_pool := pl; rs_cache := empty_cache |}
                                   (map (fun idxs => ([], idxs)) h)))
    = visible (run_batches_fresh {| rs_net := g; rs_pool := pl; rs_cache := empty_cache |} (List.concat h)).
Proof. exact same_handler_history_transparent. Qed.
Print Assumptions C05_same_handler_history_transparent.

(** ... and also when stores are removed from the pool between the runs of one inference object
    (pool.remove_store, then sample() again on the same object): every history of runs on one
    handler and context returns, batch by batch, what fresh executor caches return. *)
Theorem C05_history_with_removals_transparent :
  forall g pl h,
    wf_base g -> NoDup (map fst (stores pl)) ->
    visible_h (run_history {| rs_net := g; rs_pool := pl; rs_cache := empty_cache |} h)
    = visible_h (run_history_fresh {| rs_net := g; rs_pool := pl; rs_cache := empty_cache |} h).
Proof. exact history_with_removals_from_start. Qed.
Print Assumptions C05_history_with_removals_transparent.

(** A later run of the same handler after the pool was changed in ANY way that keeps store names
    distinct (stores removed, added, another pool) still returns what fresh caches return. *)
Theorem C05_rerun_after_pool_change :
  forall g pl idxs1 s1 obs1 pl' idxs2,
    wf_base g -> NoDup (map fst (stores pl)) -> NoDup (map fst (stores pl')) ->
    run_batches {| rs_net := g; rs_pool := pl; rs_cache := empty_cache |} idxs1 = Ok (s1, obs1) ->
    visible (run_batches {| rs_net := rs_net s1; rs_pool := pl'; rs_cache := rs_cache s1 |} idxs2)
    = visible (run_batches_fresh {| rs_net := rs_net s1; rs_pool := pl'; rs_cache := rs_cache s1 |} idxs2).
Proof. exact pool_rerun_after_pool_change. Qed.
Print Assumptions C05_rerun_after_pool_change.

(** Non-vacuity of the two theorems above: the compiled MA2-like net meets wf_base, and with a pool
    over the simulator and the summary, three batches run (the second and third through the order
    cache filled by the first, batch 0 twice) and agree with the fresh-cache run. *)
Definition c5_st (n : name) (o : option value) (op st ob uo ub : bool) : sstate :=
  {| s_output := o; s_has_op := op; s_stochastic := st; s_observable := ob; s_uses_observed := uo;
     s_uses_batch_size := ub; s_uses_meta := false; s_parameter := false; s_opid := n |}.
Definition c5_src : snet :=
  {| s_nodes := [("t"%string, c5_st "t"%string None true true false false true);
                 ("y"%string, c5_st "y"%string None true true true false true);
                 ("s"%string, c5_st "s"%string None true false true false false);
                 ("d"%string, c5_st "d"%string None true false false true false)];
     s_edges := [("t"%string, "y"%string, PInt 0); ("y"%string, "s"%string, PInt 0); ("s"%string, "d"%string, PInt 0)];
     s_observed := [("y"%string, VConst 7)] |}.
Example C05_cache_example :
  match compile c5_src ["d"%string] with
  | Ok g =>
      let pl := {| stores := [("y"%string, None); ("s"%string, None)]; pl_batch_size := None; pl_seed := None |} in
      wf_base_b g = true
      /\ match run_batches {| rs_net := g; rs_pool := pl; rs_cache := empty_cache |} [0; 1; 0]%nat with
         | Ok (s, obs) => List.length obs = 3%nat /\ List.length (ec_orders (rs_cache s)) = 2%nat
         | Err _ => False
         end
  | Err _ => False
  end.
Proof. vm_compute. repeat split. Qed.

(** Non-vacuity of the history theorems: one handler fills batches 0,1, is reset and serves batches
    0,1,2 (the first two from the pool: besides the observed twins only the distance runs, the third is simulated), then the summary's
    store is removed and batch 0 is served again (the summary runs, the simulator does not). *)
Example C05_history_example :
  match compile c5_src ["d"%string] with
  | Ok g =>
      let pl := {| stores := [("y"%string, None); ("s"%string, None)]; pl_batch_size := None; pl_seed := None |} in
      match run_history {| rs_net := g; rs_pool := pl; rs_cache := empty_cache |}
                        [([], [0; 1]); ([], [0; 1; 2]); (["s"%string], [0])]%nat with
      | Ok (_, obs) =>
          map (map snd) obs =
          [[["_s_observed"; "_d_observed"; "t"; "y"; "s"; "d"]; ["_s_observed"; "_d_observed"; "t"; "y"; "s"; "d"]];
           [["_s_observed"; "_d_observed"; "d"]; ["_s_observed"; "_d_observed"; "d"];
            ["_s_observed"; "_d_observed"; "t"; "y"; "s"; "d"]];
           [["_s_observed"; "_d_observed"; "s"; "d"]]]%string
      | Err _ => False
      end
  | Err _ => False
  end.
Proof. vm_compute. reflexivity. Qed.

(** On-disk stores and memory layouts (Store/Layout.v): a batch is any strided window into a buffer (C,
    Fortran, permuted axes, every second element, negative strides ...).  NpyArray.append writes its
    logical row-major traversal: a[idx] lands at the row-major position of idx, whatever the strides. *)
Theorem C05_tobytes_C_is_logical_order :
  forall a idx, valid idx (nd_shape a) -> nth_error (tobytes_C a) (lin (nd_shape a) idx) = Some (elem a idx).
Proof. exact tobytes_C_at. Qed.
Print Assumptions C05_tobytes_C_is_logical_order.

(** Appending any number of batches of one shape, each with its own layout, and reading batch i back
    through the row-major map of the file returns at every valid index the element the i-th produced
    array has there: an on-disk store holds exactly the values that were produced. *)
Theorem C05_stored_batch_reads_back :
  forall bs sh i a idx,
    (forall b, In b bs -> nd_shape b = sh) -> nth_error bs i = Some a -> valid idx sh ->
    read_back (append_all bs) sh i idx = elem a idx.
Proof. exact append_read_back. Qed.
Print Assumptions C05_stored_batch_reads_back.

Theorem C05_store_ok_sound :
  forall o, store_ok o = true ->
    forall i a r, nth_error (so_batches o) i = Some a -> nth_error (so_read o) i = Some r ->
    forall idx, valid idx (nd_shape a) ->
    exists v, elem a idx = Some v /\ nth_error r (lin (nd_shape a) idx) = Some v.
Proof. exact store_ok_sound. Qed.
Print Assumptions C05_store_ok_sound.

(** Non-vacuity: a C-ordered 2x3 batch, then the same shape Fortran-ordered (buffer column-major,
    strides 1 and 2) and as every second element of a reversed buffer; the file holds the three logical
    traversals one after the other and every batch reads back as produced. *)
Example C05_layout_example :
  let c := {| nd_shape := [2; 3]%nat; nd_strides := [3; 1]%Z; nd_offset := 0%Z; nd_buf := [1; 2; 3; 4; 5; 6]%Z |} in
  let f := {| nd_shape := [2; 3]%nat; nd_strides := [1; 2]%Z; nd_offset := 0%Z; nd_buf := [11; 14; 12; 15; 13; 16]%Z |} in
  let s := {| nd_shape := [2; 3]%nat; nd_strides := [-6; -2]%Z; nd_offset := 11%Z;
              nd_buf := [0; 26; 0; 25; 0; 24; 0; 23; 0; 22; 0; 21]%Z |} in
  append_all [c; f; s] = map Some [1; 2; 3; 4; 5; 6; 11; 12; 13; 14; 15; 16; 21; 22; 23; 24; 25; 26]%Z
  /\ read_back (append_all [c; f; s]) [2; 3]%nat 1 [1; 2]%nat = Some 16%Z
  /\ store_agree {| so_batches := [c; f; s]; so_file := Some [1; 2; 3; 4; 5; 6; 11; 12; 13; 14; 15; 16; 21; 22; 23; 24; 25; 26]%Z;
                    so_read := [[1; 2; 3; 4; 5; 6]; [11; 12; 13; 14; 15; 16]; [21; 22; 23; 24; 25; 26]]%Z |} = true
  /\ store_ok {| so_batches := [c; f; s]; so_file := None;
                 so_read := [[1; 2; 3; 4; 5; 6]; [11; 12; 13; 14; 15; 16]; [21; 22; 23; 24; 25; 26]]%Z |} = true
  (* the column-major bytes of the Fortran batch are NOT what must be stored *)
  /\ store_ok {| so_batches := [f]; so_file := None; so_read := [[11; 14; 12; 15; 13; 16]]%Z |} = false.
Proof. vm_compute. repeat split. Qed.

(** Non-vacuity of the end-to-end reuse theorems: on the MA2-like model, the pool holding the
    pool-free meanings of the simulator and the summary is consistent, the model is well formed, and
    generate succeeds with it (running only the discrepancy and the observed side). *)
Example C05_end_to_end_example :
  match den_name c5_src [] "y"%string, den_name c5_src [] "s"%string with
  | Some vy, Some vs =>
      let P := [("y"%string, vy); ("s"%string, vs)] in
      wfsrc_b c5_src = true /\ pool_consistent_b c5_src P = true
      /\ match generate c5_src ["d"%string] P, generate c5_src ["d"%string] [] with
         | Ok (out, log), Ok (out0, log0) => out = out0 /\ log = ["_s_observed"; "_d_observed"; "d"]%string
                                             /\ List.length log0 = 6%nat
         | _, _ => False
         end
  | _, _ => False
  end.
Proof. vm_compute. repeat split. Qed.

(** Non-vacuity: the MA2-like store sets ("the simulator and/or what is computed from it", with the
    priors before them in the order) are prefix closed; storing only the first of two independent
    stochastic simulators is not (the boundary case noted in DESIGN.md). *)
Example C05_example :
  let order := ["t1"; "t2"; "sim"; "s1"; "d"]%string in
  let stoch := fun n => mem n ["t1"; "t2"; "sim"]%string in
  prefix_closed stoch (fun n => negb (mem n ["sim"; "s1"]%string)) order false = true
  /\ prefix_closed stoch (fun n => negb (mem n ["sim"; "s1"; "t1"; "t2"]%string)) order false = true
  /\ prefix_closed (fun n => mem n ["Z"; "A"]%string) (fun n => negb (mem n ["Z"]%string)) ["Z"; "A"]%string false = false
  /\ prefix_closed (fun n => mem n ["Z"; "A"]%string) (fun n => negb (mem n ["A"]%string)) ["Z"; "A"]%string false = true.
Proof. vm_compute. repeat split. Qed.

(** ---- On-disk pools (ArrayPool): the connection between this property's store (Store/Pool.v) and
    C06's on-disk store (Store/Npy.v).  Proofs/C05_OnDisk.v; C06's theorems are used as stated.
    [pop] = the pool's operations on one store (add_batch / get_batch / flush / close+open / pickle),
    [pool_run] = their run over the model of the NpyStore object and its file ([k in store] decided by
    the object's n_batches), [compile] = the same operations as a history of Store/Npy.v,
    [store_of_batches enc l] = the store of Pool.v that holds (the encoding of) batch i of [l] at
    index i, [disk_get] = what the PoolLoader reads from the file, [added 0 ps] = for 0, 1, 2, ...
    the batch of the first add_batch at that index. ---- *)
From Elfi Require Import Store.Npy Proofs.C06_Npy Proofs.C05_OnDisk.

(** (1) reading batch i of the abstraction is reading the i-th batch of C06's list of batches *)
Theorem C05_on_disk_read_is_list_read :
  forall enc l i, store_get (store_of_batches enc l) i = option_map enc (nth_error l i).
Proof. exact store_reads. Qed.
Print Assumptions C05_on_disk_read_is_list_read.

(** (2) an append on disk is add_to_store at the next index; add_to_store at a held index is the identity *)
Theorem C05_on_disk_append_is_add_to_store :
  forall enc l b, store_of_batches enc (l ++ [b]) = add_to_store (store_of_batches enc l) (List.length l) (enc b).
Proof. exact store_append. Qed.
Print Assumptions C05_on_disk_append_is_add_to_store.

Theorem C05_on_disk_held_add_is_identity :
  forall enc l i v, i < List.length l -> add_to_store (store_of_batches enc l) i v = store_of_batches enc l.
Proof. exact store_held. Qed.
Print Assumptions C05_on_disk_held_add_is_identity.

(** the history of store operations a pool produces never overwrites, deletes or clears: every
    [store[i] = b] it issues has [len(store) <= i] (for every sequence of pool operations) ... *)
Theorem C05_pool_never_overwrites_on_disk :
  forall ps L, sets_ok le L (compile L ps).
Proof. exact compile_never_overwrites. Qed.
Print Assumptions C05_pool_never_overwrites_on_disk.

(** ... and [i = len(store)], an append, when the batch indices arrive without gaps *)
Theorem C05_pool_writes_are_appends :
  forall ps L, contig (List.length L) ps -> sets_ok eq L (compile L ps).
Proof. exact compile_exact_appends. Qed.
Print Assumptions C05_pool_writes_are_appends.

(** the callbacks of a first run over batches n, n+1, ... are exactly one append per batch; those of
    a later run over held batches only ask [i in store] *)
Theorem C05_first_run_callbacks_are_appends :
  forall bl L, compile L (callbacks (List.length L) bl)
    = List.concat (map (fun kb : nat * batch => [Query; Set_ (fst kb) true (snd kb)])
                  (combine (seq (List.length L) (List.length bl)) bl)).
Proof. exact callbacks_compile. Qed.
Print Assumptions C05_first_run_callbacks_are_appends.

Theorem C05_later_run_callbacks_touch_nothing :
  forall bl L n, n + List.length bl <= List.length L -> compile L (callbacks n bl) = map (fun _ => Query) bl.
Proof. exact callbacks_held. Qed.
Print Assumptions C05_later_run_callbacks_touch_nothing.

(** the pool over the store object is a history of Store/Npy.v (by C06_refinement, which makes the
    object's answer to [i in store] the answer of the list of batches) *)
Theorem C05_pool_run_is_store_history :
  forall bs o ps, 0 < bs -> wfpool bs ps ->
    pool_run bs o 1 fresh_mem empty_file ps = start current bs o (compile [] ps).
Proof. exact pool_run_start. Qed.
Print Assumptions C05_pool_run_is_store_history.

(** (3) an on-disk ArrayPool store behaves as the in-memory store of Pool.v: after any history of pool
    operations on a new store (adds without index gaps, gets, flush, close+open, pickle, any order,
    any buffering) the store reports the list [Bs] whose abstraction is the store Pool.v computes, and
    for every k the loader reads from the file the batch of the first add_batch for k, whose encoding
    is what Pool.v's get_batch returns for k. *)
Theorem C05_on_disk_store_is_pool_store :
  forall enc bs o ps, 0 < bs -> wfpool bs ps -> contig 0 ps ->
  forall m f i, pool_run bs o 1 fresh_mem empty_file ps = (m, f, i) ->
  let Bs := fold_left disk_step ps [] in
  view bs m f = (List.length Bs, Some Bs) /\
  store_of_batches enc Bs = fold_left (pool_step enc) ps (Some []) /\
  forall k, disk_get bs m f k = nth_error (added 0 ps) k /\
            option_map enc (disk_get bs m f k) = store_get (fold_left (pool_step enc) ps None) k.
Proof. exact on_disk_store_is_pool_store. Qed.
Print Assumptions C05_on_disk_store_is_pool_store.

(** get_batch of a held batch does not raise (C06_queries_preserve) *)
Theorem C05_on_disk_get_no_error :
  forall bs o ps k, 0 < bs -> wfpool bs ps ->
  forall m f i, pool_run bs o 1 fresh_mem empty_file ps = (m, f, i) -> k < m_nb m ->
  let h := hstep current bs o i m f (Read k) in
  r_err h = false /\ view bs (r_mem h) (r_file h) = view bs m f.
Proof. exact on_disk_get_no_error. Qed.
Print Assumptions C05_on_disk_get_no_error.

(** after ArrayPool.flush / close+open / pickle the file loads (numpy.load) to the added batches
    (C06_flush_loads); close+open and pickle+unpickle succeed and the new object reads the same
    batches (C06_reopen_restores) *)
Theorem C05_on_disk_flush_loads :
  forall bs o ps p, 0 < bs -> wfpool bs ps -> p = PFlush \/ p = PReopen \/ p = PPickle ->
  forall m f i, pool_run bs o 1 fresh_mem empty_file (ps ++ [p]) = (m, f, i) ->
  0 < List.length (added 0 ps) ->
  f_buf f = [] /\ loads (f_disk f) = Some (flat (added 0 ps)).
Proof. exact on_disk_flush_loads. Qed.
Print Assumptions C05_on_disk_flush_loads.

Theorem C05_on_disk_reopen_restores :
  forall bs o ps op, 0 < bs -> wfpool bs ps -> op = Reopen \/ op = Pickle ->
  forall m f i, pool_run bs o 1 fresh_mem empty_file ps = (m, f, i) -> 0 < List.length (added 0 ps) ->
  let h := hstep current bs o i m f op in
  r_err h = false /\ forall k, disk_get bs (r_mem h) (r_file h) k = disk_get bs m f k.
Proof. exact on_disk_reopen_restores. Qed.
Print Assumptions C05_on_disk_reopen_restores.

(** a kill after a completed flush of a store that held a batch, at any low-level operation of any
    later store operation: the file loads to a prefix of the added batches that contains everything
    held at the flush (C06_crash_safe + the pool never overwrites) *)
Theorem C05_on_disk_crash_prefix :
  forall bs o ps pre fl mid op tail j, 0 < bs -> wfpool bs ps ->
  compile [] ps = pre ++ fl :: mid ++ op :: tail -> is_flush fl = true ->
  0 < List.length (spec (pre ++ [fl])) ->
  exists n, List.length (spec (pre ++ [fl])) <= n /\
    loads (crash_disk current bs o (pre ++ fl :: mid) op j) = Some (flat (firstn n (added 0 ps))).
Proof. exact on_disk_crash_prefix. Qed.
Print Assumptions C05_on_disk_crash_prefix.

(** the abstraction forgets nothing when the encoding of batches as values is injective *)
Theorem C05_store_abstraction_injective :
  forall enc, (forall a b, enc a = enc b -> a = b) ->
  forall l1 l2, store_of_batches enc l1 = store_of_batches enc l2 -> l1 = l2.
Proof. exact store_of_batches_inj. Qed.
Print Assumptions C05_store_abstraction_injective.

(** Non-vacuity: a store with 2 rows per batch; batches 0 and 1 are added, the file flushed, a second
    run offers other values for 0 and 1 (ignored on both sides), the store is closed and reopened,
    batch 2 is added, the pool pickled.  The loader reads from the file what Pool.v's store holds. *)
Definition c5_enc (b : batch) : value :=
  VApp OpTuple (map (fun r => VApp OpTuple (map (fun c => VConst (Z.of_N c)) r) []) b) [].
Definition c5_b0 : batch := [[1]; [2]]%N.
Definition c5_b1 : batch := [[3]; [4]]%N.
Definition c5_bx : batch := [[9]; [9]]%N.
Definition c5_pops : list pop :=
  [PAdd 0 c5_b0; PGet 0; PAdd 1 c5_b1; PFlush; PAdd 0 c5_bx; PGet 1; PReopen; PAdd 1 c5_bx; PAdd 2 c5_bx;
   PPickle; PGet 2; PGet 3].

Example C05_on_disk_example :
  wfpool 2 c5_pops /\ contig 0 c5_pops
  /\ (let '(m, f, _) := pool_run 2 (fun _ => 0) 1 fresh_mem empty_file c5_pops in
      (map (disk_get 2 m f) [0; 1; 2; 3], loads (f_disk f)))
     = ([Some c5_b0; Some c5_b1; Some c5_bx; None], Some [[1]; [2]; [3]; [4]; [9]; [9]]%N)
  /\ map (store_get (fold_left (pool_step c5_enc) c5_pops None)) [0; 1; 2; 3]
     = [Some (c5_enc c5_b0); Some (c5_enc c5_b1); Some (c5_enc c5_bx); None]
  /\ compile [] c5_pops
     = [Query; Set_ 0 true c5_b0; Query; Read 0; Query; Set_ 1 true c5_b1; Flush; Query; Query; Read 1; Reopen;
        Query; Query; Set_ 2 true c5_bx; Pickle; Query; Read 2; Query]
  (* where the two stores differ: an index gap.  The dict of Pool.v takes batch 1 first, the on-disk
     store raises and holds nothing ([contig] excludes it; a BatchHandler hands out 0, 1, 2, ...) *)
  /\ contig 0 [PAdd 1 c5_b0] = (1 <= 0 /\ True)
  /\ store_get (pool_step c5_enc None (PAdd 1 c5_b0)) 1 = Some (c5_enc c5_b0)
  /\ (let '(m, f, _) := pool_run 2 (fun _ => 0) 1 fresh_mem empty_file [PAdd 1 c5_b0] in disk_get 2 m f 1) = None.
Proof.
  split; [repeat constructor|]. split; [simpl; repeat split; repeat constructor|].
  repeat split; vm_compute; reflexivity.
Qed.

(** ---- the on-disk correspondence lifted to a whole pool and a whole run (Proofs/C05_OnDiskPool.v) ---- *)
From Elfi Require Import Proofs.C05_OnDiskPool.

(** a disk pool = store name |-> state of its on-disk store, all with batch size [bs]; [abs_pool] =
    per store the reported batches through [store_of_batches (enc n)] (no batch: the store object
    that does not exist yet).  What the PoolLoader reads from the disk pool for batch i is
    [Pool.get_batch] of the abstraction, for every i; the reads leave the abstraction unchanged. *)
Theorem C05_on_disk_pool_get_batch :
  forall bs, 0 < bs -> forall (orc : name -> oracle) (enc : name -> batch -> value) dp i,
  dp_good bs orc dp ->
  disk_loaded bs orc enc dp i = Pool.get_batch (abs_pool bs enc dp) i
  /\ abs_pool bs enc (fst (disk_get_batch bs orc dp i)) = abs_pool bs enc dp
  /\ dp_good bs orc (fst (disk_get_batch bs orc dp i)).
Proof. exact disk_get_batch_abs. Qed.
Print Assumptions C05_on_disk_pool_get_batch.

(** add_batch commutes with the abstraction when every batch has [bs] rows ([add_sized]) and the
    index is contiguous for every store that receives a batch ([add_contig]: i <= batches held) *)
Theorem C05_on_disk_pool_add_batch :
  forall bs, 0 < bs -> forall (orc : name -> oracle) (enc : name -> batch -> value) dp dout i,
  dp_good bs orc dp -> add_sized bs dp dout -> add_contig bs dp dout i ->
  abs_pool bs enc (disk_add_batch bs orc dp dout i) = Pool.add_batch (abs_pool bs enc dp) (enc_out enc dout) i
  /\ dp_good bs orc (disk_add_batch bs orc dp dout i).
Proof. exact disk_add_batch_abs. Qed.
Print Assumptions C05_on_disk_pool_add_batch.

(** the commuting diagram along a run, any batch indices, contiguity and representability assumed at
    every step ([ok_at]) *)
Theorem C05_on_disk_pool_run_general :
  forall bs, 0 < bs -> forall orc enc dec idxs ds,
  dp_good bs orc (dr_pool ds) -> run_all bs orc enc dec (ok_at bs enc dec) ds idxs ->
  map_res (abs_run bs enc) (run_batches_disk bs orc enc dec ds idxs) = Pool.run_batches (abs_state bs enc ds) idxs.
Proof. exact run_batches_disk_abs. Qed.
Print Assumptions C05_on_disk_pool_run_general.

(** BatchHandler indices k, k+1, ...: contiguity holds at every step by itself ([part_inv ds k]: the
    stores of the net's nodes hold 0 .. k-1; trivial for k = 0) *)
Theorem C05_on_disk_pool_contiguity :
  forall bs, 0 < bs -> forall orc enc dec n k ds,
  dp_good bs orc (dr_pool ds) -> CacheOK (dr_cache ds) -> part_inv bs ds k ->
  run_all bs orc enc dec (repr_at bs enc dec) ds (seq k n) ->
  run_all bs orc enc dec (ok_at bs enc dec) ds (seq k n)
  /\ forall ds' obs, run_batches_disk bs orc enc dec ds (seq k n) = Ok (ds', obs) ->
       dp_good bs orc (dr_pool ds') /\ CacheOK (dr_cache ds').
Proof. exact contig_along_run. Qed.
Print Assumptions C05_on_disk_pool_contiguity.

(** a run over batches 0 .. n-1 from the empty pool, as [Pool.agree] runs the model: same success or
    error, same outputs and call logs, the final disk pool abstracts to the final pool; the only
    side condition is that the stored values are batches of [bs] rows ([repr_at]) *)
Theorem C05_on_disk_pool_run :
  forall bs, 0 < bs -> forall orc enc dec keys g n,
  let ds0 := {| dr_net := g; dr_pool := empty_dpool keys; dr_cache := empty_cache |} in
  run_all bs orc enc dec (repr_at bs enc dec) ds0 (seqn n) ->
  map_res (abs_run bs enc) (run_batches_disk bs orc enc dec ds0 (seqn n))
  = Pool.run_batches {| rs_net := g;
                        rs_pool := {| stores := map (fun k => (k, None)) keys; pl_batch_size := None; pl_seed := None |};
                        rs_cache := empty_cache |} (seqn n).
Proof. exact run_batches_disk_from_empty. Qed.
Print Assumptions C05_on_disk_pool_run.

(** two runs from 0 with ArrayPool.flush / close+open / pickle of all stores in between *)
Theorem C05_on_disk_pool_two_runs :
  forall bs, 0 < bs -> forall orc enc dec n1 n2 ds ds1 obs1 ps g2 c2,
  dp_good bs orc (dr_pool ds) -> CacheOK (dr_cache ds) -> neutral ps ->
  run_all bs orc enc dec (repr_at bs enc dec) ds (seq 0 n1) ->
  run_batches_disk bs orc enc dec ds (seq 0 n1) = Ok (ds1, obs1) ->
  (c2 = dr_cache ds1 \/ CacheOK c2) ->
  let ds2 := {| dr_net := g2; dr_pool := dp_all bs orc (dr_pool ds1) ps; dr_cache := c2 |} in
  run_all bs orc enc dec (repr_at bs enc dec) ds2 (seq 0 n2) ->
  Pool.run_batches (abs_state bs enc ds) (seq 0 n1) = Ok (abs_state bs enc ds1, obs1)
  /\ abs_pool bs enc (dp_all bs orc (dr_pool ds1) ps) = abs_pool bs enc (dr_pool ds1)
  /\ map_res (abs_run bs enc) (run_batches_disk bs orc enc dec ds2 (seq 0 n2))
     = Pool.run_batches {| rs_net := g2; rs_pool := abs_pool bs enc (dr_pool ds1); rs_cache := c2 |} (seq 0 n2).
Proof. exact run_batches_disk_two_runs. Qed.
Print Assumptions C05_on_disk_pool_two_runs.

(** Non-vacuity: two stores of 2 rows per batch; batch 0 goes to both, all stores are flushed and
    reopened, batch 1 goes to "a" only.  The disk pool abstracts to the pool Pool.v computes and the
    loader reads the same for batches 0, 1, 2.  Then the difference: on an index gap (batch 1 into
    the empty pool) Pool.v's dict takes the batch, the on-disk store raises and holds nothing. *)
Example C05_on_disk_pool_example :
  let o := fun (_ : name) (_ : nat) => 0 in
  let enc := fun _ : name => c5_enc in
  let dp0 := empty_dpool ["a"; "b"]%string in
  let out0 := [("a", c5_b0); ("b", c5_b1)]%string in
  let out1 := [("a"%string, c5_bx)] in
  let dp3 := disk_add_batch 2 o (dp_all 2 o (disk_add_batch 2 o dp0 out0 0) [PFlush; PReopen]) out1 1 in
  let p3 := Pool.add_batch (Pool.add_batch (abs_pool 2 enc dp0) (enc_out enc out0) 0) (enc_out enc out1) 1 in
  abs_pool 2 enc dp3 = p3
  /\ stores p3 = [("a", Some [(0, c5_enc c5_b0); (1, c5_enc c5_bx)]); ("b", Some [(0, c5_enc c5_b1)])]%string
  /\ map (disk_loaded 2 o enc dp3) [0; 1; 2] = map (Pool.get_batch p3) [0; 1; 2]
  /\ stores (Pool.add_batch (abs_pool 2 enc dp0) (enc_out enc out0) 1)
     = [("a", Some [(1, c5_enc c5_b0)]); ("b", Some [(1, c5_enc c5_b1)])]%string
  /\ stores (abs_pool 2 enc (disk_add_batch 2 o dp0 out0 1)) = [("a", None); ("b", None)]%string
  /\ ~ add_contig 2 dp0 out0 1.
Proof.
  cbv zeta. repeat split; try (vm_compute; reflexivity).
  intros H. specialize (H "a"%string ds_new c5_b0 (or_introl eq_refl) eq_refl). vm_compute in H.
  exact (Nat.nle_succ_0 _ H).
Qed.

(** ---- durability of a whole on-disk pool (Proofs/C05_OnDiskDurable.v) ---- *)
From Elfi Require Import Proofs.C05_OnDiskDurable.

(** The per-store statements C05_on_disk_flush_loads / _reopen_restores / _crash_prefix speak of a
    store reached from a new store by a pool history; [dp_reach]: every store of the disk pool is
    such a store ([ds_hist n d ps]: store [d] of node [n] = the new store after pool operations [ps]).
    The empty pool is, and runs keep it (second component of the statements below). *)
Theorem C05_on_disk_pool_reach_empty :
  forall bs orc keys, dp_reach bs orc (empty_dpool keys).
Proof. exact empty_dpool_reach. Qed.
Print Assumptions C05_on_disk_pool_reach_empty.

(** what [Pool.get_batch] of the abstraction answers: per store the i-th batch the store reports *)
Theorem C05_on_disk_pool_get_batch_batches :
  forall bs (enc : name -> batch -> value) dp i,
  Pool.get_batch (abs_pool bs enc dp) i
  = map (fun nd : name * dstore => (fst nd, option_map (enc (fst nd)) (nth_error (ds_batches bs (snd nd)) i)))
        (dp_stores dp).
Proof. exact dpool_get_batch_batches. Qed.
Print Assumptions C05_on_disk_pool_get_batch_batches.

(** ArrayPool.flush / save of all stores: the abstraction is unchanged; every store [d'] of the
    flushed pool comes from a store [d] of [dp] with the same batches, which are the batches
    [abs_pool dp] holds for that node; when the store holds a batch (side condition, per store: a
    store that never received a batch has no initialised file), nothing is pending on its file and
    numpy loads the file to exactly these batches.  So a pool saved after a run and read by another
    process yields [Pool.get_batch (abs_pool dp) i] for every i (previous theorem). *)
Theorem C05_on_disk_pool_flush_loads :
  forall bs, 0 < bs -> forall (orc : name -> oracle) (enc : name -> batch -> value) dp,
  dp_reach bs orc dp ->
  let dp' := dp_all bs orc dp [PFlush] in
  dp_reach bs orc dp' /\ abs_pool bs enc dp' = abs_pool bs enc dp /\
  forall n d', In (n, d') (dp_stores dp') ->
    exists d, In (n, d) (dp_stores dp) /\ d' = ds_run bs orc n d [PFlush]
      /\ ds_batches bs d' = ds_batches bs d
      /\ In (n, abs_store enc n (ds_batches bs d)) (stores (abs_pool bs enc dp))
      /\ (forall i, store_get (abs_store enc n (ds_batches bs d)) i
                    = option_map (enc n) (nth_error (ds_batches bs d) i))
      /\ (0 < List.length (ds_batches bs d) ->
          f_buf (ds_file d') = [] /\ loads (f_disk (ds_file d')) = Some (flat (ds_batches bs d))).
Proof. exact dpool_flush_loads. Qed.
Print Assumptions C05_on_disk_pool_flush_loads.

(** save + ArrayPool.open: flush then close/open of all stores leaves the abstraction unchanged, the
    reopened pool answers every [disk_get_batch] as before (and as [Pool.get_batch] of the
    abstraction), and the open of every store that holds a batch does not raise and reads the same
    batches from the new object *)
Theorem C05_on_disk_pool_reopen_restores :
  forall bs, 0 < bs -> forall (orc : name -> oracle) (enc : name -> batch -> value) dp,
  dp_reach bs orc dp ->
  let dp1 := dp_all bs orc dp [PFlush] in
  let dp2 := dp_all bs orc dp [PFlush; PReopen] in
  dp2 = dp_all bs orc dp1 [PReopen]
  /\ dp_reach bs orc dp2
  /\ abs_pool bs enc dp2 = abs_pool bs enc dp
  /\ (forall i, snd (disk_get_batch bs orc dp2 i) = snd (disk_get_batch bs orc dp i))
  /\ (forall i, disk_loaded bs orc enc dp2 i = Pool.get_batch (abs_pool bs enc dp) i)
  /\ (forall n d1, In (n, d1) (dp_stores dp1) -> 0 < List.length (ds_batches bs d1) ->
        let h := hstep current bs (orc n) (ds_tick d1) (ds_mem d1) (ds_file d1) Reopen in
        r_err h = false /\ forall k, disk_get bs (r_mem h) (r_file h) k = ds_get bs d1 k).
Proof. exact dpool_reopen_restores. Qed.
Print Assumptions C05_on_disk_pool_reopen_restores.

(** Pool-level crash safety (the restart scenario of test_pool_restarts).  Run 1, ArrayPool.flush of
    all stores, run 2 (any net, any cache; [idxs2] = the batches run 2 completed).  For every store
    [d3] of the final pool: the final abstraction holds [abs_store n (ds_batches d3)] for its node, and
    there is the store [d1] it was at the end of run 1 with [kill_safe n d1 d3]:
      there are pool histories [ps1] (new store -> [d1]) and [qs] (after the flush) of THIS store,
      [ps1 ++ PFlush :: qs] leading to [d3], such that, when the store held a batch at the flush, for
      every kill point of the store operations [compile (ds_batches d1) qs = mid ++ op :: tail] that
      follow the flush and every number [j] of low-level operations of [op] done before the kill, the
      file left loads to the first [m] batches of [d3], [held at the flush <= m <= held at the end],
      and the abstraction of these [m] batches answers batch i < m as the final pool does and holds
      nothing else (never a torn or foreign batch).
    Side conditions: [dp_reach] of the starting pool; representability at every step ([repr_at]);
    per store, a batch held at the flush.  No contiguity condition. *)
Theorem C05_on_disk_pool_crash_prefix :
  forall bs, 0 < bs -> forall orc enc dec idxs1 idxs2 ds ds1 obs1 g2 c2 ds3 obs2,
  dp_reach bs orc (dr_pool ds) ->
  run_all bs orc enc dec (repr_at bs enc dec) ds idxs1 ->
  run_batches_disk bs orc enc dec ds idxs1 = Ok (ds1, obs1) ->
  let ds2 := {| dr_net := g2; dr_pool := dp_all bs orc (dr_pool ds1) [PFlush]; dr_cache := c2 |} in
  run_all bs orc enc dec (repr_at bs enc dec) ds2 idxs2 ->
  run_batches_disk bs orc enc dec ds2 idxs2 = Ok (ds3, obs2) ->
  dp_reach bs orc (dr_pool ds3) /\
  forall n d3, In (n, d3) (dp_stores (dr_pool ds3)) ->
    In (n, abs_store enc n (ds_batches bs d3)) (stores (abs_pool bs enc (dr_pool ds3))) /\
    exists d1, In (n, d1) (dp_stores (dr_pool ds1)) /\
      exists ps1 qs,
        ds_hist bs orc n d1 ps1 /\ ds_hist bs orc n d3 (ps1 ++ PFlush :: qs) /\
        (0 < List.length (ds_batches bs d1) ->
         forall mid op tail j, compile (ds_batches bs d1) qs = mid ++ op :: tail ->
         exists m, List.length (ds_batches bs d1) <= m /\ m <= List.length (ds_batches bs d3) /\
           loads (crash_disk current bs (orc n) (compile [] ps1 ++ Flush :: mid) op j)
           = Some (flat (firstn m (ds_batches bs d3))) /\
           forall i, store_get (abs_store enc n (firstn m (ds_batches bs d3))) i
                     = if i <? m then store_get (abs_store enc n (ds_batches bs d3)) i else None).
Proof. exact dpool_crash_prefix. Qed.
Print Assumptions C05_on_disk_pool_crash_prefix.

(** ... and when run 1 is over batches 0 .. k-1, every store of a node of the net (or of the
    handler's output set) holds at least k batches at the flush: [k <= m] above *)
Theorem C05_on_disk_pool_crash_prefix_batches :
  forall bs, 0 < bs -> forall orc enc dec k ds ds1 obs1,
  dp_reach bs orc (dr_pool ds) -> CacheOK (dr_cache ds) ->
  run_all bs orc enc dec (repr_at bs enc dec) ds (seq 0 k) ->
  run_batches_disk bs orc enc dec ds (seq 0 k) = Ok (ds1, obs1) ->
  forall n d1, In (n, d1) (dp_stores (dr_pool ds1)) ->
    has n (c_nodes (dr_net ds1)) = true \/ In n (c_outputs (dr_net ds1)) ->
    k <= List.length (ds_batches bs d1).
Proof. exact dpool_crash_prefix_batches. Qed.
Print Assumptions C05_on_disk_pool_crash_prefix_batches.

(** the restart scenario in one statement: run 1 over batches 0 .. k-1, flush of all stores, run 2 of
    the same handler over batches k .. k+n2-1; both runs are the runs of Pool.v on the abstraction,
    and for every store of a node of the net a kill at any point of run 2 leaves a file that loads
    to batches 0 .. m-1 of what the run produced, k <= m ([kill_safe]: the last component of
    C05_on_disk_pool_crash_prefix) *)
Theorem C05_on_disk_pool_crash_restart :
  forall bs, 0 < bs -> forall orc enc dec k n2 ds ds1 obs1 ds3 obs2,
  dp_reach bs orc (dr_pool ds) -> CacheOK (dr_cache ds) ->
  run_all bs orc enc dec (repr_at bs enc dec) ds (seq 0 k) ->
  run_batches_disk bs orc enc dec ds (seq 0 k) = Ok (ds1, obs1) ->
  let ds2 := {| dr_net := dr_net ds1; dr_pool := dp_all bs orc (dr_pool ds1) [PFlush]; dr_cache := dr_cache ds1 |} in
  run_all bs orc enc dec (repr_at bs enc dec) ds2 (seq k n2) ->
  run_batches_disk bs orc enc dec ds2 (seq k n2) = Ok (ds3, obs2) ->
  Pool.run_batches (abs_state bs enc ds) (seq 0 k) = Ok (abs_state bs enc ds1, obs1)
  /\ Pool.run_batches (abs_state bs enc ds1) (seq k n2) = Ok (abs_state bs enc ds3, obs2)
  /\ forall n d3, In (n, d3) (dp_stores (dr_pool ds3)) ->
       has n (c_nodes (dr_net ds1)) = true \/ In n (c_outputs (dr_net ds1)) ->
       In (n, abs_store enc n (ds_batches bs d3)) (stores (abs_pool bs enc (dr_pool ds3))) /\
       exists d1, In (n, d1) (dp_stores (dr_pool ds1)) /\ k <= List.length (ds_batches bs d1) /\
                  kill_safe bs orc enc n d1 d3.
Proof. exact dpool_crash_restart. Qed.
Print Assumptions C05_on_disk_pool_crash_restart.

(** Non-vacuity: two stores of 2 rows per batch, batch 0 to both.  Before the flush nothing is on
    disk (the files do not load); after [dp_all _ [PFlush]] every file loads to its store's batch.
    Store "a" then receives batch 1 and is flushed again: a kill inside that second flush leaves
    batch 0 alone or batches 0 and 1 (never part of batch 1), under an OS that writes back at once
    and under one that never does; a kill inside the [store[1] = b] itself leaves batch 0. *)
Example C05_on_disk_pool_durable_example :
  let o := fun (_ : name) (_ : nat) => 0 in
  let dp1 := disk_add_batch 2 o (empty_dpool ["a"; "b"]%string) [("a", c5_b0); ("b", c5_b1)]%string 0 in
  let files := fun dp => map (fun nd : name * dstore => loads (f_disk (ds_file (snd nd)))) (dp_stores dp) in
  let pre := compile [] [PGet 0; PAdd 0 c5_b0] ++ [Flush] in
  dp_reach 2 o dp1
  /\ files dp1 = [None; None]
  /\ files (dp_all 2 o dp1 [PFlush]) = [Some (flat [c5_b0]); Some (flat [c5_b1])]
  /\ compile [c5_b0] [PGet 1; PAdd 1 c5_bx; PFlush] = [Query; Query; Set_ 1 true c5_bx; Flush]
  /\ map (fun j => loads (crash_disk current 2 (fun _ => 100) (pre ++ [Query; Query]) (Set_ 1 true c5_bx) j)) (seq 0 6)
     = repeat (Some (flat [c5_b0])) 6
  /\ map (fun j => loads (crash_disk current 2 (fun _ => 100) (pre ++ [Query; Query; Set_ 1 true c5_bx]) Flush j)) (seq 0 6)
     = repeat (Some (flat [c5_b0])) 2 ++ repeat (Some (flat [c5_b0; c5_bx])) 4
  /\ map (fun j => loads (crash_disk current 2 (fun _ => 0) (pre ++ [Query; Query; Set_ 1 true c5_bx]) Flush j)) (seq 0 6)
     = repeat (Some (flat [c5_b0])) 3 ++ repeat (Some (flat [c5_b0; c5_bx])) 3.
Proof.
  cbv zeta. split.
  - apply (dp_ext_reach 2 (fun _ _ => 0) (empty_dpool ["a"; "b"]%string)); [|apply empty_dpool_reach].
    apply disk_add_with_ext. intros n d b _ H. cbn in H.
    destruct (String.eqb n "a"); [inversion H; reflexivity|].
    destruct (String.eqb n "b"); [inversion H; reflexivity | discriminate].
  - repeat split; vm_compute; reflexivity.
Qed.

(** ---- non-vacuity of the hypotheses (audit) ---- *)
Definition c5_g : cnet :=
  match Net.compile c5_src ["d"%string] with
  | Ok g => g
  | Err _ => {| c_nodes := []; c_edges := []; c_outputs := []; c_observed := [] |}
  end.
Definition c5_vt : value := VApp (OpUser "t"%string) [] [("batch_size"%string, VBatch); ("random_state"%string, VRng)].
Definition c5_vy : value := VApp (OpUser "y"%string) [c5_vt] [("batch_size"%string, VBatch); ("random_state"%string, VRng)].
Definition c5_vs : value := VApp (OpUser "s"%string) [c5_vy] [].
(* batch [[1];[2]] of node n stands for the (symbolic) value the executor computes for n; other batches by c5_enc *)
Definition c5_denc (n : name) (b : batch) : value :=
  if list_eq_dec (list_eq_dec N.eq_dec) b c5_b0 then (if String.eqb n "y" then c5_vy else c5_vs) else c5_enc b.
Definition c5_ddec (_ : name) (_ : value) : batch := c5_b0.
Definition c5_orc (_ : name) (_ : nat) : nat := 0.
Definition c5_ds0 : drun_state :=
  {| dr_net := c5_g; dr_pool := empty_dpool ["y"; "s"]%string; dr_cache := empty_cache |}.

Ltac c5_repr :=
  let n := fresh "n" in let d := fresh "d" in let v := fresh "v" in
  let Hin := fresh "Hin" in let Hl := fresh "Hl" in
  intros n d v Hin Hl; cbn in Hin; destruct Hin as [Hin|[Hin|[]]]; inversion Hin; subst;
  vm_compute in Hl; inversion Hl; subst; split; vm_compute; reflexivity.

(** hypotheses of C05_on_disk_pool_run (and of _contiguity with k = 0, _crash_prefix_batches): the
    MA2-like net over a disk pool with the stores of the simulator and the summary, 2 rows per batch,
    batches 0 and 1; both steps succeed, so [run_all] is not the trivial [True] of a failed step *)
Example C05_on_disk_pool_run_nonvacuous :
  0 < 2
  /\ dp_good 2 c5_orc (dr_pool c5_ds0) /\ dp_reach 2 c5_orc (dr_pool c5_ds0) /\ CacheOK (dr_cache c5_ds0)
  /\ part_inv 2 c5_ds0 0
  /\ run_all 2 c5_orc c5_denc c5_ddec (repr_at 2 c5_denc c5_ddec) c5_ds0 (seqn 2)
  /\ run_all 2 c5_orc c5_denc c5_ddec (repr_at 2 c5_denc c5_ddec) c5_ds0 (seq 0 2)
  /\ (exists ds1 obs1, run_batches_disk 2 c5_orc c5_denc c5_ddec c5_ds0 (seq 0 2) = Ok (ds1, obs1)
        /\ map (map snd) (map fst obs1) = [[VApp (OpUser "d"%string) [c5_vs] [("observed"%string, VApp OpTuple [VApp (OpUser "s"%string) [VConst 7] []] [])]; c5_vs; c5_vy];
                                           [VApp (OpUser "d"%string) [c5_vs] [("observed"%string, VApp OpTuple [VApp (OpUser "s"%string) [VConst 7] []] [])]; c5_vs; c5_vy]]).
Proof.
  assert (R : run_all 2 c5_orc c5_denc c5_ddec (repr_at 2 c5_denc c5_ddec) c5_ds0 [0; 1]).
  { cbn [run_all].
    destruct (step_batch_disk 2 c5_orc c5_denc c5_ddec c5_ds0 0) as [[[ds1 out] log]|e] eqn:E; [|exact I].
    vm_compute in E. inversion E; subst; clear E. split; [unfold repr_at; c5_repr|].
    match goal with |- match ?s with _ => _ end => destruct s as [[[ds2 out2] log2]|e] eqn:E2; [|exact I] end.
    vm_compute in E2. inversion E2; subst; clear E2. split; [unfold repr_at; c5_repr | exact I]. }
  split; [repeat constructor|]. split; [apply empty_dpool_good|]. split; [apply empty_dpool_reach|].
  split; [apply CacheOK_empty|]. split; [intros n d _ _; apply Nat.le_0_l|].
  split; [exact R|]. split; [exact R|].
  eexists. eexists. split; [vm_compute; reflexivity|]. vm_compute. reflexivity.
Qed.

(** hypotheses of C05_on_disk_pool_crash_restart / _crash_prefix (run 1 over batch 0, flush of all
    stores, run 2 of the same handler over batch 1) and of C05_on_disk_pool_two_runs (run 1 over batch
    0, flush and close+open of all stores, run 2 from batch 0 again over batches 0 and 1: batch 0 is
    read from the files, only the discrepancy and the observed side run) *)
Example C05_on_disk_pool_restart_nonvacuous :
  exists ds1 obs1 ds3 obs2 ds3' obs2',
    run_all 2 c5_orc c5_denc c5_ddec (repr_at 2 c5_denc c5_ddec) c5_ds0 (seq 0 1)
    /\ run_batches_disk 2 c5_orc c5_denc c5_ddec c5_ds0 (seq 0 1) = Ok (ds1, obs1)
    /\ (let ds2 := {| dr_net := dr_net ds1; dr_pool := dp_all 2 c5_orc (dr_pool ds1) [PFlush]; dr_cache := dr_cache ds1 |} in
        run_all 2 c5_orc c5_denc c5_ddec (repr_at 2 c5_denc c5_ddec) ds2 (seq 1 1)
        /\ run_batches_disk 2 c5_orc c5_denc c5_ddec ds2 (seq 1 1) = Ok (ds3, obs2)
        /\ map snd obs2 = [["_s_observed"; "_d_observed"; "t"; "y"; "s"; "d"]%string])
    /\ neutral [PFlush; PReopen]
    /\ (let ds2 := {| dr_net := dr_net ds1; dr_pool := dp_all 2 c5_orc (dr_pool ds1) [PFlush; PReopen]; dr_cache := dr_cache ds1 |} in
        run_all 2 c5_orc c5_denc c5_ddec (repr_at 2 c5_denc c5_ddec) ds2 (seq 0 2)
        /\ run_batches_disk 2 c5_orc c5_denc c5_ddec ds2 (seq 0 2) = Ok (ds3', obs2')
        /\ map snd obs2' = [["_s_observed"; "_d_observed"; "d"]; ["_s_observed"; "_d_observed"; "t"; "y"; "s"; "d"]]%string).
Proof.
  do 6 eexists.
  split.
  { cbn [run_all seq].
    destruct (step_batch_disk 2 c5_orc c5_denc c5_ddec c5_ds0 0) as [[[ds1 out] log]|e] eqn:E; [|exact I].
    vm_compute in E. inversion E; subst; clear E. split; [unfold repr_at; c5_repr | exact I]. }
  split; [vm_compute; reflexivity|].
  split.
  { cbv zeta. split; [|split; [vm_compute; reflexivity | vm_compute; reflexivity]].
    cbn [run_all seq].
    match goal with |- match ?s with _ => _ end => destruct s as [[[ds2 out2] log2]|e] eqn:E2; [|exact I] end.
    vm_compute in E2. inversion E2; subst; clear E2. split; [unfold repr_at; c5_repr | exact I]. }
  split; [repeat constructor|].
  cbv zeta. split; [|split; [vm_compute; reflexivity | vm_compute; reflexivity]].
  cbn [run_all seq].
  match goal with |- match ?s with _ => _ end => destruct s as [[[ds2 out2] log2]|e] eqn:E2; [|exact I] end.
  vm_compute in E2. inversion E2; subst; clear E2. split; [unfold repr_at; c5_repr |].
  match goal with |- match ?s with _ => _ end => destruct s as [[[ds4 out4] log4]|e] eqn:E4; [|exact I] end.
  vm_compute in E4. inversion E4; subst; clear E4. split; [unfold repr_at; c5_repr | exact I].
Qed.

(** hypothesis of C05_reuse_changes_no_result: the loaded MA2-like net (runtime and observed data
    loaded, "y" requested), and the same net with the simulator's node replaced by the value the
    executor computes for it (which is its meaning, by C03's execute_sound) *)
Definition c5_gl : cnet := load [("y"%string, None)] c5_g.
Definition c5_gl' : cnet := add_node "y"%string {| c_out := Some c5_vy; c_op := None |} c5_gl.
Example C05_reuse_changes_no_result_nonvacuous :
  supplied c5_gl c5_gl'
  /\ lookup "y"%string (c_nodes c5_gl) = Some {| c_out := None; c_op := Some (OpUser "y"%string) |}
  /\ (forall v, Den c5_gl' "d"%string v <-> Den c5_gl "d"%string v).
Proof.
  assert (S : supplied c5_gl c5_gl').
  { split; [reflexivity|]. intros n. destruct (string_dec "y"%string n) as [<-|Hne].
    - right. exists {| c_out := None; c_op := Some (OpUser "y"%string) |}, c5_vy.
      split; [vm_compute; reflexivity|]. split; [apply lookup_add_node_same|].
      destruct (execute c5_gl empty_cache) as [[[out log] c']|e] eqn:E; [|vm_compute in E; discriminate].
      destruct (execute_sound _ _ _ _ _ CacheOK_empty E) as [Hd _]. apply Hd.
      vm_compute in E. inversion E; subst. cbn. auto 10.
    - left. unfold c5_gl'. now apply lookup_add_node_other. }
  split; [exact S|]. split; [vm_compute; reflexivity|].
  intros v. exact (C05_reuse_changes_no_result _ _ S "d"%string v).
Qed.

(** hypotheses of C05_held_store_never_runs: the pool holds the simulator's batch and lacks the
    summary's; the executor succeeds and runs the summary, not the simulator *)
Example C05_held_store_never_runs_nonvacuous :
  let pool := [("y"%string, Some c5_vy); ("s"%string, None)] in
  NoDup (map fst pool) /\ In ("y"%string, Some c5_vy) pool /\ has "y"%string (c_nodes c5_g) = true
  /\ CacheOK empty_cache
  /\ exists out cache',
       execute (load pool c5_g) empty_cache = Ok (out, ["_s_observed"; "_d_observed"; "s"; "d"]%string, cache').
Proof.
  cbv zeta. split; [repeat constructor; cbn; intuition discriminate|]. split; [left; reflexivity|].
  split; [vm_compute; reflexivity|]. split; [apply CacheOK_empty|].
  do 2 eexists. vm_compute. reflexivity.
Qed.

(** hypotheses of C05_tobytes_C_is_logical_order, C05_stored_batch_reads_back and C05_store_ok_sound
    on the batches of C05_layout_example (index [1; 2] of the Fortran-ordered batch, second in the file) *)
Definition c5_nd_c : ndarray :=
  {| nd_shape := [2; 3]%nat; nd_strides := [3; 1]%Z; nd_offset := 0%Z; nd_buf := [1; 2; 3; 4; 5; 6]%Z |}.
Definition c5_nd_f : ndarray :=
  {| nd_shape := [2; 3]%nat; nd_strides := [1; 2]%Z; nd_offset := 0%Z; nd_buf := [11; 14; 12; 15; 13; 16]%Z |}.
Definition c5_so : store_obs :=
  {| so_batches := [c5_nd_c; c5_nd_f]; so_file := None; so_read := [[1; 2; 3; 4; 5; 6]; [11; 12; 13; 14; 15; 16]]%Z |}.
Example C05_layout_nonvacuous :
  valid [1; 2] (nd_shape c5_nd_f)
  /\ (forall b, In b [c5_nd_c; c5_nd_f] -> nd_shape b = [2; 3])
  /\ nth_error [c5_nd_c; c5_nd_f] 1 = Some c5_nd_f
  /\ read_back (append_all [c5_nd_c; c5_nd_f]) [2; 3] 1 [1; 2] = Some 16%Z
  /\ elem c5_nd_f [1; 2] = Some 16%Z
  /\ store_ok c5_so = true
  /\ nth_error (so_batches c5_so) 1 = Some c5_nd_f
  /\ nth_error (so_read c5_so) 1 = Some [11; 12; 13; 14; 15; 16]%Z.
Proof.
  split; [repeat constructor|].
  split; [intros b [<-|[<-|[]]]; reflexivity|].
  repeat split; vm_compute; reflexivity.
Qed.

(** hypotheses of the single-store on-disk theorems (C05_on_disk_flush_loads, _reopen_restores,
    _get_no_error, _crash_prefix, _held_add_is_identity, C05_later_run_callbacks_touch_nothing,
    C05_pool_writes_are_appends with a non-empty store) on the history of C05_on_disk_example *)
Definition c5_pops1 : list pop := [PAdd 0 c5_b0; PGet 0; PAdd 1 c5_b1].
Example C05_on_disk_store_nonvacuous :
  wfpool 2 c5_pops1 /\ 0 < List.length (added 0 c5_pops1)
  /\ (let '(m, f, _) := pool_run 2 (fun _ => 0) 1 fresh_mem empty_file c5_pops1 in 1 < m_nb m)
  /\ (let '(_, f, _) := pool_run 2 (fun _ => 0) 1 fresh_mem empty_file (c5_pops1 ++ [PFlush]) in
      f_buf f = [] /\ loads (f_disk f) = Some (flat (added 0 c5_pops1)))
  /\ wfpool 2 c5_pops
  /\ (let pre := [Query; Set_ 0 true c5_b0; Query; Read 0; Query; Set_ 1 true c5_b1] in
      compile [] c5_pops
      = pre ++ Flush :: [Query; Query; Read 1] ++ Reopen :: [Query; Query; Set_ 2 true c5_bx; Pickle; Query; Read 2; Query]
      /\ is_flush Flush = true /\ 0 < List.length (spec (pre ++ [Flush])))
  /\ 0 < List.length [c5_b0; c5_b1]
  /\ 1 + List.length [c5_bx] <= List.length [c5_b0; c5_b1]
  /\ contig (List.length [c5_b0]) [PAdd 0 c5_bx; PGet 1; PAdd 1 c5_b1; PFlush; PAdd 2 c5_bx].
Proof.
  split; [repeat constructor|]. split; [vm_compute; repeat constructor|].
  split; [vm_compute; repeat constructor|]. split; [vm_compute; split; reflexivity|].
  split; [repeat constructor|].
  split; [cbv zeta; split; [vm_compute; reflexivity | split; [reflexivity | vm_compute; repeat constructor]]|].
  split; [vm_compute; repeat constructor|]. split; [vm_compute; repeat constructor|].
  cbn. repeat split; repeat constructor.
Qed.

(** hypotheses of C05_on_disk_pool_get_batch and C05_on_disk_pool_add_batch on a pool that holds
    batches: batch 0 went to both stores, batch 1 goes to "a" (its next index) *)
Example C05_on_disk_pool_add_batch_nonvacuous :
  let o := fun (_ : name) (_ : nat) => 0 in
  let dp0 := empty_dpool ["a"; "b"]%string in
  let out0 := [("a", c5_b0); ("b", c5_b1)]%string in
  let out1 := [("a"%string, c5_bx)] in
  let dp1 := disk_add_batch 2 o dp0 out0 0 in
  dp_good 2 o dp1 /\ add_sized 2 dp1 out1 /\ add_contig 2 dp1 out1 1
  /\ map (fun nd : name * dstore => List.length (ds_batches 2 (snd nd))) (dp_stores dp1) = [1; 1].
Proof.
  cbv zeta. split.
  - apply (C05_on_disk_pool_add_batch 2 (Nat.lt_0_succ 1) (fun _ _ => 0) (fun _ => c5_enc)).
    + apply empty_dpool_good.
    + intros n d b _ H. cbn in H.
      destruct (String.eqb n "a"); [inversion H; reflexivity|].
      destruct (String.eqb n "b"); [inversion H; reflexivity | discriminate].
    + intros n d b _ _. apply Nat.le_0_l.
  - split; [|split; [|vm_compute; reflexivity]].
    + intros n d b _ H. cbn in H. destruct (String.eqb n "a"); [inversion H; reflexivity | discriminate].
    + intros n d b Hin H. vm_compute in Hin. destruct Hin as [Hin|[Hin|[]]]; inversion Hin; subst;
        vm_compute in H; try discriminate; vm_compute; repeat constructor.
Qed.

(** the Prop-level hypotheses of C05_generate_with_pool_is_pool_free / _equals_fresh (the boolean
    checks of C05_end_to_end_example through their soundness lemmas), with an output in both runs *)
Example C05_generate_with_pool_nonvacuous :
  let P := [("y"%string, c5_vy); ("s"%string, c5_vs)] in
  wfsrc c5_src /\ NoDup (map fst P) /\ (forall k, In k (map fst P) -> ~ In k inames)
  /\ pool_consistent c5_src P
  /\ exists out log out0 log0 v,
       generate c5_src ["d"%string] P = Ok (out, log) /\ generate c5_src ["d"%string] [] = Ok (out0, log0)
       /\ In ("d"%string, v) out /\ In ("d"%string, v) out0 /\ has "d"%string (s_nodes c5_src) = true
       /\ den_name c5_src [] "d"%string = Some v.
Proof.
  cbv zeta.
  assert (N : NoDup (map fst [("y"%string, c5_vy); ("s"%string, c5_vs)]))
    by (repeat constructor; cbn; intuition discriminate).
  split; [apply wfsrc_b_sound; vm_compute; reflexivity|]. split; [exact N|].
  split; [intros k [<-|[<-|[]]]; vm_compute; intuition discriminate|].
  split; [apply pool_consistent_b_sound; [exact N | vm_compute; reflexivity]|].
  do 5 eexists. split; [vm_compute; reflexivity|]. split; [vm_compute; reflexivity|].
  split; [left; reflexivity|]. split; [left; reflexivity|]. split; vm_compute; reflexivity.
Qed.

(** the Prop-level hypotheses of the executor-cache and history theorems (wf_base through its checker)
    and of C05_rerun_after_pool_change: a first run over batches 0, 1 with the pool of the simulator
    and the summary, then the same handler (grown output set, filled order cache) over another pool
    that holds only a store of the summary; the second run succeeds (the simulator, by now in the
    handler's output set and without a store, runs again; the held summary does not) *)
Example C05_rerun_after_pool_change_nonvacuous :
  let pl := {| stores := [("y"%string, None); ("s"%string, None)]; pl_batch_size := None; pl_seed := None |} in
  let pl' := {| stores := [("s"%string, None)]; pl_batch_size := None; pl_seed := None |} in
  wf_base c5_g /\ NoDup (map fst (stores pl)) /\ NoDup (map fst (stores pl'))
  /\ exists s1 obs1,
       run_batches {| rs_net := c5_g; rs_pool := pl; rs_cache := empty_cache |} [0; 1] = Ok (s1, obs1)
       /\ List.length (ec_orders (rs_cache s1)) = 1
       /\ match run_batches {| rs_net := rs_net s1; rs_pool := pl'; rs_cache := rs_cache s1 |} [0; 0] with
          | Ok (_, obs2) => map snd obs2 = [["_s_observed"; "_d_observed"; "t"; "y"; "s"; "d"]; ["_s_observed"; "_d_observed"; "t"; "y"; "d"]]%string
          | Err _ => False
          end.
Proof.
  cbv zeta. split; [apply wf_base_b_sound; vm_compute; reflexivity|].
  split; [repeat constructor; cbn; intuition discriminate|].
  split; [repeat constructor; cbn; intuition|].
  do 2 eexists. split; [vm_compute; reflexivity|]. split; vm_compute; reflexivity.
Qed.

(** hypotheses of C05_on_disk_pool_run_general: contiguity and representability at every step of a
    run whose steps succeed (from C05_on_disk_pool_run_nonvacuous by C05_on_disk_pool_contiguity) *)
Example C05_on_disk_pool_run_general_nonvacuous :
  dp_good 2 c5_orc (dr_pool c5_ds0)
  /\ run_all 2 c5_orc c5_denc c5_ddec (ok_at 2 c5_denc c5_ddec) c5_ds0 (seq 0 2).
Proof.
  destruct C05_on_disk_pool_run_nonvacuous as (Hbs & G & _ & C & PI & _ & R & _).
  split; [exact G|].
  exact (proj1 (C05_on_disk_pool_contiguity 2 Hbs c5_orc c5_denc c5_ddec 2 0 c5_ds0 G C PI R)).
Qed.

(** hypothesis of C05_store_abstraction_injective: the encoding of C05_on_disk_example is injective *)
Example C05_store_abstraction_injective_nonvacuous : forall a b, c5_enc a = c5_enc b -> a = b.
Proof.
  assert (M : forall (A B : Type) (f : A -> B), (forall x y, f x = f y -> x = y) ->
              forall l1 l2, map f l1 = map f l2 -> l1 = l2).
  { intros A B f Hf. induction l1 as [|x r IH]; intros [|y s] H; try discriminate; [reflexivity|].
    cbn in H. inversion H. f_equal; [now apply Hf | now apply IH]. }
  intros a b H. unfold c5_enc in H. inversion H as [H1]. revert H1. apply M.
  intros x y Hxy. inversion Hxy as [H2]. revert H2. apply M.
  intros c d Hcd. inversion Hcd as [H3]. now apply N2Z.inj.
Qed.

(** ---- the models' own answers pass the decidable predicates (Proofs/C05_ModelOk.v) ---- *)
From Elfi Require Import Proofs.C05_ModelOk.

(** Layout level, every observation: if the model's file content and read-backs equal the
    implementation's ([store_agree]) then the implementation's read-backs have the property
    ([store_ok]); so on the array observations of every case [agree] implies their clause of [ok]. *)
Theorem C05_store_agree_implies_store_ok :
  forall o, store_agree o = true -> store_ok o = true.
Proof. exact store_agree_ok. Qed.
Print Assumptions C05_store_agree_implies_store_ok.

Theorem C05_agree_implies_arrays_ok :
  forall c, Pool.agree c = true -> forallb store_ok (o_arrays c) = true.
Proof. exact agree_arrays_ok. Qed.
Print Assumptions C05_agree_implies_arrays_ok.

(** [model_store_obs on_disk bs]: the batches [bs], the file the model writes ([append_all bs], when
    on disk) and per batch what the model reads back from it.  For all batches of one shape whose
    elements lie inside their buffers ([in_bounds]; any strides, offsets, layouts) the model's own
    stored bytes pass [store_agree] and [store_ok]. *)
Theorem C05_model_store_ok :
  forall on_disk bs, shapes_equal bs = true -> in_bounds bs = true ->
    store_agree (model_store_obs on_disk bs) = true /\ store_ok (model_store_obs on_disk bs) = true.
Proof. intros on_disk bs Hs Hb. split; [now apply model_store_agree | now apply model_store_ok]. Qed.
Print Assumptions C05_model_store_ok.

(** [in_bounds] is necessary: [store_ok] never holds for batches with an element outside the buffer *)
Theorem C05_store_ok_needs_in_bounds :
  forall o, store_ok o = true -> in_bounds (so_batches o) = true.
Proof. exact store_ok_in_bounds. Qed.
Print Assumptions C05_store_ok_needs_in_bounds.

(** Pool level.  [model_case stored specs on_disk arrays]: the case whose observations are the model's
    own runs (replayed as [Pool.agree] replays them: per run how handler and context are obtained, the
    model, the requested outputs, the removed stores, the number of batches; recorded per batch the
    outputs and the operation log, after the run the pool dump) and the model's own array round
    trips.  It passes [Pool.agree] for all inputs ... *)
Theorem C05_model_case_agrees :
  forall stored specs on_disk arrays,
    (forall bs, In bs arrays -> shapes_equal bs = true /\ in_bounds bs = true) ->
    Pool.agree (model_case stored specs on_disk arrays) = true.
Proof. exact model_case_agree. Qed.
Print Assumptions C05_model_case_agrees.

(** ... and [Pool.ok] on it is exactly its run clause.  PARTIAL: that
    [ok_runs stored [] [] (model_runs (empty_pool stored) None specs) = true] for ALL well-formed
    histories is not proved (it needs C03's [model_log_exact] composed with the growth of the
    handler's output set along [run_batches]); it holds by computation on the histories below. *)
Theorem C05_model_ok_partial :
  forall stored specs on_disk arrays,
    (forall bs, In bs arrays -> shapes_equal bs = true /\ in_bounds bs = true) ->
    Pool.ok (model_case stored specs on_disk arrays)
    = ok_runs stored [] [] (model_runs (empty_pool stored) None specs).
Proof. exact model_ok_partial. Qed.
Print Assumptions C05_model_ok_partial.

(** Non-vacuity and the pool-level instances: on the MA2-like model with stores for the simulator and
    the summary, a history of five runs (a new inference object over 2 batches; the same handler over 3;
    the same handler over 1 after the summary's store was removed; a new handler on the same context
    over 2; a new inference object asking for the summary over 4 after the simulator's store was
    removed) all succeed in the model, and the model's own outputs, operation logs and pool dumps pass
    [Pool.ok] and [Pool.agree], with a C-ordered and a Fortran-ordered batch through an on-disk store.
    Likewise with all four nodes stored.  A [SameHandler] run must repeat the outputs of the run
    before it (the handler keeps its compiled net): otherwise the model's answer is for the old
    outputs and [ok], which reads [ro_outputs], rejects it (last conjunct). *)
Definition c5_spec (r : reuse) (outs rm : list name) (n : nat) : run_spec :=
  {| sp_reuse := r; sp_src := c5_src; sp_outputs := outs; sp_removed := rm; sp_batches := n |}.
Example C05_model_ok_example :
  let mc := model_case ["y"; "s"]%string
              [c5_spec Fresh ["d"%string] [] 2; c5_spec SameHandler ["d"%string] [] 3;
               c5_spec SameHandler ["d"%string] ["s"%string] 1; c5_spec SameContext ["d"%string] [] 2;
               c5_spec Fresh ["s"%string] ["y"%string] 4]
              true [[c5_nd_c; c5_nd_f]] in
  let mc4 := model_case ["t"; "y"; "s"; "d"]%string
              [c5_spec Fresh ["s"%string] [] 2; c5_spec Fresh ["d"%string] [] 3;
               c5_spec SameHandler ["d"%string] ["y"%string] 4; c5_spec Fresh ["y"; "d"]%string ["t"%string] 5]
              false [] in
  let bad := model_case ["y"%string] [c5_spec Fresh ["s"%string] [] 2; c5_spec SameHandler ["d"%string] [] 3] false [] in
  shapes_equal [c5_nd_c; c5_nd_f] = true /\ in_bounds [c5_nd_c; c5_nd_f] = true
  /\ map (fun r => map snd (ro_batches r)) (o_runs mc)
     = [[["s"; "t"; "y"; "s"; "d"]; ["s"; "t"; "y"; "s"; "d"]];
        [["s"; "d"]; ["s"; "d"]; ["s"; "t"; "y"; "s"; "d"]];
        [["s"; "s"; "d"]];
        [["s"; "s"; "d"]; ["s"; "s"; "d"]];
        [["t"; "y"; "s"]; ["t"; "y"; "s"]; ["t"; "y"; "s"]; ["t"; "y"; "s"]]]%string
  /\ Pool.ok mc = true /\ Pool.agree mc = true
  /\ List.length (o_runs mc4) = 4%nat /\ Pool.ok mc4 = true /\ Pool.agree mc4 = true
  /\ List.length (o_runs bad) = 2%nat /\ Pool.agree bad = true /\ Pool.ok bad = false.
Proof. vm_compute. repeat split. Qed.
