(** C03 — compiled execution equals the dataflow meaning of the user's graph.
    Models: Graph/Net.v (compilers, loaders, executor), Graph/Denote.v (user-level meaning used
    as the decidable spec on implementation outputs).  Proofs: Proofs/C03_Exec.v, C03_Compile.v,
    C03_Ancestors.v, C03_EndToEnd.v, C03_Twins.v, C03_ModelOk.v, C03_Succeeds.v, C03_Refusal.v; the declared graph: Graph/Declared.v,
    Proofs/C03_Declared.v. *)
From Coq Require Import List String ZArith Arith Bool.
From Elfi Require Import Graph.Net Graph.Denote Proofs.C03_Exec Proofs.C03_Compile Proofs.C03_Ancestors Proofs.C03_EndToEnd
     Proofs.C03_Twins Proofs.C03_ModelOk Graph.Declared Proofs.C03_Declared.
Import ListNotations.

(** The dataflow meaning [Den] of a loaded net is a function of the net. *)
Theorem C03_meaning_unique :
  forall g n v w, Den g n v -> Den g n w -> v = w.
Proof. intros g n v w H1 H2. exact (proj1 (Den_functional g) n v H1 w H2). Qed.
Print Assumptions C03_meaning_unique.

(** For every loaded net and every executor-cache state with duplicate-free entries, a finished
    execution returns for every requested output its dataflow meaning; every operation in the
    call log ran exactly once and carried an operation (supplied / constant nodes never run);
    and, when the order was computed now, every executed node is one the needed outputs
    depend on through nodes whose value is not already present. *)
Theorem C03_execute_is_dataflow :
  forall g cache out log cache',
    CacheOK cache -> execute g cache = Ok (out, log, cache') ->
    (forall n v, In (n, v) out -> Den g n v)
    /\ map fst out = sort_names (dedup_names (c_outputs g))
    /\ NoDup log
    /\ (forall n, In n log -> has_op g n = true)
    /\ CacheOK cache'
    /\ (ec_orders cache = [] -> forall n, In n log -> reaches_root (dep_of g) (needed_of g) n).
Proof. exact execute_sound. Qed.
Print Assumptions C03_execute_is_dataflow.

(** The execution loop itself, for any duplicate-free order: invariant + exact call log. *)
Theorem C03_run_order :
  forall g0 order g log g' log',
    Inv g0 g -> NoDup order -> run_order g order log = Ok (g', log') ->
    Inv g0 g' /\ log' = log ++ filter (has_op g) order.
Proof. exact run_order_sound. Qed.
Print Assumptions C03_run_order.

(** Compilation gives every source node exactly one of output / operation (else it is rejected). *)
Theorem C03_compile_outputs :
  forall ns cn, compile_outputs ns = Ok cn ->
    Forall2 (fun (a : name * sstate) (b : name * cnode) => fst a = fst b /\ compiled_as (fst a) (snd a) (snd b)) ns cn.
Proof. exact compile_outputs_spec. Qed.
Print Assumptions C03_compile_outputs.

(** batch_size / meta / random_state edges go exactly to the nodes that declare the flag. *)
Theorem C03_runtime_edges_only_declared :
  forall src fl inode g e,
    In e (c_edges (compile_instruction src fl inode g)) ->
    In e (c_edges g) \/
    (exists n st, In (n, st) (s_nodes src) /\ fl st = true /\
                  e = (inode, n, PStr (substring 1 (String.length inode) inode))).
Proof. exact compile_instruction_edges. Qed.
Print Assumptions C03_runtime_edges_only_declared.

Theorem C03_runtime_edges_all_declared :
  forall src fl inode g n st,
    NoDup (map fst (s_nodes src)) -> In (n, st) (s_nodes src) -> fl st = true ->
    In (inode, n, PStr (substring 1 (String.length inode) inode)) (c_edges (compile_instruction src fl inode g)).
Proof. exact compile_instruction_complete. Qed.
Print Assumptions C03_runtime_edges_all_declared.

(** An accepted compilation has no stochastic source node among the ancestors of any
    observed-data tuple. *)
Theorem C03_stochastic_observed_rejected :
  forall src g uses, check_stochastic src g uses = Ok tt ->
    forall n a, In n uses -> In a (tl (ancestors_incl (c_edges g) [observed_name n])) -> is_stochastic src a = false.
Proof. exact check_stochastic_sound. Qed.
Print Assumptions C03_stochastic_observed_rejected.

(** A value supplied through with_values / a pool replaces the node's operation. *)
Theorem C03_supplied_never_runs :
  forall pool g n v, NoDup (map fst pool) -> In (n, Some v) pool -> has n (c_nodes g) = true ->
    lookup n (c_nodes (load_pool pool g)) = Some {| c_out := Some v; c_op := None |}.
Proof. exact load_pool_supplied. Qed.
Print Assumptions C03_supplied_never_runs.

(** Soundness of the ancestor computation used by the compiler and the executor. *)
Theorem C03_ancestors_sound :
  forall es roots x, In x (ancestors_incl es roots) -> reaches_root es roots x.
Proof. exact ancestors_incl_sound. Qed.
Print Assumptions C03_ancestors_sound.

(** Non-vacuity: a five-node model (prior -> simulator -> summary -> discrepancy, with an
    observation) compiles, loads and executes; the discrepancy receives the tuple of the
    observed twin of its parent; only what is needed runs, once. *)
Definition ex_st id o op st ob uo ub : sstate :=
  {| s_output := o; s_has_op := op; s_stochastic := st; s_observable := ob; s_uses_observed := uo;
     s_uses_batch_size := ub; s_uses_meta := false; s_parameter := false; s_opid := id |}.
Definition ex_src : snet :=
  {| s_nodes := [("c"%string, ex_st "c"%string (Some (VConst 1)) false false false false false);
                 ("t"%string, ex_st "t"%string None true true false false true);
                 ("y"%string, ex_st "y"%string None true true true false true);
                 ("s"%string, ex_st "s"%string None true false true false false);
                 ("d"%string, ex_st "d"%string None true false false true false);
                 ("unused"%string, ex_st "unused"%string None true false false false false)];
     s_edges := [("c"%string, "t"%string, PInt 0); ("t"%string, "y"%string, PInt 0);
                 ("y"%string, "s"%string, PInt 0); ("s"%string, "d"%string, PInt 0)];
     s_observed := [("y"%string, VConst 7)] |}.

(** End to end, twin-free fragment: for EVERY source net without observable / observed-using nodes
    (any DAG shape, any mix of constants, priors-as-stochastic nodes and operations, any
    batch_size / meta / random_state declarations, any supplied with_values, any requested
    outputs), whatever generate returns after all five compilers (incl. the reduction to the
    ancestors of the outputs), the loaders and the executor is the user-level dataflow meaning
    [den_name] of the requested node.  (The general statement, with observed twins, is
    [C03_generate_is_dataflow] below.) *)
Theorem C03_generate_twin_free_is_dataflow :
  forall src outs W out log,
    plain src -> NoDup (map fst W) -> (forall k, In k (map fst W) -> ~ In k inames) ->
    generate src outs W = Ok (out, log) ->
    forall o v, In (o, v) out -> has o (s_nodes src) = true -> den_name src W o = Some v.
Proof. exact generate_plain_sound. Qed.
Print Assumptions C03_generate_twin_free_is_dataflow.

(** The ancestor computation used by the ReduceCompiler and the executor is complete: it contains
    the roots and is closed under the source of every edge into it. *)
Theorem C03_ancestors_complete :
  forall es roots,
    (forall r, In r roots -> In r (ancestors_incl es roots))
    /\ (forall e, In e es -> In (e_dst e) (ancestors_incl es roots) -> In (e_src e) (ancestors_incl es roots)).
Proof. exact ancestors_incl_complete. Qed.
Print Assumptions C03_ancestors_complete.

(** Non-vacuity of the end-to-end theorem: a twin-free model with a constant, two stochastic nodes,
    an operation with a keyword parent and an unused node meets [plain], generate succeeds with a
    supplied value, and runs three operations. *)
Definition e2e_src : snet :=
  {| s_nodes := [("c"%string, ex_st "c"%string (Some (VConst 1)) false false false false false);
                 ("t"%string, ex_st "t"%string None true true false false true);
                 ("u"%string, ex_st "u"%string None true true false false true);
                 ("w"%string, ex_st "w"%string None true false false false false);
                 ("f"%string, ex_st "f"%string None true false false false false);
                 ("unused"%string, ex_st "unused"%string None true true false false false)];
     s_edges := [("c"%string, "t"%string, PInt 0); ("t"%string, "u"%string, PInt 1); ("c"%string, "u"%string, PInt 0);
                 ("u"%string, "f"%string, PInt 0); ("w"%string, "f"%string, PStr "kw"%string)];
     s_observed := [] |}.
Example C03_end_to_end_example :
  plain_b e2e_src = true
  /\ match generate e2e_src ["f"; "t"]%string [("w"%string, VConst 9)] with
     | Ok (out, log) => List.length out = 2%nat /\ log = ["t"; "u"; "f"]%string
     | Err _ => False
     end.
Proof. vm_compute. repeat split. Qed.

Example C03_example :
  generate ex_src ["d"%string] []
  = Ok ([("d"%string,
          VApp (OpUser "d"%string)
               [VApp (OpUser "s"%string) [VApp (OpUser "y"%string) [VApp (OpUser "t"%string) [VConst 1]
                                                          [("batch_size"%string, VBatch); ("random_state"%string, VRng)]]
                                                     [("batch_size"%string, VBatch); ("random_state"%string, VRng)]] []]
               [("observed"%string, VApp OpTuple [VApp (OpUser "s"%string) [VConst 7] []] [])])],
        ["_s_observed"%string; "_d_observed"%string; "t"%string; "y"%string; "s"%string; "d"%string]).
Proof. vm_compute. reflexivity. Qed.

(** End to end, with observed twins: for EVERY well-formed source net [wfsrc] (distinct node names;
    edges between source nodes, one per ordered pair; the reserved runtime names are not nodes;
    observable nodes carry an operation; the observed data has distinct keys, each an observable
    node) and any supplied with_values, whatever generate returns after the five compilers (incl. the
    ObservedCompiler's twins, copied edges and "observed" tuples, and the reduction), the three
    loaders and the executor is the user-level dataflow meaning [den_name] of the requested node or
    of the requested observed twin.  Acyclicity, twin names not clashing with node names and the
    existence of an operation are not assumed: they follow from [generate] not raising. *)
Theorem C03_generate_is_dataflow :
  forall src outs W out log,
    wfsrc src -> NoDup (map fst W) -> (forall k, In k (map fst W) -> ~ In k inames) ->
    generate src outs W = Ok (out, log) ->
    forall o v, In (o, v) out ->
      (has o (s_nodes src) = true
       \/ exists x st, lookup x (s_nodes src) = Some st /\ o = observed_name x
                       /\ (s_observable st = true \/ s_uses_observed st = true)) ->
      den_name src W o = Some v.
Proof. exact generate_sound. Qed.
Print Assumptions C03_generate_is_dataflow.

(** Non-vacuity of the theorem with twins: the five-node model [ex_src] (prior -> simulator with
    data -> summary -> discrepancy using the observed tuple, + an unused node) meets [wfsrc],
    generate succeeds on it for the discrepancy and for a twin, and runs the twins' operations. *)
Example C03_generate_is_dataflow_example :
  wfsrc_b ex_src = true
  /\ match generate ex_src ["d"; "_s_observed"]%string [] with
     | Ok (out, log) => List.length out = 2%nat /\ List.length log = 6%nat
     | Err _ => False
     end.
Proof. vm_compute. repeat split. Qed.

Example C03_generate_is_dataflow_instance :
  den_name ex_src [] "d"%string
  = Some (VApp (OpUser "d"%string)
               [VApp (OpUser "s"%string) [VApp (OpUser "y"%string) [VApp (OpUser "t"%string) [VConst 1]
                                                          [("batch_size"%string, VBatch); ("random_state"%string, VRng)]]
                                                     [("batch_size"%string, VBatch); ("random_state"%string, VRng)]] []]
               [("observed"%string, VApp OpTuple [VApp (OpUser "s"%string) [VConst 7] []] [])]).
Proof.
  assert (H : generate ex_src ["d"%string] [] = Ok ([("d"%string, _)], _)) by exact C03_example.
  assert (Hwf : wfsrc ex_src) by (apply wfsrc_b_sound; vm_compute; reflexivity).
  refine (C03_generate_is_dataflow ex_src _ [] _ _ Hwf _ _ H _ _ (or_introl eq_refl) (or_introl eq_refl)).
  - constructor.
  - intros k [].
Qed.

(** The ancestor computation is exact: membership is "reaches a root". *)
Theorem C03_ancestors_exact :
  forall es roots x, In x (ancestors_incl es roots) <-> reaches_root es roots x.
Proof. exact ancestors_incl_iff. Qed.
Print Assumptions C03_ancestors_exact.

(** The call log of an execution on a fresh context, exactly: the nodes that carry an operation and
    reach a needed output through nodes whose value is not present. *)
Theorem C03_execute_log_exact :
  forall g out log c', execute g empty_cache = Ok (out, log, c') ->
    forall n, In n log <-> has_op g n = true /\ reaches_root (dep_of g) (needed_of g) n.
Proof. exact execute_log_iff. Qed.
Print Assumptions C03_execute_log_exact.

(** The model runs exactly the specification's [needed_ops], each once: for EVERY well-formed source
    net, any supplied with_values and any requested outputs that are nodes or twins of observable /
    observed-using nodes ([outputs_wf]), the call log of [generate] and [needed_ops] are duplicate-free
    lists with the same elements. *)
Theorem C03_model_log_exact :
  forall src outs W out log,
    wfsrc src -> NoDup (map fst W) -> (forall k, In k (map fst W) -> ~ In k inames) ->
    outputs_wf src outs ->
    generate src outs W = Ok (out, log) ->
    NoDup log /\ NoDup (needed_ops src W outs) /\ (forall n, In n log <-> In n (needed_ops src W outs)).
Proof. exact model_log_exact. Qed.
Print Assumptions C03_model_log_exact.

(** The model's own output passes the decidable check [Denote.ok] (all four clauses: observed data
    does not depend on a stochastic node; every value is [den_name]; the names are the sorted distinct
    outputs; the operations run are [needed_ops] as a multiset of operation names).  Hence on every
    case where the implementation agrees with the model ([Denote.agree]), the property holds of the
    implementation's output. *)
Theorem C03_model_ok :
  forall src outs W out log,
    wfsrc src -> NoDup (map fst W) -> (forall k, In k (map fst W) -> ~ In k inames) ->
    outputs_wf src outs ->
    generate src outs W = Ok (out, log) ->
    ok {| k_src := src; k_outputs := outs; k_with := W; k_impl := ImplOk out (op_log src log) |} = true.
Proof. exact model_ok. Qed.
Print Assumptions C03_model_ok.

(** Non-vacuity: the theorem instantiated on [ex_src] with outputs ["d"] (hypotheses through the
    decidable forms [wfsrc_b], [outputs_wf_b]); the run it speaks about is [C03_example]. *)
Example C03_model_ok_example :
  wfsrc_b ex_src = true /\ outputs_wf_b ex_src ["d"%string] = true
  /\ exists out log,
       generate ex_src ["d"%string] [] = Ok (out, log) /\ List.length log = 6%nat
       /\ ok {| k_src := ex_src; k_outputs := ["d"%string]; k_with := []; k_impl := ImplOk out (op_log ex_src log) |} = true.
Proof.
  assert (Hwfb : wfsrc_b ex_src = true) by (vm_compute; reflexivity).
  assert (Hob : outputs_wf_b ex_src ["d"%string] = true) by (vm_compute; reflexivity).
  split; [exact Hwfb|]. split; [exact Hob|].
  pose proof (wfsrc_b_sound _ Hwfb) as Hwf.
  eexists. eexists. split; [exact C03_example|]. split; [reflexivity|].
  apply (C03_model_ok ex_src ["d"%string] [] _ _ Hwf).
  - constructor.
  - intros k [].
  - exact (outputs_wf_b_sound _ _ (wf_nodup _ Hwf) Hob).
  - exact C03_example.
Qed.

(** ---- the DECLARED graph (parents attached through node constructors and through explicit
    GraphicalModel.add_edge calls, in any order, with explicit positions / names) ---- *)

(** What the decidable check [Declared.dok] of the correspondence states: the parameters declared for
    one child are pairwise distinct, the implementation's source net carries exactly the declared
    (parent, child, parameter) triples, and the implementation's result satisfies [Denote.ok] - values
    = dataflow meaning with positional parents in declared order, etc. - for the DECLARED graph as well
    as for the net the implementation holds. *)
Theorem C03_declared_ok_sound :
  forall c, dok c = true ->
    (forall e, In e (d_decl c) -> NoDup (map snd (preds (d_decl c) (e_dst e))))
    /\ (forall e, In e (d_decl c) <-> In e (s_edges (k_src (d_case c))))
    /\ ok (declared_case c) = true
    /\ ok (d_case c) = true.
Proof. exact dok_sound. Qed.
Print Assumptions C03_declared_ok_sound.

(** The model's own run on a net that carries a well-formed declaration passes [Declared.dok]. *)
Theorem C03_model_declared_ok :
  forall src outs W out log,
    wfsrc src -> NoDup (map fst W) -> (forall k, In k (map fst W) -> ~ In k inames) ->
    outputs_wf src outs -> decl_wf (s_edges src) = true ->
    generate src outs W = Ok (out, log) ->
    dok {| d_case := {| k_src := src; k_outputs := outs; k_with := W; k_impl := ImplOk out (op_log src log) |};
           d_decl := s_edges src |} = true.
Proof. exact model_dok. Qed.
Print Assumptions C03_model_declared_ok.

(** GraphicalModel.add_edge with an explicit parameter stores the parameter as declared: for EVERY
    script of explicit add_edge calls (any order of the calls; any positions, 0 attached last or sparse;
    any names) that declares each ordered pair at most once, between existing nodes of a model without
    an edge on a declared pair, every call is accepted and the model's edges afterwards are the old
    edges followed by exactly the declared triples. *)
Theorem C03_explicit_edges_are_declared :
  forall d m,
    (forall e, In e d -> has (e_src e) (s_nodes m) = true /\ has (e_dst e) (s_nodes m) = true) ->
    distinct_pairs (s_edges m ++ d) = true ->
    attach_all m d = Ok (with_edges m (s_edges m ++ d)).
Proof. exact attach_all_declared. Qed.
Print Assumptions C03_explicit_edges_are_declared.

(** Non-vacuity: three constants and an operation created without parents; position 1 is attached
    first, then a named parameter, then position 0 (to the node created last): the script is accepted,
    the net carries the declaration, and the operation is called as h(A, B, key=C) - the parent
    declared for position 0 first. *)
Definition decl_nodes : list (name * sstate) :=
  [("b"%string, ex_st "b"%string (Some (VConst 2)) false false false false false);
   ("c"%string, ex_st "c"%string (Some (VConst 3)) false false false false false);
   ("h"%string, ex_st "h"%string None true false false false false);
   ("a"%string, ex_st "a"%string (Some (VConst 1)) false false false false false)].
Definition decl_script : list edge :=
  [("b"%string, "h"%string, PInt 1); ("c"%string, "h"%string, PStr "key"%string); ("a"%string, "h"%string, PInt 0)].
Definition decl_src : snet := {| s_nodes := decl_nodes; s_edges := decl_script; s_observed := [] |}.
Example C03_declared_example :
  attach_all {| s_nodes := decl_nodes; s_edges := []; s_observed := [] |} decl_script = Ok decl_src
  /\ decl_wf decl_script = true
  /\ match generate decl_src ["h"%string] [] with
     | Ok (out, log) =>
         out = [("h"%string, VApp (OpUser "h"%string) [VConst 1; VConst 2] [("key"%string, VConst 3)])]
         /\ dok {| d_case := {| k_src := decl_src; k_outputs := ["h"%string]; k_with := [];
                                k_impl := ImplOk out (op_log decl_src log) |};
                   d_decl := decl_script |} = true
     | Err _ => False
     end.
Proof. vm_compute. repeat split. Qed.

(** ... and the check refuses a net in which the parent declared for position 0 was stored on
    another position (here: on position 1, next to the parent declared for position 1). *)
Example C03_declared_example_refused :
  dok {| d_case := {| k_src := {| s_nodes := decl_nodes;
                                  s_edges := [("b"%string, "h"%string, PInt 1); ("c"%string, "h"%string, PStr "key"%string);
                                              ("a"%string, "h"%string, PInt 1)];
                                  s_observed := [] |};
                      k_outputs := ["h"%string]; k_with := [];
                      k_impl := ImplOk [("h"%string, VApp (OpUser "h"%string) [VConst 2; VConst 1] [("key"%string, VConst 3)])]
                                       ["h"%string] |};
         d_decl := decl_script |} = false.
Proof. vm_compute. reflexivity. Qed.

(** ---- COMPLETENESS of the model: when [generate] succeeds (Proofs/C03_Succeeds.v) ---- *)
From Elfi Require Import Proofs.C02_Success Proofs.C03_Succeeds.

(** A sufficient condition, on the source net alone, for [generate] to return a result: a well-formed
    net whose nodes carry exactly one of output / operation ([out_ok]), which passes the compiler's
    topological check, in which no node is named like the observed twin of an observable /
    observed-using node, whose observed data depends on no stochastic node, and in which the parents
    of an observed-using node (copied to its args_to_tuple twin) are all positional; requested
    outputs are nodes or twins; supplied values have distinct, non-reserved names. *)
Theorem C03_generate_succeeds :
  forall src outs W,
    wfsrc src ->
    forallb out_ok (s_nodes src) = true ->
    topo_ok src = true ->
    twins_fresh src ->
    stochastic_observed src = false ->
    tuple_positional src ->
    outputs_wf src outs -> NoDup (map fst W) -> (forall k, In k (map fst W) -> ~ In k inames) ->
    exists out log, generate src outs W = Ok (out, log).
Proof. exact generate_succeeds. Qed.
Print Assumptions C03_generate_succeeds.

(** Existence + soundness: under these hypotheses [generate] returns, for exactly the sorted distinct
    requested outputs, their user-level meaning [den_name], and the run passes [Denote.ok]. *)
Theorem C03_generate_total_and_sound :
  forall src outs W,
    wfsrc src -> forallb out_ok (s_nodes src) = true -> topo_ok src = true -> twins_fresh src ->
    stochastic_observed src = false -> tuple_positional src ->
    outputs_wf src outs -> NoDup (map fst W) -> (forall k, In k (map fst W) -> ~ In k inames) ->
    exists out log,
      generate src outs W = Ok (out, log)
      /\ map fst out = sort_names (dedup_names outs)
      /\ (forall o v, In (o, v) out -> den_name src W o = Some v)
      /\ ok {| k_src := src; k_outputs := outs; k_with := W; k_impl := ImplOk out (op_log src log) |} = true.
Proof. exact generate_total_and_sound. Qed.
Print Assumptions C03_generate_total_and_sound.

(** The refusal for stochastic observed data is exact: when the first three compiler stages pass,
    observed data depending on a stochastic node makes compilation (hence [generate]) fail with
    [EStochasticObserved b] for a stochastic node [b] ... *)
Theorem C03_stochastic_observed_refused :
  forall src outs,
    wfsrc src -> forallb out_ok (s_nodes src) = true -> topo_ok src = true -> twins_fresh src ->
    stochastic_observed src = true ->
    exists b, compile src outs = Err (EStochasticObserved b) /\ flag src s_stochastic b = true.
Proof. exact stochastic_observed_refused. Qed.
Print Assumptions C03_stochastic_observed_refused.

(** ... and compilation succeeds exactly when there is none. *)
Theorem C03_compile_ok_iff :
  forall src outs,
    wfsrc src -> forallb out_ok (s_nodes src) = true -> topo_ok src = true -> twins_fresh src ->
    ((exists g, compile src outs = Ok g) <-> stochastic_observed src = false).
Proof. exact compile_ok_iff. Qed.
Print Assumptions C03_compile_ok_iff.

(** The executor succeeds on every net whose edges have a ranking (acyclic), join existing nodes,
    whose nodes carry exactly one of output / operation, whose args_to_tuple nodes have positional
    parents only, and whose requested outputs exist. *)
Theorem C03_execute_total :
  forall g so,
    sort_order g = Ok so ->
    (forall a x b, so = a ++ x :: b -> forall y p, In (x, y, p) (c_edges g) -> In y b) ->
    (forall x, In x so -> has x (c_nodes g) = true) ->
    eclosed g ->
    (forall n c, lookup n (c_nodes g) = Some c ->
       (c_out c = None /\ c_op c <> None) \/ (c_out c <> None /\ c_op c = None)) ->
    (forall n c, lookup n (c_nodes g) = Some c -> c_op c = Some OpTuple ->
       forall u p, In (u, p) (preds (c_edges g) n) -> exists i, p = PInt i) ->
    (forall o, In o (c_outputs g) -> has o (c_nodes g) = true) ->
    exists r, execute g empty_cache = Ok r.
Proof. exact execute_total. Qed.
Print Assumptions C03_execute_total.

(** The name-sorted DFS order exists for ranked (acyclic) edges and is topological. *)
Theorem C03_sort_order_total :
  forall g (r : name -> nat),
    (forall u v p, In (u, v, p) (c_edges g) -> r u < r v) -> exists so, sort_order g = Ok so.
Proof. exact sort_order_total. Qed.
Print Assumptions C03_sort_order_total.

Theorem C03_sort_order_topological :
  forall g so, sort_order g = Ok so ->
    forall a x b, so = a ++ x :: b -> forall y p, In (x, y, p) (c_edges g) -> In y b.
Proof. exact sort_order_topo. Qed.
Print Assumptions C03_sort_order_topological.

(** Non-vacuity: the hypotheses hold of [ex_src] (through their decidable forms), so the theorem
    yields the run [C03_example] without computing it. *)
Example C03_generate_succeeds_example :
  exists out log,
    generate ex_src ["d"%string; "_d_observed"%string] [] = Ok (out, log)
    /\ map fst out = ["_d_observed"%string; "d"%string]
    /\ (forall o v, In (o, v) out -> den_name ex_src [] o = Some v).
Proof.
  assert (Hwf : wfsrc ex_src) by (apply wfsrc_b_sound; vm_compute; reflexivity).
  destruct (C03_generate_total_and_sound ex_src ["d"%string; "_d_observed"%string] [] Hwf) as [out [log [Hg [Hk [Hd _]]]]].
  - vm_compute; reflexivity.
  - vm_compute; reflexivity.
  - apply twins_fresh_b_sound. vm_compute; reflexivity.
  - vm_compute; reflexivity.
  - apply tuple_positional_b_sound. vm_compute; reflexivity.
  - apply (outputs_wf_b_sound _ _ (wf_nodup _ Hwf)). vm_compute; reflexivity.
  - constructor.
  - intros k [].
  - exists out, log. split; [exact Hg|]. split; [rewrite Hk; vm_compute; reflexivity | exact Hd].
Qed.

(** ================================================================================== *)
(** ---- the refusal branch of [ok] (Proofs/C03_Refusal.v) ---- *)
From Elfi Require Import Proofs.C03_Refusal.

(** [Denote.wf_case] is exactly the conjunction of the decidable forms of the hypotheses of
    [C03_generate_succeeds] other than "no stochastic observed data". *)
Theorem C03_wf_case_split :
  forall c,
    wf_case c =
    wfsrc_b (k_src c) && forallb out_ok (s_nodes (k_src c)) && topo_ok (k_src c) && twins_fresh_b (k_src c)
    && tuple_positional_b (k_src c) && outputs_wf_b (k_src c) (k_outputs c) && with_ok_b (k_with c).
Proof. exact wf_case_split. Qed.
Print Assumptions C03_wf_case_split.

Theorem C03_wf_case_hyps :
  forall c, wf_case c = true ->
    wfsrc (k_src c)
    /\ forallb out_ok (s_nodes (k_src c)) = true
    /\ topo_ok (k_src c) = true
    /\ twins_fresh (k_src c)
    /\ tuple_positional (k_src c)
    /\ outputs_wf (k_src c) (k_outputs c)
    /\ NoDup (map fst (k_with c))
    /\ (forall k, In k (map fst (k_with c)) -> ~ In k inames).
Proof. exact wf_case_hyps. Qed.
Print Assumptions C03_wf_case_hyps.

(** The model refuses only malformed graphs or stochastic observed data: whenever [generate]
    fails, the refusal passes [ok]. *)
Theorem C03_model_refusal_ok :
  forall c e,
    generate (k_src c) (k_outputs c) (k_with c) = Err e ->
    ok {| k_src := k_src c; k_outputs := k_outputs c; k_with := k_with c; k_impl := ImplErr |} = true.
Proof. exact model_refusal_ok. Qed.
Print Assumptions C03_model_refusal_ok.

(** [ok] on the model's own result ([model_result]: [ImplOk out (op_log src log)] or [ImplErr]),
    for every case: unconditionally when the model refuses; when it succeeds, under the decidable
    hypotheses of [C03_model_ok] ([model_pre]: [wfsrc_b], requested outputs are nodes or twins,
    supplied keys distinct and not reserved), which are conjuncts of [wf_case]. *)
Theorem C03_model_ok_total :
  forall c,
    (forall out log, generate (k_src c) (k_outputs c) (k_with c) = Ok (out, log) -> model_pre c = true) ->
    ok (with_impl c (model_result c)) = true.
Proof. exact model_ok_total. Qed.
Print Assumptions C03_model_ok_total.

(** in particular for every [wf_case], whatever the model does *)
Theorem C03_model_ok_wf :
  forall c, wf_case c = true -> ok (with_impl c (model_result c)) = true.
Proof. exact model_ok_wf. Qed.
Print Assumptions C03_model_ok_wf.

(** for a [wf_case] the model succeeds exactly when no observed data depends on a stochastic node *)
Theorem C03_model_result_wf :
  forall c, wf_case c = true ->
    (stochastic_observed (k_src c) = false <-> exists out log, model_result c = ImplOk out log).
Proof. exact model_result_wf. Qed.
Print Assumptions C03_model_result_wf.

(** The hypothesis of [C03_model_ok_total] cannot be dropped: with a supplied value under the
    reserved name "_batch_size", or with two supplied values under one key, the model succeeds
    with a result that is not the user-level meaning. *)
Theorem C03_model_ok_needs_hyps : ~ (forall c, ok (with_impl c (model_result c)) = true).
Proof. exact model_ok_needs_hyps. Qed.
Print Assumptions C03_model_ok_needs_hyps.

(** Strengthening [wf_case] left [ok] unchanged on accepted runs and only weakened it on refused
    ones: every case that passed the first version ([ok_old]) passes [ok]. *)
Theorem C03_ok_accepted_unchanged :
  forall c out log, k_impl c = ImplOk out log -> ok c = ok_old c.
Proof. exact ok_accepted_unchanged. Qed.
Print Assumptions C03_ok_accepted_unchanged.

Theorem C03_ok_monotone : forall c, ok_old c = true -> ok c = true.
Proof. exact ok_monotone. Qed.
Print Assumptions C03_ok_monotone.

(** FINDING about the predicate [ok], now repaired: a constant feeding an observed-using operation
    through a NAMED parameter satisfies [wfsrc_b] and the first version of [wf_case] and has no
    stochastic observed data, yet the model refuses it ([EBadCall] on the args_to_tuple twin); the
    first version of [ok] rejected that refusal.  [wf_case] now contains [tuple_positional_b], the
    graph is not [wf_case], and [ok] ACCEPTS the refusal, on which model and a refusing
    implementation [agree]. *)
Example C03_tuple_named_parent_refused :
  generate np_src ["d"%string] [] = Err (EBadCall "_d_observed"%string)
  /\ wfsrc_b np_src = true
  /\ wf_case {| k_src := np_src; k_outputs := ["d"%string]; k_with := []; k_impl := ImplErr |} = false
  /\ stochastic_observed np_src = false
  /\ ok {| k_src := np_src; k_outputs := ["d"%string]; k_with := []; k_impl := ImplErr |} = true
  /\ agree {| k_src := np_src; k_outputs := ["d"%string]; k_with := []; k_impl := ImplErr |} = true.
Proof. exact tuple_named_parent_refused. Qed.
Print Assumptions C03_tuple_named_parent_refused.

Example C03_tuple_named_parent_old :
  let c := {| k_src := np_src; k_outputs := ["d"%string]; k_with := []; k_impl := ImplErr |} in
  generate np_src ["d"%string] [] = Err (EBadCall "_d_observed"%string)
  /\ wf_case_old c = true /\ ok_old c = false
  /\ wf_case c = false /\ tuple_positional_b np_src = false /\ ok c = true.
Proof. exact tuple_named_parent_old. Qed.
Print Assumptions C03_tuple_named_parent_old.

(** ---- non-vacuity of the hypotheses (audit) ----
    Already witnessed above: [C03_end_to_end_example] (plain, generate = Ok), [C03_generate_is_dataflow_instance],
    [C03_model_ok_example] (wfsrc, outputs_wf, generate = Ok: model_log_exact, model_ok), [C03_declared_example] (dok = true),
    [C03_generate_succeeds_example] (all hypotheses of generate_succeeds / generate_total_and_sound / compile_ok_iff),
    [C03_tuple_named_parent_refused] (generate = Err: model_refusal_ok).  The remaining ones: *)

(** the loaded net of [ex_src] for the discrepancy: execution on a fresh cache and again on the cache it leaves
    (execute_is_dataflow with an empty and a non-empty cache, execute_log_exact, meaning_unique: [Den] is inhabited) *)
Example C03_execute_is_dataflow_nonvacuous :
  match compile ex_src ["d"%string] with
  | Ok g =>
      CacheOK empty_cache
      /\ exists out log c', execute (load [] g) empty_cache = Ok (out, log, c') /\ List.length log = 6%nat
           /\ CacheOK c' /\ ec_orders c' <> [] /\ execute (load [] g) c' = Ok (out, log, c')
           /\ exists v, In ("d"%string, v) out /\ Den (load [] g) "d"%string v
  | Err _ => False
  end.
Proof.
  destruct (compile ex_src ["d"%string]) as [g|e] eqn:Ec; [|vm_compute in Ec; discriminate].
  split; [exact CacheOK_empty|].
  destruct (execute (load [] g) empty_cache) as [[[out log] c']|e'] eqn:Ee;
    [|exfalso; vm_compute in Ec; injection Ec as <-; vm_compute in Ee; discriminate].
  destruct (C03_execute_is_dataflow _ _ _ _ _ CacheOK_empty Ee) as (Hd & _ & _ & _ & Hc & _).
  exists out, log, c'. split; [reflexivity|].
  vm_compute in Ec; injection Ec as <-. vm_compute in Ee. injection Ee as <- <- <-.
  split; [reflexivity|]. split; [exact Hc|]. split; [discriminate|]. split; [vm_compute; reflexivity|].
  eexists. split; [left; reflexivity|]. apply Hd. left; reflexivity.
Qed.

(** run_order on the loaded net in the order of the call log of [C03_example] *)
Example C03_run_order_nonvacuous :
  match compile ex_src ["d"%string] with
  | Ok g =>
      Inv (load [] g) (load [] g)
      /\ NoDup ["c"; "_s_observed"; "_d_observed"; "t"; "y"; "s"; "d"]%string
      /\ exists g', run_order (load [] g) ["c"; "_s_observed"; "_d_observed"; "t"; "y"; "s"; "d"]%string []
                    = Ok (g', ["_s_observed"; "_d_observed"; "t"; "y"; "s"; "d"]%string)
  | Err _ => False
  end.
Proof.
  destruct (compile ex_src ["d"%string]) as [g|e] eqn:Ec; [|vm_compute in Ec; discriminate].
  split; [apply Inv_refl|]. split; [apply nodup_b_sound; vm_compute; reflexivity|].
  vm_compute in Ec; injection Ec as <-. vm_compute. eexists. reflexivity.
Qed.

Example C03_compile_outputs_nonvacuous :
  exists cn, compile_outputs (s_nodes ex_src) = Ok cn /\ List.length cn = 6%nat.
Proof. vm_compute. eexists. split; reflexivity. Qed.

(** the batch_size edge to the prior "t" of [ex_src] *)
Example C03_runtime_edges_nonvacuous :
  NoDup (map fst (s_nodes ex_src))
  /\ In ("t"%string, ex_st "t"%string None true true false false true) (s_nodes ex_src)
  /\ s_uses_batch_size (ex_st "t"%string None true true false false true) = true
  /\ forall g, In ("_batch_size"%string, "t"%string, PStr "batch_size"%string)
                  (c_edges (compile_instruction ex_src s_uses_batch_size "_batch_size"%string g)).
Proof.
  assert (H1 : NoDup (map fst (s_nodes ex_src))) by (apply nodup_b_sound; vm_compute; reflexivity).
  assert (H2 : In ("t"%string, ex_st "t"%string None true true false false true) (s_nodes ex_src)) by (right; left; reflexivity).
  refine (conj H1 (conj H2 (conj eq_refl _))).
  intros g. exact (C03_runtime_edges_all_declared ex_src s_uses_batch_size "_batch_size"%string g _ _ H1 H2 eq_refl).
Qed.

(** the stochastic check on the net after the ObservedCompiler: the discrepancy uses observed data; the ancestors of its tuple *)
Example C03_stochastic_observed_rejected_nonvacuous :
  match compile_outputs (s_nodes ex_src) with
  | Ok cn =>
      match compile_observed ex_src (topo_order ex_src) [] []
              {| c_nodes := cn; c_edges := s_edges ex_src; c_outputs := ["d"%string]; c_observed := s_observed ex_src |} with
      | Ok (g1, _, uses) =>
          check_stochastic ex_src g1 uses = Ok tt /\ In "d"%string uses
          /\ tl (ancestors_incl (c_edges g1) [observed_name "d"%string]) <> []
          /\ In "_s_observed"%string (tl (ancestors_incl (c_edges g1) [observed_name "d"%string]))
      | Err _ => False
      end
  | Err _ => False
  end.
Proof. vm_compute. repeat split; try discriminate; tauto. Qed.

Example C03_supplied_never_runs_nonvacuous :
  match compile ex_src ["d"%string] with
  | Ok g =>
      NoDup (map fst [("zz"%string, None); ("t"%string, Some (VConst 5)); ("y"%string, None)])
      /\ In ("t"%string, Some (VConst 5)) [("zz"%string, None); ("t"%string, Some (VConst 5)); ("y"%string, None)]
      /\ has "t"%string (c_nodes g) = true
      /\ has_op g "t"%string = true
      /\ has_op (load_pool [("zz"%string, None); ("t"%string, Some (VConst 5)); ("y"%string, None)] g) "t"%string = false
  | Err _ => False
  end.
Proof.
  destruct (compile ex_src ["d"%string]) as [g|e] eqn:Ec; [|vm_compute in Ec; discriminate].
  split; [apply nodup_b_sound; vm_compute; reflexivity|]. split; [right; left; reflexivity|].
  vm_compute in Ec; injection Ec as <-. vm_compute. repeat split.
Qed.

Example C03_ancestors_sound_nonvacuous :
  ancestors_incl (s_edges ex_src) ["s"%string] <> ["s"%string] /\ In "c"%string (ancestors_incl (s_edges ex_src) ["s"%string])
  /\ ~ In "d"%string (ancestors_incl (s_edges ex_src) ["s"%string]).
Proof. vm_compute. repeat split; try discriminate; [tauto | intuition discriminate]. Qed.

(** twin-free end to end: the hypotheses about the net and the supplied values of [C03_end_to_end_example] *)
Example C03_generate_twin_free_is_dataflow_nonvacuous :
  plain e2e_src /\ NoDup (map fst [("w"%string, VConst 9)]) /\ (forall k, In k (map fst [("w"%string, VConst 9)]) -> ~ In k inames)
  /\ has "f"%string (s_nodes e2e_src) = true.
Proof.
  split; [apply plain_b_sound; vm_compute; reflexivity|]. split; [repeat constructor; intros []|].
  split; [|reflexivity]. intros k [<-|[]]. vm_compute. intuition discriminate.
Qed.

(** the declared net [decl_src]: hypotheses of model_declared_ok and of explicit_edges_are_declared *)
Example C03_model_declared_ok_nonvacuous :
  wfsrc decl_src /\ outputs_wf_b decl_src ["h"%string] = true /\ decl_wf (s_edges decl_src) = true
  /\ (forall e, In e decl_script -> has (e_src e) decl_nodes = true /\ has (e_dst e) decl_nodes = true)
  /\ distinct_pairs ([] ++ decl_script) = true.
Proof.
  split; [apply wfsrc_b_sound; vm_compute; reflexivity|]. split; [vm_compute; reflexivity|]. split; [vm_compute; reflexivity|].
  split; [|vm_compute; reflexivity].
  intros e H. simpl in H. repeat destruct H as [<-|H]; try contradiction; vm_compute; split; reflexivity.
Qed.

(** observed data that depends on a stochastic node: the summary "s" has the simulator "y" (observed) and the prior "t"
    (stochastic, not observable) as parents; every other hypothesis of stochastic_observed_refused holds *)
Definition so_src : snet :=
  {| s_nodes := [("t"%string, ex_st "t"%string None true true false false true);
                 ("y"%string, ex_st "y"%string None true true true false true);
                 ("s"%string, ex_st "s"%string None true false true false false);
                 ("d"%string, ex_st "d"%string None true false false true false)];
     s_edges := [("t"%string, "y"%string, PInt 0); ("y"%string, "s"%string, PInt 0); ("t"%string, "s"%string, PInt 1);
                 ("s"%string, "d"%string, PInt 0)];
     s_observed := [("y"%string, VConst 7)] |}.

Example C03_stochastic_observed_refused_nonvacuous :
  wfsrc so_src /\ forallb out_ok (s_nodes so_src) = true /\ topo_ok so_src = true /\ twins_fresh so_src
  /\ stochastic_observed so_src = true
  /\ compile so_src ["d"%string] = Err (EStochasticObserved "t"%string)
  /\ wf_case {| k_src := so_src; k_outputs := ["d"%string]; k_with := []; k_impl := ImplErr |} = true
  /\ ok {| k_src := so_src; k_outputs := ["d"%string]; k_with := []; k_impl := ImplErr |} = true.
Proof.
  split; [apply wfsrc_b_sound; vm_compute; reflexivity|]. split; [vm_compute; reflexivity|]. split; [vm_compute; reflexivity|].
  split; [apply twins_fresh_b_sound; vm_compute; reflexivity|]. vm_compute. repeat split.
Qed.

(** wf_case = true and ok_old = true on the model's accepted run of [ex_src] *)
Example C03_wf_case_nonvacuous :
  match generate ex_src ["d"%string] [] with
  | Ok (out, log) =>
      wf_case {| k_src := ex_src; k_outputs := ["d"%string]; k_with := []; k_impl := ImplOk out (op_log ex_src log) |} = true
      /\ ok_old {| k_src := ex_src; k_outputs := ["d"%string]; k_with := []; k_impl := ImplOk out (op_log ex_src log) |} = true
      /\ model_result {| k_src := ex_src; k_outputs := ["d"%string]; k_with := []; k_impl := ImplErr |} = ImplOk out (op_log ex_src log)
  | Err _ => False
  end.
Proof. vm_compute. repeat split. Qed.

(** execute_total / sort_order_total / sort_order_topological on a hand-written loaded net: a constant, two operations *)
Definition aud_net : cnet :=
  {| c_nodes := [("b"%string, {| c_out := None; c_op := Some (OpUser "b"%string) |});
                 ("a"%string, {| c_out := Some (VConst 1); c_op := None |});
                 ("c"%string, {| c_out := None; c_op := Some (OpUser "c"%string) |})];
     c_edges := [("a"%string, "b"%string, PInt 0); ("b"%string, "c"%string, PInt 0); ("a"%string, "c"%string, PStr "k"%string)];
     c_outputs := ["c"%string]; c_observed := [] |}.

Example C03_sort_order_total_nonvacuous :
  (forall u v p, In (u, v, p) (c_edges aud_net) ->
     (fun n => if String.eqb n "a" then 0 else if String.eqb n "b" then 1 else 2) u
     < (fun n => if String.eqb n "a" then 0 else if String.eqb n "b" then 1 else 2) v)
  /\ sort_order aud_net = Ok ["a"; "b"; "c"]%string.
Proof.
  split; [|vm_compute; reflexivity].
  intros u v p H. simpl in H. repeat destruct H as [H|H]; try contradiction; injection H as <- <- <-; vm_compute; repeat constructor.
Qed.

Example C03_execute_total_nonvacuous :
  sort_order aud_net = Ok ["a"; "b"; "c"]%string
  /\ (forall a x b, ["a"; "b"; "c"]%string = a ++ x :: b -> forall y p, In (x, y, p) (c_edges aud_net) -> In y b)
  /\ (forall x, In x ["a"; "b"; "c"]%string -> has x (c_nodes aud_net) = true)
  /\ eclosed aud_net
  /\ (forall n c, lookup n (c_nodes aud_net) = Some c ->
        (c_out c = None /\ c_op c <> None) \/ (c_out c <> None /\ c_op c = None))
  /\ (forall n c, lookup n (c_nodes aud_net) = Some c -> c_op c = Some OpTuple ->
        forall u p, In (u, p) (preds (c_edges aud_net) n) -> exists i, p = PInt i)
  /\ (forall o, In o (c_outputs aud_net) -> has o (c_nodes aud_net) = true)
  /\ exists out log c', execute aud_net empty_cache = Ok (out, log, c') /\ log = ["b"; "c"]%string.
Proof.
  assert (Hs : sort_order aud_net = Ok ["a"; "b"; "c"]%string) by (vm_compute; reflexivity).
  split; [exact Hs|]. split; [exact (C03_sort_order_topological _ _ Hs)|].
  split; [intros x H; simpl in H; repeat destruct H as [<-|H]; try contradiction; reflexivity|].
  split; [intros e H; simpl in H; repeat destruct H as [<-|H]; try contradiction; split; reflexivity|].
  split.
  { intros n c H. cbn in H.
    destruct (String.eqb n "b"); [injection H as <-; left; split; [reflexivity|discriminate]|].
    destruct (String.eqb n "a"); [injection H as <-; right; split; [discriminate|reflexivity]|].
    destruct (String.eqb n "c"); [injection H as <-; left; split; [reflexivity|discriminate]|discriminate]. }
  split.
  { intros n c H. cbn in H.
    destruct (String.eqb n "b"); [injection H as <-; discriminate|].
    destruct (String.eqb n "a"); [injection H as <-; discriminate|].
    destruct (String.eqb n "c"); [injection H as <-; discriminate|discriminate]. }
  split; [intros o H; simpl in H; repeat destruct H as [<-|H]; try contradiction; reflexivity|].
  vm_compute. do 3 eexists. split; reflexivity.
Qed.
