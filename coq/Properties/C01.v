(** C01 — rejection ABC returns exactly the best simulated draws, row-consistent.
    Model: Sched/Reject.v (buffer of n+b rows, merge, stable lexsort, state meta, batch estimator).
    Proofs: Proofs/C01_Sorting.v, C01_Reject.v, C01_Estimator.v, C01_History.v, C01_OkMeaning.v. *)
From Coq Require Import List ZArith NArith Arith Bool Sorting.Permutation Sorting.Sorted PrimFloat Lia.
From Elfi Require Import Sched.Sched Sched.Reject Proofs.C01_Sorting Proofs.C01_Reject Proofs.C01_Estimator Proofs.C01_History Proofs.C01_OkMeaning.
Import ListNotations.

(** After every history of consumed batches (any number, any content, at most batch_size rows each)
    the buffer invariant holds for the accepted draws consumed so far; n_samples, batch_size and the
    threshold stay fixed and n_batches counts the consumed batches. *)
Theorem C01_invariant_all_histories :
  forall bs s acc,
    RInv (r_n s) (r_b s) (bufof s) acc ->
    Forall (fun batch => length batch <= r_b s) bs ->
    let s' := consume s bs in
    RInv (r_n s) (r_b s) (bufof s') (acc ++ filter (accepts (r_thr s)) (concat bs))
    /\ r_n s' = r_n s /\ r_b s' = r_b s /\ r_thr s' = r_thr s /\ r_nbatches s' = r_nbatches s + length bs.
Proof. exact consume_invariant. Qed.
Print Assumptions C01_invariant_all_histories.

Theorem C01_invariant_initially : forall n b, RInv n b (repeat None (n + b)) [].
Proof. exact RInv_init. Qed.
Print Assumptions C01_invariant_initially.

(** What is returned: the first n rows are in ascending discrepancy order; the rows holding a draw
    are accepted consumed draws, each used at most as often as it was simulated (a whole row is
    carried, so every output column of a returned row comes from the same draw); every accepted
    consumed draw that is left out is no better than any returned row (free choice only among equal
    discrepancies); and a row that is no simulated draw appears only when fewer than n_samples
    draws were accepted. *)
Theorem C01_returns_best_draws :
  forall n b buf acc,
    RInv n b buf acc ->
    let rows := firstn n buf in
    ascending rows = true
    /\ (exists rest, Permutation (filled rows ++ rest) acc
                     /\ forall x y, In x rest -> In y rows -> dle (sdisc y) (d_disc x) = true)
    /\ (n <= length acc -> forall s, In s rows -> s <> None).
Proof. exact extract_topn. Qed.
Print Assumptions C01_returns_best_draws.

(** With a threshold every returned draw has discrepancy <= threshold. *)
Theorem C01_within_threshold :
  forall n b buf acc thr consumed,
    RInv n b buf acc -> acc = filter (accepts (Some thr)) consumed ->
    forall d, In (Some d) (firstn n buf) -> dle (d_disc d) thr = true.
Proof. exact returned_within_threshold. Qed.
Print Assumptions C01_within_threshold.

(** With a simulation budget (n_sim, or ceil(n_samples/quantile)) the sequential run consumes exactly
    the objective's number of batches — and by C04 so does every schedule. *)
Theorem C01_budget_batches_exact :
  forall table fuel s i,
    r_thr s = None -> r_nbatches s <= r_objective s -> r_objective s - r_nbatches s <= fuel ->
    exists s', seq_run rstate (list draw) unit r_objective r_nbatches (fun _ _ => tt) (batch_of table) rupdate fuel s i
               = Some (s', i + (r_objective s - r_nbatches s))
               /\ r_nbatches s' = r_objective s /\ r_objective s' = r_objective s.
Proof. exact budget_batches_exact. Qed.
Print Assumptions C01_budget_batches_exact.

(** The binary64 batch estimator of the threshold form never stops before n_samples acceptable
    draws are held, and asks for at most one batch too many once they are — on the stated finite
    domain (n <= 12, batch_size <= 6, k <= 16 consumed batches), by evaluation. *)
Theorem C01_estimator_safe_on_domain :
  forall n b k acc,
    1 <= n <= 12 -> 1 <= b <= 6 -> 1 <= k <= 16 -> 1 <= acc <= n + b ->
    (stops n b k acc = true -> n <= acc) /\ (n <= acc -> estimate_batches n b (k * b) acc 0 <= S k).
Proof. exact estimator_safe. Qed.
Print Assumptions C01_estimator_safe_on_domain.

(** The same on an UNBOUNDED domain (every n_samples and every n_sim = k * batch_size up to 2^40, any
    current objective): with k batches consumed and fewer than n_samples acceptable draws the
    binary64 estimate asks for at least one more batch, so the run cannot stop early; once n_samples
    are held it asks for at most one batch beyond the k consumed. Proved by a rounding-error analysis
    of the five binary64 operations (Flocq), not by evaluation; the axioms listed are the standard
    library's specifications of the primitive floats / integers and the classical real numbers. *)
Theorem C01_estimator_safe_unbounded :
  forall n b k acc objective,
    1 <= n -> 1 <= b -> 1 <= k -> 1 <= acc <= n + b ->
    (Z.of_nat n <= 2 ^ 40)%Z -> (Z.of_nat (k * b) <= 2 ^ 40)%Z ->
    (acc < n -> k < estimate_batches n b (k * b) acc objective) /\
    (n <= acc -> estimate_batches n b (k * b) acc objective <= S k).
Proof. exact estimator_safe_unbounded. Qed.
Print Assumptions C01_estimator_safe_unbounded.

(** in the shape of the finite-domain statement *)
Theorem C01_estimator_safe_unbounded_stops :
  forall n b k acc,
    1 <= n -> 1 <= b -> 1 <= k -> 1 <= acc <= n + b ->
    (Z.of_nat n <= 2 ^ 40)%Z -> (Z.of_nat (k * b) <= 2 ^ 40)%Z ->
    (stops n b k acc = true -> n <= acc) /\ (n <= acc -> estimate_batches n b (k * b) acc 0 <= S k).
Proof. exact estimator_safe_unbounded_stops. Qed.
Print Assumptions C01_estimator_safe_unbounded_stops.

(** Non-vacuity outside the old finite domain: n = 1000, batch_size = 100, 37 batches consumed, 12
    acceptable draws — the theorem's bound 37 < estimate, against the evaluated estimate 3084. *)
Example C01_estimator_unbounded_example :
  estimate_batches 1000 100 (37 * 100) 12 0 = 3084
  /\ 37 < estimate_batches 1000 100 (37 * 100) 12 0.
Proof.
  split; [vm_compute; reflexivity|].
  destruct (C01_estimator_safe_unbounded 1000 100 37 12 0) as [H _]; [lia..|]. apply H. lia.
Qed.

(** The sort the buffer relies on: a sorted permutation (stable insertion sort by (distance, unfilled)). *)
Theorem C01_sort_is_sorted_permutation :
  forall l, Permutation (Reject.ssort l) l /\ Sorted.StronglySorted (leP slot kle) (Reject.ssort l).
Proof. intros l. split; [apply ssort_perm | apply ssort_sorted]. Qed.
Print Assumptions C01_sort_is_sorted_permutation.

(** Non-vacuity: ties at the cut, an infinite discrepancy and a batch size not dividing the budget. *)
Definition dz (z : Z) (c : N) : draw := {| d_disc := Fin z; d_code := c |}.
Definition di (c : N) : draw := {| d_disc := PInf; d_code := c |}.
Example C01_example :
  let table := [[dz 3 0; di 1; dz 1 2]; [dz 1 3; dz 3 4; dz 2 5]; [di 6; dz 1 7; dz 0 8]] in
  match rseq 10 (rinit 4 3 None (fst (initial_objective 4 3 (ByNsim 7)))) table with
  | Some (s, n) =>
      Nat.eqb n 3
      && rows_eqb (res_rows (extract s)) [Some (dz 0 8); Some (dz 1 2); Some (dz 1 3); Some (dz 1 7)]
      && deqb (res_threshold (extract s)) (Fin 1) && Nat.eqb (res_n_sim (extract s)) 9
  | None => false
  end = true.
Proof. vm_compute. reflexivity. Qed.

(** ---- histories: several sample()/infer() runs on ONE Rejection instance ---- *)

(** No cross-run state: whatever the instance went through before ([prev]: nothing, or the final
    state of any earlier run), each run of a history gives exactly the fresh run's result. *)
Theorem C01_history_runs_are_fresh :
  forall h prev, history_results prev h = map model_result h.
Proof. exact history_results_fresh. Qed.
Print Assumptions C01_history_runs_are_fresh.

(** The history correspondence [hagree] is the single-run correspondence of every run (same instance). *)
Theorem C01_history_correspondence_each_run :
  forall h, hagree h = same_instance h && forallb agree (h_runs h).
Proof. exact hagree_each_fresh. Qed.
Print Assumptions C01_history_correspondence_each_run.

Theorem C01_history_ok_each_run :
  forall h, hok h = true -> Forall (fun c => ok c = true /\ c_b c = h_b h) (h_runs h).
Proof. exact hok_each. Qed.
Print Assumptions C01_history_ok_each_run.

(** Every finished run of every history, from any prior instance state and for every objective form
    (any threshold, also 0 or one equal to an attained discrepancy): the returned rows are ascending,
    the rows holding a draw are accepted draws among exactly the batches THIS run consumed (with
    multiplicity, whole rows), nothing left out is better, with n_samples accepted draws there are
    exactly n_samples rows and each holds a draw, all are <= the threshold when one was given, and
    n_sim = n_batches * batch_size. *)
Theorem C01_every_run_of_every_history_best :
  forall h prev,
    Forall (fun c => Forall (fun batch => length batch <= c_b c) (c_table c)) h ->
    Forall2 (fun c r => forall res, r = Some res -> 0 < res_n_batches res ->
               returns_best (c_n c) (snd (initial_objective (c_n c) (c_b c) (c_form c)))
                            (concat (firstn (res_n_batches res) (c_table c))) (res_rows res)
               /\ res_n_sim res = res_n_batches res * c_b c)
            h (history_results prev h).
Proof. exact history_every_run_best. Qed.
Print Assumptions C01_every_run_of_every_history_best.

(** Non-vacuity: one instance (batch_size 2), first a budget run that fills its buffer, then a run that
    must return infinite-distance draws (fewer than n finite ones), then an exact-match run (threshold 0). *)
Definition mk (n b : nat) (f : objective_form) (t : list (list draw)) : case :=
  {| c_n := n; c_b := b; c_form := f; c_table := t; c_rows := []; c_threshold := PInf; c_n_sim := 0; c_n_batches := 0 |}.
Example C01_history_example :
  let t := [[dz 2 0; di 1]; [di 2; dz 0 3]; [di 4; di 5]; [dz 0 6; dz 1 7]] in
  match history_results None [mk 2 2 (ByNsim 4) t; mk 4 2 (ByNsim 5) t; mk 2 2 (ByThreshold (Fin 0) 1) t] with
  | [Some r1; Some r2; Some r3] =>
      rows_eqb (res_rows r1) [Some (dz 0 3); Some (dz 2 0)] && Nat.eqb (res_n_batches r1) 2
      && rows_eqb (res_rows r2) [Some (dz 0 3); Some (dz 2 0); Some (di 1); Some (di 2)] && Nat.eqb (res_n_batches r2) 3
      && rows_eqb (res_rows r3) [Some (dz 0 3); Some (dz 0 6)] && Nat.eqb (res_n_batches r3) 4
      && deqb (res_threshold r3) (Fin 0)
  | _ => false
  end = true.
Proof. vm_compute. reflexivity. Qed.

(** ---- what the check [ok] evaluated on the IMPLEMENTATION's result means ---- *)

(** The property text, clause by clause, for a case [c] = the run's inputs (n_samples [c_n], batch_size
    [c_b], the objective form [c_form]), every batch it consumed ([c_table]) and what the implementation
    returned ([c_rows], [c_threshold], [c_n_sim], [c_n_batches]). [thr] is the threshold of a threshold-form
    objective (None for the n_sim / quantile forms); [acc] the accepted draws among all consumed ones.
    Draws are compared by Leibniz equality (discrepancy and row code: [deqb_eq], [draw_eqb_eq]), so
    "with multiplicity" is a plain [Permutation]. *)
Definition C01_ok_statement (c : case) : Prop :=
  let thr := match c_form c with ByThreshold t _ => Some t | _ => None end in
  let acc := filter (accepts thr) (concat (c_table c)) in
  (* exactly n_samples rows are returned *)
  length (c_rows c) = c_n c
  (* in ascending order of discrepancy: an earlier row is no worse than any later row *)
  /\ (forall i j, i < j < length (c_rows c) ->
        dle (sdisc (nth i (c_rows c) None)) (sdisc (nth j (c_rows c) None)) = true)
  (* every returned row holds a draw *)
  /\ (forall s, In s (c_rows c) -> s <> None)
  (* the returned rows are accepted consumed draws, each whole (discrepancy and row code from one draw)
     and used at most as often as it was simulated; [rest] = the accepted consumed draws left out, none
     of which is strictly better than the reported threshold *)
  /\ (exists rest, Permutation (filled (c_rows c) ++ rest) acc
                   /\ forall x, In x rest -> dle (c_threshold c) (d_disc x) = true)
  (* the reported threshold is the discrepancy of the last (worst) returned row *)
  /\ c_threshold c = sdisc (last (c_rows c) None)
  (* n_sim = batch_size * n_batches, and n_batches counts the consumed batches *)
  /\ c_n_sim c = c_b c * c_n_batches c
  /\ c_n_batches c = length (c_table c)
  (* with a simulation budget (n_sim or quantile form) exactly the objective's number of batches *)
  /\ ((forall t maxp, c_form c <> ByThreshold t maxp) ->
      c_n_batches c = fst (initial_objective (c_n c) (c_b c) (c_form c)))
  (* with a threshold every returned row is within it *)
  /\ (forall t, thr = Some t -> forall s, In s (c_rows c) -> dle (sdisc s) t = true).

Theorem C01_ok_meaning : forall c, ok c = true -> C01_ok_statement c.
Proof. exact ok_meaning. Qed.
Print Assumptions C01_ok_meaning.

(** and nothing more: the check accepts every result of which the statement holds *)
Theorem C01_ok_iff_spec : forall c, ok c = true <-> C01_ok_statement c.
Proof. exact ok_iff_spec. Qed.
Print Assumptions C01_ok_iff_spec.

(** hence every returned row is no worse than every accepted consumed draw left out *)
Theorem C01_ok_rows_best :
  forall c, ok c = true ->
    exists rest,
      Permutation (filled (c_rows c) ++ rest)
                  (filter (accepts (match c_form c with ByThreshold t _ => Some t | _ => None end)) (concat (c_table c)))
      /\ forall x s, In x rest -> In s (c_rows c) -> dle (sdisc s) (d_disc x) = true.
Proof. exact ok_rows_best. Qed.
Print Assumptions C01_ok_rows_best.

(** Non-vacuity: n_samples 2, batch_size 2, budget n_sim = 4 (two batches); the two best draws pass, and
    the same result with the second-best draw replaced by a worse consumed one does not. *)
Example C01_ok_example :
  let t := [[dz 2 0; di 1]; [di 2; dz 0 3]] in
  let c rows thr := {| c_n := 2; c_b := 2; c_form := ByNsim 4; c_table := t; c_rows := rows;
                       c_threshold := thr; c_n_sim := 4; c_n_batches := 2 |} in
  ok (c [Some (dz 0 3); Some (dz 2 0)] (Fin 2)) = true
  /\ ok (c [Some (dz 0 3); Some (di 1)] PInf) = false.
Proof. vm_compute. split; reflexivity. Qed.
