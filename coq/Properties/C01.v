(** C01 — rejection ABC returns exactly the best simulated draws, row-consistent.
    Model: Sched/Reject.v (buffer of n+b rows, merge, stable lexsort, state meta, batch estimator).
    Proofs: Proofs/C01_Sorting.v, C01_Reject.v, C01_Estimator.v, C01_History.v, C01_OkMeaning.v, C01_ModelOk.v. *)
From Coq Require Import List ZArith NArith Arith Bool Sorting.Permutation Sorting.Sorted PrimFloat Lia.
From Elfi Require Import Sched.Sched Sched.Reject Proofs.C01_Sorting Proofs.C01_Reject Proofs.C01_Estimator Proofs.C01_History Proofs.C01_OkMeaning Proofs.C01_ModelOk.
Import ListNotations.

(** After every history of consumed batches (any number, any content, at most batch_size rows each)
    the buffer invariant holds for the accepted draws consumed so far; n_samples, batch_size and the
    threshold stay fixed and n_batches counts the consumed batches. *)
Theorem C01_invariant_all_histories :
  forall bs s acc,
    RInv (r_n s) (r_b s) (bufof s) acc ->
    Forall (fun batch => length batch <= r_b s) bs ->
    let s' := consume s bs in
    RInv (r_n s) (r_b s) (bufof s') (acc ++ filter (accepts (r_thr s)) (concat bs))
    /\ r_n s' = r_n s /\ r_b s' = r_b s /\ r_thr s' = r_thr s /\ r_nbatches s' = r_nbatches s + length bs.
Proof. exact consume_invariant. Qed.
Print Assumptions C01_invariant_all_histories.

Theorem C01_invariant_initially : forall n b, RInv n b (repeat None (n + b)) [].
Proof. exact RInv_init. Qed.
Print Assumptions C01_invariant_initially.

(** What is returned: the first n rows are in ascending discrepancy order; the rows holding a draw
    are accepted consumed draws, each used at most as often as it was simulated (a whole row is
    carried, so every output column of a returned row comes from the same draw); every accepted
    consumed draw that is left out is no better than any returned row (free choice only among equal
    discrepancies); and a row that is no simulated draw appears only when fewer than n_samples
    draws were accepted. *)
Theorem C01_returns_best_draws :
  forall n b buf acc,
    RInv n b buf acc ->
    let rows := firstn n buf in
    ascending rows = true
    /\ (exists rest, Permutation (filled rows ++ rest) acc
                     /\ forall x y, In x rest -> In y rows -> dle (sdisc y) (d_disc x) = true)
    /\ (n <= length acc -> forall s, In s rows -> s <> None).
Proof. exact extract_topn. Qed.
Print Assumptions C01_returns_best_draws.

(** With a threshold every returned draw has discrepancy <= threshold. *)
Theorem C01_within_threshold :
  forall n b buf acc thr consumed,
    RInv n b buf acc -> acc = filter (accepts (Some thr)) consumed ->
    forall d, In (Some d) (firstn n buf) -> dle (d_disc d) thr = true.
Proof. exact returned_within_threshold. Qed.
Print Assumptions C01_within_threshold.

(** With a simulation budget (n_sim, or ceil(n_samples/quantile)) the sequential run consumes exactly
    the objective's number of batches — and by C04 so does every schedule. *)
Theorem C01_budget_batches_exact :
  forall table fuel s i,
    r_thr s = None -> r_nbatches s <= r_objective s -> r_objective s - r_nbatches s <= fuel ->
    exists s', seq_run rstate (list draw) unit r_objective r_nbatches (fun _ _ => tt) (batch_of table) rupdate fuel s i
               = Some (s', i + (r_objective s - r_nbatches s))
               /\ r_nbatches s' = r_objective s /\ r_objective s' = r_objective s.
Proof. exact budget_batches_exact. Qed.
Print Assumptions C01_budget_batches_exact.

(** The binary64 batch estimator of the threshold form never stops before n_samples acceptable
    draws are held, and asks for at most one batch too many once they are — on the stated finite
    domain (n <= 12, batch_size <= 6, k <= 16 consumed batches), by evaluation. *)
Theorem C01_estimator_safe_on_domain :
  forall n b k acc,
    1 <= n <= 12 -> 1 <= b <= 6 -> 1 <= k <= 16 -> 1 <= acc <= n + b ->
    (stops n b k acc = true -> n <= acc) /\ (n <= acc -> estimate_batches n b (k * b) acc 0 <= S k).
Proof. exact estimator_safe. Qed.
Print Assumptions C01_estimator_safe_on_domain.

(** The same on an UNBOUNDED domain (every n_samples and every n_sim = k * batch_size up to 2^40, any
    current objective): with k batches consumed and fewer than n_samples acceptable draws the
    binary64 estimate asks for at least one more batch, so the run cannot stop early; once n_samples
    are held it asks for at most one batch beyond the k consumed. Proved by a rounding-error analysis
    of the five binary64 operations (Flocq), not by evaluation; the axioms listed are the standard
    library's specifications of the primitive floats / integers and the classical real numbers. *)
Theorem C01_estimator_safe_unbounded :
  forall n b k acc objective,
    1 <= n -> 1 <= b -> 1 <= k -> 1 <= acc <= n + b ->
    (Z.of_nat n <= 2 ^ 40)%Z -> (Z.of_nat (k * b) <= 2 ^ 40)%Z ->
    (acc < n -> k < estimate_batches n b (k * b) acc objective) /\
    (n <= acc -> estimate_batches n b (k * b) acc objective <= S k).
Proof. exact estimator_safe_unbounded. Qed.
Print Assumptions C01_estimator_safe_unbounded.

(** in the shape of the finite-domain statement *)
Theorem C01_estimator_safe_unbounded_stops :
  forall n b k acc,
    1 <= n -> 1 <= b -> 1 <= k -> 1 <= acc <= n + b ->
    (Z.of_nat n <= 2 ^ 40)%Z -> (Z.of_nat (k * b) <= 2 ^ 40)%Z ->
    (stops n b k acc = true -> n <= acc) /\ (n <= acc -> estimate_batches n b (k * b) acc 0 <= S k).
Proof. exact estimator_safe_unbounded_stops. Qed.
Print Assumptions C01_estimator_safe_unbounded_stops.

(** Non-vacuity outside the old finite domain: n = 1000, batch_size = 100, 37 batches consumed, 12
    acceptable draws — the theorem's bound 37 < estimate, against the evaluated estimate 3084. *)
Example C01_estimator_unbounded_example :
  estimate_batches 1000 100 (37 * 100) 12 0 = 3084
  /\ 37 < estimate_batches 1000 100 (37 * 100) 12 0.
Proof.
  split; [vm_compute; reflexivity|].
  destruct (C01_estimator_safe_unbounded 1000 100 37 12 0) as [H _]; [lia..|]. apply H. lia.
Qed.

(** The sort the buffer relies on: a sorted permutation (stable insertion sort by (distance, unfilled)). *)
Theorem C01_sort_is_sorted_permutation :
  forall l, Permutation (Reject.ssort l) l /\ Sorted.StronglySorted (leP slot kle) (Reject.ssort l).
Proof. intros l. split; [apply ssort_perm | apply ssort_sorted]. Qed.
Print Assumptions C01_sort_is_sorted_permutation.

(** Non-vacuity: ties at the cut, an infinite discrepancy and a batch size not dividing the budget. *)
Definition dz (z : Z) (c : N) : draw := {| d_disc := Fin z; d_code := c |}.
Definition di (c : N) : draw := {| d_disc := PInf; d_code := c |}.
Example C01_example :
  let table := [[dz 3 0; di 1; dz 1 2]; [dz 1 3; dz 3 4; dz 2 5]; [di 6; dz 1 7; dz 0 8]] in
  match rseq 10 (rinit 4 3 None (fst (initial_objective 4 3 (ByNsim 7)))) table with
  | Some (s, n) =>
      Nat.eqb n 3
      && rows_eqb (res_rows (extract s)) [Some (dz 0 8); Some (dz 1 2); Some (dz 1 3); Some (dz 1 7)]
      && deqb (res_threshold (extract s)) (Fin 1) && Nat.eqb (res_n_sim (extract s)) 9
  | None => false
  end = true.
Proof. vm_compute. reflexivity. Qed.

(** ---- histories: several sample()/infer() runs on ONE Rejection instance ---- *)

(** No cross-run state: whatever the instance went through before ([prev]: nothing, or the final
    state of any earlier run), each run of a history gives exactly the fresh run's result. *)
Theorem C01_history_runs_are_fresh :
  forall h prev, history_results prev h = map model_result h.
Proof. exact history_results_fresh. Qed.
Print Assumptions C01_history_runs_are_fresh.

(** The history correspondence [hagree] is the single-run correspondence of every run (same instance). *)
Theorem C01_history_correspondence_each_run :
  forall h, hagree h = same_instance h && forallb agree (h_runs h).
Proof. exact hagree_each_fresh. Qed.
Print Assumptions C01_history_correspondence_each_run.

Theorem C01_history_ok_each_run :
  forall h, hok h = true -> Forall (fun c => ok c = true /\ c_b c = h_b h) (h_runs h).
Proof. exact hok_each. Qed.
Print Assumptions C01_history_ok_each_run.

(** Every finished run of every history, from any prior instance state and for every objective form
    (any threshold, also 0 or one equal to an attained discrepancy): the returned rows are ascending,
    the rows holding a draw are accepted draws among exactly the batches THIS run consumed (with
    multiplicity, whole rows), nothing left out is better, with n_samples accepted draws there are
    exactly n_samples rows and each holds a draw, all are <= the threshold when one was given, and
    n_sim = n_batches * batch_size. *)
Theorem C01_every_run_of_every_history_best :
  forall h prev,
    Forall (fun c => Forall (fun batch => length batch <= c_b c) (c_table c)) h ->
    Forall2 (fun c r => forall res, r = Some res -> 0 < res_n_batches res ->
               returns_best (c_n c) (snd (initial_objective (c_n c) (c_b c) (c_form c)))
                            (concat (firstn (res_n_batches res) (c_table c))) (res_rows res)
               /\ res_n_sim res = res_n_batches res * c_b c)
            h (history_results prev h).
Proof. exact history_every_run_best. Qed.
Print Assumptions C01_every_run_of_every_history_best.

(** Non-vacuity: one instance (batch_size 2), first a budget run that fills its buffer, then a run that
    must return infinite-distance draws (fewer than n finite ones), then an exact-match run (threshold 0). *)
Definition mk (n b : nat) (f : objective_form) (t : list (list draw)) : case :=
  {| c_n := n; c_b := b; c_form := f; c_table := t; c_rows := []; c_threshold := PInf; c_n_sim := 0; c_n_batches := 0 |}.
Example C01_history_example :
  let t := [[dz 2 0; di 1]; [di 2; dz 0 3]; [di 4; di 5]; [dz 0 6; dz 1 7]] in
  match history_results None [mk 2 2 (ByNsim 4) t; mk 4 2 (ByNsim 5) t; mk 2 2 (ByThreshold (Fin 0) 1) t] with
  | [Some r1; Some r2; Some r3] =>
      rows_eqb (res_rows r1) [Some (dz 0 3); Some (dz 2 0)] && Nat.eqb (res_n_batches r1) 2
      && rows_eqb (res_rows r2) [Some (dz 0 3); Some (dz 2 0); Some (di 1); Some (di 2)] && Nat.eqb (res_n_batches r2) 3
      && rows_eqb (res_rows r3) [Some (dz 0 3); Some (dz 0 6)] && Nat.eqb (res_n_batches r3) 4
      && deqb (res_threshold r3) (Fin 0)
  | _ => false
  end = true.
Proof. vm_compute. reflexivity. Qed.

(** ---- what the check [ok] evaluated on the IMPLEMENTATION's result means ---- *)

(** The property text, clause by clause, for a case [c] = the run's inputs (n_samples [c_n], batch_size
    [c_b], the objective form [c_form]), every batch it consumed ([c_table]) and what the implementation
    returned ([c_rows], [c_threshold], [c_n_sim], [c_n_batches]). [thr] is the threshold of a threshold-form
    objective (None for the n_sim / quantile forms); [acc] the accepted draws among all consumed ones.
    Draws are compared by Leibniz equality (discrepancy and row code: [deqb_eq], [draw_eqb_eq]), so
    "with multiplicity" is a plain [Permutation]. *)
Definition C01_ok_statement (c : case) : Prop :=
  let thr := match c_form c with ByThreshold t _ => Some t | _ => None end in
  let acc := filter (accepts thr) (concat (c_table c)) in
  (* exactly n_samples rows are returned *)
  length (c_rows c) = c_n c
  (* in ascending order of discrepancy: an earlier row is no worse than any later row *)
  /\ (forall i j, i < j < length (c_rows c) ->
        dle (sdisc (nth i (c_rows c) None)) (sdisc (nth j (c_rows c) None)) = true)
  (* every returned row holds a draw *)
  /\ (forall s, In s (c_rows c) -> s <> None)
  (* the returned rows are accepted consumed draws, each whole (discrepancy and row code from one draw)
     and used at most as often as it was simulated; [rest] = the accepted consumed draws left out, none
     of which is strictly better than the reported threshold *)
  /\ (exists rest, Permutation (filled (c_rows c) ++ rest) acc
                   /\ forall x, In x rest -> dle (c_threshold c) (d_disc x) = true)
  (* the reported threshold is the discrepancy of the last (worst) returned row *)
  /\ c_threshold c = sdisc (last (c_rows c) None)
  (* n_sim = batch_size * n_batches, and n_batches counts the consumed batches *)
  /\ c_n_sim c = c_b c * c_n_batches c
  /\ c_n_batches c = length (c_table c)
  (* with a simulation budget (n_sim or quantile form) exactly the objective's number of batches *)
  /\ ((forall t maxp, c_form c <> ByThreshold t maxp) ->
      c_n_batches c = fst (initial_objective (c_n c) (c_b c) (c_form c)))
  (* with a threshold every returned row is within it *)
  /\ (forall t, thr = Some t -> forall s, In s (c_rows c) -> dle (sdisc s) t = true).

Theorem C01_ok_meaning : forall c, ok c = true -> C01_ok_statement c.
Proof. exact ok_meaning. Qed.
Print Assumptions C01_ok_meaning.

(** and nothing more: the check accepts every result of which the statement holds *)
Theorem C01_ok_iff_spec : forall c, ok c = true <-> C01_ok_statement c.
Proof. exact ok_iff_spec. Qed.
Print Assumptions C01_ok_iff_spec.

(** hence every returned row is no worse than every accepted consumed draw left out *)
Theorem C01_ok_rows_best :
  forall c, ok c = true ->
    exists rest,
      Permutation (filled (c_rows c) ++ rest)
                  (filter (accepts (match c_form c with ByThreshold t _ => Some t | _ => None end)) (concat (c_table c)))
      /\ forall x s, In x rest -> In s (c_rows c) -> dle (sdisc s) (d_disc x) = true.
Proof. exact ok_rows_best. Qed.
Print Assumptions C01_ok_rows_best.

(** Non-vacuity: n_samples 2, batch_size 2, budget n_sim = 4 (two batches); the two best draws pass, and
    the same result with the second-best draw replaced by a worse consumed one does not. *)
Example C01_ok_example :
  let t := [[dz 2 0; di 1]; [di 2; dz 0 3]] in
  let c rows thr := {| c_n := 2; c_b := 2; c_form := ByNsim 4; c_table := t; c_rows := rows;
                       c_threshold := thr; c_n_sim := 4; c_n_batches := 2 |} in
  ok (c [Some (dz 0 3); Some (dz 2 0)] (Fin 2)) = true
  /\ ok (c [Some (dz 0 3); Some (di 1)] PInf) = false.
Proof. vm_compute. split; reflexivity. Qed.

(** ---- non-vacuity of the hypotheses (audit) ---- *)
(** a budget-form instance (n_samples 4, batch_size 3, no threshold) that has consumed one batch, then
    consumes two more: ties, an infinite discrepancy, 9 accepted draws for 4 rows *)
Definition c01au_b1 : list draw := [dz 3 0; di 1; dz 1 2].
Definition c01au_b23 : list (list draw) := [[dz 1 3; dz 3 4; dz 2 5]; [di 6; dz 1 7; dz 0 8]].
Definition c01au_s0 : rstate := rinit 4 3 None 3.
Definition c01au_s1 : rstate := consume c01au_s0 [c01au_b1].

Example C01_audit_s1_invariant : RInv (r_n c01au_s1) (r_b c01au_s1) (bufof c01au_s1) c01au_b1 /\ r_nbatches c01au_s1 = 1.
Proof.
  assert (H0 : RInv (r_n c01au_s0) (r_b c01au_s0) (bufof c01au_s0) []) by (apply C01_invariant_initially).
  assert (HF : Forall (fun batch => length batch <= r_b c01au_s0) [c01au_b1]) by (repeat constructor).
  destruct (C01_invariant_all_histories [c01au_b1] c01au_s0 [] H0 HF) as [H [Hn [Hb [_ Hk]]]].
  fold c01au_s1 in H, Hn, Hb, Hk. rewrite <- Hn, <- Hb in H. split; [exact H | exact Hk].
Qed.

Example C01_invariant_all_histories_nonvacuous :
  RInv (r_n c01au_s1) (r_b c01au_s1) (bufof c01au_s1) c01au_b1
  /\ Forall (fun batch => length batch <= r_b c01au_s1) c01au_b23
  /\ bufof c01au_s1 <> repeat None 7 /\ c01au_b1 <> []
  /\ RInv 4 3 (bufof (consume c01au_s1 c01au_b23)) (c01au_b1 ++ concat c01au_b23)
  /\ r_nbatches (consume c01au_s1 c01au_b23) = 3.
Proof.
  destruct C01_audit_s1_invariant as [H1 Hk].
  assert (HF : Forall (fun batch => length batch <= r_b c01au_s1) c01au_b23) by (repeat constructor).
  split; [exact H1|]. split; [exact HF|]. split; [vm_compute; discriminate|]. split; [discriminate|].
  destruct (C01_invariant_all_histories c01au_b23 c01au_s1 c01au_b1 H1 HF) as [H [_ [_ [_ Hk']]]].
  split; [exact H | rewrite Hk', Hk; reflexivity].
Qed.

Example C01_returns_best_draws_nonvacuous :
  let buf := bufof (consume c01au_s1 c01au_b23) in
  let acc := c01au_b1 ++ concat c01au_b23 in
  RInv 4 3 buf acc /\ 4 <= length acc
  /\ firstn 4 buf = [Some (dz 0 8); Some (dz 1 2); Some (dz 1 3); Some (dz 1 7)]
  /\ ascending (firstn 4 buf) = true /\ (forall s, In s (firstn 4 buf) -> s <> None).
Proof.
  intros buf acc.
  destruct C01_invariant_all_histories_nonvacuous as [_ [_ [_ [_ [H _]]]]].
  assert (Hl : 4 <= length acc) by (vm_compute; repeat constructor).
  split; [exact H|]. split; [exact Hl|]. split; [vm_compute; reflexivity|].
  destruct (C01_returns_best_draws 4 3 buf acc H) as [Ha [_ Hn]].
  split; [exact Ha | exact (Hn Hl)].
Qed.

(** a threshold-form instance (n_samples 2, batch_size 3, threshold 1): 4 of the 9 draws are accepted *)
Example C01_within_threshold_nonvacuous :
  let s := consume (rinit 2 3 (Some (Fin 1)) 1) (c01au_b1 :: c01au_b23) in
  let consumed := concat (c01au_b1 :: c01au_b23) in
  let acc := filter (accepts (Some (Fin 1))) consumed in
  RInv 2 3 (bufof s) acc /\ acc = [dz 1 2; dz 1 3; dz 1 7; dz 0 8]
  /\ In (Some (dz 1 2)) (firstn 2 (bufof s)) /\ dle (d_disc (dz 1 2)) (Fin 1) = true.
Proof.
  intros s consumed acc.
  assert (H0 : RInv 2 3 (bufof (rinit 2 3 (Some (Fin 1)) 1)) []) by (apply C01_invariant_initially).
  assert (HF : Forall (fun batch => length batch <= 3) (c01au_b1 :: c01au_b23)) by (repeat constructor).
  destruct (C01_invariant_all_histories (c01au_b1 :: c01au_b23) (rinit 2 3 (Some (Fin 1)) 1) [] H0 HF) as [H _].
  change (RInv 2 3 (bufof s) acc) in H.
  assert (Hin : In (Some (dz 1 2)) (firstn 2 (bufof s))) by (vm_compute; tauto).
  split; [exact H|]. split; [vm_compute; reflexivity|]. split; [exact Hin|].
  exact (C01_within_threshold 2 3 (bufof s) acc (Fin 1) consumed H eq_refl (dz 1 2) Hin).
Qed.

(** budget form, one batch already consumed of an objective of three *)
Example C01_budget_batches_exact_nonvacuous :
  r_thr c01au_s1 = None /\ r_nbatches c01au_s1 <= r_objective c01au_s1 /\ r_objective c01au_s1 - r_nbatches c01au_s1 <= 10
  /\ r_objective c01au_s1 - r_nbatches c01au_s1 = 2
  /\ exists s', seq_run rstate (list draw) unit r_objective r_nbatches (fun _ _ => tt) (batch_of (c01au_b1 :: c01au_b23)) rupdate 10 c01au_s1 1
                = Some (s', 3) /\ r_nbatches s' = 3.
Proof.
  assert (H1 : r_thr c01au_s1 = None) by reflexivity.
  assert (H2 : r_nbatches c01au_s1 <= r_objective c01au_s1) by (vm_compute; repeat constructor).
  assert (H3 : r_objective c01au_s1 - r_nbatches c01au_s1 <= 10) by (vm_compute; repeat constructor).
  split; [exact H1|]. split; [exact H2|]. split; [exact H3|]. split; [reflexivity|].
  destruct (C01_budget_batches_exact (c01au_b1 :: c01au_b23) 10 c01au_s1 1 H1 H2 H3) as [s' [A [B _]]].
  exists s'. split; [exact A | exact B].
Qed.

(** the estimator: both branches, on the finite domain and far outside it *)
Example C01_estimator_nonvacuous :
  (1 <= 5 <= 12 /\ 1 <= 3 <= 6 /\ 1 <= 4 <= 16 /\ 1 <= 6 <= 5 + 3 /\ stops 5 3 4 6 = true /\ 5 <= 6)
  /\ (1 <= 1000 /\ 1 <= 100 /\ 1 <= 37 /\ 1 <= 1050 <= 1000 + 100
      /\ (Z.of_nat 1000 <= 2 ^ 40)%Z /\ (Z.of_nat (37 * 100) <= 2 ^ 40)%Z
      /\ stops 1000 100 37 1050 = true /\ 1000 <= 1050
      /\ estimate_batches 1000 100 (37 * 100) 1050 7 <= 38).
Proof.
  assert (Hs0 : stops 5 3 4 6 = true) by (vm_compute; reflexivity).
  assert (Hs : stops 1000 100 37 1050 = true) by (vm_compute; reflexivity).
  assert (He : estimate_batches 1000 100 (37 * 100) 1050 7 <= 38).
  { destruct (C01_estimator_safe_unbounded 1000 100 37 1050 7) as [_ H]; [lia..|]. apply H. lia. }
  split.
  - split; [lia|]. split; [lia|]. split; [lia|]. split; [lia|]. split; [exact Hs0 | lia].
  - split; [lia|]. split; [lia|]. split; [lia|]. split; [lia|]. split; [lia|]. split; [lia|].
    split; [exact Hs|]. split; [lia | exact He].
Qed.

(** a two-run history on one instance (batch_size 2) with the results the model returns: [hok] holds *)
Definition c01au_t : list (list draw) := [[dz 2 0; di 1]; [di 2; dz 0 3]; [di 4; di 5]; [dz 0 6; dz 1 7]].
Definition c01au_h : hcase :=
  {| h_b := 2;
     h_runs := [ {| c_n := 2; c_b := 2; c_form := ByNsim 4; c_table := firstn 2 c01au_t;
                    c_rows := [Some (dz 0 3); Some (dz 2 0)]; c_threshold := Fin 2; c_n_sim := 4; c_n_batches := 2 |};
                 {| c_n := 2; c_b := 2; c_form := ByThreshold (Fin 0) 1; c_table := c01au_t;
                    c_rows := [Some (dz 0 3); Some (dz 0 6)]; c_threshold := Fin 0; c_n_sim := 8; c_n_batches := 4 |} ] |}.
Example C01_history_ok_each_run_nonvacuous :
  hok c01au_h = true /\ hagree c01au_h = true
  /\ Forall (fun c => ok c = true /\ c_b c = h_b c01au_h) (h_runs c01au_h).
Proof.
  assert (H : hok c01au_h = true) by (vm_compute; reflexivity).
  split; [exact H|]. split; [vm_compute; reflexivity|]. exact (C01_history_ok_each_run _ H).
Qed.

Example C01_every_run_of_every_history_best_nonvacuous :
  let h := [mk 2 2 (ByNsim 4) c01au_t; mk 4 2 (ByNsim 5) c01au_t; mk 2 2 (ByThreshold (Fin 0) 1) c01au_t] in
  Forall (fun c => Forall (fun batch => length batch <= c_b c) (c_table c)) h
  /\ exists r3, nth_error (history_results None h) 2 = Some (Some r3) /\ 0 < res_n_batches r3
       /\ returns_best 2 (Some (Fin 0)) (concat (firstn (res_n_batches r3) c01au_t)) (res_rows r3)
       /\ res_n_sim r3 = 8.
Proof.
  intros h.
  assert (HF : Forall (fun c => Forall (fun batch => length batch <= c_b c) (c_table c)) h)
    by (repeat constructor).
  split; [exact HF|].
  pose proof (C01_every_run_of_every_history_best h None HF) as H2.
  destruct (history_results None h) as [|r1 [|r2 [|r3 [|]]]] eqn:E; try (vm_compute in E; discriminate).
  inversion H2 as [|? ? ? ? _ H2']; subst. inversion H2' as [|? ? ? ? _ H2'']; subst.
  inversion H2'' as [|? ? ? ? H3 _]; subst.
  vm_compute in E. inversion E; subst. eexists. split; [reflexivity|].
  assert (Hpos : 0 < 4) by lia.
  destruct (H3 _ eq_refl Hpos) as [Hb Hs]. split; [exact Hpos|]. split; [exact Hb | exact Hs].
Qed.

(** ---- the model's own result passes the check; agreement with the model implies the property ---- *)

(** The result the model computes for a case, written into the case's result fields
    ([with_result c r] = [c] with [c_rows], [c_threshold], [c_n_sim], [c_n_batches] taken from [r]),
    passes [ok] - for EVERY case with batches of at most batch_size rows, n_samples >= 1, at least
    n_samples accepted draws among the consumed ones, and a record [c_table] that is exactly the batches
    the run consumed.  So [ok] is satisfiable on every such input, not only on the sampled ones. *)
Theorem C01_model_ok :
  forall c r,
    Forall (fun batch => length batch <= c_b c) (c_table c) ->
    0 < c_n c ->
    c_n c <= length (filter (accepts (match c_form c with ByThreshold t _ => Some t | _ => None end)) (concat (c_table c))) ->
    model_result c = Some r ->
    res_n_batches r = length (c_table c) ->
    ok {| c_n := c_n c; c_b := c_b c; c_form := c_form c; c_table := c_table c;
          c_rows := res_rows r; c_threshold := res_threshold r;
          c_n_sim := res_n_sim r; c_n_batches := res_n_batches r |} = true.
Proof. exact model_ok. Qed.
Print Assumptions C01_model_ok.

(** Hence an implementation whose result agrees with the model's has the property. *)
Theorem C01_agree_ok :
  forall c,
    Forall (fun batch => length batch <= c_b c) (c_table c) ->
    0 < c_n c ->
    c_n c <= length (filter (accepts (match c_form c with ByThreshold t _ => Some t | _ => None end)) (concat (c_table c))) ->
    c_n_batches c = length (c_table c) ->
    agree c = true -> ok c = true.
Proof. exact agree_ok. Qed.
Print Assumptions C01_agree_ok.

(** Non-vacuity: a threshold-form run (threshold 1, n_samples 2, batch_size 2) that consumes all four
    recorded batches, with a tie at the cut and infinite discrepancies - by the theorem, and the
    evaluated result; and the two hypotheses on n_samples cannot be dropped (n_samples = 0; a budget
    n_sim = 2 < n_samples = 4): there the model's own result does NOT pass [ok]. *)
Example C01_model_ok_example :
  let c := mk 2 2 (ByThreshold (Fin 1) 1) c01au_t in
  (exists r, model_result c = Some r /\ res_n_batches r = 4
             /\ res_rows r = [Some (dz 0 3); Some (dz 0 6)] /\ res_threshold r = Fin 0
             /\ ok (with_result c r) = true)
  /\ (let c0 := mk 0 2 (ByNsim 4) (firstn 2 c01au_t) in
      match model_result c0 with
      | Some r => Nat.eqb (res_n_batches r) (length (c_table c0)) && negb (ok (with_result c0 r))
      | None => false end = true)
  /\ (let c1 := mk 4 2 (ByNsim 2) (firstn 1 c01au_t) in
      match model_result c1 with
      | Some r => Nat.eqb (res_n_batches r) (length (c_table c1)) && negb (ok (with_result c1 r))
      | None => false end = true).
Proof.
  intros c. split; [|split; vm_compute; reflexivity].
  destruct (model_result c) as [r|] eqn:E; [|vm_compute in E; discriminate].
  exists r. split; [reflexivity|].
  assert (Hnb : res_n_batches r = 4) by (vm_compute in E; inversion E; reflexivity).
  split; [exact Hnb|]. split; [vm_compute in E; inversion E; reflexivity|].
  split; [vm_compute in E; inversion E; reflexivity|].
  apply (C01_model_ok c r); [repeat constructor | vm_compute; lia | vm_compute; lia | exact E | exact Hnb].
Qed.
