(** C20 — BSL: synthetic likelihood and its Metropolis-Hastings step are the stated ones.

    [Gen/C20_Transforms.v] is regenerated on every run from the text of BSL._para_logit_transform,
    _para_logit_back_transform, _jacobian_logit_transform (harness/translate_c20.py); the first group of
    theorems is about those generated definitions.  [Num/Bsl.v] is the hand-written model of the accept step,
    of [_init_round]'s out-of-support shortcut, of the mean/covariance plumbing, of the misspecification
    adjustments and of call histories that re-use the caller's arrays.
    This file only states the property theorems; proofs are in Proofs/C20_*.v. *)
From Coq Require Import Reals Lra ZArith QArith Qabs Qminmax Qreals List Bool.
From Coquelicot Require Import Coquelicot.
From Elfi Require Import Gen.C20_Transforms Num.Bsl
     Proofs.C20_Transforms Proofs.C20_Mh Proofs.C20_MhR Proofs.C20_Lik Proofs.C20_Hist.
Import ListNotations.

(** ---- 1. the bounded-parameter transform (generated formulas), every bound type ---- *)

(** the back-transform inverts the transform exactly, strictly inside the bounds *)
Theorem C20_back_trans : forall t a b x, inside t a b x -> back_of t a b (trans_of t a b x) = x.
Proof. exact back_trans. Qed.
Print Assumptions C20_back_trans.

(** ... and the transform inverts the back-transform everywhere; proposals made in transformed space land
    strictly inside the bounds *)
Theorem C20_trans_back : forall t a b y, wf t a b -> trans_of t a b (back_of t a b y) = y.
Proof. exact trans_back. Qed.
Print Assumptions C20_trans_back.

Theorem C20_back_inside : forall t a b y, wf t a b -> inside t a b (back_of t a b y).
Proof. exact back_inside. Qed.
Print Assumptions C20_back_inside.

(** the log-Jacobian is the log of the (positive) derivative of the back-transform *)
Theorem C20_logJ_is_log_derivative :
  forall t a b y, wf t a b -> is_derive (back_of t a b) y (exp (logJ_of t a b y)).
Proof. exact logJ_is_log_derivative. Qed.
Print Assumptions C20_logJ_is_log_derivative.

(** [_get_mh_ratio] takes the Jacobian at the TRANSFORMED current and previous parameters (read from the source) *)
Theorem C20_mh_jacobian_at_transformed_points : mh_jacobian_args_transformed = true.
Proof. reflexivity. Qed.
Print Assumptions C20_mh_jacobian_at_transformed_points.

(** ---- 2. the Metropolis-Hastings ratio ---- *)

(** exp of the sum the code forms = posterior ratio x ratio of the Jacobian determinants of the back-transform
    at the proposed and current transformed points (all dimensions, all mixes of bound types) *)
Theorem C20_mh_ratio_change_of_variables : forall cs ys' ys lpost_new lpost_old,
  List.Forall wfc cs ->
  exp (sum_logJ cs ys' - sum_logJ cs ys + lpost_new - lpost_old)
  = (exp lpost_new * jac_det cs ys') / (exp lpost_old * jac_det cs ys).
Proof. exact mh_ratio_change_of_variables. Qed.
Print Assumptions C20_mh_ratio_change_of_variables.

(** acceptance probability as coded (with the clip) = min(1, that ratio) whenever the log-ratio is >= -700,
    and within exp(-700) of it always *)
Theorem C20_accept_prob_is_stated_formula : forall cs ys' ys lpost_new lpost_old,
  List.Forall wfc cs ->
  (-700 <= sum_logJ cs ys' - sum_logJ cs ys + lpost_new - lpost_old)%R ->
  accept_prob_R (sum_logJ cs ys' - sum_logJ cs ys + lpost_new - lpost_old)
  = Rmin 1 ((exp lpost_new * jac_det cs ys') / (exp lpost_old * jac_det cs ys)).
Proof. exact accept_prob_is_stated_formula. Qed.
Print Assumptions C20_accept_prob_is_stated_formula.

Theorem C20_clip_error_bound : forall r, (Rabs (accept_prob_R r - Rmin 1 (exp r)) <= exp (-700))%R.
Proof. exact accept_prob_clip_bound. Qed.
Print Assumptions C20_clip_error_bound.

(** the model's rational clip is the real clip; the clip is the identity on [-700, 700] *)
Theorem C20_clip_real : forall q, Q2R (clip700 q) = clipR (Q2R q).
Proof. exact clip700_real. Qed.
Print Assumptions C20_clip_real.

(** ---- 3. the accept step and the out-of-support shortcut (model Num/Bsl.v, any exp / Jacobian oracle) ---- *)

Theorem C20_accept_prob_formula : forall ex jac use_tr p lpost prev,
  accept_prob ex (mh_logratio use_tr jac p lpost prev)
  = Qmin 1 (ex (clip700 ((if use_tr then jac p - jac (r_par prev) else 0) + lpost - r_lpost prev)%Q)).
Proof. exact accept_prob_formula. Qed.
Print Assumptions C20_accept_prob_formula.

Theorem C20_accept_prob_range : forall ex r, (0 <= ex r -> 0 <= accept_prob ex r /\ accept_prob ex r <= 1)%Q.
Proof. exact accept_prob_range. Qed.
Print Assumptions C20_accept_prob_range.

(** n >= 1: accepted iff u < prob; on rejection the new chain row equals the previous one *)
Theorem C20_step_accept_rule : forall ex jac use_tr burn st p lp loglik u prev,
  last_row st = Some prev -> s_cand st = Some (p, lp) ->
  let prob := accept_prob ex (mh_logratio use_tr jac p (loglik + lp)%Q prev) in
  let st' := process_simulated ex jac use_tr burn st loglik u in
  s_rows st' = s_rows st ++ [if Qltb u prob then mkRow p lp (loglik + lp)%Q else prev] /\
  s_rounds st' = s_rounds st /\ s_sims st' = s_sims st /\ s_cand st' = None.
Proof. exact step_accept_rule. Qed.
Print Assumptions C20_step_accept_rule.

(** n == 0: always accepted *)
Theorem C20_step_first_round : forall ex jac use_tr burn st p lp loglik u,
  s_rows st = [] -> s_cand st = Some (p, lp) ->
  s_rows (process_simulated ex jac use_tr burn st loglik u) = [mkRow p lp (loglik + lp)%Q].
Proof. exact step_first_round. Qed.
Print Assumptions C20_step_first_round.

(** [_init_round] for every proposal stream: j leading out-of-support proposals append j copies of the previous
    row and lower the objective by j rounds; at most one simulation is started, for the first in-support proposal *)
Theorem C20_init_round_spec : forall props st r,
  last_row st = Some r ->
  exists j : nat,
    s_rows (fst (init_round st props)) = s_rows st ++ repeat r j /\
    s_rounds (fst (init_round st props)) = (s_rounds st - Z.of_nat j)%Z /\
    s_cap (fst (init_round st props)) = s_cap st /\
    s_acc (fst (init_round st props)) = s_acc st /\
    List.Forall rejected (firstn j props) /\
    ((s_sims (fst (init_round st props)) = s_sims st /\
      s_cand (fst (init_round st props)) = s_cand st /\
      snd (init_round st props) = j)
     \/
     (exists p lp, nth_error props j = Some (p, Some lp) /\
      s_cand (fst (init_round st props)) = Some (p, lp) /\
      s_sims (fst (init_round st props)) = S (s_sims st) /\
      snd (init_round st props) = S j)).
Proof. exact init_round_spec. Qed.
Print Assumptions C20_init_round_spec.

(** proposals outside the prior support never trigger a simulation and leave the chain at the previous state *)
Theorem C20_rejected_never_simulated : forall props st r,
  last_row st = Some r -> List.Forall rejected props ->
  let st' := fst (init_round st props) in
  let k := snd (init_round st props) in
  s_sims st' = s_sims st /\ s_cand st' = s_cand st /\
  s_rows st' = s_rows st ++ repeat r k /\ s_rounds st' = (s_rounds st - Z.of_nat k)%Z /\
  (k <= length props)%nat.
Proof. exact rejected_never_simulated. Qed.
Print Assumptions C20_rejected_never_simulated.

Theorem C20_simulation_only_in_support : forall props st r,
  last_row st = Some r ->
  s_sims (fst (init_round st props)) = s_sims st \/
  (s_sims (fst (init_round st props)) = S (s_sims st) /\
   exists p lp, In (p, Some lp) props /\ s_cand (fst (init_round st props)) = Some (p, lp)).
Proof. exact simulation_only_in_support. Qed.
Print Assumptions C20_simulation_only_in_support.

(** ---- 4. sample mean / covariance plumbing of the likelihoods (thin; the weight is on the correspondence) ---- *)

Theorem C20_cov_symmetric : forall xs ys, length xs = length ys -> (cov_entry xs ys == cov_entry ys xs)%Q.
Proof. exact cov_entry_sym. Qed.
Print Assumptions C20_cov_symmetric.

Theorem C20_cov_two_pass_is_textbook : forall xs ys,
  length xs = length ys -> xs <> [] -> (cov_entry xs ys == cov_alt xs ys)%Q.
Proof. exact cov_entry_alt. Qed.
Print Assumptions C20_cov_two_pass_is_textbook.

Theorem C20_mean_affine : forall c e xs, xs <> [] -> (mean (map (fun x => c * x + e) xs) == c * mean xs + e)%Q.
Proof. exact mean_affine. Qed.
Print Assumptions C20_mean_affine.

Theorem C20_cov_affine : forall c1 e1 c2 e2 xs ys, xs <> [] -> ys <> [] ->
  (cov_entry (map (fun x => c1 * x + e1) xs) (map (fun y => c2 * y + e2) ys) == c1 * c2 * cov_entry xs ys)%Q.
Proof. exact cov_affine. Qed.
Print Assumptions C20_cov_affine.

Theorem C20_warton_off_diagonal : forall g s di dj, (~ di == 0 -> ~ dj == 0 -> warton_entry g s di dj false == g * s)%Q.
Proof. exact warton_off. Qed.
Print Assumptions C20_warton_off_diagonal.

Theorem C20_warton_diagonal : forall g s di, (~ di == 0 -> warton_entry g s di di true == g * s + (1 - g) * (di * di))%Q.
Proof. exact warton_diag. Qed.
Print Assumptions C20_warton_diagonal.

(** ---- 5. the decidable spec used on the implementation's outputs ---- *)

Theorem C20_ok_sound : forall use_tr p_new lpost_new prev ji js ec ratio lr,
  ok (CMh use_tr p_new lpost_new prev ji js ec ratio lr) = true ->
  (Qabs (clip700 ((if use_tr then lookup js p_new - lookup js (r_par prev) else 0) + lpost_new - r_lpost prev) - lr)
   <= tol7 * (1 + Qabs (clip700 ((if use_tr then lookup js p_new - lookup js (r_par prev) else 0) + lpost_new - r_lpost prev))))%Q.
Proof. exact ok_mh_sound. Qed.
Print Assumptions C20_ok_sound.

Theorem C20_ok_init_sound : forall st props irows icand irounds icons istarted,
  ok (CInit st props irows icand irounds icons istarted) = true ->
  exists r k, last_row st = Some r /\
    Forall2 (fun a b => row_eq a b = true) irows (s_rows st ++ repeat r k) /\
    irounds = (s_rounds st - Z.of_nat k)%Z /\
    List.Forall rejected (firstn k props) /\
    (istarted = false -> icons = k).
Proof. exact ok_init_sound. Qed.
Print Assumptions C20_ok_init_sound.

Theorem C20_model_ok : forall use_tr p_new lpost_new prev j ec ratio,
  ok (CMh use_tr p_new lpost_new prev j j ec ratio (mh_logratio use_tr (lookup j) p_new lpost_new prev)) = true.
Proof. exact model_ok_mh. Qed.
Print Assumptions C20_model_ok.

(** ---- 6. call histories (the same observed / whitening / gamma arrays handed to the code again and again) and the
        misspecification adjustments ---- *)

(** a history agrees with the model / satisfies the statement iff each of its evaluations does when compared with a
    FRESH run of the model on the values on record: nothing is carried over from one evaluation to the next *)
Theorem C20_history_agree_each : forall d v y evals,
  agree (CHist d v y evals) = true <-> List.Forall (fun e => agree (CHist d v y [e]) = true) evals.
Proof. exact hist_agree_each. Qed.
Print Assumptions C20_history_agree_each.

Theorem C20_history_ok_each : forall d v y evals,
  ok (CHist d v y evals) = true <-> List.Forall (fun e => ok (CHist d v y [e]) = true) evals.
Proof. exact hist_ok_each. Qed.
Print Assumptions C20_history_ok_each.

Theorem C20_history_ok_sound : forall d v y evals,
  ok (CHist d v y evals) = true -> forall e, In e evals -> eval_ok d v y e = true.
Proof. exact hist_ok_sound. Qed.
Print Assumptions C20_history_ok_sound.

(** the verdict on a history does not depend on how it is cut or in which order the evaluations were made *)
Theorem C20_history_ok_app : forall d v y es1 es2,
  ok (CHist d v y (es1 ++ es2)) = ok (CHist d v y es1) && ok (CHist d v y es2).
Proof. exact hist_ok_app. Qed.
Print Assumptions C20_history_ok_app.

Theorem C20_history_ok_rev : forall d v y es, ok (CHist d v y (rev es)) = ok (CHist d v y es).
Proof. exact hist_ok_rev. Qed.
Print Assumptions C20_history_ok_rev.

(** the model's value for an evaluation is the same whatever was evaluated before it *)
Theorem C20_eval_model_stateless : forall ce d v y e (before before' : list lik_eval),
  nth (length before) (map (eval_model ce d v y) (before ++ [e])) (nil, nil, nil)
  = nth (length before') (map (eval_model ce d v y) (before' ++ [e])) (nil, nil, nil).
Proof. exact eval_model_stateless. Qed.
Print Assumptions C20_eval_model_stateless.

(** variance adjustment as coded, Sigma_ii + (sqrt(Sigma_ii) gamma_i)^2, is the published Sigma_ii (1 + gamma_i^2);
    off the diagonal nothing changes; gamma = 0 switches the adjustments off; variances never decrease *)
Theorem C20_mis_var_diagonal : forall s sd g, (sd * sd == s -> mis_var_entry s sd g true == mis_var_spec_entry s g true)%Q.
Proof. exact mis_var_diag. Qed.
Print Assumptions C20_mis_var_diagonal.

Theorem C20_mis_var_off_diagonal : forall s sd g, (mis_var_entry s sd g false == mis_var_spec_entry s g false)%Q.
Proof. exact mis_var_off. Qed.
Print Assumptions C20_mis_var_off_diagonal.

Theorem C20_mis_mean_zero : forall m sd, (mis_mean_entry m sd 0 == m)%Q.
Proof. exact mis_mean_zero. Qed.
Print Assumptions C20_mis_mean_zero.

Theorem C20_mis_var_zero : forall s sd diag, (mis_var_entry s sd 0 diag == s)%Q.
Proof. exact mis_var_zero. Qed.
Print Assumptions C20_mis_var_zero.

Theorem C20_mis_var_increases : forall s sd g diag, (s <= mis_var_entry s sd g diag)%Q.
Proof. exact mis_var_increases. Qed.
Print Assumptions C20_mis_var_increases.

(** an evaluation made with gamma * sd (what an in-place update of the caller's array during the previous
    evaluation would hand to the next one) has the stated mean only if sd' * gamma * (sd - 1) = 0 *)
Theorem C20_mis_mean_scaled_gamma_differs : forall m sd sd' g,
  (mis_mean_entry m sd' (g * sd) == mis_mean_entry m sd' g -> sd' * g * (sd - 1) == 0)%Q.
Proof. exact mis_mean_scaled_gamma_differs. Qed.
Print Assumptions C20_mis_mean_scaled_gamma_differs.

(** ---- non-vacuity ---- *)

(** a two-sided, an upper-bounded and a lower-bounded coordinate are well-formed / strictly inside *)
Example C20_ex_wf : List.Forall wfc [(T0, 0, 1); (T1, 0, 2); (T2, -1, 0); (T3, 0, 0)]%R.
Proof. repeat constructor; cbn; lra. Qed.
Example C20_ex_inside : inside T0 0 1 (1/2) /\ inside T1 0 2 1 /\ inside T2 (-1) 0 3.
Proof. cbn. repeat split; lra. Qed.

Local Open Scope Q_scope.
(** a chain with two rows, three proposals: two outside the support, then one inside *)
Example C20_ex_init :
  let r0 := mkRow [1#2] (-1#2) (-3) in let r1 := mkRow [3#5] (-1#2) (-5#2) in
  let st := mkState [r0; r1] 6 None 6 0 0 in
  let res := init_round st [([9#1], None); ([-4#1], None); ([7#10], Some (-1#2)); ([1#1], Some 0)] in
  s_rows (fst res) = [r0; r1; r1; r1] /\ s_rounds (fst res) = 4%Z /\ s_cand (fst res) = Some ([7#10], -1#2)
  /\ s_sims (fst res) = 1%nat /\ snd res = 3%nat.
Proof. vm_compute. repeat split; reflexivity. Qed.

(** an accepted and a rejected step with the same candidate (exp oracle: the constant 1/2) *)
Example C20_ex_step :
  let r0 := mkRow [1#2] (-1#2) (-3) in
  let st := mkState [r0] 4 (Some ([3#5], -1#2)) 4 0 1 in
  let ex := fun _ : Q => 1#2 in
  s_rows (process_simulated ex (fun _ => 0) false 0 st (-2) (1#4)) = [r0; mkRow [3#5] (-1#2) (-2 + (-1#2))]
  /\ s_rows (process_simulated ex (fun _ => 0) false 0 st (-2) (3#4)) = [r0; r0].
Proof. vm_compute. split; reflexivity. Qed.

(** a history of two mean-adjusted evaluations with one gamma = (1/2, 1): simulated summaries with covariance
    [[1,1],[1,4]] (sd = (1,2)), then the same summaries doubled (sd = (2,4)).  The stated arguments pass; the second
    evaluation computed with gamma * sd of the first one (gamma updated in place by the first call) does not. *)
Example C20_ex_history :
  let X1 := [[-1; 0]; [0; -2]; [1; 2]] in let X2 := [[-2; 0]; [0; -4]; [2; 4]] in
  let g := [1#2; 1] in
  let e1 := mkEval X1 g [1; 2] [0; 0] [1#2; 2] [[1; 1]; [1; 4]] in
  let e2 := mkEval X2 g [2; 4] [0; 0] [1; 4] [[4; 4]; [4; 16]] in
  let e2_bad := mkEval X2 g [2; 4] [0; 0] [1; 8] [[4; 4]; [4; 16]] in
  agree (CHist 2 VMean [0; 0] [e1; e2]) = true /\ ok (CHist 2 VMean [0; 0] [e1; e2]) = true /\
  ok (CHist 2 VMean [0; 0] [e1; e2_bad]) = false /\ ok (CHist 2 VMean [0; 0] [e1]) = true.
Proof. vm_compute. repeat split; reflexivity. Qed.

(** variance adjustment, gamma = (1, 1/2): Sigma + diag(Sigma_ii gamma_i^2) = [[2,1],[1,5]] *)
Example C20_ex_history_var :
  let X1 := [[-1; 0]; [0; -2]; [1; 2]] in
  let e1 := mkEval X1 [1; 1#2] [1; 2] [0; 0] [0; 0] [[2; 1]; [1; 5]] in
  agree (CHist 2 VVar [0; 0] [e1; e1]) = true /\ ok (CHist 2 VVar [0; 0] [e1; e1]) = true.
Proof. vm_compute. split; reflexivity. Qed.

(** ---- non-vacuity of the hypotheses (audit) ---- *)

(** [C20_accept_prob_is_stated_formula] (and [C20_mh_ratio_change_of_variables]): four coordinates, one of each bound
    type, proposed and current transformed points that differ in the one-sided and unbounded coordinates; the sum the
    code forms is 1 >= -700 *)
Example C20_accept_prob_is_stated_formula_nonvacuous :
  let cs := [(T0, 0, 1); (T3, 0, 0); (T2, -1, 0); (T1, 0, 2)]%R in
  let ys' := [1/2; 5; 2; 1]%R in let ys := [1/2; 7; 1; 3]%R in
  List.Forall wfc cs
  /\ (sum_logJ cs ys' - sum_logJ cs ys + (-4) - (-2) = 1)%R
  /\ (-700 <= sum_logJ cs ys' - sum_logJ cs ys + (-4) - (-2))%R
  /\ accept_prob_R (sum_logJ cs ys' - sum_logJ cs ys + (-4) - (-2))
     = Rmin 1 ((exp (-4) * jac_det cs ys') / (exp (-2) * jac_det cs ys)).
Proof.
  cbv zeta.
  assert (Hw : List.Forall wfc [(T0, 0, 1); (T3, 0, 0); (T2, -1, 0); (T1, 0, 2)]%R) by (repeat constructor; cbn; lra).
  assert (He : (sum_logJ [(T0, 0, 1); (T3, 0, 0); (T2, -1, 0); (T1, 0, 2)] [1/2; 5; 2; 1]
                - sum_logJ [(T0, 0, 1); (T3, 0, 0); (T2, -1, 0); (T1, 0, 2)] [1/2; 7; 1; 3] + (-4) - (-2) = 1)%R)
    by (cbn [sum_logJ logJ_of]; unfold logJ1, logJ2, logJ3; lra).
  split; [exact Hw|]. split; [exact He|].
  assert (Hl : (-700 <= sum_logJ [(T0, 0, 1); (T3, 0, 0); (T2, -1, 0); (T1, 0, 2)] [1/2; 5; 2; 1]
                - sum_logJ [(T0, 0, 1); (T3, 0, 0); (T2, -1, 0); (T1, 0, 2)] [1/2; 7; 1; 3] + (-4) - (-2))%R)
    by (rewrite He; lra).
  split; [exact Hl|]. exact (C20_accept_prob_is_stated_formula _ _ _ _ _ Hw Hl).
Qed.

(** [C20_accept_prob_range]: a positive, non-constant exp oracle *)
Example C20_accept_prob_range_nonvacuous :
  let ex := fun q : Q => 1 + q * q in
  0 <= ex (-3#2) /\ 0 <= accept_prob ex (-3#2) /\ accept_prob ex (-3#2) <= 1.
Proof.
  cbv zeta. assert (H : 0 <= 1 + (-3#2) * (-3#2)) by (vm_compute; discriminate).
  split; [exact H|]. exact (C20_accept_prob_range (fun q : Q => 1 + q * q) (-3#2) H).
Qed.

(** [C20_step_accept_rule], [C20_step_first_round] *)
Example C20_step_nonvacuous :
  let r0 := mkRow [1#2] (-1#2) (-3) in
  let st := mkState [r0] 4 (Some ([3#5], -1#2)) 4 0 1 in
  let st0 := mkState [] 4 (Some ([3#5], -1#2)) 4 0 1 in
  last_row st = Some r0 /\ s_cand st = Some ([3#5], -1#2)
  /\ s_rows st0 = [] /\ s_cand st0 = Some ([3#5], -1#2)
  /\ s_rows (process_simulated (fun _ : Q => 1#2) (fun _ => 0) false 0 st0 (-2) (3#4)) = [mkRow [3#5] (-1#2) (-2 + (-1#2))].
Proof.
  cbv zeta. split; [reflexivity|]. split; [reflexivity|]. split; [reflexivity|]. split; [reflexivity|].
  exact (C20_step_first_round _ _ _ _ (mkState [] 4 (Some ([3#5], -1#2)) 4 0 1) _ _ _ _ eq_refl eq_refl).
Qed.

(** [C20_init_round_spec], [C20_rejected_never_simulated], [C20_simulation_only_in_support]: a chain with two rows;
    a stream of two out-of-support proposals (all rejected), and the mixed stream of [C20_ex_init] *)
Example C20_init_round_nonvacuous :
  let r0 := mkRow [1#2] (-1#2) (-3) in let r1 := mkRow [3#5] (-1#2) (-5#2) in
  let st := mkState [r0; r1] 6 None 6 0 0 in
  let props : list proposal := [([9#1], None); ([-4#1], None)] in
  last_row st = Some r1 /\ List.Forall rejected props
  /\ s_rows (fst (init_round st props)) = [r0; r1; r1; r1] /\ snd (init_round st props) = 2%nat
  /\ s_sims (fst (init_round st props)) = 0%nat.
Proof.
  cbv zeta. split; [reflexivity|]. split; [repeat constructor|]. vm_compute. repeat split; reflexivity.
Qed.

(** [C20_cov_symmetric], [C20_cov_two_pass_is_textbook], [C20_mean_affine], [C20_cov_affine] *)
Example C20_cov_nonvacuous :
  let xs := [-1; 0; 1; 4] in let ys := [0; -2; 2; 1] in
  length xs = length ys /\ xs <> [] /\ ys <> []
  /\ cov_entry xs ys == cov_entry ys xs /\ cov_entry xs ys == cov_alt xs ys /\ ~ cov_entry xs ys == 0
  /\ mean (map (fun x => 3 * x + 2) xs) == 3 * mean xs + 2.
Proof.
  cbv zeta. split; [reflexivity|]. split; [discriminate|]. split; [discriminate|].
  split; [apply C20_cov_symmetric; reflexivity|].
  split; [apply C20_cov_two_pass_is_textbook; [reflexivity|discriminate]|].
  split; [vm_compute; discriminate|]. apply C20_mean_affine; discriminate.
Qed.

(** [C20_warton_off_diagonal], [C20_warton_diagonal], [C20_mis_var_diagonal] *)
Example C20_warton_mis_nonvacuous :
  ~ 2 == 0 /\ ~ (1#3) == 0
  /\ warton_entry (1#4) 5 2 (1#3) false == (1#4) * 5
  /\ warton_entry (1#4) 5 2 2 true == (1#4) * 5 + (1 - (1#4)) * (2 * 2)
  /\ 2 * 2 == 4 /\ mis_var_entry 4 2 (1#2) true == mis_var_spec_entry 4 (1#2) true.
Proof.
  assert (H2 : ~ 2 == 0) by (intro H; discriminate H). assert (H3 : ~ (1#3) == 0) by (intro H; discriminate H).
  split; [exact H2|]. split; [exact H3|]. split; [exact (C20_warton_off_diagonal _ _ _ _ H2 H3)|].
  split; [exact (C20_warton_diagonal _ _ _ H2)|]. split; [reflexivity|].
  apply C20_mis_var_diagonal. reflexivity.
Qed.

(** [C20_ok_sound]: the model's log-ratio (with the transform, Jacobian oracle differing at the two points) passes;
    [C20_ok_init_sound]: the state [C20_ex_init] computes, as the implementation's output *)
Example C20_ok_nonvacuous :
  let r0 := mkRow [1#2] (-1#2) (-3) in let r1 := mkRow [3#5] (-1#2) (-5#2) in
  let j := [([7#10], -1); ([3#5], -2)] in
  ok (CMh true [7#10] (-2) r1 j j (mkExp 0 1) 1 (mh_logratio true (lookup j) [7#10] (-2) r1)) = true
  /\ mh_logratio true (lookup j) [7#10] (-2) r1 == 3#2
  /\ ok (CInit (mkState [r0; r1] 6 None 6 0 0)
               [([9#1], None); ([-4#1], None); ([7#10], Some (-1#2)); ([1#1], Some 0)]
               [r0; r1; r1; r1] (Some ([7#10], -1#2)) 4 3 true) = true.
Proof.
  cbv zeta. split; [apply C20_model_ok|]. split; vm_compute; reflexivity.
Qed.

(** [C20_mis_mean_scaled_gamma_differs] is a necessity statement: its hypothesis (the two means coincide) holds exactly
    in the cases its conclusion lists; a non-zero instance with sd = 1 *)
Example C20_mis_mean_scaled_gamma_differs_nonvacuous :
  mis_mean_entry 5 3 ((1#2) * 1) == mis_mean_entry 5 3 (1#2)
  /\ ~ mis_mean_entry 5 3 ((1#2) * 2) == mis_mean_entry 5 3 (1#2).
Proof. split; [vm_compute; reflexivity|]. intro H. apply C20_mis_mean_scaled_gamma_differs in H. vm_compute in H. discriminate H. Qed.
