(** C06 — on-disk array stores keep exactly what was written, across reopen and crash.
    Model: Store/Npy.v (NpyArray / ArrayStore / NpyStore over a buffered file; the oracle [o]
    decides at every seek and write how many pending writes reach the OS file).
    This file only states the property theorems; proofs are in Proofs/C06_Npy.v.
    [wf bs ops]: every batch written has [bs] rows of the store's row shape, and [Close] is not
    used in the middle of a history ([Reopen] = close + open).                                 *)
From Coq Require Import List NArith Arith Bool.
From Elfi Require Import Store.Npy Proofs.C06_Npy.
Import ListNotations.

(** (1) Refinement: after any history, whatever the buffering, [len(store)] and every [store[i]]
    are those of the in-memory list of batches [spec ops]. *)
Theorem C06_refinement : forall bs o ops, 0 < bs -> wf bs ops ->
  forall m f i, start current bs o ops = (m, f, i) ->
    view bs m f = (length (spec ops), Some (spec ops)).
Proof. exact refinement. Qed.
Print Assumptions C06_refinement.

(** (2) After every flush / close+reopen / pickle+unpickle of an initialised store nothing is
    pending and the file is a .npy file that numpy loads to exactly the content. *)
Theorem C06_flush_loads : forall bs o ops op, 0 < bs -> wf bs (ops ++ [op]) -> is_flush op = true ->
  forall m f i, start current bs o (ops ++ [op]) = (m, f, i) -> m_init m = true ->
    f_buf f = [] /\ loads (f_disk f) = Some (flat (spec (ops ++ [op]))).
Proof. exact flush_loads. Qed.
Print Assumptions C06_flush_loads.

(** ... and after a final [close]; a kill inside the close leaves an allowed content as well. *)
Theorem C06_close_loads : forall bs o ops, 0 < bs -> wf bs ops ->
  forall m f i, start current bs o ops = (m, f, i) -> m_init m = true ->
  let h := hstep current bs o i m f Close in
  f_buf (r_file h) = [] /\ loads (f_disk (r_file h)) = Some (flat (spec ops)) /\
  forall H, Safe H f -> In (flat (spec ops)) H -> SafeAll o H i (r_lops h) f.
Proof. exact close_loads. Qed.
Print Assumptions C06_close_loads.

(** (3) Close+reopen and pickle+unpickle succeed and restore shape, n_batches and every batch from
    the file. *)
Theorem C06_reopen_restores : forall bs o ops op, 0 < bs -> wf bs ops -> op = Reopen \/ op = Pickle ->
  forall m f i, start current bs o ops = (m, f, i) -> m_init m = true ->
  let h := hstep current bs o i m f op in
  r_err h = false /\ m_rows (r_mem h) = m_rows m /\ m_nb (r_mem h) = m_nb m /\
  view bs (r_mem h) (r_file h) = view bs m f.
Proof. exact reopen_restores. Qed.
Print Assumptions C06_reopen_restores.

(** (4) Crash safety, NpyStore level, [bs] rows per batch.  History [pre ++ fl :: mid], [fl] a
    completed flush-like operation of an initialised store; the process is killed after [j]
    low-level file operations of the next operation [op] (every earlier operation complete), under
    any buffer oracle.  The file left behind loads, and to the content the in-memory list had after
    [fl] or after one of the operations of [mid] (or after [op], when [op] had begun): whole
    batches of whole operations, never a torn mixture. *)
Theorem C06_crash_safe : forall bs o pre fl mid op j,
  0 < bs -> wf bs (pre ++ fl :: mid ++ [op]) -> is_flush fl = true ->
  (forall m f i, start current bs o (pre ++ [fl]) = (m, f, i) -> m_init m = true) ->
  exists t, t <= length mid + (if j =? 0 then 0 else 1) /\
    loads (crash_disk current bs o (pre ++ fl :: mid) op j)
    = Some (flat (spec (pre ++ fl :: firstn t (mid ++ [op])))).
Proof. exact crash_safe. Qed.
Print Assumptions C06_crash_safe.

(** The decidable crash clause evaluated on the implementation's observations is sound: when it
    holds, the observed file content is the content after one of the operations [f..t]. *)
Theorem C06_ok_sound : forall ops errs cont tg k ob t d f,
  ok_crash1 ops errs cont tg (k, ob) = true ->
  last_exec (k - 1) tg None = Some (t, d) ->
  last_flush ops errs t d 0 false None = Some f ->
  exists c l, ob = Some c /\ In l (firstn (t - f + 1) (skipn (S f) cont)) /\ c = flat l.
Proof. exact ok_crash1_sound. Qed.
Print Assumptions C06_ok_sound.

(** Why the order of operations matters (regressions the theorem would notice).
    Old [truncate] (file cut first, shorter header deferred): history [append; append; flush;
    delete-last], killed after the cut: the header still declares two rows, numpy.load fails. *)
Theorem C06_old_truncate_refuted :
  exists bs o pre fl mid op j,
    wf bs (pre ++ fl :: mid ++ [op]) /\ is_flush fl = true /\
    (forall m f i, start old_truncate bs o (pre ++ [fl]) = (m, f, i) -> m_init m = true) /\
    loads (crash_disk old_truncate bs o (pre ++ fl :: mid) op j) = None.
Proof.
  exists 1, (fun _ => 0), [Set_ 0 true [[1%N]]; Set_ 1 true [[2%N]]], Flush, [], (Del 1), 2.
  split; [repeat constructor|]. split; [reflexivity|].
  split; [intros m f i E; vm_compute in E; now inversion E|]. vm_compute. reflexivity.
Qed.
Print Assumptions C06_old_truncate_refuted.

(** Old [__setitem__] (memmap write while an appended batch's header is still pending): history
    [append A; flush; append B; overwrite 0 with X], killed after the overwrite: the file loads to
    [X], which the store never contained ([A], [A,B], [X,B]). *)
Theorem C06_old_setitem_refuted :
  exists bs o pre fl mid op j c,
    wf bs (pre ++ fl :: mid ++ [op]) /\ is_flush fl = true /\
    (forall m f i, start old_setitem bs o (pre ++ [fl]) = (m, f, i) -> m_init m = true) /\
    loads (crash_disk old_setitem bs o (pre ++ fl :: mid) op j) = Some c /\
    forall t, t <= length mid + 1 -> c <> flat (spec (pre ++ fl :: firstn t (mid ++ [op]))).
Proof.
  exists 1, (fun _ => 0), [Set_ 0 true [[1%N]]], Flush, [Set_ 1 true [[2%N]]], (Set_ 0 true [[3%N]]), 2, [[3%N]].
  split; [repeat constructor|]. split; [reflexivity|].
  split; [intros m f i E; vm_compute in E; now inversion E|]. split; [vm_compute; reflexivity|].
  intros [|[|[|t]]] Ht; vm_compute; discriminate.
Qed.
Print Assumptions C06_old_setitem_refuted.

(** Non-vacuity: the hypotheses of (4) hold on a concrete history (two appends, flush, append,
    overwrite, delete-last in progress), and with the current code every kill point of the
    delete-last leaves one of the allowed contents. *)
Definition ex_pre := [Set_ 0 true [[1%N];[2%N]]; Set_ 1 true [[3%N];[4%N]]].
Definition ex_mid := [Set_ 2 true [[5%N];[6%N]]; Set_ 0 true [[7%N];[8%N]]].

Example C06_example_hyps :
  wf 2 (ex_pre ++ Flush :: ex_mid ++ [Del 2]) /\
  (forall m f i, start current 2 (fun _ => 0) (ex_pre ++ [Flush]) = (m, f, i) -> m_init m = true).
Proof. split; [repeat constructor|]. intros m f i E; vm_compute in E; now inversion E. Qed.

Example C06_example_crash_points :
  map (fun j => loads (crash_disk current 2 (fun _ => 0) (ex_pre ++ Flush :: ex_mid) (Del 2) j)) (seq 0 6)
  = [ Some [[7];[8];[3];[4];[5];[6]]; Some [[7];[8];[3];[4];[5];[6]]; Some [[7];[8];[3];[4];[5];[6]];
      Some [[7];[8];[3];[4]]; Some [[7];[8];[3];[4]]; Some [[7];[8];[3];[4]] ]%N.
Proof. vm_compute. reflexivity. Qed.

(** the same history under the old truncate order: the kill point after the cut does not load *)
Example C06_example_old_truncate :
  map (fun j => loads (crash_disk old_truncate 2 (fun _ => 0) (ex_pre ++ Flush :: ex_mid) (Del 2) j)) (seq 0 3)
  = [ Some [[7];[8];[3];[4];[5];[6]]; Some [[7];[8];[3];[4];[5];[6]]; None ]%N.
Proof. vm_compute. reflexivity. Qed.
