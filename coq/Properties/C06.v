(** C06 — on-disk array stores keep exactly what was written, across reopen and crash.
    Model: Store/Npy.v (NpyArray / ArrayStore / NpyStore over a buffered file; the oracle [o]
    decides at every seek and write how many pending writes reach the OS file).
    This file only states the property theorems; proofs are in Proofs/C06_Npy.v.
    [wf bs ops]: every batch written has [bs] rows of the store's row shape, [Close] is not
    used in the middle of a history ([Reopen] = close + open), and no [Open k] (a store exposing a
    prefix of the file: theorems (5), (6) with [wfp]).
    Memory layouts (theorems (7)): the arrays handed to [store[i] = a] are strided windows into a
    buffer ([Store/Layout.v]); histories of [iop] are lowered to histories of [hop] by replacing
    every array by its logical content [nd_rows a], so theorems (1)-(6) apply to them as they are. *)
From Coq Require Import List NArith ZArith Arith Bool.
From Elfi Require Import Store.Layout Proofs.C05_Layout Store.Npy Proofs.C06_Npy Proofs.C06_ModelOk.
Import ListNotations.

(** (1) Refinement: after any history, whatever the buffering, [len(store)] and every [store[i]]
    are those of the in-memory list of batches [spec ops]. *)
Theorem C06_refinement : forall bs o ops, 0 < bs -> wf bs ops ->
  forall m f i, start current bs o ops = (m, f, i) ->
    view bs m f = (length (spec ops), Some (spec ops)).
Proof. exact refinement. Qed.
Print Assumptions C06_refinement.

(** (2) After every flush / close+reopen / pickle+unpickle of an initialised store nothing is
    pending and the file is a .npy file that numpy loads to exactly the content. *)
Theorem C06_flush_loads : forall bs o ops op, 0 < bs -> wf bs (ops ++ [op]) -> is_flush op = true ->
  forall m f i, start current bs o (ops ++ [op]) = (m, f, i) -> m_init m = true ->
    f_buf f = [] /\ loads (f_disk f) = Some (flat (spec (ops ++ [op]))).
Proof. exact flush_loads. Qed.
Print Assumptions C06_flush_loads.

(** ... and after a final [close]; a kill inside the close leaves an allowed content as well. *)
Theorem C06_close_loads : forall bs o ops, 0 < bs -> wf bs ops ->
  forall m f i, start current bs o ops = (m, f, i) -> m_init m = true ->
  let h := hstep current bs o i m f Close in
  f_buf (r_file h) = [] /\ loads (f_disk (r_file h)) = Some (flat (spec ops)) /\
  forall H, Safe H f -> In (flat (spec ops)) H -> SafeAll o H i (r_lops h) f.
Proof. exact close_loads. Qed.
Print Assumptions C06_close_loads.

(** (3) Close+reopen and pickle+unpickle succeed and restore shape, n_batches and every batch from
    the file. *)
Theorem C06_reopen_restores : forall bs o ops op, 0 < bs -> wf bs ops -> op = Reopen \/ op = Pickle ->
  forall m f i, start current bs o ops = (m, f, i) -> m_init m = true ->
  let h := hstep current bs o i m f op in
  r_err h = false /\ m_rows (r_mem h) = m_rows m /\ m_nb (r_mem h) = m_nb m /\
  view bs (r_mem h) (r_file h) = view bs m f.
Proof. exact reopen_restores. Qed.
Print Assumptions C06_reopen_restores.

(** (4) Crash safety, NpyStore level, [bs] rows per batch.  History [pre ++ fl :: mid], [fl] a
    completed flush-like operation of an initialised store; the process is killed after [j]
    low-level file operations of the next operation [op] (every earlier operation complete), under
    any buffer oracle.  The file left behind loads, and to the content the in-memory list had after
    [fl] or after one of the operations of [mid] (or after [op], when [op] had begun): whole
    batches of whole operations, never a torn mixture.  [mid] and [op] range over all operations
    including the queries [Read]/[Query] (a read creates the memmap, after which overwrites reach
    the file without passing through any file-object call); [j] ranges over every prefix of the
    low-level operations of [op], the write through the memmap included, so "[op] complete and
    nothing after it" (a history that ends without flush or close) is the kill point
    [j = length (r_lops ...)]. *)
Theorem C06_crash_safe : forall bs o pre fl mid op j,
  0 < bs -> wf bs (pre ++ fl :: mid ++ [op]) -> is_flush fl = true ->
  (forall m f i, start current bs o (pre ++ [fl]) = (m, f, i) -> m_init m = true) ->
  exists t, t <= length mid + (if j =? 0 then 0 else 1) /\
    loads (crash_disk current bs o (pre ++ fl :: mid) op j)
    = Some (flat (spec (pre ++ fl :: firstn t (mid ++ [op])))).
Proof. exact crash_safe. Qed.
Print Assumptions C06_crash_safe.

(** (4b) Queries anywhere in a history ([store[k]], [len(store)], [k in store], [len(store.array)])
    do not raise on an initialised store and preserve what the store reports and the file as the
    process sees it; [Query] changes nothing at all; the one side effect of [Read] is the memmap
    (created with everything pending handed to the OS), which is part of the state that decides
    in which order later header and data writes become durable. *)
Theorem C06_queries_preserve : forall bs o ops q, 0 < bs -> wf bs ops -> is_query q = true ->
  forall m f i, start current bs o ops = (m, f, i) ->
  let h := hstep current bs o i m f q in
  view bs (r_mem h) (r_file h) = view bs m f /\ full (r_file h) = full f /\
  (m_init m = true -> r_err h = false) /\
  (q = Query -> r_file h = f /\ r_mem h = m /\ r_lops h = []) /\
  (forall k, q = Read k -> m_init m = true -> m_mmap (r_mem h) = true /\ (m_mmap m = false -> f_buf (r_file h) = [])).
Proof. exact queries_preserve. Qed.
Print Assumptions C06_queries_preserve.

(** (5) Prefix stores.  [Open k] = [NpyStore(filename, batch_size, n_batches=k)] over the existing
    file: a store whose [n_batches] may be smaller than the number of batches in the file (the same
    state arises by unpickling a pickle taken before the original object appended more).  The
    specification state is the pair (batches physically in the file, n_batches) ([pspec]);
    [wfp] = batches of [bs] rows, no standalone [Close], and [k] at most the number of batches in
    the file.  After any such history, whatever the buffering, [len(store)] and every [store[i]] are
    those of the first [n_batches] batches of the specification state. *)
Theorem C06_prefix_refinement : forall bs o ops, 0 < bs -> wfp bs ([], 0) ops ->
  forall m f i, start current bs o ops = (m, f, i) ->
    view bs m f = (snd (pspec ops), Some (visible (pspec ops))).
Proof. exact prefix_refinement. Qed.
Print Assumptions C06_prefix_refinement.

(** ... and the visible batches evolve as the plain in-memory list of batches under every operation
    other than [Reopen]/[Open]: a write at index [n_batches] of a prefix store is an append to the
    list (it replaces the hidden batch at rows [n_batches*bs, (n_batches+1)*bs) of the file rather
    than going to the end of the file), delete-last removes the last element, the rest stays. *)
Theorem C06_prefix_visible : forall s op, snd s <= length (fst s) -> is_open op = false -> op <> Reopen ->
  visible (pspec_step s op) = spec_step (visible s) op.
Proof. exact visible_step. Qed.
Print Assumptions C06_prefix_visible.

(** (6) The two together, in terms of the in-memory list only: [pre] any well-formed history, then a
    store over the file exposing its first [k] batches, then any operations [post] on that store
    (writes at index [n_batches], overwrites, delete-last, clear, flush, pickle+unpickle, reads):
    the store reports exactly the list [firstn k (spec pre)] evolved by [post]. *)
Theorem C06_prefix_store_refines_list : forall bs o pre k post,
  0 < bs -> wf bs pre -> k <= length (spec pre) ->
  Forall (fun op => wf_op bs op /\ op <> Reopen) post ->
  forall m f i, start current bs o (pre ++ Open k :: post) = (m, f, i) ->
  view bs m f = (length (fold_left spec_step post (firstn k (spec pre))),
                 Some (fold_left spec_step post (firstn k (spec pre)))).
Proof. exact prefix_store_refines_list. Qed.
Print Assumptions C06_prefix_store_refines_list.

(** without [Open] the pair specification is the list specification with nothing hidden, so (5)
    contains (1) *)
Theorem C06_pspec_no_open : forall ops L, has_open ops = false ->
  fold_left pspec_step ops (L, length L) = (fold_left spec_step ops L, length (fold_left spec_step ops L)).
Proof. exact pspec_no_open. Qed.
Print Assumptions C06_pspec_no_open.

(** The decidable crash clause evaluated on the implementation's observations is sound: when it
    holds, the observed file content is the content after one of the operations [f..t]. *)
Theorem C06_ok_sound : forall ops errs cont tg k ob t d f,
  ok_crash1 ops errs cont tg (k, ob) = true ->
  last_exec (k - 1) tg None = Some (t, d) ->
  last_flush ops errs t d 0 false None = Some f ->
  exists c l, ob = Some c /\ In l (firstn (t - f + 1) (skipn (S f) cont)) /\ c = flat l.
Proof. exact ok_crash1_sound. Qed.
Print Assumptions C06_ok_sound.

(** Why the order of operations matters (regressions the theorem would notice).
    Old [truncate] (file cut first, shorter header deferred): history [append; append; flush;
    delete-last], killed after the cut: the header still declares two rows, numpy.load fails. *)
Theorem C06_old_truncate_refuted :
  exists bs o pre fl mid op j,
    wf bs (pre ++ fl :: mid ++ [op]) /\ is_flush fl = true /\
    (forall m f i, start old_truncate bs o (pre ++ [fl]) = (m, f, i) -> m_init m = true) /\
    loads (crash_disk old_truncate bs o (pre ++ fl :: mid) op j) = None.
Proof.
  exists 1, (fun _ => 0), [Set_ 0 true [[1%N]]; Set_ 1 true [[2%N]]], Flush, [], (Del 1), 2.
  split; [repeat constructor|]. split; [reflexivity|].
  split; [intros m f i E; vm_compute in E; now inversion E|]. vm_compute. reflexivity.
Qed.
Print Assumptions C06_old_truncate_refuted.

(** Old [__setitem__] (memmap write while an appended batch's header is still pending): history
    [append A; flush; append B; overwrite 0 with X], killed after the overwrite: the file loads to
    [X], which the store never contained ([A], [A,B], [X,B]). *)
Theorem C06_old_setitem_refuted :
  exists bs o pre fl mid op j c,
    wf bs (pre ++ fl :: mid ++ [op]) /\ is_flush fl = true /\
    (forall m f i, start old_setitem bs o (pre ++ [fl]) = (m, f, i) -> m_init m = true) /\
    loads (crash_disk old_setitem bs o (pre ++ fl :: mid) op j) = Some c /\
    forall t, t <= length mid + 1 -> c <> flat (spec (pre ++ fl :: firstn t (mid ++ [op]))).
Proof.
  exists 1, (fun _ => 0), [Set_ 0 true [[1%N]]], Flush, [Set_ 1 true [[2%N]]], (Set_ 0 true [[3%N]]), 2, [[3%N]].
  split; [repeat constructor|]. split; [reflexivity|].
  split; [intros m f i E; vm_compute in E; now inversion E|]. split; [vm_compute; reflexivity|].
  intros [|[|[|t]]] Ht; vm_compute; discriminate.
Qed.
Print Assumptions C06_old_setitem_refuted.

(** A pending header that is only handed to the file object ([_write_header_data] without
    [fs.flush()]) before the write through the memmap is not enough, and it takes a *read* between
    the append and the overwrite to see it: history [append A; flush; append B; read 0; overwrite 0
    with X] under an oracle that keeps small writes in the buffer, killed after the overwrite (end
    of the history, nothing flushed or closed): the file loads to [X].  Without the read the
    overwrite itself creates the memmap, whose [seek(0, 2)] commits the header first (second
    statement: every kill point of that shorter history is safe). *)
Theorem C06_unflushed_header_refuted :
  (exists bs o pre fl mid op j c,
    wf bs (pre ++ fl :: mid ++ [op]) /\ is_flush fl = true /\ existsb is_query mid = true /\
    (forall m f i, start unflushed_setitem bs o (pre ++ [fl]) = (m, f, i) -> m_init m = true) /\
    loads (crash_disk unflushed_setitem bs o (pre ++ fl :: mid) op j) = Some c /\
    forall t, t <= length mid + 1 -> c <> flat (spec (pre ++ fl :: firstn t (mid ++ [op])))) /\
  (forall j, exists t, t <= 2 /\
    loads (crash_disk unflushed_setitem 1 (fun _ => 0) [Set_ 0 true [[1%N]]; Flush; Set_ 1 true [[2%N]]] (Set_ 0 true [[3%N]]) j)
    = Some (flat (spec ([Set_ 0 true [[1%N]]; Flush] ++ firstn t [Set_ 1 true [[2%N]]; Set_ 0 true [[3%N]]])))).
Proof.
  split.
  - exists 1, (fun _ => 0), [Set_ 0 true [[1%N]]], Flush, [Set_ 1 true [[2%N]]; Read 0], (Set_ 0 true [[3%N]]), 3, [[3%N]].
    split; [repeat constructor|]. split; [reflexivity|]. split; [reflexivity|].
    split; [intros m f i E; vm_compute in E; now inversion E|]. split; [vm_compute; reflexivity|].
    intros [|[|[|[|t]]]] Ht; vm_compute; discriminate.
  - intros [|[|[|[|[|j]]]]]; [exists 0|exists 0|exists 0|exists 1|exists 2|exists 2]; (split; [repeat constructor|]); vm_compute; reflexivity.
Qed.
Print Assumptions C06_unflushed_header_refuted.

(** the same five-operation history with the current code: the overwrite issues seek, header,
    flush (the header is pending), no seek-to-end (the memmap exists), the memmap write; its kill
    points leave [A] (the header on disk still declares one row), [A B] once the flush is done, and
    [X B] after the memmap write -- all contents the list went through since the flush.  With the
    header only handed to the buffer, the memmap write finds the one-row header on disk: [X]. *)
Example C06_example_read_then_overwrite :
  map (fun j => loads (crash_disk current 1 (fun _ => 0) [Set_ 0 true [[1%N]]; Flush; Set_ 1 true [[2%N]]; Read 0] (Set_ 0 true [[3%N]]) j)) (seq 0 5)
  = [ Some [[1]]; Some [[1]]; Some [[1]]; Some [[1];[2]]; Some [[3];[2]] ]%N /\
  map (fun j => loads (crash_disk unflushed_setitem 1 (fun _ => 0) [Set_ 0 true [[1%N]]; Flush; Set_ 1 true [[2%N]]; Read 0] (Set_ 0 true [[3%N]]) j)) (seq 0 4)
  = [ Some [[1]]; Some [[1]]; Some [[1]]; Some [[3]] ]%N.
Proof. split; vm_compute; reflexivity. Qed.

(** Non-vacuity: the hypotheses of (4) hold on a concrete history (two appends, flush, append,
    overwrite, delete-last in progress), and with the current code every kill point of the
    delete-last leaves one of the allowed contents. *)
Definition ex_pre := [Set_ 0 true [[1%N];[2%N]]; Set_ 1 true [[3%N];[4%N]]].
Definition ex_mid := [Set_ 2 true [[5%N];[6%N]]; Set_ 0 true [[7%N];[8%N]]].

Example C06_example_hyps :
  wf 2 (ex_pre ++ Flush :: ex_mid ++ [Del 2]) /\
  (forall m f i, start current 2 (fun _ => 0) (ex_pre ++ [Flush]) = (m, f, i) -> m_init m = true).
Proof. split; [repeat constructor|]. intros m f i E; vm_compute in E; now inversion E. Qed.

Example C06_example_crash_points :
  map (fun j => loads (crash_disk current 2 (fun _ => 0) (ex_pre ++ Flush :: ex_mid) (Del 2) j)) (seq 0 6)
  = [ Some [[7];[8];[3];[4];[5];[6]]; Some [[7];[8];[3];[4];[5];[6]]; Some [[7];[8];[3];[4];[5];[6]];
      Some [[7];[8];[3];[4]]; Some [[7];[8];[3];[4]]; Some [[7];[8];[3];[4]] ]%N.
Proof. vm_compute. reflexivity. Qed.

(** the same history under the old truncate order: the kill point after the cut does not load *)
Example C06_example_old_truncate :
  map (fun j => loads (crash_disk old_truncate 2 (fun _ => 0) (ex_pre ++ Flush :: ex_mid) (Del 2) j)) (seq 0 3)
  = [ Some [[7];[8];[3];[4];[5];[6]]; Some [[7];[8];[3];[4];[5];[6]]; None ]%N.
Proof. vm_compute. reflexivity. Qed.

(** Non-vacuity of (5)/(6): three batches written, a store opened over the first one, a write at
    index n_batches = 1, an append-looking write at 2, an overwrite, a delete-last (which cuts the
    file after the visible batches) and a real append.  The hypotheses hold, and the model run
    shows the write landing at rows [2,4) of the file with the third batch still behind it. *)
Definition ex_three := [Set_ 0 true [[1%N];[2%N]]; Set_ 1 true [[3%N];[4%N]]; Set_ 2 true [[5%N];[6%N]]].
Definition ex_post := [Set_ 1 true [[7%N];[8%N]]; Flush; Set_ 0 true [[9%N];[10%N]]; Set_ 2 true [[11%N];[12%N]];
                       Del 2; Del 1; Set_ 1 true [[13%N];[14%N]]].

Example C06_example_prefix_hyps :
  wf 2 ex_three /\ 1 <= length (spec ex_three) /\ Forall (fun op => wf_op 2 op /\ op <> Reopen) ex_post /\
  wfp 2 ([], 0) (ex_three ++ Open 1 :: ex_post).
Proof.
  split; [repeat constructor|]. split; [vm_compute; repeat constructor|].
  split; [repeat constructor; discriminate|]. vm_compute. repeat split; repeat constructor.
Qed.

Example C06_example_prefix_write :
  (let '(m, f, _) := start current 2 (fun _ => 0) (ex_three ++ [Open 1; Set_ 1 true [[7%N];[8%N]]; Flush]) in
   (view 2 m f, loads (f_disk f)))
  = ((2, Some [[[1];[2]]; [[7];[8]]]%N), Some [[1];[2];[7];[8];[5];[6]]%N).
Proof. vm_compute. reflexivity. Qed.

Example C06_example_prefix_history :
  (let '(m, f, _) := start current 2 (fun _ => 0) (ex_three ++ Open 1 :: ex_post ++ [Flush]) in
   (view 2 m f, loads (f_disk f)))
  = ((2, Some [[[9];[10]]; [[13];[14]]]%N), Some [[9];[10];[13];[14]]%N).
Proof. vm_compute. reflexivity. Qed.

(** (7) Memory layouts.  The batch handed to the store is an n-dimensional array in any memory
    layout: shape, one stride per axis, an offset, a buffer (C order, Fortran order, transposed and
    permuted views, every second element, negative strides, windows, broadcast rows ...).

    (7a) What [NpyArray.append] writes: one data write behind the rows already in the array, whose
    content is [array.tobytes('C')] -- the element at every valid multi-index lands at the row-major
    position of that index (C05_tobytes_C_is_logical_order reused), whatever strides, offset and
    buffer are. *)
Theorem C06_append_writes_logical_order : forall m a n rs, nd_shape a = n :: rs -> m_closed m = false ->
  (exists l0 r, arr_append m true (nd_rows a) = (l0 ++ [LSeek; LWriteData r (nd_rows a)], upd (if m_init m then m else
       {| m_init := true; m_closed := false; m_rows := 0; m_pend := None; m_mmap := m_mmap m; m_nb := m_nb m |}) (r + n) (Some (r + n)) false, false)) /\
  concat (nd_rows a) = map code (tobytes_C a) /\
  forall idx, valid idx (nd_shape a) ->
    nth_error (concat (nd_rows a)) (lin (nd_shape a) idx) = Some (code (elem a idx)).
Proof. exact append_writes_logical_order. Qed.
Print Assumptions C06_append_writes_logical_order.

(** (7b) Refinement for histories whose batches come in arbitrary layouts ([iwf]: every array has
    [bs] rows, the other operations as in [wf]): after any such history, whatever the buffering,
    [len(store)] and every [store[i]] are those of the in-memory list of the arrays' logical
    contents.  (Crash safety, flush/close, reopen: instantiate (2)-(4) with [map lower ins], using
    [C06_iwf_wf].) *)
Theorem C06_layout_refinement : forall bs o ins, 0 < bs -> iwf bs ins ->
  forall m f i, start current bs o (map lower ins) = (m, f, i) ->
    view bs m f = (length (spec (map lower ins)), Some (spec (map lower ins))).
Proof. exact layout_refinement. Qed.
Print Assumptions C06_layout_refinement.

Theorem C06_iwf_wf : forall bs ins, iwf bs ins -> wf bs (map lower ins).
Proof. exact iwf_wf. Qed.
Print Assumptions C06_iwf_wf.

(** ... and cell by cell: element [(r, idx)] of the array is cell [lin rs idx] of row [r] of the
    content the specification (hence, by (7b), the store) holds for it. *)
Theorem C06_logical_cell : forall a n rs r idx, nd_shape a = n :: rs -> r < n -> valid idx rs ->
  exists row, nth_error (nd_rows a) r = Some row /\ nth_error row (lin rs idx) = Some (code (elem a (r :: idx))).
Proof. exact nd_rows_cell. Qed.
Print Assumptions C06_logical_cell.

(** (7c) The layout is irrelevant: two histories that differ only in how each array is laid out
    (same shape, same element at every valid index) are the same history for the model -- the same
    low-level operations with the same data, the same reports, the same file at every kill point. *)
Theorem C06_layout_irrelevant : forall xs ys, Forall2 same_iop xs ys -> map lower xs = map lower ys.
Proof. exact layout_irrelevant. Qed.
Print Assumptions C06_layout_irrelevant.

(** (7d) Soundness of the decidable report clause with respect to layouts: when [ok_reports] accepts
    the observation made right after [store[i] = a], the batch the implementation reports at index
    [i] has, at every valid index, the element the array handed in has there. *)
Theorem C06_ok_reports_logical : forall l i g a ops ob obs n rs,
  ok_reports l (map lower (IArr i g a :: ops)) (ob :: obs) = true -> o_err ob = false -> i <= length l ->
  nd_shape a = n :: rs ->
  exists bt b, o_batches ob = Some bt /\ nth_error bt i = Some b /\
    forall r idx, r < n -> valid idx rs ->
      exists row, nth_error b r = Some row /\ nth_error row (lin rs idx) = Some (code (elem a (r :: idx))).
Proof. exact ok_reports_logical. Qed.
Print Assumptions C06_ok_reports_logical.

(** Non-vacuity and a regression guard.  One 2 x 3 batch [[1 3 5] [2 4 6]] in three layouts:
    Fortran order (strides 1, 2), C order (strides 3, 1), both axes reversed (strides -3, -1 from
    offset 5); and a second batch as every second row of a 4 x 3 buffer. *)
Definition ex_F := {| nd_shape := [2; 3]; nd_strides := [1; 2]%Z; nd_offset := 0%Z; nd_buf := [1; 2; 3; 4; 5; 6]%Z |}.
Definition ex_C := {| nd_shape := [2; 3]; nd_strides := [3; 1]%Z; nd_offset := 0%Z; nd_buf := [1; 3; 5; 2; 4; 6]%Z |}.
Definition ex_neg := {| nd_shape := [2; 3]; nd_strides := [-3; -1]%Z; nd_offset := 5%Z; nd_buf := [6; 4; 2; 5; 3; 1]%Z |}.
Definition ex_step := {| nd_shape := [2; 3]; nd_strides := [6; 1]%Z; nd_offset := 0%Z;
                         nd_buf := [7; 8; 9; 0; 0; 0; 10; 11; 12; 0; 0; 0]%Z |}.

Example C06_example_layouts :
  nd_rows ex_F = [[1; 3; 5]; [2; 4; 6]]%N /\ nd_rows ex_C = nd_rows ex_F /\ nd_rows ex_neg = nd_rows ex_F /\
  nd_inb ex_F = true /\ nd_inb ex_neg = true /\ nd_inb ex_step = true /\
  iwf 2 [IArr 0 true ex_F; IOp Flush; IArr 1 true ex_step; IOp (Read 0); IArr 0 true ex_neg; IOp Reopen] /\
  Forall2 same_iop [IArr 0 true ex_F; IOp Flush; IArr 1 true ex_neg] [IArr 0 true ex_C; IOp Flush; IArr 1 true ex_F].
Proof.
  assert (S1 : same_content ex_F ex_C).
  { split; [reflexivity|]. intros idx H. inversion H as [|i n idx1 sh Hi H1]; subst. inversion H1 as [|j n2 idx2 sh2 Hj H2]; subst.
    inversion H2; subst. destruct i as [|[|i]]; [| |exfalso; apply (Nat.lt_irrefl 2); eapply Nat.le_lt_trans; [|exact Hi]; repeat apply le_n_S; apply Nat.le_0_l];
      (destruct j as [|[|[|j]]]; [reflexivity|reflexivity|reflexivity|exfalso; apply (Nat.lt_irrefl 3); eapply Nat.le_lt_trans; [|exact Hj]; repeat apply le_n_S; apply Nat.le_0_l]). }
  assert (S2 : same_content ex_neg ex_F).
  { split; [reflexivity|]. intros idx H. inversion H as [|i n idx1 sh Hi H1]; subst. inversion H1 as [|j n2 idx2 sh2 Hj H2]; subst.
    inversion H2; subst. destruct i as [|[|i]]; [| |exfalso; apply (Nat.lt_irrefl 2); eapply Nat.le_lt_trans; [|exact Hi]; repeat apply le_n_S; apply Nat.le_0_l];
      (destruct j as [|[|[|j]]]; [reflexivity|reflexivity|reflexivity|exfalso; apply (Nat.lt_irrefl 3); eapply Nat.le_lt_trans; [|exact Hj]; repeat apply le_n_S; apply Nat.le_0_l]). }
  repeat split; try (vm_compute; reflexivity).
  - repeat constructor; try (eexists; reflexivity).
  - constructor; [apply same_arr; exact S1|]. constructor; [apply same_op|]. constructor; [apply same_arr; exact S2 | constructor].
Qed.

(** the store after a history with those batches: reports and file are the logical contents *)
Example C06_example_layout_history :
  (let '(m, f, _) := start current 2 (fun _ => 0)
       (map lower [IArr 0 true ex_F; IOp Flush; IArr 1 true ex_step; IOp (Read 0); IArr 0 true ex_neg; IArr 1 true ex_F; IOp Reopen]) in
   (view 2 m f, loads (f_disk f)))
  = ((2, Some [[[1; 3; 5]; [2; 4; 6]]; [[1; 3; 5]; [2; 4; 6]]]%N), Some [[1; 3; 5]; [2; 4; 6]; [1; 3; 5]; [2; 4; 6]]%N).
Proof. vm_compute. reflexivity. Qed.

(** why the serialisation must be [tobytes('C')] and not the memory order of the array
    ([tobytes('A')] emits a Fortran-contiguous array column by column): for the Fortran-ordered batch
    the column-major byte string puts a[0,1] = 3 where the row-major reader of the file looks for
    a[0,1]'s neighbour -- position [lin shape idx] does not hold [a[idx]], in contrast to (7a). *)
Example C06_memory_order_refuted :
  map code (tobytes_F ex_F) = [1; 2; 3; 4; 5; 6]%N /\ concat (nd_rows ex_F) = [1; 3; 5; 2; 4; 6]%N /\
  exists idx, valid idx (nd_shape ex_F) /\
    nth_error (map code (tobytes_F ex_F)) (lin (nd_shape ex_F) idx) <> Some (code (elem ex_F idx)).
Proof.
  split; [vm_compute; reflexivity|]. split; [vm_compute; reflexivity|].
  exists [0; 1]. split; [repeat constructor|]. vm_compute. discriminate.
Qed.

(** ---- non-vacuity of the hypotheses (audit) ----
    Already witnessed above: [C06_example_hyps] ((1), (4): wf, flush of an initialised store, mid of two operations),
    [C06_example_prefix_hyps] ((5), (6)), [C06_example_layouts] ((7b), (7c): iwf, Forall2 same_iop on different layouts).
    The remaining ones: *)

(** (2), (3), close: a history ending in a flush-like operation, the store initialised *)
Example C06_flush_loads_nonvacuous :
  0 < 2 /\ wf 2 ((ex_pre ++ Flush :: ex_mid) ++ [Pickle]) /\ is_flush Pickle = true /\ (Pickle = Reopen \/ Pickle = Pickle)
  /\ (let '(m, f, _) := start current 2 (fun _ => 0) ((ex_pre ++ Flush :: ex_mid) ++ [Pickle]) in
      (m_init m, f_buf f, loads (f_disk f))) = (true, [], Some [[7];[8];[3];[4];[5];[6]]%N).
Proof. split; [repeat constructor|]. split; [repeat constructor|]. split; [reflexivity|]. split; [now right|]. vm_compute; reflexivity. Qed.

(** the inner hypotheses of close_loads: a set of allowed contents [H] that is Safe for the file before the close (two pending
    writes in the buffer) and contains the final content *)
Example C06_close_loads_nonvacuous :
  let '(m, f, i) := start current 2 (fun _ => 0) (ex_pre ++ [Flush; Set_ 2 true [[5%N];[6%N]]]) in
  m_init m = true /\ length (f_buf f) = 1
  /\ Safe [[[1];[2];[3];[4]]; [[1];[2];[3];[4];[5];[6]]]%N f
  /\ In (flat (spec (ex_pre ++ [Flush; Set_ 2 true [[5%N];[6%N]]]))) [[[1];[2];[3];[4]]; [[1];[2];[3];[4];[5];[6]]]%N.
Proof.
  vm_compute. split; [reflexivity|]. split; [reflexivity|]. split; [|auto].
  intros j Hj. unfold good.
  destruct j as [|[|j]]; [| |exfalso; repeat apply le_S_n in Hj; inversion Hj]; vm_compute; eexists; (split; [reflexivity|]); auto.
Qed.

(** (4b) a read in the middle of a history with pending writes, on a store without a memmap; a query *)
Example C06_queries_preserve_nonvacuous :
  wf 2 (ex_pre ++ Flush :: ex_mid) /\ is_query (Read 1) = true /\ is_query Query = true
  /\ (let '(m, f, i) := start current 2 (fun _ => 0) (ex_pre ++ [Flush; Set_ 2 true [[5%N];[6%N]]]) in
      let h := hstep current 2 (fun _ => 0) i m f (Read 1) in
      (m_init m, m_mmap m, length (f_buf f), m_mmap (r_mem h), f_buf (r_file h), r_err h))
     = (true, false, 1, true, [], false).
Proof. split; [repeat constructor|]. split; [reflexivity|]. split; [reflexivity|]. vm_compute. reflexivity. Qed.

(** (5b) a prefix state hiding two batches; an append-looking write, an overwrite and a delete-last *)
Example C06_prefix_visible_nonvacuous :
  snd (spec ex_three, 1) <= length (fst (spec ex_three, 1)) /\ is_open (Set_ 1 true [[7%N];[8%N]]) = false /\ Set_ 1 true [[7%N];[8%N]] <> Reopen
  /\ visible (pspec_step (spec ex_three, 1) (Set_ 1 true [[7%N];[8%N]])) = [[[1];[2]]; [[7];[8]]]%N
  /\ spec_step (visible (spec ex_three, 1)) (Set_ 1 true [[7%N];[8%N]]) = [[[1];[2]]; [[7];[8]]]%N
  /\ visible (pspec_step (spec ex_three, 2) (Del 1)) = spec_step (visible (spec ex_three, 2)) (Del 1).
Proof. vm_compute. repeat split; try discriminate. repeat constructor. Qed.

Example C06_pspec_no_open_nonvacuous :
  has_open (ex_mid ++ [Del 2; Reopen]) = false
  /\ fold_left pspec_step (ex_mid ++ [Del 2; Reopen]) (spec ex_pre, length (spec ex_pre)) = ([[[7];[8]]; [[3];[4]]]%N, 2).
Proof. vm_compute. repeat split. Qed.

(** the crash clause on the observations of [append A; flush; append B; overwrite 0 with X] (the trace is the model's), killed
    after the overwrite's flush: operation in progress t = 3 (not complete), last completed flush f = 1, the file holds [A B] *)
Definition aud_crash_ops : list hop := [Set_ 0 true [[1%N]]; Flush; Set_ 1 true [[2%N]]; Set_ 0 true [[3%N]]].
Definition aud_crash_trace : list (list lop) :=
  [[LSeek; LWritePrefix; LSeek; LWriteHeader 0; LSeek; LWriteData 0 [[1%N]]]; [LSeek; LWriteHeader 1; LFlush];
   [LSeek; LWriteData 1 [[2%N]]]; [LSeek; LWriteHeader 2; LFlush; LSeekEnd; LMemWrite 0 [[3%N]]]].

Example C06_ok_sound_nonvacuous :
  ok_crash1 aud_crash_ops [false; false; false; false] (spec_errs [] aud_crash_ops [false; false; false; false]) (tag 0 aud_crash_trace)
            (15, Some [[1];[2]]%N) = true
  /\ last_exec (15 - 1) (tag 0 aud_crash_trace) None = Some (3, false)
  /\ last_flush aud_crash_ops [false; false; false; false] 3 false 0 false None = Some 1
  /\ loads (crash_disk current 1 (fun _ => 0) (firstn 3 aud_crash_ops) (Set_ 0 true [[3%N]]) 3) = Some [[1];[2]]%N
  /\ ok_crash1 aud_crash_ops [false; false; false; false] (spec_errs [] aud_crash_ops [false; false; false; false]) (tag 0 aud_crash_trace)
            (15, Some [[3]]%N) = false.
Proof. vm_compute. repeat split. Qed.

(** (7a), logical_cell: a negatively strided 2 x 3 array, an open initialised array *)
Example C06_append_writes_logical_order_nonvacuous :
  nd_shape ex_neg = 2 :: [3] /\ m_closed (fst (fst (start current 2 (fun _ => 0) [Set_ 0 true (nd_rows ex_F)]))) = false
  /\ 1 < 2 /\ valid [2] [3]
  /\ nth_error (concat (nd_rows ex_neg)) (lin (nd_shape ex_neg) [1; 2]) = Some (code (elem ex_neg [1; 2])).
Proof. vm_compute. repeat split; repeat constructor. Qed.

(** (7d) the observations right after [store[1] = ex_neg] on a store holding one batch, then a flush *)
Example C06_ok_reports_logical_nonvacuous :
  ok_reports [nd_rows ex_C] (map lower (IArr 1 true ex_neg :: [IOp Flush]))
    ({| o_err := false; o_len := 2; o_batches := Some [nd_rows ex_F; nd_rows ex_F]; o_load := None |}
     :: [{| o_err := false; o_len := 2; o_batches := Some [nd_rows ex_F; nd_rows ex_F]; o_load := Some (Some (nd_rows ex_F ++ nd_rows ex_F)) |}]) = true
  /\ 1 <= length [nd_rows ex_C] /\ nd_shape ex_neg = 2 :: [3].
Proof. vm_compute. repeat split; repeat constructor. Qed.

(** ---- (8) model_ok: the model's own answer passes the decidable predicate [ok] ----
    Proofs in Proofs/C06_ModelOk.v.

    (8a) The crash clause, for every well-formed history, EVERY buffer oracle [o] and EVERY kill point
    [k] (numbered over all low-level operations, memmap writes included; [k] beyond the end = the end):
    with the model's own low-level trace, the model's own error flags, the contents list built from
    them, and the file the model leaves when killed on entering operation [k], [ok_crash1] holds --
    i.e. (by [C06_ok_sound]) the surviving file loads to a content the store had at or after the last
    completed successful flush-like operation of the initialised store.  The proof locates the
    operation in progress and the flush from [last_exec]/[last_flush], and then uses [C06_crash_safe]
    (flush earlier than the operation in progress) or the flush clause of the step invariant (kill
    right after the flush completed). *)
Theorem C06_model_crash_ok : forall bs o ops k, 0 < bs -> wf bs ops ->
  let rt := run_trace current bs o 1 fresh_mem empty_file ops in
  ok_crash1 ops (map snd rt) (spec_errs [] ops (map snd rt)) (tag 0 (map fst rt))
            (k, loads (disk_at current bs o ops k)) = true.
Proof. exact model_crash_ok. Qed.
Print Assumptions C06_model_crash_ok.

(** (8b) Whether an operation raises, and whether the store is initialised afterwards, are functions
    of (initialised?, specification list, operation): independent of buffering, memmap and counters.
    Hence the observing run (oracle 0, reads interleaved) and the plain run raise at the same
    operations, and an operation that raises leaves the specification list alone. *)
Theorem C06_errors_determined : forall bs o m f L i op, 0 < bs -> Inv bs m f L -> wf_op bs op ->
  r_err (hstep current bs o i m f op) = errf (m_init m) L op /\
  m_init (r_mem (hstep current bs o i m f op)) = initf (m_init m) op.
Proof. exact step_det. Qed.
Print Assumptions C06_errors_determined.

Theorem C06_error_keeps_spec : forall bs o m f L i op, 0 < bs -> Inv bs m f L -> wf_op bs op ->
  r_err (hstep current bs o i m f op) = true -> spec_step L op = L.
Proof. exact err_spec. Qed.
Print Assumptions C06_error_keeps_spec.

(** (8c) The report clause on the model's own observing run ([model_obs]: after every operation the
    error flag, [len(store)], every batch read back, and [numpy.load] after flush-like operations of
    an initialised store), and its error flags are those of the plain run under any oracle. *)
Theorem C06_model_reports_ok : forall bs o ops, 0 < bs -> wf bs ops ->
  ok_reports [] ops (model_obs bs ops) = true /\
  map o_err (model_obs bs ops) = map snd (run_trace current bs o 1 fresh_mem empty_file ops).
Proof.
  intros bs o ops Hb W.
  exact (model_obs_ok bs o Hb ops 1 fresh_mem empty_file 1 fresh_mem empty_file [] (Inv_fresh bs) (Inv_fresh bs) eq_refl W).
Qed.
Print Assumptions C06_model_reports_ok.

(** (8d) model_ok: for every history of arrays in arbitrary layouts whose lowering is well-formed,
    every recorded buffer behaviour [ol] and every list of kill points [ks], the case made of the
    model's own trace, the model's own observations and the model's own surviving file at each kill
    point passes [ok].  So [ok] is satisfiable on every well-formed input, and an implementation whose
    trace, reports and surviving files agree with the model has the property. *)
Theorem C06_model_ok : forall bs ol ins tro ks, 0 < bs -> wf bs (map lower ins) ->
  ok (model_case bs ol ins (model_obs bs (map lower ins)) tro ks) = true.
Proof. exact model_ok. Qed.
Print Assumptions C06_model_ok.

Theorem C06_model_ok_layouts : forall bs ol ins tro ks, 0 < bs -> iwf bs ins ->
  ok (model_case bs ol ins (model_obs bs (map lower ins)) tro ks) = true.
Proof. intros bs ol ins tro ks Hb W. apply model_ok; [exact Hb | now apply iwf_wf]. Qed.
Print Assumptions C06_model_ok_layouts.

(** Non-vacuity: a history with arrays in three layouts, a flush, a read, an overwrite, a failing
    write (index beyond the end), a delete-last, a pickle round trip and a final append, under an
    oracle that commits one pending write at some seeks; all 45 kill points.  The hypotheses hold,
    [ok] evaluates to [true], the crash clause is exercised (kill point 16 is inside the overwrite
    that follows the flush: operation in progress 4, last completed flush 1), and the model's
    surviving file there is the two-batch content. *)
Definition mo_ins : list iop :=
  [IArr 0 true ex_F; IOp Flush; IArr 1 true ex_step; IOp (Read 0); IArr 0 true ex_neg; IArr 5 true ex_C;
   IOp (Del 1); IOp Pickle; IArr 1 true ex_C; IOp Query].
Definition mo_oracle : list nat := [0; 1; 0; 0; 1; 0; 0; 0; 1; 0; 0; 1].

Example C06_model_ok_example :
  iwf 2 mo_ins /\
  ok (model_case 2 mo_oracle mo_ins (model_obs 2 (map lower mo_ins)) [] (seq 0 45)) = true /\
  map o_err (model_obs 2 (map lower mo_ins)) = [false; false; false; false; false; true; false; false; false; false] /\
  (let rt := run_trace current 2 (oracle_of mo_oracle) 1 fresh_mem empty_file (map lower mo_ins) in
   length (concat (map fst rt)) = 27 /\
   last_exec (16 - 1) (tag 0 (map fst rt)) None = Some (4, false) /\
   last_flush (map lower mo_ins) (map snd rt) 4 false 0 false None = Some 1) /\
  loads (disk_at current 2 (oracle_of mo_oracle) (map lower mo_ins) 16) = Some [[1; 3; 5]; [2; 4; 6]; [7; 8; 9]; [10; 11; 12]]%N.
Proof.
  split; [repeat constructor; try (eexists; reflexivity)|].
  vm_compute. repeat split.
Qed.

(** Why [model_obs] records [numpy.load] only for an initialised store (as the harness does): a flush
    of a store nothing was written to succeeds and leaves an empty file, which does not load; an
    observation that recorded that failed load would be rejected by the report clause. *)
Example C06_flush_before_first_write :
  ok_reports [] [Flush] (model_obs 1 [Flush]) = true /\
  ok_reports [] [Flush] [{| o_err := false; o_len := 0; o_batches := Some []; o_load := Some None |}] = false.
Proof. vm_compute. split; reflexivity. Qed.
