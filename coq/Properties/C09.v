(** C09 — MCMC kernels implement their algorithm and never leave the target's support.
    Models: Num/Mcmc.v (metropolis, bit-exact binary64 proposal arithmetic, target and exp as
    oracles, the generator as the list of its draws) and Num/Nuts.v (control flow of nuts /
    _build_tree_nuts over an abstract phase space with oracles).  This file only states the
    property theorems; proofs are in Proofs/C09_Metropolis.v, C09_Nuts.v, C09_Float.v.
    Determinism in the seed is by construction: both models are functions of the draw list; that no
    call of a process can influence a later one is stated by the history theorems (Proofs/C09_History.v). *)
From Coq Require Import List Bool Arith ZArith Floats.
From Elfi Require Import Num.Mcmc Num.Nuts Proofs.C09_Metropolis Proofs.C09_Nuts Proofs.C09_Float Proofs.C09_History.
Import ListNotations.

(** ================= Metropolis ================= *)

(** Refinement: for every target, exp oracle, proposal scale, dimension, chain length, warm-up
    length, start and stream, the coded loop (cached target value, rejection test as written,
    output slice [1+warmup:]) returns exactly the chain of the memoryless Metropolis transition
    [x -> if accept x (x + sigma*z) u then x + sigma*z else x] folded over the stream. *)
Theorem C09_metropolis_refines_spec :
  forall target expf sigma n w x0 st,
    metropolis target expf sigma n w x0 st = spec target expf sigma n w x0 st.
Proof. exact metropolis_refines_spec. Qed.
Print Assumptions C09_metropolis_refines_spec.

(** The acceptance rule of that transition: the proposed log-target is finite (not nan, not
    +-inf) and the target ratio is not below the uniform draw. *)
Theorem C09_metropolis_accept_rule :
  forall target expf x y u,
    accept target expf x y u = true <->
    (is_nan (target y) = false /\ is_infinity (target y) = false
     /\ (expf (target y - target x) <? u)%float = false).
Proof. intros target expf. exact (accept_iff target expf []). Qed.
Print Assumptions C09_metropolis_accept_rule.

(** With a ratio and a uniform draw that are not nan the coded test is [u <= ratio]: a draw
    EQUAL to the ratio accepts (binary64, from the library specification of [<?] and [<=?]). *)
Theorem C09_metropolis_accept_le :
  forall (target : vec -> float) (expf : float -> float) x y u,
    is_nan (expf (target y - target x)%float) = false -> is_nan u = false ->
    accept target expf x y u = is_finite (target y) && (u <=? expf (target y - target x))%float.
Proof. exact accept_le. Qed.
Print Assumptions C09_metropolis_accept_le.

(** Each state is the previous state or previous + sigma * z, the latter exactly when accepted. *)
Theorem C09_metropolis_step_cases :
  forall target expf sigma x z u,
    (mh_step target expf sigma x (z, u) = x /\ accept target expf x (propose sigma x z) u = false)
    \/ (mh_step target expf sigma x (z, u) = propose sigma x z
        /\ accept target expf x (propose sigma x z) u = true).
Proof. exact mh_step_cases. Qed.
Print Assumptions C09_metropolis_step_cases.

Theorem C09_metropolis_walk :
  forall target expf sigma ds x, walk target expf sigma x ds (scan target expf sigma x ds).
Proof. exact scan_walk. Qed.
Print Assumptions C09_metropolis_walk.

(** The requested number of states, whatever the warm-up length. *)
Theorem C09_metropolis_n_states :
  forall target expf sigma n w x0 st l,
    metropolis target expf sigma n w x0 st = Chain l -> length l = n.
Proof. exact metropolis_length. Qed.
Print Assumptions C09_metropolis_n_states.

(** Started at a point with a finite log-target, every returned state has a finite log-target
    (neither -inf, +inf nor nan). *)
Theorem C09_metropolis_support :
  forall target expf sigma n w x0 st l,
    is_finite (target x0) = true ->
    metropolis target expf sigma n w x0 st = Chain l ->
    Forall (fun x => is_finite (target x) = true) l.
Proof. exact metropolis_support. Qed.
Print Assumptions C09_metropolis_support.

(** Liveness / non-vacuity: with a well-formed stream and a start that is not +-inf the model
    returns a chain (a nan start is NOT refused by the code, only +-inf is). *)
Theorem C09_metropolis_live :
  forall target expf sigma n w x0 st ds,
    is_infinity (target x0) = false -> pairs (n + w) st = Some ds ->
    metropolis target expf sigma n w x0 st = Chain (skipn w (scan target expf sigma x0 ds)).
Proof. exact metropolis_live. Qed.
Print Assumptions C09_metropolis_live.

(** The model's own output satisfies the property for all inputs. *)
Theorem C09_metropolis_model_ok :
  forall target expf sigma n w x0 st,
    match metropolis target expf sigma n w x0 st with
    | Chain l => length l = n
                 /\ (finite_at target x0 -> Forall (finite_at target) l)
                 /\ exists ds, pairs (n + w) st = Some ds
                               /\ l = skipn w (scan target expf sigma x0 ds)
                               /\ walk target expf sigma x0 ds (scan target expf sigma x0 ds)
    | BadInit => is_infinity (target x0) = true
    | StreamError => pairs (n + w) st = None
    end.
Proof. exact metropolis_model_ok. Qed.
Print Assumptions C09_metropolis_model_ok.

(** Starting points and proposal scales in any storage (wave 2): the entry point started from an
    int64 / int32 / float32 / float16 / bool array or a Python sequence is the double-precision spec
    chain started from the binary64 values of those numbers; nothing else of the storage matters. *)
Theorem C09_metropolis_entry_refines_spec :
  forall target expf sigma_in n w start st,
    metropolis_entry target expf sigma_in n w start st
    = spec target expf (map to_f64 sigma_in) n w (map to_f64 start) st.
Proof. exact entry_refines_spec. Qed.
Print Assumptions C09_metropolis_entry_refines_spec.

Theorem C09_metropolis_entry_storage_independent :
  forall target expf g1 g2 n w s1 s2 st,
    map to_f64 s1 = map to_f64 s2 -> map to_f64 g1 = map to_f64 g2 ->
    metropolis_entry target expf g1 n w s1 st = metropolis_entry target expf g2 n w s2 st.
Proof. exact entry_storage_independent. Qed.
Print Assumptions C09_metropolis_entry_storage_independent.

Theorem C09_metropolis_entry_as_f64 :
  forall target expf sigma_in n w start st,
    metropolis_entry target expf sigma_in n w start st
    = metropolis_entry target expf (map NF (map to_f64 sigma_in)) n w (map NF (map to_f64 start)) st.
Proof. exact entry_as_f64. Qed.
Print Assumptions C09_metropolis_entry_as_f64.

Theorem C09_metropolis_entry_model_ok :
  forall target expf sigma_in n w start st,
    let x0 := map to_f64 start in
    let sigma := map to_f64 sigma_in in
    match metropolis_entry target expf sigma_in n w start st with
    | Chain l => length l = n /\ (finite_at target x0 -> Forall (finite_at target) l)
                 /\ exists ds, pairs (n + w) st = Some ds /\ l = skipn w (scan target expf sigma x0 ds)
                               /\ walk target expf sigma x0 ds (scan target expf sigma x0 ds)
    | BadInit => is_infinity (target x0) = true
    | StreamError => pairs (n + w) st = None
    end.
Proof. exact entry_model_ok. Qed.
Print Assumptions C09_metropolis_entry_model_ok.

(** The decidable predicate evaluated on the implementation's recorded run is sound. *)
Theorem C09_metropolis_ok_sound : forall c, Mcmc.ok c = true -> property_holds c.
Proof. exact ok_sound. Qed.
Print Assumptions C09_metropolis_ok_sound.

(** ================= NUTS ================= *)

(** The requested number of states, for every oracle, stream, depth bound and step schedule. *)
Theorem C09_nuts_n_states :
  forall P M Sz SV E U base uturn_ok sneg sopp acc dir slice eps tinf n md ni p0 st l rest,
    nuts P M Sz SV E U base uturn_ok sneg sopp acc dir slice eps tinf n md ni p0 st = NChain l rest ->
    length l = n.
Proof. exact nuts_length. Qed.
Print Assumptions C09_nuts_n_states.

(** The invariant of the tree recursion: a subtree proposal that can be selected ([n_sub > 0])
    has a good target.  Needs: a ratio n/n is always above the uniform draw (u < 1), and a leaf
    counted inside a proper slice has a good target. *)
Theorem C09_nuts_tree_invariant :
  forall P M Sz SV E U base uturn_ok sneg acc (good : P -> Prop) (svok : SV -> Prop),
    (forall u n, 0 < n -> acc u n n = true) ->
    (forall s sv p m, svok sv -> l_in (base s sv p m) = true -> good (l_p (base s sv p m))) ->
    forall d s sv p m st t st',
      svok sv -> build P M Sz SV E U base uturn_ok sneg acc d s sv p m st = Some (t, st') ->
      tree_inv P M good t.
Proof. exact build_inv. Qed.
Print Assumptions C09_nuts_tree_invariant.

(** Started at a good point, every returned state is good.  Additionally needs: a ratio 0/n is
    never above the draw (u >= 0) and the slice variable drawn at a good state is proper. *)
Theorem C09_nuts_support :
  forall P M Sz SV E U base uturn_ok sneg sopp acc dir slice eps tinf (good : P -> Prop) (svok : SV -> Prop),
    (forall u n, acc u 0 n = false) ->
    (forall u n, 0 < n -> acc u n n = true) ->
    (forall s sv p m, svok sv -> l_in (base s sv p m) = true -> good (l_p (base s sv p m))) ->
    (forall p m e, good p -> svok (slice p m e)) ->
    forall n md ni p0 st l rest,
      good p0 ->
      nuts P M Sz SV E U base uturn_ok sneg sopp acc dir slice eps tinf n md ni p0 st = NChain l rest ->
      Forall good l.
Proof. exact nuts_support. Qed.
Print Assumptions C09_nuts_support.

(** Binary64: [log_slicevar <= target(params1) - kinetic] with a slice variable that is neither
    -inf nor nan implies that target(params1) is neither -inf nor nan, for every kinetic term. *)
Theorem C09_nuts_leaf_in_good :
  forall ls t k, bad ls = false -> leaf_in ls t k = true -> bad t = false.
Proof. exact leaf_in_good. Qed.
Print Assumptions C09_nuts_leaf_in_good.

(** The support theorem with the leaf test spelled out in binary64 (leaf hypothesis discharged). *)
Theorem C09_nuts_support_float :
  forall P M Sz E U leap (target : P -> float) kin l_ok_f l_out_f l_mh_f uturn_ok sneg sopp acc dir slice eps tinf,
    (forall u n, acc u 0 n = false) ->
    (forall u n, 0 < n -> acc u n n = true) ->
    (forall p m e, bad (target p) = false -> bad (slice p m e) = false) ->
    forall n md ni p0 st l rest,
      bad (target p0) = false ->
      nuts P M Sz float E U (base_f P M Sz leap target kin l_ok_f l_out_f l_mh_f)
           uturn_ok sneg sopp acc dir slice eps tinf n md ni p0 st = NChain l rest ->
      Forall (fun p => bad (target p) = false) l.
Proof. exact nuts_support_float. Qed.
Print Assumptions C09_nuts_support_float.

Theorem C09_nuts_ok_sound : forall c, nok c = true -> nuts_property_holds c.
Proof. exact nok_sound. Qed.
Print Assumptions C09_nuts_ok_sound.

(** ================= histories of calls in one process (wave 3) ================= *)

(** No state between calls: whatever the process went through before ([prev]: any list of earlier
    calls with their results), every call of a history - nuts or metropolis, on a target callable
    that earlier calls used or on a new one, with a seed / start / setting used before or not, with a
    given or a searched step size - returns the model's result for that call alone. *)
Theorem C09_history_calls_are_fresh :
  forall h prev, history_results prev h = map model_result h.
Proof. exact history_results_fresh. Qed.
Print Assumptions C09_history_calls_are_fresh.

(** Deterministic in the arguments and the seed: two calls of one history with the same inputs
    (arguments, generator stream = seed, oracles = target) return the same result, which is the
    result of the call alone. *)
Theorem C09_history_equal_calls_equal_results :
  forall h prev i j c1 c2,
    nth_error h i = Some c1 -> nth_error h j = Some c2 -> inputs c1 = inputs c2 ->
    nth_error (history_results prev h) i = nth_error (history_results prev h) j
    /\ nth_error (history_results prev h) i = Some (model_result c1).
Proof. exact equal_calls_equal_results. Qed.
Print Assumptions C09_history_equal_calls_equal_results.

(** The history correspondence [hagree] is the comparison of every call, where it stands in the
    history, with the model's replay of the record of the same call made alone. *)
Theorem C09_history_correspondence_each_call :
  forall h, hagree h = forallb call_agree h.
Proof. exact hagree_each_fresh. Qed.
Print Assumptions C09_history_correspondence_each_call.

Theorem C09_history_ok_each_call : forall h, hok h = forallb call_ok h.
Proof. exact hok_each_call. Qed.
Print Assumptions C09_history_ok_each_call.

(** Soundness of the decidable [hok] on a recorded history: from any earlier process state, every call
    returned the model's chain of the call made alone, drew exactly the numbers the call alone draws
    (same stream, same number of momentum draws in the step-size search, same step sizes), and satisfies
    the single-call property both alone and where it stands. *)
Theorem C09_history_ok_sound :
  forall h prev, hok h = true -> Forall2 call_holds h (history_results prev (map hc_fresh h)).
Proof. exact hok_each. Qed.
Print Assumptions C09_history_ok_sound.

(** ================= non-vacuity ================= *)

(** Metropolis on a 1-D box target (-inf outside [-1,1]): a proposal outside the support is
    rejected, two are accepted; warm-up 1, two states requested. *)
Example C09_metropolis_example :
  let tg := lookup_t [([0x1p-1], -0x1p-3); ([0x1.8p+0], neg_infinity);
                      ([0x1p-2], -0x1p-5); ([0x1.8p-1], -0x1.2p-2)]%float in
  let ex := lookup_e [(neg_infinity, 0); (0x1.8p-4, 0x1.192937074e0cdp+0);
                      (-0x1p-2, 0x1.8ebef9eac820bp-1)]%float in
  metropolis tg ex [1%float] 2 1 [0x1p-1%float]
    [DN [1%float]; DU 0x1.3333333333333p-2%float; DN [(-0x1p-2)%float]; DU 0x1.ccccccccccccdp-1%float;
     DN [0x1p-1%float]; DU 0x1.999999999999ap-3%float]
  = Chain [[0x1p-2%float]; [0x1.8p-1%float]]
  /\ is_finite (tg [0x1p-1%float]) = true.
Proof. vm_compute. split; reflexivity. Qed.

(** A run started from a 1-element integer array: the start 0 stored as an int, the scale 1
    stored as an int, proposal 0 + 1 * 0.75 = 0.75 accepted: the state is 0.75 in
    double precision, not its truncation to the start's integer type. *)
Example C09_metropolis_example_int_start :
  let tg := lookup_t [([0]%float, 0%float); ([0x1.8p-1]%float, (-0x1.2p-2)%float)] in
  let ex := lookup_e [((-0x1.2p-2)%float, 0x1.8276b9e2d2d4fp-1%float)] in
  metropolis_entry tg ex [NI 1%Z] 1 0 [NI 0%Z] [DN [0x1.8p-1%float]; DU 0x1p-1%float]
  = Chain [[0x1.8p-1%float]]
  /\ to_f64 (NI (-3)%Z) = (-3)%float /\ to_f64 (NI 0%Z) = 0%float
  /\ to_f64 (NI 9007199254740993%Z) = 0x1p+53%float.
Proof. vm_compute. repeat split; reflexivity. Qed.

(** NUTS: the toy instance (Proofs/C09_Nuts.v, module Toy) satisfies all four hypotheses of
    [C09_nuts_support], and the model runs to a chain that moves, goes backwards and builds a
    depth-1 tree. *)
Example C09_nuts_example_support :
  forall n md ni p0 st l rest,
    Toy.good p0 -> Toy.run n md ni p0 st = NChain l rest -> Forall Toy.good l.
Proof. exact Toy.support. Qed.

Example C09_nuts_example_run :
  Toy.run 3 1 0 4
    [NM 7; NE 2; NU 10; NU 30; NU 20; NU 40;
     NM 7; NE 3; NU 80; NU 10; NU 70; NU 60; NU 10;
     NM 7; NE 9; NU 10; NU 10; NU 10; NU 10]
  = NChain [6; 4; 4] [].
Proof. vm_compute. reflexivity. Qed.

(** Histories: a NUTS call alone (the step-size search draws one momentum first) followed by the same
    call again and by a Metropolis call: passes.  The same history with the second NUTS call recorded in a
    process that remembered the step size and skipped the search (so the call did not draw what it draws
    alone - here it even returns the same state): rejected.  A call whose result differs from the call
    alone: rejected. *)
Example C09_history_example :
  let nuts := {| hc_fresh := ex_alone; hc_here := ex_alone |} in
  let met := {| hc_fresh := ex_met [[0x1.8p-1%float]]; hc_here := ex_met [[0x1.8p-1%float]] |} in
  ok ex_alone = true /\ ok ex_skipped = true
  /\ hok [nuts; nuts; met] = true
  /\ history_results [] [ex_alone; ex_alone] = [MRNuts (NChain [2%N] []); MRNuts (NChain [2%N] [])]
  /\ hagree [nuts; {| hc_fresh := ex_alone; hc_here := ex_skipped |}] = true
  /\ hok [nuts; {| hc_fresh := ex_alone; hc_here := ex_skipped |}] = false
  /\ hok [met; {| hc_fresh := ex_met [[0x1.8p-1%float]]; hc_here := ex_met [[0%float]] |}] = false
  /\ ok_t (History [nuts; nuts; met]) = true /\ ok_t (Single ex_alone) = true.
Proof. vm_compute. repeat split; reflexivity. Qed.

(** ---- non-vacuity of the hypotheses (audit) ---- *)

(** [C09_metropolis_accept_le], [C09_metropolis_live]: the box target of [C09_metropolis_example] *)
Definition C09_nv_tg : vec -> float :=
  lookup_t [([0x1p-1], -0x1p-3); ([0x1.8p+0], neg_infinity); ([0x1p-2], -0x1p-5); ([0x1.8p-1], -0x1.2p-2)]%float.
Definition C09_nv_ex : float -> float :=
  lookup_e [(neg_infinity, 0); (0x1.8p-4, 0x1.192937074e0cdp+0); (-0x1p-2, 0x1.8ebef9eac820bp-1)]%float.
Definition C09_nv_stream : list draw :=
  [DN [1%float]; DU 0x1.3333333333333p-2%float; DN [(-0x1p-2)%float]; DU 0x1.ccccccccccccdp-1%float;
   DN [0x1p-1%float]; DU 0x1.999999999999ap-3%float].

Example C09_metropolis_accept_le_nonvacuous :
  let x := [0x1p-2%float] in let y := [0x1.8p-1%float] in let u := 0x1.999999999999ap-3%float in
  is_nan (C09_nv_ex (C09_nv_tg y - C09_nv_tg x)%float) = false /\ is_nan u = false
  /\ C09_nv_ex (C09_nv_tg y - C09_nv_tg x)%float = 0x1.8ebef9eac820bp-1%float
  /\ accept C09_nv_tg C09_nv_ex x y u = true
  /\ accept C09_nv_tg C09_nv_ex x y 0x1.ccccccccccccdp-1%float = false.
Proof. vm_compute. repeat split; reflexivity. Qed.

Example C09_metropolis_live_nonvacuous :
  is_infinity (C09_nv_tg [0x1p-1%float]) = false
  /\ exists ds, pairs (2 + 1) C09_nv_stream = Some ds /\ length ds = 3
     /\ metropolis C09_nv_tg C09_nv_ex [1%float] 2 1 [0x1p-1%float] C09_nv_stream
        = Chain (skipn 1 (scan C09_nv_tg C09_nv_ex [1%float] [0x1p-1%float] ds)).
Proof.
  split; [vm_compute; reflexivity|]. eexists. split; [vm_compute; reflexivity|]. split; [reflexivity|].
  apply C09_metropolis_live; vm_compute; reflexivity.
Qed.

(** [C09_metropolis_entry_storage_independent]: different storages of the same numbers *)
Example C09_metropolis_entry_storage_independent_nonvacuous :
  map to_f64 [NI 0%Z] = map to_f64 [NF 0%float] /\ [NI 0%Z] <> [NF 0%float]
  /\ map to_f64 [NI 1%Z] = map to_f64 [NF 1%float] /\ [NI 1%Z] <> [NF 1%float].
Proof. repeat split; try discriminate; vm_compute; reflexivity. Qed.

(** [C09_metropolis_ok_sound], [C09_nuts_ok_sound]: recorded runs that pass the decidable predicates *)
Example C09_ok_sound_nonvacuous :
  match ex_met [[0x1.8p-1%float]] with CMet m => Mcmc.ok m | CNuts _ => false end = true
  /\ match ex_alone with CNuts n => nok n | CMet _ => false end = true.
Proof. vm_compute. split; reflexivity. Qed.

(** [C09_nuts_tree_invariant], [C09_nuts_support]: the four hypotheses on the toy instance, a good start, a tree
    actually built (depth 1, two leaves inside the slice) and a run that returns a chain *)
Example C09_nuts_support_nonvacuous :
  (forall u n, Toy.acc u 0 n = false)
  /\ (forall u n, 0 < n -> Toy.acc u n n = true)
  /\ (forall s sv p m, True -> l_in (Toy.base s sv p m) = true -> Toy.good (l_p (Toy.base s sv p m)))
  /\ (forall p m e : nat, Toy.good p -> True)
  /\ Toy.good 4
  /\ (exists t st', build nat nat bool nat nat nat Toy.base Toy.uturn_ok (fun s => s) Toy.acc 1 false 2 4 7
                          [NU 10; NU 30; NU 20; NU 40] = Some (t, st') /\ t_n t = 2)
  /\ Toy.run 3 1 0 4
       [NM 7; NE 2; NU 10; NU 30; NU 20; NU 40; NM 7; NE 3; NU 80; NU 10; NU 70; NU 60; NU 10;
        NM 7; NE 9; NU 10; NU 10; NU 10; NU 10] = NChain [6; 4; 4] [].
Proof.
  split; [exact Toy.acc_zero|]. split; [exact Toy.acc_full|]. split; [exact Toy.leaf_good|].
  split; [intros; exact I|]. split; [unfold Toy.good; repeat constructor|].
  split; [do 2 eexists; split; [vm_compute; reflexivity|reflexivity]|]. exact C09_nuts_example_run.
Qed.

(** [C09_nuts_leaf_in_good] *)
Example C09_nuts_leaf_in_good_nonvacuous :
  bad (-1)%float = false /\ leaf_in (-1)%float (-0x1p-2)%float 0x1p-1%float = true
  /\ bad (-0x1p-2)%float = false.
Proof. vm_compute. repeat split; reflexivity. Qed.

(** [C09_nuts_support_float]: positions on a line, binary64 log-target -p on p <= 6 and -inf beyond, kinetic term 1/2,
    a slice variable that depends on the draw; the three hypotheses, a start with a good target, and a run to a chain *)
Definition C09_nv_targetf (p : nat) : float :=
  if p <=? 6 then (- of_uint63 (Uint63.of_Z (Z.of_nat p)))%float else neg_infinity.
Definition C09_nv_slicef (p m e : nat) : float := if e <=? 5 then (-0x1p+3)%float else (-0x1p+4)%float.
Definition C09_nv_leap (s : bool) (p m : nat) : nat * nat := (if s then p - 1 else p + 1, m).
Definition C09_nv_basef : bool -> float -> nat -> nat -> leaf nat nat :=
  base_f nat nat bool C09_nv_leap C09_nv_targetf (fun _ => 0x1p-1%float)
         (fun _ p _ => p <=? 8) (fun _ p _ => negb (p <=? 8)) (fun _ _ _ => 1%float).

Example C09_nuts_support_float_nonvacuous :
  (forall u n, Toy.acc u 0 n = false)
  /\ (forall u n, 0 < n -> Toy.acc u n n = true)
  /\ (forall p m e, bad (C09_nv_targetf p) = false -> bad (C09_nv_slicef p m e) = false)
  /\ bad (C09_nv_targetf 4) = false /\ bad (C09_nv_targetf 7) = true
  /\ nuts nat nat bool float nat nat C09_nv_basef Toy.uturn_ok (fun s => s) negb Toy.acc Toy.dir C09_nv_slicef
          (fun _ => false) (fun _ => false) 3 1 0 4
          [NM 7; NE 2; NU 10; NU 30; NU 20; NU 40; NM 7; NE 3; NU 80; NU 10; NU 70; NU 60; NU 10;
           NM 7; NE 9; NU 10; NU 10; NU 10; NU 10] = NChain [6; 4; 6] [].
Proof.
  split; [exact Toy.acc_zero|]. split; [exact Toy.acc_full|].
  split; [intros p m e _; unfold C09_nv_slicef; destruct (e <=? 5); vm_compute; reflexivity|].
  split; [vm_compute; reflexivity|]. split; vm_compute; reflexivity.
Qed.

(** [C09_history_equal_calls_equal_results]: two DIFFERENT records (different recorded outputs) of calls with the same
    inputs, at positions 0 and 2 of a history *)
Example C09_history_equal_calls_nonvacuous :
  let c1 := ex_alone in let c2 := ex_nuts 1 (NM 9%N :: ex_stream) [5%N] in
  let h := [c1; ex_met [[0x1.8p-1%float]]; c2] in
  nth_error h 0 = Some c1 /\ nth_error h 2 = Some c2 /\ inputs c1 = inputs c2 /\ c1 <> c2
  /\ nth_error (history_results [] h) 0 = nth_error (history_results [] h) 2.
Proof.
  cbv zeta. split; [reflexivity|]. split; [reflexivity|].
  assert (Hi : inputs ex_alone = inputs (ex_nuts 1 (NM 9%N :: ex_stream) [5%N])) by reflexivity.
  split; [exact Hi|]. split; [intro H; discriminate H|].
  exact (proj1 (C09_history_equal_calls_equal_results
                  [ex_alone; ex_met [[0x1.8p-1%float]]; ex_nuts 1 (NM 9%N :: ex_stream) [5%N]] [] 0 2
                  ex_alone (ex_nuts 1 (NM 9%N :: ex_stream) [5%N]) eq_refl eq_refl Hi)).
Qed.
