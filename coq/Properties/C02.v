(** C02 — seeded runs are pure functions of (model, seed, configuration).
    Models: Graph/Net.v (executor, its cache, the name-sorted DFS order); Num/Seed.v (sub-seeds).
    Proofs: Proofs/C02_Order.v, Base/StrOrder.v, Proofs/C15_Seed.v. *)
From Coq Require Import List String ZArith Arith Bool NArith Sorting.Permutation.
From Elfi Require Import Graph.Net Base.StrOrder Proofs.C03_Exec Proofs.C02_Order Num.Seed Proofs.C15_Seed.
Import ListNotations.

(** The fixed execution order does not depend on node or edge insertion order. *)
Theorem C02_order_insertion_independent :
  forall g g',
    Permutation (map fst (c_nodes g)) (map fst (c_nodes g')) ->
    Permutation (c_edges g) (c_edges g') ->
    sort_order g = sort_order g'.
Proof. exact sort_order_insertion_independent. Qed.
Print Assumptions C02_order_insertion_independent.

(** sorted(names) is a function of the set of names. *)
Theorem C02_sorted_names_canonical :
  forall l1 l2, Permutation l1 l2 -> sort_names l1 = sort_names l2.
Proof. exact sort_names_permutation. Qed.
Print Assumptions C02_sorted_names_canonical.

(** With a consistent executor cache an execution returns what a fresh context returns. *)
Theorem C02_cache_transparent :
  forall g c, CacheConsistent g c -> strip (execute g c) = strip (execute g empty_cache).
Proof. exact execute_cache_transparent. Qed.
Print Assumptions C02_cache_transparent.

(** History independence: for every history of loaded nets of one compiled net (pairwise
    coherent: same structure, and equal needed tuples imply the same present outputs) sharing one
    executor cache, every execution returns exactly what it returns on a fresh context. *)
Theorem C02_history_independent :
  forall gs,
    (forall g g', In g gs -> In g' gs -> coherent g g') ->
    exec_history gs empty_cache = map (fun g => strip (execute g empty_cache)) gs.
Proof.
  intros gs H. apply C02_Order.history_independent; [exact H | intros; apply CacheConsistent_empty].
Qed.
Print Assumptions C02_history_independent.

(** The order of operation calls (hence of draws from the single batch generator) respects
    dependencies: when an operation runs, each parent had a value initially or ran earlier. *)
Theorem C02_log_respects_dependencies :
  forall g order g' log,
    run_order g order [] = Ok (g', log) ->
    forall i n, nth_error log i = Some n ->
      forall u p, In (u, p) (preds (c_edges g) n) -> has_out g u = true \/ In u (firstn i log).
Proof. exact log_respects_dependencies. Qed.
Print Assumptions C02_log_respects_dependencies.

(** The call log of an execution is the scheduled order restricted to operation nodes: a
    sub-sequence of one fixed order per graph. *)
Theorem C02_log_is_filtered_order :
  forall g0 order g log g' log',
    C03_Exec.Inv g0 g -> NoDup order -> run_order g order log = Ok (g', log') ->
    log' = log ++ filter (has_op g) order.
Proof. intros g0 order g log g' log' HI Hnd H. exact (proj2 (run_order_sound g0 order g log g' log' HI Hnd H)). Qed.
Print Assumptions C02_log_is_filtered_order.

(** The batch generator's seed depends only on (seed, batch index): whatever the sub-seed cache
    holds and whatever was requested before (C15). *)
Theorem C02_subseed_history_independent :
  forall fuel s high reqs,
    Forall2 (fun rq r => good s high (fst rq) r) reqs (run_history fuel s high None reqs).
Proof. intros. apply C15_Seed.history_independent. exact I. Qed.
Print Assumptions C02_subseed_history_independent.

(** Non-vacuity: two insertion orders of a diamond-shaped net, same sort order. *)
Definition cn (o : option value) (p : option op) : cnode := {| c_out := o; c_op := p |}.
Definition exA : cnet :=
  {| c_nodes := [("a"%string, cn (Some (VConst 1)) None); ("b"%string, cn None (Some (OpUser "b"%string)));
                 ("c"%string, cn None (Some (OpUser "c"%string))); ("d"%string, cn None (Some (OpUser "d"%string)))];
     c_edges := [("a"%string, "b"%string, PInt 0); ("a"%string, "c"%string, PInt 0);
                 ("b"%string, "d"%string, PInt 0); ("c"%string, "d"%string, PInt 1)];
     c_outputs := ["d"%string]; c_observed := [] |}.
Definition exB : cnet :=
  {| c_nodes := [("d"%string, cn None (Some (OpUser "d"%string))); ("c"%string, cn None (Some (OpUser "c"%string)));
                 ("a"%string, cn (Some (VConst 1)) None); ("b"%string, cn None (Some (OpUser "b"%string)))];
     c_edges := [("c"%string, "d"%string, PInt 1); ("a"%string, "c"%string, PInt 0);
                 ("b"%string, "d"%string, PInt 0); ("a"%string, "b"%string, PInt 0)];
     c_outputs := ["d"%string]; c_observed := [] |}.
Example C02_example :
  sort_order exA = Ok ["a"%string; "b"%string; "c"%string; "d"%string]
  /\ sort_order exB = sort_order exA
  /\ exec_history [exA; exB; exA] empty_cache = map (fun g => strip (execute g empty_cache)) [exA; exB; exA].
Proof. vm_compute. repeat split. Qed.

(** ---- insertion-order independence of [generate], end to end ---- *)
From Elfi Require Import Graph.Denote Proofs.C03_EndToEnd Proofs.C03_Twins Proofs.C03_ModelOk Proofs.C02_Insertion Proofs.C02_History.
From Elfi Require Graph.Determinism.

(** Two builds of one model that differ only in the ORDER in which the nodes, the edges and the
    observed data were inserted ([same_model]: the three lists are permutations) give the same
    [ElfiModel.generate] result through compile (five compilers incl. twins and the reduction) ->
    load -> execute: syntactically equal output values AND the same order of operation calls (hence
    the same sequence of draws from the single batch generator).  Hypotheses: the first build is
    well-formed ([wfsrc]), the supplied values have distinct non-reserved keys, the requested outputs
    are nodes or twins ([outputs_wf]), and the parameters on the incoming edges of each node are
    pairwise distinct ([params_distinct]: ELFI numbers positional parents consecutively and keyword
    parents have distinct names; without it the positional order of equal indices IS the insertion
    order, see [C02_params_distinct_needed]). *)
Theorem C02_generate_insertion_independent :
  forall src src' outs W out log out' log',
    wfsrc src -> same_model src src' ->
    NoDup (map fst W) -> (forall k, In k (map fst W) -> ~ In k inames) -> outputs_wf src outs ->
    params_distinct src ->
    generate src outs W = Ok (out, log) -> generate src' outs W = Ok (out', log') ->
    out = out' /\ log = log'.
Proof. exact generate_insertion_independent. Qed.
Print Assumptions C02_generate_insertion_independent.

(** The user-level meaning of every node and twin is insertion-order independent. *)
Theorem C02_meaning_insertion_independent :
  forall src src' W o,
    wfsrc src -> same_model src src' -> params_distinct src -> den_name src W o = den_name src' W o.
Proof. intros. now apply den_name_perm. Qed.
Print Assumptions C02_meaning_insertion_independent.

(** The name-sorted topological order of the two loaded nets is the same list. *)
Theorem C02_loaded_sort_order :
  forall src src' W outs cn cn' g1 g1',
    wfsrc src -> same_model src src' -> outputs_wf src outs ->
    compile_outputs (s_nodes src) = Ok cn -> compile_outputs (s_nodes src') = Ok cn' ->
    CO src cn (topo_order src) g1 -> CO src' cn' (topo_order src') g1' ->
    c_outputs g1 = outs -> c_outputs g1' = outs ->
    nd (compile_reduce (G4of src g1)) -> nd (compile_reduce (G4of src' g1')) ->
    sort_order (load (wp W) (compile_reduce (G4of src g1))) = sort_order (load (wp W) (compile_reduce (G4of src' g1'))).
Proof. exact loaded_sort_order. Qed.
Print Assumptions C02_loaded_sort_order.

(** On the correspondence interface (Graph/Determinism.v): the model's own results for the two builds
    and for every generate call of a history on one object pass the decidable property
    [Determinism.ok]; hence on every case where the implementation agrees with the model, the property
    holds of the implementation's runs.  The history [calls] is ANY list of (current net, fresh build,
    outputs): no hypothesis relates a step to the earlier ones, because the model's generate has no
    state besides the current source net (see [C02_generate_history_independent]). *)
Theorem C02_model_ok :
  forall src src' outs calls,
    wfsrc src -> same_model src src' -> outputs_wf src outs -> params_distinct src ->
    Determinism.model_result src outs <> ImplErr -> Determinism.model_result src' outs <> ImplErr ->
    Forall hcall_wf calls ->
    Determinism.ok {| Determinism.d_src1 := src; Determinism.d_src2 := src'; Determinism.d_outputs := outs;
                      Determinism.d_impl1 := Determinism.model_result src outs;
                      Determinism.d_impl2 := Determinism.model_result src' outs;
                      Determinism.d_hist := map model_step calls |} = true.
Proof. exact model_ok_C02_history. Qed.
Print Assumptions C02_model_ok.

(** Histories on ONE model object: a generate call does not depend on earlier generate calls or on
    earlier edits of the same object beyond the object's current graph.  [generate] is a function of
    the current source net, the outputs and the supplied values only, so for ANY history of current
    nets (generate calls with any outputs and seeds interleaved with become / observed-data / flag /
    parameter edits and added or removed nodes and edges) the k-th call returns the values and the call
    log that a freshly built model with the same nodes, edges and observed data (inserted in any order)
    returns: [C02_generate_insertion_independent] applied to the current net of the step. *)
Theorem C02_generate_history_independent :
  forall calls : list hcall,
    Forall hcall_wf calls ->
    forall k src src' outs, nth_error calls k = Some (src, src', outs) ->
      Determinism.model_result src outs = Determinism.model_result src' outs.
Proof. exact generate_history_independent. Qed.
Print Assumptions C02_generate_history_independent.

(** The decidable property implies the Prop-level statement on the implementation's results: the two
    builds returned equal values and call logs, and so did every history step and its fresh build. *)
Theorem C02_ok_sound :
  forall c, Determinism.ok c = true ->
    Determinism.d_impl1 c = Determinism.d_impl2 c
    /\ forall s, In s (Determinism.d_hist c) -> Determinism.h_impl s = Determinism.h_impl_fresh s.
Proof. exact ok_sound_C02. Qed.
Print Assumptions C02_ok_sound.

(** Non-vacuity: a five-node model with twins (prior -> simulator with data -> two summaries ->
    discrepancy using the observed tuple) built in two insertion orders: nodes and edges permuted
    (also the topological order the ObservedCompiler uses differs: s1, s2 swap). *)
Definition ins_st id st ob uo ub : sstate :=
  {| s_output := None; s_has_op := true; s_stochastic := st; s_observable := ob; s_uses_observed := uo;
     s_uses_batch_size := ub; s_uses_meta := false; s_parameter := false; s_opid := id |}.
Definition insA : snet :=
  {| s_nodes := [("mu"%string, ins_st "mu"%string true false false true);
                 ("sim"%string, ins_st "sim"%string true true false true);
                 ("s1"%string, ins_st "s1"%string false true false false);
                 ("s2"%string, ins_st "s2"%string false true false false);
                 ("d"%string, ins_st "d"%string false false true false)];
     s_edges := [("mu"%string, "sim"%string, PInt 0); ("sim"%string, "s1"%string, PInt 0);
                 ("sim"%string, "s2"%string, PInt 0); ("s1"%string, "d"%string, PInt 0);
                 ("s2"%string, "d"%string, PInt 1)];
     s_observed := [("sim"%string, VConst 7)] |}.
Definition insB : snet :=
  {| s_nodes := [("d"%string, ins_st "d"%string false false true false);
                 ("s2"%string, ins_st "s2"%string false true false false);
                 ("sim"%string, ins_st "sim"%string true true false true);
                 ("s1"%string, ins_st "s1"%string false true false false);
                 ("mu"%string, ins_st "mu"%string true false false true)];
     s_edges := [("s2"%string, "d"%string, PInt 1); ("sim"%string, "s2"%string, PInt 0);
                 ("s1"%string, "d"%string, PInt 0); ("mu"%string, "sim"%string, PInt 0);
                 ("sim"%string, "s1"%string, PInt 0)];
     s_observed := [("sim"%string, VConst 7)] |}.

Ltac perm_split a pre l' :=
  lazymatch l' with
  | a :: ?r => apply (Permutation_cons_app (rev pre) r a)
  | ?b :: ?r => perm_split a constr:(b :: pre) r
  end.
Ltac perm_lists :=
  lazymatch goal with
  | |- Permutation nil nil => apply perm_nil
  | |- @Permutation ?T (?a :: _) ?l' => perm_split a constr:(@nil T) l'; cbn [rev app]; perm_lists
  end.

Lemma insAB_same_model : same_model insA insB.
Proof. unfold same_model, insA, insB. cbn [s_nodes s_edges s_observed]. repeat split; perm_lists. Qed.
Print Assumptions insAB_same_model.

Example C02_generate_insertion_independent_example :
  wfsrc_b insA = true /\ outputs_wf_b insA ["d"%string] = true /\ params_distinct_b insA = true
  /\ same_model insA insB
  /\ topo_order insA <> topo_order insB
  /\ generate insA ["d"%string] [] = generate insB ["d"%string] []
  /\ match generate insA ["d"%string] [] with
     | Ok (out, log) =>
         List.length out = 1%nat
         /\ log = ["_s2_observed"; "_s1_observed"; "_d_observed"; "mu"; "sim"; "s1"; "s2"; "d"]%string
     | Err _ => False
     end.
Proof.
  split; [vm_compute; reflexivity|]. split; [vm_compute; reflexivity|]. split; [vm_compute; reflexivity|].
  split; [exact insAB_same_model|]. split; [vm_compute; discriminate|].
  split; [vm_compute; reflexivity|]. vm_compute. split; reflexivity.
Qed.

(** The theorem instantiated on the two builds (hypotheses through the decidable forms). *)
Example C02_generate_insertion_independent_instance :
  forall out log out' log',
    generate insA ["d"%string] [] = Ok (out, log) -> generate insB ["d"%string] [] = Ok (out', log') ->
    out = out' /\ log = log'.
Proof.
  intros out log out' log'.
  assert (Hwf : wfsrc insA) by (apply wfsrc_b_sound; vm_compute; reflexivity).
  apply (C02_generate_insertion_independent insA insB ["d"%string] [] out log out' log' Hwf insAB_same_model).
  - constructor.
  - intros k [].
  - apply (outputs_wf_b_sound _ _ (wf_nodup _ Hwf)). vm_compute. reflexivity.
  - apply params_distinct_b_sound. vm_compute. reflexivity.
Qed.

(** [params_distinct] is needed: with two positional parents carrying the SAME index (which ELFI's
    node constructors never produce) the argument order is the edge insertion order. *)
Definition dupA : snet :=
  {| s_nodes := s_nodes insA;
     s_edges := [("mu"%string, "sim"%string, PInt 0); ("sim"%string, "s1"%string, PInt 0);
                 ("sim"%string, "s2"%string, PInt 0); ("s1"%string, "d"%string, PInt 0);
                 ("s2"%string, "d"%string, PInt 0)];
     s_observed := s_observed insA |}.
Definition dupB : snet :=
  {| s_nodes := s_nodes insA;
     s_edges := [("mu"%string, "sim"%string, PInt 0); ("sim"%string, "s1"%string, PInt 0);
                 ("sim"%string, "s2"%string, PInt 0); ("s2"%string, "d"%string, PInt 0);
                 ("s1"%string, "d"%string, PInt 0)];
     s_observed := s_observed insA |}.
Example C02_params_distinct_needed :
  wfsrc_b dupA = true /\ same_model dupA dupB /\ params_distinct_b dupA = false
  /\ generate dupA ["_d_observed"%string] [] <> generate dupB ["_d_observed"%string] [].
Proof.
  split; [vm_compute; reflexivity|]. split.
  - unfold same_model, dupA, dupB, insA. cbn [s_nodes s_edges s_observed]. repeat split; perm_lists.
  - split; [vm_compute; reflexivity | vm_compute; discriminate].
Qed.

(** Non-vacuity of the history statements: generate on [insA], then a count-preserving in-place edit
    (the prior mu is replaced through become by a prior with another operation: same number of nodes
    and edges; the re-inserted node moves to the end of the node list and the observed data changes),
    then generate again with the same outputs.  Both calls are well-formed, each equals its fresh build
    (another insertion order), and the second call does NOT return what the first returned. *)
Definition insA2 : snet :=
  {| s_nodes := [("sim"%string, ins_st "sim"%string true true false true);
                 ("s1"%string, ins_st "s1"%string false true false false);
                 ("s2"%string, ins_st "s2"%string false true false false);
                 ("d"%string, ins_st "d"%string false false true false);
                 ("mu"%string, ins_st "mu_v2"%string true false false true)];
     s_edges := [("sim"%string, "s1"%string, PInt 0);
                 ("sim"%string, "s2"%string, PInt 0); ("s1"%string, "d"%string, PInt 0);
                 ("s2"%string, "d"%string, PInt 1); ("mu"%string, "sim"%string, PInt 0)];
     s_observed := [("sim"%string, VConst 8)] |}.
Definition insB2 : snet :=
  {| s_nodes := [("d"%string, ins_st "d"%string false false true false);
                 ("mu"%string, ins_st "mu_v2"%string true false false true);
                 ("s2"%string, ins_st "s2"%string false true false false);
                 ("sim"%string, ins_st "sim"%string true true false true);
                 ("s1"%string, ins_st "s1"%string false true false false)];
     s_edges := [("s2"%string, "d"%string, PInt 1); ("sim"%string, "s2"%string, PInt 0);
                 ("mu"%string, "sim"%string, PInt 0); ("s1"%string, "d"%string, PInt 0);
                 ("sim"%string, "s1"%string, PInt 0)];
     s_observed := [("sim"%string, VConst 8)] |}.
Definition hist_calls : list hcall :=
  [(insA, insB, ["d"%string]); (insA2, insB2, ["d"%string]); (insA, insB, ["mu"%string; "d"%string])].

Lemma insAB2_same_model : same_model insA2 insB2.
Proof. unfold same_model, insA2, insB2. cbn [s_nodes s_edges s_observed]. repeat split; perm_lists. Qed.
Print Assumptions insAB2_same_model.

Example C02_history_example :
  Forall hcall_wf hist_calls
  /\ List.length (s_nodes insA) = List.length (s_nodes insA2)
  /\ List.length (s_edges insA) = List.length (s_edges insA2)
  /\ Determinism.model_result insA ["d"%string] <> Determinism.model_result insA2 ["d"%string]
  /\ forallb Determinism.step_ok (map model_step hist_calls) = true.
Proof.
  assert (H : Forall hcall_wf hist_calls).
  { unfold hist_calls.
    apply Forall_cons; [|apply Forall_cons; [|apply Forall_cons; [|apply Forall_nil]]].
    - apply hcall_wf_b_sound; try (vm_compute; reflexivity); try (vm_compute; discriminate). exact insAB_same_model.
    - apply hcall_wf_b_sound; try (vm_compute; reflexivity); try (vm_compute; discriminate). exact insAB2_same_model.
    - apply hcall_wf_b_sound; try (vm_compute; reflexivity); try (vm_compute; discriminate). exact insAB_same_model. }
  split; [exact H|]. split; [reflexivity|]. split; [reflexivity|].
  split; [vm_compute; discriminate|]. now apply model_history_ok.
Qed.

(** ---- success is insertion-order independent as well (Proofs/C02_Success.v) ---- *)
From Elfi Require Import Proofs.C02_Success.

(** The topological check of the compiler accepts a build iff it accepts every other build. *)
Theorem C02_topo_check_insertion_independent :
  forall src src', wfsrc src -> same_model src src' -> topo_ok src = true -> topo_ok src' = true.
Proof. exact topo_ok_perm. Qed.
Print Assumptions C02_topo_check_insertion_independent.

(** Compilation (five compilers) succeeds on one build iff it succeeds on every other build. *)
Theorem C02_compile_success_insertion_independent :
  forall src src' outs g,
    wfsrc src -> same_model src src' -> compile src outs = Ok g -> exists g', compile src' outs = Ok g'.
Proof. exact compile_success_insertion_independent. Qed.
Print Assumptions C02_compile_success_insertion_independent.

(** Execution succeeds on a net as soon as it succeeds on a net of the same shape (which nodes carry
    an output / which operation), permuted edges, the same outputs and the same sort order. *)
Theorem C02_execute_success_shape :
  forall g g' r,
    sheq g g' -> Permutation (c_edges g) (c_edges g') -> c_outputs g = c_outputs g' -> sort_order g = sort_order g' ->
    execute g empty_cache = Ok r -> exists r', execute g' empty_cache = Ok r'.
Proof. exact execute_success. Qed.
Print Assumptions C02_execute_success_shape.

(** If [generate] succeeds on one build of a model, it succeeds on every other build ... *)
Theorem C02_generate_success_insertion_independent :
  forall src src' outs W out log,
    wfsrc src -> same_model src src' ->
    NoDup (map fst W) -> (forall k, In k (map fst W) -> ~ In k inames) -> outputs_wf src outs ->
    params_distinct src ->
    generate src outs W = Ok (out, log) -> exists out' log', generate src' outs W = Ok (out', log').
Proof. exact generate_success_insertion_independent. Qed.
Print Assumptions C02_generate_success_insertion_independent.

(** ... and returns the same values and the same call order: no hypothesis on the second build. *)
Theorem C02_generate_same_insertion_independent :
  forall src src' outs W out log,
    wfsrc src -> same_model src src' ->
    NoDup (map fst W) -> (forall k, In k (map fst W) -> ~ In k inames) -> outputs_wf src outs ->
    params_distinct src ->
    generate src outs W = Ok (out, log) -> generate src' outs W = Ok (out, log).
Proof. exact generate_same_insertion_independent. Qed.
Print Assumptions C02_generate_same_insertion_independent.

(** ---- non-vacuity of the hypotheses (audit) ---- *)
Local Open Scope string_scope.

(** the two insertion orders [exA], [exB] of the diamond: permuted names and permuted edges *)
Example C02_order_insertion_independent_nonvacuous :
  Permutation (map fst (c_nodes exA)) (map fst (c_nodes exB))
  /\ Permutation (c_edges exA) (c_edges exB)
  /\ map fst (c_nodes exA) <> map fst (c_nodes exB) /\ c_edges exA <> c_edges exB
  /\ sort_order exA = sort_order exB.
Proof.
  assert (H1 : Permutation (map fst (c_nodes exA)) (map fst (c_nodes exB)))
    by (unfold exA, exB; cbn [c_nodes map fst]; perm_lists).
  assert (H2 : Permutation (c_edges exA) (c_edges exB)) by (unfold exA, exB; cbn [c_edges]; perm_lists).
  split; [exact H1|]. split; [exact H2|]. split; [vm_compute; discriminate|]. split; [vm_compute; discriminate|].
  exact (C02_order_insertion_independent _ _ H1 H2).
Qed.

Example C02_sorted_names_canonical_nonvacuous :
  Permutation ["sim"; "d"; "mu"; "s1"] ["s1"; "mu"; "sim"; "d"]
  /\ sort_names ["sim"; "d"; "mu"; "s1"] = ["d"; "mu"; "s1"; "sim"].
Proof. split; [perm_lists | vm_compute; reflexivity]. Qed.

(** the cache left by one execution of [exA] (sort order and one execution order stored) is
    consistent for the next execution of [exA] *)
Example C02_cache_transparent_nonvacuous :
  match execute exA empty_cache with
  | Ok (_, _, c) =>
      CacheConsistent exA c /\ ec_sort c <> None /\ ec_orders c <> []
      /\ strip (execute exA c) = strip (execute exA empty_cache)
  | Err _ => False
  end.
Proof.
  destruct (execute exA empty_cache) as [[[out log] c]|e] eqn:E; [|vm_compute in E; discriminate].
  assert (Hc : CacheConsistent exA c).
  { vm_compute in E. inversion E; subst. split.
    - intros so H. vm_compute in H. inversion H; subst. vm_compute. reflexivity.
    - intros o H. vm_compute in H. inversion H; subst. vm_compute. reflexivity. }
  split; [exact Hc|]. split; [vm_compute in E; inversion E; subst; vm_compute; discriminate|].
  split; [vm_compute in E; inversion E; subst; vm_compute; discriminate|].
  rewrite <- E. exact (C02_cache_transparent _ _ Hc).
Qed.

(** a history of three loaded nets of one compiled net: [exA], [exA] with [b] supplied, [exA] *)
Definition exA_b : cnet :=
  {| c_nodes := [("a", cn (Some (VConst 1)) None); ("b", cn (Some (VConst 2)) None);
                 ("c", cn None (Some (OpUser "c"))); ("d", cn None (Some (OpUser "d")))];
     c_edges := c_edges exA; c_outputs := ["d"]; c_observed := [] |}.
Example C02_history_independent_nonvacuous :
  (forall g g', In g [exA; exA_b; exA] -> In g' [exA; exA_b; exA] -> coherent g g')
  /\ key_of exA <> key_of exA_b
  /\ execute exA empty_cache <> execute exA_b empty_cache
  /\ exec_history [exA; exA_b; exA] empty_cache = map (fun g => strip (execute g empty_cache)) [exA; exA_b; exA].
Proof.
  assert (H : forall g g', In g [exA; exA_b; exA] -> In g' [exA; exA_b; exA] -> coherent g g').
  { intros g g' Hg Hg'. simpl in Hg, Hg'.
    destruct Hg as [<-|[<-|[<-|[]]]]; destruct Hg' as [<-|[<-|[<-|[]]]];
      (split; [reflexivity|]; split; [reflexivity|]; intros Hk n;
       first [reflexivity | vm_compute in Hk; discriminate Hk]). }
  split; [exact H|]. split; [vm_compute; discriminate|]. split; [vm_compute; discriminate|].
  exact (C02_history_independent _ H).
Qed.

(** the call log of [exA] is [b; c; d]; when [d] runs (position 2) its parent [b] has run *)
Example C02_log_nonvacuous :
  exists g', run_order exA ["a"; "b"; "c"; "d"] [] = Ok (g', ["b"; "c"; "d"])
    /\ nth_error ["b"; "c"; "d"] 2 = Some "d" /\ In ("b", PInt 0) (preds (c_edges exA) "d")
    /\ has_out exA "b" = false /\ In "b" (firstn 2 ["b"; "c"; "d"])
    /\ C03_Exec.Inv exA exA /\ NoDup ["a"; "b"; "c"; "d"]
    /\ ["b"; "c"; "d"] = ([] ++ filter (has_op exA) ["a"; "b"; "c"; "d"])%list.
Proof.
  assert (Hr : exists g', run_order exA ["a"; "b"; "c"; "d"] [] = Ok (g', ["b"; "c"; "d"]))
    by (eexists; vm_compute; reflexivity).
  destruct Hr as [g' Hr]. exists g'. split; [exact Hr|].
  assert (Hn : nth_error ["b"; "c"; "d"] 2 = Some "d") by reflexivity.
  assert (Hp : In ("b", PInt 0) (preds (c_edges exA) "d")) by (vm_compute; tauto).
  assert (Hnd : NoDup ["a"; "b"; "c"; "d"]) by (repeat constructor; simpl; intuition discriminate).
  split; [exact Hn|]. split; [exact Hp|]. split; [vm_compute; reflexivity|].
  split.
  { destruct (C02_log_respects_dependencies _ _ _ _ Hr 2 "d" Hn "b" (PInt 0) Hp) as [H|H]; [|exact H].
    vm_compute in H. discriminate H. }
  split; [apply Inv_refl|]. split; [exact Hnd|].
  exact (C02_log_is_filtered_order exA _ exA [] g' _ (Inv_refl exA) Hnd Hr).
Qed.

(** [insA] / [insB] with a supplied value for the prior: every hypothesis of the end-to-end theorems,
    including those of [C02_loaded_sort_order] (obtained from the successful generate calls) *)
Example C02_generate_with_values_nonvacuous :
  let W := [("mu", VConst 3)] in
  wfsrc insA /\ same_model insA insB /\ NoDup (map fst W) /\ (forall k, In k (map fst W) -> ~ In k inames)
  /\ outputs_wf insA ["d"] /\ params_distinct insA
  /\ (exists out log, generate insA ["d"] W = Ok (out, log) /\ generate insB ["d"] W = Ok (out, log)
                      /\ log = ["_s2_observed"; "_s1_observed"; "_d_observed"; "sim"; "s1"; "s2"; "d"])
  /\ den_name insA W "d" = den_name insB W "d" /\ den_name insA W "d" <> None.
Proof.
  intros W.
  assert (Hwf : wfsrc insA) by (apply wfsrc_b_sound; vm_compute; reflexivity).
  assert (H1 : NoDup (map fst W)) by (repeat constructor; simpl; tauto).
  assert (H2 : forall k, In k (map fst W) -> ~ In k inames).
  { intros k [Hk|[]]; subst k. vm_compute. intuition discriminate. }
  assert (H3 : outputs_wf insA ["d"]) by (apply (outputs_wf_b_sound _ _ (wf_nodup _ Hwf)); vm_compute; reflexivity).
  assert (H4 : params_distinct insA) by (apply params_distinct_b_sound; vm_compute; reflexivity).
  split; [exact Hwf|]. split; [exact insAB_same_model|]. split; [exact H1|]. split; [exact H2|].
  split; [exact H3|]. split; [exact H4|]. split.
  - eexists. eexists. split; [vm_compute; reflexivity|].
    split; [|reflexivity].
    eapply C02_generate_same_insertion_independent; try eassumption; [exact insAB_same_model | vm_compute; reflexivity].
  - split; [exact (C02_meaning_insertion_independent _ _ W "d" Hwf insAB_same_model H4)|].
    vm_compute. discriminate.
Qed.

Example C02_loaded_sort_order_nonvacuous :
  let W := [("mu", VConst 3)] in
  exists cn cn' g1 g1',
    wfsrc insA /\ same_model insA insB /\ outputs_wf insA ["d"]
    /\ compile_outputs (s_nodes insA) = Ok cn /\ compile_outputs (s_nodes insB) = Ok cn'
    /\ CO insA cn (topo_order insA) g1 /\ CO insB cn' (topo_order insB) g1'
    /\ c_outputs g1 = ["d"] /\ c_outputs g1' = ["d"]
    /\ nd (compile_reduce (G4of insA g1)) /\ nd (compile_reduce (G4of insB g1'))
    /\ sort_order (load (wp W) (compile_reduce (G4of insA g1))) = sort_order (load (wp W) (compile_reduce (G4of insB g1'))).
Proof.
  intros W.
  assert (Hwf : wfsrc insA) by (apply wfsrc_b_sound; vm_compute; reflexivity).
  assert (Hwf' : wfsrc insB) by (apply wfsrc_b_sound; vm_compute; reflexivity).
  assert (H3 : outputs_wf insA ["d"]) by (apply (outputs_wf_b_sound _ _ (wf_nodup _ Hwf)); vm_compute; reflexivity).
  destruct (generate insA ["d"] W) as [[out log]|e] eqn:Eg; [|vm_compute in Eg; discriminate].
  destruct (generate insB ["d"] W) as [[out' log']|e] eqn:Eg'; [|vm_compute in Eg'; discriminate].
  destruct (generate_inv _ _ _ _ _ Hwf Eg) as [cn [g1 [c1 [Hcn [Hco [Hout [Hnd _]]]]]]].
  destruct (generate_inv _ _ _ _ _ Hwf' Eg') as [cn' [g1' [c1' [Hcn' [Hco' [Hout' [Hnd' _]]]]]]].
  exists cn, cn', g1, g1'. repeat (split; [assumption || exact insAB_same_model|]).
  exact (C02_loaded_sort_order insA insB W ["d"] cn cn' g1 g1' Hwf insAB_same_model H3 Hcn Hcn' Hco Hco' Hout Hout' Hnd Hnd').
Qed.

(** [C02_model_ok] / [C02_ok_sound]: the model's results on the two builds are not errors, the
    three-call history is well-formed, and the resulting case passes [Determinism.ok] *)
Example C02_model_ok_nonvacuous :
  Determinism.model_result insA ["d"] <> ImplErr /\ Determinism.model_result insB ["d"] <> ImplErr
  /\ Forall hcall_wf hist_calls
  /\ let c := {| Determinism.d_src1 := insA; Determinism.d_src2 := insB; Determinism.d_outputs := ["d"];
                 Determinism.d_impl1 := Determinism.model_result insA ["d"];
                 Determinism.d_impl2 := Determinism.model_result insB ["d"];
                 Determinism.d_hist := map model_step hist_calls |} in
     Determinism.ok c = true
     /\ Determinism.d_impl1 c = Determinism.d_impl2 c
     /\ (forall s, In s (Determinism.d_hist c) -> Determinism.h_impl s = Determinism.h_impl_fresh s)
     /\ List.length (Determinism.d_hist c) = 3%nat.
Proof.
  assert (Hwf : wfsrc insA) by (apply wfsrc_b_sound; vm_compute; reflexivity).
  assert (H3 : outputs_wf insA ["d"]) by (apply (outputs_wf_b_sound _ _ (wf_nodup _ Hwf)); vm_compute; reflexivity).
  assert (H4 : params_distinct insA) by (apply params_distinct_b_sound; vm_compute; reflexivity).
  assert (E1 : Determinism.model_result insA ["d"] <> ImplErr) by (vm_compute; discriminate).
  assert (E2 : Determinism.model_result insB ["d"] <> ImplErr) by (vm_compute; discriminate).
  destruct C02_history_example as [Hh _].
  split; [exact E1|]. split; [exact E2|]. split; [exact Hh|].
  intros c.
  assert (Hok : Determinism.ok c = true) by (exact (C02_model_ok insA insB ["d"] hist_calls Hwf insAB_same_model H3 H4 E1 E2 Hh)).
  split; [exact Hok|]. destruct (C02_ok_sound c Hok) as [Ha Hb].
  split; [exact Ha|]. split; [exact Hb | reflexivity].
Qed.

(** success: the topological check and the compilation succeed on [insA] (hence on [insB]) *)
Example C02_success_nonvacuous :
  topo_ok insA = true /\ topo_ok insB = true
  /\ (exists g, compile insA ["d"] = Ok g) /\ (exists g', compile insB ["d"] = Ok g').
Proof.
  assert (Hwf : wfsrc insA) by (apply wfsrc_b_sound; vm_compute; reflexivity).
  assert (Ht : topo_ok insA = true) by (vm_compute; reflexivity).
  split; [exact Ht|]. split; [exact (C02_topo_check_insertion_independent _ _ Hwf insAB_same_model Ht)|].
  destruct (compile insA ["d"]) as [g|e] eqn:E; [|vm_compute in E; discriminate].
  split; [now exists g|]. exact (C02_compile_success_insertion_independent _ _ _ _ Hwf insAB_same_model E).
Qed.

(** [exA] and [exB] have the same shape, permuted edges, the same outputs and the same sort order *)
Example C02_execute_success_shape_nonvacuous :
  sheq exA exB /\ Permutation (c_edges exA) (c_edges exB) /\ c_outputs exA = c_outputs exB
  /\ sort_order exA = sort_order exB
  /\ (exists r, execute exA empty_cache = Ok r) /\ (exists r', execute exB empty_cache = Ok r').
Proof.
  assert (Hs : sheq exA exB).
  { intros n. unfold exA, exB. cbn [c_nodes lookup].
    destruct (String.eqb_spec n "a"); [subst; reflexivity|].
    destruct (String.eqb_spec n "b"); [subst; reflexivity|].
    destruct (String.eqb_spec n "c"); [subst; reflexivity|].
    destruct (String.eqb_spec n "d"); [subst; reflexivity|]. reflexivity. }
  assert (H2 : Permutation (c_edges exA) (c_edges exB)) by (unfold exA, exB; cbn [c_edges]; perm_lists).
  assert (H4 : sort_order exA = sort_order exB) by (vm_compute; reflexivity).
  split; [exact Hs|]. split; [exact H2|]. split; [reflexivity|]. split; [exact H4|].
  destruct (execute exA empty_cache) as [r|e] eqn:E; [|vm_compute in E; discriminate].
  split; [now exists r|]. exact (C02_execute_success_shape _ _ _ Hs H2 eq_refl H4 E).
Qed.
