(** C02 — seeded runs are pure functions of (model, seed, configuration).
    Models: Graph/Net.v (executor, its cache, the name-sorted DFS order); Num/Seed.v (sub-seeds).
    Proofs: Proofs/C02_Order.v, Base/StrOrder.v, Proofs/C15_Seed.v. *)
From Coq Require Import List String ZArith Arith Bool NArith Sorting.Permutation.
From Elfi Require Import Graph.Net Base.StrOrder Proofs.C03_Exec Proofs.C02_Order Num.Seed Proofs.C15_Seed.
Import ListNotations.

(** The fixed execution order does not depend on node or edge insertion order. *)
Theorem C02_order_insertion_independent :
  forall g g',
    Permutation (map fst (c_nodes g)) (map fst (c_nodes g')) ->
    Permutation (c_edges g) (c_edges g') ->
    sort_order g = sort_order g'.
Proof. exact sort_order_insertion_independent. Qed.
Print Assumptions C02_order_insertion_independent.

(** sorted(names) is a function of the set of names. *)
Theorem C02_sorted_names_canonical :
  forall l1 l2, Permutation l1 l2 -> sort_names l1 = sort_names l2.
Proof. exact sort_names_permutation. Qed.
Print Assumptions C02_sorted_names_canonical.

(** With a consistent executor cache an execution returns what a fresh context returns. *)
Theorem C02_cache_transparent :
  forall g c, CacheConsistent g c -> strip (execute g c) = strip (execute g empty_cache).
Proof. exact execute_cache_transparent. Qed.
Print Assumptions C02_cache_transparent.

(** History independence: for every history of loaded nets of one compiled net (pairwise
    coherent: same structure, and equal needed tuples imply the same present outputs) sharing one
    executor cache, every execution returns exactly what it returns on a fresh context. *)
Theorem C02_history_independent :
  forall gs,
    (forall g g', In g gs -> In g' gs -> coherent g g') ->
    exec_history gs empty_cache = map (fun g => strip (execute g empty_cache)) gs.
Proof.
  intros gs H. apply C02_Order.history_independent; [exact H | intros; apply CacheConsistent_empty].
Qed.
Print Assumptions C02_history_independent.

(** The order of operation calls (hence of draws from the single batch generator) respects
    dependencies: when an operation runs, each parent had a value initially or ran earlier. *)
Theorem C02_log_respects_dependencies :
  forall g order g' log,
    run_order g order [] = Ok (g', log) ->
    forall i n, nth_error log i = Some n ->
      forall u p, In (u, p) (preds (c_edges g) n) -> has_out g u = true \/ In u (firstn i log).
Proof. exact log_respects_dependencies. Qed.
Print Assumptions C02_log_respects_dependencies.

(** The call log of an execution is the scheduled order restricted to operation nodes: a
    sub-sequence of one fixed order per graph. *)
Theorem C02_log_is_filtered_order :
  forall g0 order g log g' log',
    C03_Exec.Inv g0 g -> NoDup order -> run_order g order log = Ok (g', log') ->
    log' = log ++ filter (has_op g) order.
Proof. intros g0 order g log g' log' HI Hnd H. exact (proj2 (run_order_sound g0 order g log g' log' HI Hnd H)). Qed.
Print Assumptions C02_log_is_filtered_order.

(** The batch generator's seed depends only on (seed, batch index): whatever the sub-seed cache
    holds and whatever was requested before (C15). *)
Theorem C02_subseed_history_independent :
  forall fuel s high reqs,
    Forall2 (fun rq r => good s high (fst rq) r) reqs (run_history fuel s high None reqs).
Proof. intros. apply C15_Seed.history_independent. exact I. Qed.
Print Assumptions C02_subseed_history_independent.

(** Non-vacuity: two insertion orders of a diamond-shaped net, same sort order. *)
Definition cn (o : option value) (p : option op) : cnode := {| c_out := o; c_op := p |}.
Definition exA : cnet :=
  {| c_nodes := [("a"%string, cn (Some (VConst 1)) None); ("b"%string, cn None (Some (OpUser "b"%string)));
                 ("c"%string, cn None (Some (OpUser "c"%string))); ("d"%string, cn None (Some (OpUser "d"%string)))];
     c_edges := [("a"%string, "b"%string, PInt 0); ("a"%string, "c"%string, PInt 0);
                 ("b"%string, "d"%string, PInt 0); ("c"%string, "d"%string, PInt 1)];
     c_outputs := ["d"%string]; c_observed := [] |}.
Definition exB : cnet :=
  {| c_nodes := [("d"%string, cn None (Some (OpUser "d"%string))); ("c"%string, cn None (Some (OpUser "c"%string)));
                 ("a"%string, cn (Some (VConst 1)) None); ("b"%string, cn None (Some (OpUser "b"%string)))];
     c_edges := [("c"%string, "d"%string, PInt 1); ("a"%string, "c"%string, PInt 0);
                 ("b"%string, "d"%string, PInt 0); ("a"%string, "b"%string, PInt 0)];
     c_outputs := ["d"%string]; c_observed := [] |}.
Example C02_example :
  sort_order exA = Ok ["a"%string; "b"%string; "c"%string; "d"%string]
  /\ sort_order exB = sort_order exA
  /\ exec_history [exA; exB; exA] empty_cache = map (fun g => strip (execute g empty_cache)) [exA; exB; exA].
Proof. vm_compute. repeat split. Qed.
