(** C11 — Bayesian optimisation simulates only inside bounds and trains on what it ran.
    Models: Num/Acq.v (clip, minimize post-processing, np.tile + _add_noise, Uniform, RandMaxVar's
    density), Sched/Bo.v (BayesianOptimization under the batch scheduler, acquisition queue, index
    arithmetic, synchronous rule), Gen/C11_Lcbsc.v (LCBSC.evaluate / evaluate_gradient, regenerated
    from the source text on every run), Sched/BoCase.v (histories of queries on one acquisition
    object).  This file only states the property theorems; proofs are in
    Proofs/C11_Acq.v, C11_Box.v, C11_Bo.v, C11_Lcbsc.v, C11_Case.v. *)
From Coq Require Import Reals.
From Coquelicot Require Import Coquelicot.
From Coq Require Import List ZArith QArith Qminmax Qabs Arith Bool Permutation.
From Coq Require String.
From Coq Require PrimFloat.
From Elfi Require Import Sched.Sched Sched.Bo Num.Mcmc Num.Acq Sched.BoCase Gen.C11_Lcbsc.
From Elfi Require Import Proofs.C11_Acq Proofs.C11_Box Proofs.C11_Bo Proofs.C11_Lcbsc Proofs.C11_Case.
From Elfi Require Properties.C09.
Import ListNotations.
Local Close Scope Q_scope.
Local Close Scope R_scope.

(** ================= 1. acquired points lie in the box, and there are exactly n ================= *)

(** np.clip(x, lo, hi) lands in [lo, hi] for every x whenever lo <= hi. *)
Theorem C11_clip_in_range : forall lo hi x, (lo <= hi -> lo <= clip lo hi x /\ clip lo hi x <= hi)%Q.
Proof. exact clip_in. Qed.
Print Assumptions C11_clip_in_range.

(** np.argmin picks a smallest objective value (the first one). *)
Theorem C11_argmin_is_min : forall vals d, vals <> [] -> forall v, In v vals -> (nth (argmin vals) vals d <= v)%Q.
Proof. exact argmin_is_min. Qed.
Print Assumptions C11_argmin_is_min.

(** minimize(): whatever end points and values the inner optimiser returns from the start points
    (no assumption on scipy.optimize.minimize at all), the returned location is in the box. *)
Theorem C11_minimize_in_box :
  forall bs locs vals,
    wf_box bs -> locs <> [] -> length locs = length vals ->
    Forall (fun l => length l = length bs) locs ->
    In_box bs (minimize_post bs locs vals).
Proof. intros. apply in_box_spec. now apply minimize_post_in_box. Qed.
Print Assumptions C11_minimize_in_box.

(** start points drawn from the prior are clipped into the box before the optimiser sees them *)
Theorem C11_start_points_in_box :
  forall bs starts, wf_box bs -> Forall (fun l => length l = length bs) starts ->
    Forall (fun x => in_box bs x = true) (clip_starts bs starts).
Proof. exact clip_starts_in_box. Qed.
Print Assumptions C11_start_points_in_box.

(** AcquisitionBase.acquire (LCBSC): for EVERY noise setting (none, scalar, per-parameter, zeros
    included), every n, every optimiser outcome: exactly n points, all in the box -- given
    sqrt >= 0 and a truncated-normal sampler that returns a value in [loc + a*std, loc + b*std]. *)
Theorem C11_acquire_base_in_box :
  forall sqrtf tn, sqrt_nonneg sqrtf -> tn_in_range tn ->
  forall bs nz locs vals n,
    wf_box bs -> locs <> [] -> length locs = length vals ->
    Forall (fun l => length l = length bs) locs ->
    length (acquire_base sqrtf tn bs nz locs vals n) = n /\
    Forall (In_box bs) (acquire_base sqrtf tn bs nz locs vals n).
Proof.
  intros sqrtf tn Hs Ht bs nz locs vals n W Hne Hl Hd.
  destruct (acquire_base_ok sqrtf tn Hs Ht bs nz locs vals n W Hne Hl Hd) as [A B]. split; auto.
  eapply Forall_impl; [|exact B]. intros x. apply in_box_spec.
Qed.
Print Assumptions C11_acquire_base_in_box.

(** the truncation alone puts a noisy coordinate into its interval, wherever its centre is *)
Theorem C11_noisy_coordinate_in_interval :
  forall sqrtf tn, sqrt_nonneg sqrtf -> tn_in_range tn ->
  forall i r lohi var xi,
    (fst lohi <= snd lohi)%Q -> ~ (sqrtf var == 0)%Q ->
    (fst lohi <= noisy_entry sqrtf tn i r lohi var xi /\ noisy_entry sqrtf tn i r lohi var xi <= snd lohi)%Q.
Proof. intros sqrtf tn Hs Ht i r lohi var xi W Hn. apply noisy_entry_in; auto. intros E. contradiction. Qed.
Print Assumptions C11_noisy_coordinate_in_interval.

(** MaxVar.acquire and ExpIntVar.acquire (minimize, then np.tile) *)
Theorem C11_acquire_tiled_in_box :
  forall bs locs vals n,
    wf_box bs -> locs <> [] -> length locs = length vals ->
    Forall (fun l => length l = length bs) locs ->
    length (acquire_tiled bs locs vals n) = n /\ Forall (In_box bs) (acquire_tiled bs locs vals n).
Proof.
  intros bs locs vals n W Hne Hl Hd. destruct (acquire_tiled_ok bs locs vals n W Hne Hl Hd) as [A B]. split; auto.
  eapply Forall_impl; [|exact B]. intros x. apply in_box_spec.
Qed.
Print Assumptions C11_acquire_tiled_in_box.

(** UniformAcquisition.acquire, given a uniform sampler with values in [loc, loc + scale] *)
Theorem C11_acquire_uniform_in_box :
  forall uni, uni_in_range uni -> forall bs n, wf_box bs ->
    length (acquire_uniform uni bs n) = n /\ Forall (In_box bs) (acquire_uniform uni bs n).
Proof.
  intros uni Hu bs n W. destruct (acquire_uniform_ok uni Hu bs n W) as [A B]. split; auto.
  eapply Forall_impl; [|exact B]. intros x. apply in_box_spec.
Qed.
Print Assumptions C11_acquire_uniform_in_box.

(** RandMaxVar, conditional form: IF the MCMC kernel emits no state whose log-density is -inf
    (C09: Properties/C09.v, C09_metropolis_support and C09_nuts_support_float), THEN -- the density
    _evaluate_logpdf being -inf outside the bounds, as now coded -- every selected state is in the
    box, and as many are returned as were picked. *)
Theorem C11_randmaxvar_in_box :
  forall bs maxvar logf (chain : list row) picks,
    Forall (fun x => rmv_logpdf bs maxvar logf x <> NegInf) chain ->
    Forall (fun k => k < length chain) picks ->
    length (select chain picks) = length picks /\ Forall (In_box bs) (select chain picks).
Proof.
  intros bs maxvar logf chain picks H Hp. destruct (randmaxvar_in_box bs maxvar logf chain picks H Hp) as [A B].
  split; auto. eapply Forall_impl; [|exact B]. intros x. apply in_box_spec.
Qed.
Print Assumptions C11_randmaxvar_in_box.

(** the same, unconditionally for the Metropolis sampler: composed with C09's model of
    mcmc.metropolis over binary64 -- started where the density is finite, every state of the chain,
    hence every acquired point, passes the bounds test *)
Theorem C11_randmaxvar_metropolis_in_box :
  forall bs maxvar logf expf sigma n w x0 st chain picks,
    PrimFloat.is_finite (rmv_logpdf_f bs maxvar logf x0) = true ->
    metropolis (rmv_logpdf_f bs maxvar logf) expf sigma n w x0 st = Chain chain ->
    Forall (fun x => in_box_f bs x = true) (select chain picks).
Proof. exact randmaxvar_metropolis_in_box. Qed.
Print Assumptions C11_randmaxvar_metropolis_in_box.

(** ================= 1b. "the box" is the user's box, parameter by parameter ================= *)

(** GPyRegression.__init__ (model [box_of]): the box every acquisition rule works in does not depend
    on the order in which the user wrote the keys of the bounds dict. *)
Theorem C11_user_box_order_independent :
  forall names d d', NoDup (map fst d) -> Permutation d d' -> box_of names d = box_of names d'.
Proof. exact box_of_perm. Qed.
Print Assumptions C11_user_box_order_independent.

(** ... and its coordinate i is the interval the dict binds to parameter_names[i] (with a single
    parameter: the only interval of the dict, parameter_names may be None there). *)
Theorem C11_user_box_by_name :
  forall names d bs, box_of names d = Some bs ->
    length bs = length names /\
    (length names <> 1 ->
     forall i n, nth_error names i = Some n -> exists iv, lookup d n = Some iv /\ nth_error bs i = Some iv) /\
    (length names = 1 -> bs = map snd d).
Proof. exact box_of_by_name. Qed.
Print Assumptions C11_user_box_by_name.

(** Hence the decidable predicate evaluated on an acquire call says: exactly n points, and in every
    point the value at the position of parameter n lies in the interval the USER gave for n. *)
Theorem C11_acquired_in_named_interval :
  forall c, Acq.ok c = true ->
    length (a_out c) = a_n c /\
    (length (a_names c) <> 1 ->
     forall x, In x (a_out c) -> forall i n, nth_error (a_names c) i = Some n ->
       exists iv xi, lookup (a_dict c) n = Some iv /\ nth_error x i = Some xi /\ (fst iv <= xi /\ xi <= snd iv)%Q).
Proof. exact ok_named. Qed.
Print Assumptions C11_acquired_in_named_interval.

(** the same for a whole Bayesian-optimisation run: every acquired row and every row supplied to
    (= received by) the simulator *)
Theorem C11_bo_rows_in_named_interval :
  forall k, bo_ok k = true -> length (k_names k) <> 1 ->
    forall rows, (In rows (k_acq_tab k) \/ exists i, In (i, Some rows) (k_supplied k)) ->
    forall x, In x rows -> forall i n, nth_error (k_names k) i = Some n ->
      exists iv xi, lookup (k_dict k) n = Some iv /\ nth_error x i = Some xi /\ (fst iv <= xi /\ xi <= snd iv)%Q.
Proof. exact bo_ok_named. Qed.
Print Assumptions C11_bo_rows_in_named_interval.

(** ================= 2. evidence bookkeeping, for every schedule ================= *)

(** For EVERY acquisition oracle, batch oracle, readiness oracle, max_parallel >= 1, synchronous or
    asynchronous acquisition: the inference never fails in the scheduler; when it returns, nothing
    is pending, the client-call trace is a complete in-order trace, the consumed batches are
    0,1,..,k-1, the surrogate's evidence is the precomputed evidence followed by the results of the
    consumed batches in index order, and n_evidence = n_precomputed + batch_size * k. *)
Theorem C11_evidence_bookkeeping :
  forall (P T A : Type) (acq : A -> list (P * T) -> nat -> Z -> list P * A)
         (compute : nat -> option (list P) -> list (P * T)) (c : cfg) maxp fuel pre a orc,
    1 <= maxp ->
    match infer P T A acq compute c fuel maxp (sched0 P T A c pre a) orc [] with
    | inl (s, tr) =>
        pend s = [] /\ nxt s = nb (es s) /\ objective c <= nb (es s) /\
        trace_ok maxp tr = Some (nb (es s)) /\
        map fst (clog s) = seq 0 (nb (es s)) /\
        ev (es s) = pre ++ flat_map (fun ip => compute (fst ip) (snd ip)) (clog s) /\
        n_ev (es s) = (c_npre c + Z.of_nat (c_b c) * Z.of_nat (nb (es s)))%Z
    | inr e => e = EOutOfFuel
    end.
Proof.
  intros. eapply (infer_bookkeeping P T A acq compute c maxp pre fuel _ orc [] 0); auto.
  - apply InvP_initial.
  - apply InvE_initial.
Qed.
Print Assumptions C11_evidence_bookkeeping.

(** n_evidence is the number of rows of the surrogate's evidence when every batch returns
    batch_size rows and n_precomputed is the length of the precomputed evidence. *)
Theorem C11_n_evidence_counts_rows :
  forall (P T A : Type) acq compute (c : cfg) maxp fuel (pre : list (P * T)) (a : A) orc s tr,
    1 <= maxp -> (forall i p, length (compute i p) = c_b c) -> c_npre c = Z.of_nat (length pre) ->
    infer P T A acq compute c fuel maxp (sched0 P T A c pre a) orc [] = inl (s, tr) ->
    n_ev (es s) = Z.of_nat (length (ev (es s))).
Proof. exact n_evidence_counts_rows. Qed.
Print Assumptions C11_n_evidence_counts_rows.

(** What is handed to the simulator: a batch gets parameter rows exactly when its acquisition index
    floor((b*i - (n_initial - n_precomputed)) / (b*bpa)) is >= 0; then it gets exactly batch_size
    rows, each of them a row of some acquisition answer (so inside the bounds when the answers
    are, by part 1) -- for every schedule, asynchronous mode included. *)
Theorem C11_supplied_rows :
  forall (P T A : Type) acq compute (c : cfg) (Good : P -> Prop),
    (forall a e n t, Forall Good (fst (acq a e n t))) ->
    (forall a e n t, length (fst (acq a e n t)) = n) ->
    1 <= c_bpa c ->
    forall maxp fuel (pre : list (P * T)) (a : A) orc s tr,
      1 <= maxp ->
      infer P T A acq compute c fuel maxp (sched0 P T A c pre a) orc [] = inl (s, tr) ->
      Forall (fun ip => match snd ip with
                        | None => (acq_index c (fst ip) < 0)%Z
                        | Some rows => (0 <= acq_index c (fst ip))%Z /\ Forall Good rows /\ length rows = c_b c
                        end) (clog s)
      /\ Forall (fun x => let '(i, n, t, _) := x in
                          n = c_b c * c_bpa c /\ t = acq_index c i /\ (0 <= t)%Z) (acqlog (qs s)).
Proof. exact supplied_rows. Qed.
Print Assumptions C11_supplied_rows.

(** Synchronous acquisition (async_acq = False): for every oracle and every max_parallel >= 1 the
    inference ends in exactly the state of the sequential run (prepare batch i, compute it, update;
    one at a time): same evidence, counters, acquisition queue, acquisition-method state, same
    acquisition calls, same supplied batches.  Asynchronous mode is NOT covered (and is not
    schedule independent: C11_async_depends_on_schedule below). *)
Theorem C11_sync_schedule_independent :
  forall (P T A : Type) acq compute (c : cfg) maxp fuel (pre : list (P * T)) (a : A) orc ef qf n lgf,
    c_async c = false -> 1 <= maxp ->
    seq_run P T A acq compute c fuel (estate0 P T c pre) (qstate0 P A a) 0 [] = Some (ef, qf, n, lgf) ->
    exists s tr,
      infer P T A acq compute c fuel maxp (sched0 P T A c pre a) orc [] = inl (s, tr) /\
      es s = ef /\ qs s = qf /\ clog s = lgf /\ nxt s = n /\ pend s = [] /\ trace_ok maxp tr = Some n.
Proof. exact sync_schedule_independent. Qed.
Print Assumptions C11_sync_schedule_independent.

(** ... and every acquisition call of a synchronous run, under every schedule, is made with exactly
    the evidence of the batches before the one being prepared: its evidence count is
    |precomputed| + batch_size * batch_index, a function of the batch index only. *)
Theorem C11_sync_acquisitions_see_index_evidence :
  forall (P T A : Type) acq compute (c : cfg) maxp fuel (pre : list (P * T)) (a : A) orc ef qf n lgf,
    c_async c = false -> 1 <= maxp -> (forall i p, length (compute i p) = c_b c) ->
    seq_run P T A acq compute c fuel (estate0 P T c pre) (qstate0 P A a) 0 [] = Some (ef, qf, n, lgf) ->
    exists s tr,
      infer P T A acq compute c fuel maxp (sched0 P T A c pre a) orc [] = inl (s, tr) /\
      Forall (fun x => let '(i, _, _, cnt) := x in cnt = length pre + c_b c * i) (acqlog (qs s)).
Proof. intros. eapply sync_acquisition_counts; eauto. Qed.
Print Assumptions C11_sync_acquisitions_see_index_evidence.

(** ================= 2b. link to C10: the surrogate's evidence store ================= *)

(** The update calls of the C11 model (one with the precomputed rows, if any, then [compute i p] for
    every consumed batch, in consumption order: [update_calls]) are fed one by one into C10's model of
    GPyRegression.update (Num/Gp.v, [Gp.update], np.r_[old, new]), starting from "no GP yet":
    [surrogate_after pre lg = Gp.final None (update_calls pre lg)]; [bo_surrogate] runs BO under a
    schedule and returns that store.  X = [gp_X] = map fst, Y = [gp_Y] = map snd of the store's rows.
    Proofs: Proofs/C11_C10_Link.v (composition only; the C10 and C11 theorems are used as they are). *)
From Elfi Require Num.Gp.
From Elfi Require Import Proofs.C11_C10_Link.

(** one scheduler iteration = one consumed batch = one call of the surrogate's update, with exactly
    the rows BO's own update receives *)
Theorem C11_iterate_feeds_one_update :
  forall (P T A : Type) acq compute (c : cfg) maxp (pre : list (P * T)) s orc tr s' orc' tr',
    iterate P T A acq compute c maxp s orc tr = inl (s', orc', tr') ->
    exists i p,
      clog s' = clog s ++ [(i, p)] /\
      es s' = Bo.update P T c (es s) (compute i p) /\
      surrogate_after P T compute pre (clog s') = Gp.update (surrogate_after P T compute pre (clog s)) (compute i p).
Proof. exact iterate_feeds_one_update. Qed.
Print Assumptions C11_iterate_feeds_one_update.

(** For EVERY schedule (oracles as in C11_evidence_bookkeeping): when the inference returns, the rows
    held by the surrogate's store are BO's evidence list, which is the precomputed rows followed by
    the results of the consumed batches 0,1,..,k-1 in that order -- nothing dropped, duplicated or
    reordered; the same for X and Y separately; n_evidence of the store counts them. *)
Theorem C11_surrogate_trained_on_what_was_simulated :
  forall (P T A : Type) (acq : A -> list (P * T) -> nat -> Z -> list P * A)
         (compute : nat -> option (list P) -> list (P * T)) (c : cfg) maxp fuel pre a orc,
    1 <= maxp ->
    match infer P T A acq compute c fuel maxp (sched0 P T A c pre a) orc [] with
    | inl (s, tr) =>
        let g := surrogate_after P T compute pre (clog s) in
        bo_surrogate P T A acq compute c fuel maxp pre a orc = Some g /\
        Gp.rows_of g = ev (es s) /\
        Gp.rows_of g = pre ++ flat_map (batch_call P T compute) (clog s) /\
        gp_X g = map fst pre ++ flat_map (fun ip => map fst (batch_call P T compute ip)) (clog s) /\
        gp_Y g = map snd pre ++ flat_map (fun ip => map snd (batch_call P T compute ip)) (clog s) /\
        map fst (clog s) = seq 0 (nb (es s)) /\
        Gp.n_evidence g = length pre + length (flat_map (batch_call P T compute) (clog s))
    | inr e => e = EOutOfFuel /\ bo_surrogate P T A acq compute c fuel maxp pre a orc = None
    end.
Proof. exact surrogate_trained_on_what_was_simulated. Qed.
Print Assumptions C11_surrogate_trained_on_what_was_simulated.

(** ... and when the simulator's output carries the parameter rows it was run with, X is literally
    the list of simulated rows ([simulated_at]: the supplied rows, or the rows the batch drew itself) *)
Theorem C11_surrogate_X_is_simulated :
  forall (P T A : Type) acq compute (c : cfg) maxp fuel (pre : list (P * T)) (a : A) orc s tr,
    1 <= maxp -> (forall i rows, map fst (compute i (Some rows)) = rows) ->
    infer P T A acq compute c fuel maxp (sched0 P T A c pre a) orc [] = inl (s, tr) ->
    gp_X (surrogate_after P T compute pre (clog s)) = map fst pre ++ flat_map (simulated_at P T compute) (clog s).
Proof. exact surrogate_X_is_simulated. Qed.
Print Assumptions C11_surrogate_X_is_simulated.

(** C10_update_keeps_prefix read on a BO run: consuming more batches only appends their rows *)
Theorem C11_surrogate_keeps_prefix :
  forall (P T : Type) compute (pre : list (P * T)) lg1 lg2,
    Gp.rows_of (surrogate_after P T compute pre (lg1 ++ lg2)) =
    Gp.rows_of (surrogate_after P T compute pre lg1) ++ flat_map (batch_call P T compute) lg2.
Proof. exact surrogate_after_prefix. Qed.
Print Assumptions C11_surrogate_keeps_prefix.

(** Every row of the surrogate's X lies in the user's box [box_of names dict] -- coordinate by
    coordinate, and by parameter NAME -- for every schedule, provided (a) the acquisition answers do
    (part 1), (b) the simulator reports the parameters it was given, (c) the precomputed rows do, and
    (d) so do the rows the initial batches (acquisition index < 0) drew from the prior, which BO does
    not clip.  (d) is vacuous when n_initial_evidence <= n_precomputed (next theorem). *)
Theorem C11_surrogate_evidence_in_box :
  forall (T A : Type) (acq : A -> list (row * T) -> nat -> Z -> list row * A)
         (compute : nat -> option (list row) -> list (row * T)) (c : cfg) names dict bs,
    box_of names dict = Some bs ->
    (forall a e n t, Forall (In_box bs) (fst (acq a e n t))) ->
    (forall a e n t, length (fst (acq a e n t)) = n) ->
    1 <= c_bpa c ->
    (forall i rows, map fst (compute i (Some rows)) = rows) ->
    forall maxp fuel pre a orc s tr,
      1 <= maxp -> Forall (In_box bs) (map fst pre) ->
      (forall i, (acq_index c i < 0)%Z -> Forall (In_box bs) (map fst (compute i None))) ->
      infer row T A acq compute c fuel maxp (sched0 row T A c pre a) orc [] = inl (s, tr) ->
      let X := gp_X (surrogate_after row T compute pre (clog s)) in
      Forall (In_box bs) X /\
      (length names <> 1 ->
       forall x, In x X -> forall i n, nth_error names i = Some n ->
         exists iv xi, lookup dict n = Some iv /\ nth_error x i = Some xi /\ (fst iv <= xi /\ xi <= snd iv)%Q).
Proof. exact surrogate_evidence_in_box. Qed.
Print Assumptions C11_surrogate_evidence_in_box.

Theorem C11_surrogate_evidence_in_box_no_prior :
  forall (T A : Type) (acq : A -> list (row * T) -> nat -> Z -> list row * A)
         (compute : nat -> option (list row) -> list (row * T)) (c : cfg) names dict bs,
    box_of names dict = Some bs ->
    (forall a e n t, Forall (In_box bs) (fst (acq a e n t))) ->
    (forall a e n t, length (fst (acq a e n t)) = n) ->
    1 <= c_bpa c -> 1 <= c_b c -> (c_ninit c <= c_npre c)%Z ->
    (forall i rows, map fst (compute i (Some rows)) = rows) ->
    forall maxp fuel pre a orc s tr,
      1 <= maxp -> Forall (In_box bs) (map fst pre) ->
      infer row T A acq compute c fuel maxp (sched0 row T A c pre a) orc [] = inl (s, tr) ->
      Forall (In_box bs) (gp_X (surrogate_after row T compute pre (clog s))).
Proof. exact surrogate_evidence_in_box_no_prior. Qed.
Print Assumptions C11_surrogate_evidence_in_box_no_prior.

(** hypothesis (a) discharged by C11_acquire_base_in_box: the acquisition method is
    AcquisitionBase.acquire (LCBSC) on whatever the inner optimiser [opt] returns, any noise setting *)
Theorem C11_surrogate_evidence_in_box_lcbsc :
  forall (T A : Type) sqrtf tn bs nz (opt : A -> list (row * T) -> nat -> Z -> list row * list Q * A),
    sqrt_nonneg sqrtf -> tn_in_range tn -> wf_box bs ->
    (forall a e n t, let '(locs, vals, _) := opt a e n t in
                     locs <> [] /\ length locs = length vals /\ Forall (fun l => length l = length bs) locs) ->
    forall (compute : nat -> option (list row) -> list (row * T)) (c : cfg) names dict,
      box_of names dict = Some bs -> 1 <= c_bpa c ->
      (forall i rows, map fst (compute i (Some rows)) = rows) ->
      forall maxp fuel pre a orc s tr,
        1 <= maxp -> Forall (In_box bs) (map fst pre) ->
        (forall i, (acq_index c i < 0)%Z -> Forall (In_box bs) (map fst (compute i None))) ->
        infer row T A (acq_lcbsc T A sqrtf tn bs nz opt) compute c fuel maxp (sched0 row T A c pre a) orc [] = inl (s, tr) ->
        Forall (In_box bs) (gp_X (surrogate_after row T compute pre (clog s))).
Proof. exact surrogate_evidence_in_box_lcbsc. Qed.
Print Assumptions C11_surrogate_evidence_in_box_lcbsc.

(** Synchronous acquisition: under every schedule the surrogate ends with the store of the
    sequential run (the same value of the C10 model, not only the same rows), whose rows are the
    sequential run's evidence. *)
Theorem C11_surrogate_evidence_schedule_independent :
  forall (P T A : Type) acq compute (c : cfg) maxp fuel (pre : list (P * T)) (a : A) orc ef qf n lgf,
    c_async c = false -> 1 <= maxp ->
    seq_run P T A acq compute c fuel (estate0 P T c pre) (qstate0 P A a) 0 [] = Some (ef, qf, n, lgf) ->
    bo_surrogate P T A acq compute c fuel maxp pre a orc = Some (surrogate_after P T compute pre lgf) /\
    Gp.rows_of (surrogate_after P T compute pre lgf) = ev ef.
Proof. exact surrogate_evidence_schedule_independent. Qed.
Print Assumptions C11_surrogate_evidence_schedule_independent.

(** ... hence any two schedules (readiness oracles, max_parallel values) give the same X and Y *)
Theorem C11_surrogate_evidence_two_schedules :
  forall (P T A : Type) acq compute (c : cfg) maxp1 maxp2 fuel (pre : list (P * T)) (a : A) orc1 orc2 ef qf n lgf,
    c_async c = false -> 1 <= maxp1 -> 1 <= maxp2 ->
    seq_run P T A acq compute c fuel (estate0 P T c pre) (qstate0 P A a) 0 [] = Some (ef, qf, n, lgf) ->
    exists g, bo_surrogate P T A acq compute c fuel maxp1 pre a orc1 = Some g /\
              bo_surrogate P T A acq compute c fuel maxp2 pre a orc2 = Some g /\
              gp_X g = map fst (ev ef) /\ gp_Y g = map snd (ev ef).
Proof. exact surrogate_evidence_two_schedules. Qed.
Print Assumptions C11_surrogate_evidence_two_schedules.

(** ================= 3. the acquisition gradient ================= *)

(** About the definitions generated from LCBSC.evaluate / LCBSC.evaluate_gradient: along any
    coordinate on which the surrogate's mean mu and variance v (and the optional additive cost k)
    are differentiable, with beta_t > 0 and v > 0, the coded gradient is the derivative. *)
Theorem C11_lcbsc_gradient_is_derivative :
  forall (mu v k mu' v' k' : R -> R) (beta x : R),
    (0 < beta)%R -> (0 < v x)%R ->
    is_derive mu x (mu' x) -> is_derive v x (v' x) -> is_derive k x (k' x) ->
    is_derive (fun y => lcbsc beta (mu y) (v y) (k y)) x
              (lcbsc_grad beta (mu x) (v x) (mu' x) (v' x) (k' x)).
Proof. exact lcbsc_gradient_is_derivative. Qed.
Print Assumptions C11_lcbsc_gradient_is_derivative.

(** the generated definitions are the formulas the property names *)
Theorem C11_lcbsc_formulas :
  forall beta m v0 k0 gm gv gk,
    (lcbsc beta m v0 k0 = m - sqrt (beta * v0) + k0)%R /\
    (lcbsc_grad beta m v0 gm gv gk = gm - / 2 * gv * sqrt (beta / v0) + gk)%R.
Proof. intros. split; [apply lcbsc_formula | apply lcbsc_grad_formula]. Qed.
Print Assumptions C11_lcbsc_formulas.

(** in the statement's own words (no additive cost):
    d/dx (mu x - sqrt (beta * v x)) = mu' x - 1/2 * v' x * sqrt (beta / v x) *)
Theorem C11_lcb_derivative :
  forall (mu v mu' v' : R -> R) (beta x : R),
    (0 < beta)%R -> (0 < v x)%R -> is_derive mu x (mu' x) -> is_derive v x (v' x) ->
    is_derive (fun y => mu y - sqrt (beta * v y))%R x (mu' x - / 2 * v' x * sqrt (beta / v x))%R.
Proof. exact lcb_derivative. Qed.
Print Assumptions C11_lcb_derivative.

(** Histories on ONE acquisition object over ONE surrogate that is updated / re-optimised between
    the calls: the model keeps no state across calls -- the answer to the query at position
    [length before] is the translated formula on that step's surrogate outputs alone ... *)
Theorem C11_history_model_stateless :
  forall before s after,
    nth_error (hist_model (before ++ s :: after)) (length before) = Some (step_val s, step_grad s).
Proof. exact hist_model_stateless. Qed.
Print Assumptions C11_history_model_stateless.

(** ... a function of the surrogate's current outputs only ... *)
Theorem C11_step_model_function :
  forall s1 s2,
    h_beta s1 = h_beta s2 -> h_mean s1 = h_mean s2 -> h_var s1 = h_var s2 ->
    h_gmean s1 = h_gmean s2 -> h_gvar s1 = h_gvar s2 -> h_sqrt s1 = h_sqrt s2 ->
    step_val s1 = step_val s2 /\ step_grad s1 = step_grad s2.
Proof. exact step_model_function. Qed.
Print Assumptions C11_step_model_function.

(** ... and the decidable predicate evaluated on an observed history says: at every step the
    long-lived object's value and gradient are those of a freshly built object on the CURRENT
    surrogate, they are mean - sqrt(beta var) and grad_mean - 1/2 grad_var sqrt(beta/var) of the
    surrogate's current outputs at 1e-9 of their own scale (no absolute term: the same statement for
    targets of order 1e-4 and 1e4), the gradient matches central differences of the current acquisition
    function wherever the surrogate's own outputs are numerically self-consistent, and every acquire
    call made along the way returned n points of the user's box. *)
Theorem C11_history_ok_sound : forall h, hist_ok h = true -> hist_property h.
Proof. exact hist_ok_sound. Qed.
Print Assumptions C11_history_ok_sound.

(** the exact clause: a step that passes the predicate has a gradient within 1e-9 (of the coordinate's
    scale) of the translated gradient formula -- which C11_lcbsc_gradient_is_derivative proves to be the
    derivative of the translated value formula -- independently of the finite differences *)
Theorem C11_step_gradient_is_formula :
  forall s g, step_ok s = true -> h_grad s = Some g -> grad_rels s g (step_grad s).
Proof. exact step_ok_gradient_is_formula. Qed.
Print Assumptions C11_step_gradient_is_formula.

(** ================= the decidable predicates ================= *)

Theorem C11_ok_sound : forall c, BoCase.ok c = true -> property_holds c.
Proof. exact C11_Case.ok_sound. Qed.
Print Assumptions C11_ok_sound.

Theorem C11_model_ok :
  forall sqrtf tn uni kind bs n locs vals,
    sqrt_nonneg sqrtf -> tn_in_range tn -> uni_in_range uni ->
    wf_box bs -> locs <> [] -> length locs = length vals -> Forall (fun l => length l = length bs) locs ->
    let out := match kind with
               | KBase nz => acquire_base sqrtf tn bs nz locs vals n
               | KTiled => acquire_tiled bs locs vals n
               | _ => acquire_uniform uni bs n
               end in
    Nat.eqb (length out) n && forallb (in_box bs) out = true.
Proof. exact C11_Acq.model_ok. Qed.
Print Assumptions C11_model_ok.

(** ================= non-vacuity ================= *)

(** the sampler hypotheses are satisfiable: the lower end of the range; a non-negative "sqrt" *)
Example C11_oracles_exist :
  tn_in_range (fun _ _ a _ loc s => loc + a * s)%Q /\ uni_in_range (fun _ _ loc _ => loc)
  /\ sqrt_nonneg (fun v => if Qle_bool v 0 then 0 else 1)%Q.
Proof. exact oracles_exist. Qed.

(** a 2-D box, optimiser end points far outside it, noise on the first coordinate only *)
Example C11_example_acquire :
  let bs := [((-1) # 1, 1 # 1); (0 # 1, 1 # 2)]%Q in
  let out := acquire_base (fun v => if Qle_bool v 0 then 0 else 1)%Q (fun _ _ a _ loc s => loc + a * s)%Q
                          bs (PerParam [1 # 4; 0 # 1]%Q) [[5 # 1; 7 # 1]; [(-3) # 1; (-2) # 1]]%Q [2 # 1; 1 # 1]%Q 3 in
  rows_eqb out [[(-1) # 1; 0 # 1]; [(-1) # 1; 0 # 1]; [(-1) # 1; 0 # 1]]%Q && forallb (in_box bs) out = true.
Proof. vm_compute. reflexivity. Qed.

(** the user's dict written "the other way round": same box, parameter a keeps (-2, 3), b keeps (5, 6) *)
Module C11_names. Import String. Definition na := "a"%string. Definition nb := "b"%string. End C11_names.
Example C11_example_dict_order :
  let a := C11_names.na in
  let b := C11_names.nb in
  box_of [a; b] [(b, (5 # 1, 6 # 1)); (a, ((-2) # 1, 3 # 1))]%Q = Some [((-2) # 1, 3 # 1); (5 # 1, 6 # 1)]%Q
  /\ box_of [a; b] [(a, ((-2) # 1, 3 # 1)); (b, (5 # 1, 6 # 1))]%Q = Some [((-2) # 1, 3 # 1); (5 # 1, 6 # 1)]%Q
  /\ box_of [a; b] [(a, ((-2) # 1, 3 # 1))]%Q = None.
Proof. vm_compute. auto. Qed.

(** a history of two queries at the same point with the surrogate updated in between: the model's
    answers differ (they follow the surrogate), and observations equal to them satisfy the predicate *)
Example C11_example_history :
  let sq := [(4 # 1, 2 # 1); (1 # 1, 1 # 1); (16 # 1, 4 # 1); (1 # 4, 1 # 2)]%Q in
  let s1 := {| h_beta := 2 # 1; h_mean := 1 # 1; h_var := 2 # 1; h_gmean := [1 # 1]; h_gvar := [2 # 1]; h_sqrt := sq;
               h_val := Some ((-1) # 1); h_grad := Some [0 # 1]; h_fval := (-1) # 1; h_fgrad := [0 # 1]; h_fd := [0 # 1]; h_fd2 := [0 # 1]; h_aux := [{| x_h := 1 # 100000; x_rough := 0; x_sm := 1 # 1; x_sv := 2 # 1; x_sm2 := 1 # 1; x_sv2 := 2 # 1 |}] |}%Q in
  let s2 := {| h_beta := 2 # 1; h_mean := 0 # 1; h_var := 8 # 1; h_gmean := [1 # 1]; h_gvar := [2 # 1]; h_sqrt := sq;
               h_val := Some ((-4) # 1); h_grad := Some [1 # 2]; h_fval := (-4) # 1; h_fgrad := [1 # 2]; h_fd := [1 # 2]; h_fd2 := [1 # 2]; h_aux := [{| x_h := 1 # 100000; x_rough := 0; x_sm := 1 # 1; x_sv := 2 # 1; x_sm2 := 1 # 1; x_sv2 := 2 # 1 |}] |}%Q in
  let stale := {| h_beta := 2 # 1; h_mean := 0 # 1; h_var := 8 # 1; h_gmean := [1 # 1]; h_gvar := [2 # 1]; h_sqrt := sq;
               h_val := Some ((-1) # 1); h_grad := Some [0 # 1]; h_fval := (-4) # 1; h_fgrad := [1 # 2]; h_fd := [1 # 2]; h_fd2 := [1 # 2]; h_aux := [{| x_h := 1 # 100000; x_rough := 0; x_sm := 1 # 1; x_sv := 2 # 1; x_sm2 := 1 # 1; x_sv2 := 2 # 1 |}] |}%Q in
  let h := fun steps => {| hs_names := []; hs_dict := []; hs_mbounds := []; hs_steps := steps; hs_acq := [] |} in
  hist_agree (h [s1; s2]) = true /\ hist_ok (h [s1; s2]) = true
  /\ hist_agree (h [s1; stale]) = false /\ hist_ok (h [s1; stale]) = false.
Proof. vm_compute. auto. Qed.

(** the same statement at a small scale (wave 3): target values of order 1e-4 (mean 1e-4, variance 4e-10,
    beta 1): the exact answer [1e-4 - 1/2 * 2e-9 * 5e4 = 5e-5] passes; an answer computed with the variance
    raised to 1e-6 before the division (second term 1e-6 instead of 5e-5) is rejected by [agree] and by [ok],
    although it differs from the exact one by less than 5e-5 in absolute terms and the surrogate gives the
    finite differences no opinion here *)
Example C11_example_small_scale :
  let sq := [(4 # 10000000000, 2 # 100000); (2500000000 # 1, 50000 # 1)]%Q in
  let aux := [{| x_h := 1 # 100000; x_rough := 0; x_sm := 0; x_sv := 0; x_sm2 := 0; x_sv2 := 0 |}]%Q in
  let st := fun g => {| h_beta := 1 # 1; h_mean := 1 # 10000; h_var := 4 # 10000000000; h_gmean := [1 # 10000];
               h_gvar := [2 # 1000000000]; h_sqrt := sq; h_val := Some (8 # 100000); h_grad := Some [g];
               h_fval := 8 # 100000; h_fgrad := [g]; h_fd := [0 # 1]; h_fd2 := [0 # 1]; h_aux := aux |}%Q in
  step_agree (st (5 # 100000)%Q) = true /\ step_ok (st (5 # 100000)%Q) = true
  /\ step_agree (st (99 # 1000000)%Q) = false /\ step_ok (st (99 # 1000000)%Q) = false.
Proof. vm_compute. auto. Qed.

(** Bayesian optimisation of a toy target: batch_size 1, one batch per acquisition, one initial
    batch from the prior, 3 evidence points, max_parallel 2.  The acquisition answers with the
    number of evidence rows it was shown. *)
Definition ex_acq (_ : unit) (e : list (nat * nat)) (n : nat) (_ : Z) : list nat * unit := (repeat (length e) n, tt).
Definition ex_compute (i : nat) (p : option (list nat)) : list (nat * nat) :=
  match p with None => [(0, 0)] | Some rows => map (fun r => (r, r)) rows end.
Definition ex_cfg (async : bool) : cfg :=
  {| c_b := 1; c_bpa := 1; c_ninit := 1; c_npre := 0; c_upd := 100; c_async := async; c_nev := 3 |}.
Definition ex_run (async : bool) (orc : list bool) : option (list (nat * nat)) :=
  match infer nat nat unit ex_acq ex_compute (ex_cfg async) 10 2 (sched0 nat nat unit (ex_cfg async) [] tt) orc [] with
  | inl (s, _) => Some (ev (es s))
  | inr _ => None
  end.

(** synchronous: a never-ready and an always-ready client give the sequential evidence *)
Example C11_sync_example :
  ex_run false [false; false; false; false; false; false] = Some [(0, 0); (1, 1); (2, 2)]
  /\ ex_run false [] = Some [(0, 0); (1, 1); (2, 2)]
  /\ (match seq_run nat nat unit ex_acq ex_compute (ex_cfg false) 10 (estate0 nat nat (ex_cfg false) []) (qstate0 nat unit tt) 0 [] with
      | Some (e, _, n, _) => Some (ev e, n) | None => None end) = Some ([(0, 0); (1, 1); (2, 2)], 3).
Proof. vm_compute. auto. Qed.

(** asynchronous: the evidence depends on the schedule (why the theorem needs async_acq = False),
    while the bookkeeping theorem still applies to both runs *)
Example C11_async_depends_on_schedule :
  ex_run true [false; false; false; false; false; false] = Some [(0, 0); (0, 0); (1, 1)]
  /\ ex_run true [] = Some [(0, 0); (1, 1); (2, 2)].
Proof. vm_compute. auto. Qed.

(** the link to C10's evidence store on the toy target, one precomputed row (7, 7): the store ends
    with the precomputed row first, then the two simulated batches; two schedules, one store
    (synchronous); asynchronous: the store follows BO's (schedule dependent) evidence list *)
Definition ex_cfg_pre (async : bool) : cfg :=
  {| c_b := 1; c_bpa := 1; c_ninit := 1; c_npre := 1; c_upd := 100; c_async := async; c_nev := 3 |}.
Example C11_surrogate_example :
  let run := fun cfg pre maxp orc => bo_surrogate nat nat unit ex_acq ex_compute cfg 10 maxp pre tt orc in
  run (ex_cfg_pre false) [(7, 7)] 2 [false; false; false; false] = Some (Some [(7, 7); (1, 1); (2, 2)])
  /\ run (ex_cfg_pre false) [(7, 7)] 3 [] = Some (Some [(7, 7); (1, 1); (2, 2)])
  /\ update_calls nat nat ex_compute [(7, 7)] [(0, Some [1]); (1, Some [2])] = [[(7, 7)]; [(1, 1)]; [(2, 2)]]
  /\ option_map gp_X (run (ex_cfg_pre false) [(7, 7)] 2 []) = Some [7; 1; 2]
  /\ run (ex_cfg false) [] 2 [false; false; false; false; false; false] = Some (Some [(0, 0); (1, 1); (2, 2)])
  /\ run (ex_cfg true) [] 2 [false; false; false; false; false; false] = Some (Some [(0, 0); (0, 0); (1, 1)])
  /\ run (ex_cfg true) [] 2 [] = Some (Some [(0, 0); (1, 1); (2, 2)]).
Proof. vm_compute. repeat split. Qed.

(** ---- non-vacuity of the hypotheses (audit) ---- *)

Definition nv_bs : box := [((-1) # 1, 1 # 1); (0 # 1, 1 # 2)]%Q.
Definition nv_locs : list row := [[5 # 1; 7 # 1]; [(-3) # 1; (-2) # 1]]%Q.
Definition nv_vals : list Q := [2 # 1; 1 # 1]%Q.
Definition nv_sqrt : Q -> Q := (fun v => if Qle_bool v 0 then 0 else 1)%Q.
Definition nv_tn : nat -> nat -> Q -> Q -> Q -> Q -> Q := (fun _ _ a _ loc s => loc + a * s)%Q.
Definition nv_uni : nat -> nat -> Q -> Q -> Q := fun _ _ loc _ => loc.

(** the hypotheses of C11_minimize_in_box, C11_start_points_in_box, C11_acquire_base_in_box,
    C11_acquire_tiled_in_box, C11_acquire_uniform_in_box and C11_model_ok, together, on a 2-D box with
    optimiser end points outside it *)
Example C11_acquire_hyps_nonvacuous :
  sqrt_nonneg nv_sqrt /\ tn_in_range nv_tn /\ uni_in_range nv_uni /\
  wf_box nv_bs /\ nv_locs <> [] /\ length nv_locs = length nv_vals /\
  Forall (fun l => length l = length nv_bs) nv_locs /\ (nth 0 nv_bs (0, 0) <> nth 1 nv_bs (0, 0))%Q.
Proof.
  destruct C11_oracles_exist as [A [B C]].
  split; [exact C|]. split; [exact A|]. split; [exact B|].
  split; [repeat constructor; vm_compute; discriminate|].
  split; [discriminate|]. split; [reflexivity|]. split; [repeat constructor|].
  vm_compute. intros E. inversion E.
Qed.

Example C11_acquire_base_in_box_nonvacuous :
  length (acquire_base nv_sqrt nv_tn nv_bs (PerParam [1 # 4; 0 # 1]%Q) nv_locs nv_vals 3) = 3 /\
  Forall (In_box nv_bs) (acquire_base nv_sqrt nv_tn nv_bs (PerParam [1 # 4; 0 # 1]%Q) nv_locs nv_vals 3).
Proof.
  destruct C11_acquire_hyps_nonvacuous as [A [B [C [D [E [F [G _]]]]]]].
  now apply C11_acquire_base_in_box.
Qed.

Example C11_minimize_in_box_nonvacuous :
  In_box nv_bs (minimize_post nv_bs nv_locs nv_vals) /\
  Forall (fun x => in_box nv_bs x = true) (clip_starts nv_bs nv_locs) /\
  Forall (In_box nv_bs) (acquire_tiled nv_bs nv_locs nv_vals 2) /\
  Forall (In_box nv_bs) (acquire_uniform nv_uni nv_bs 2).
Proof.
  destruct C11_acquire_hyps_nonvacuous as [A [B [C [D [E [F [G _]]]]]]].
  split; [now apply C11_minimize_in_box|].
  split; [now apply C11_start_points_in_box|].
  split; [now apply C11_acquire_tiled_in_box|now apply C11_acquire_uniform_in_box].
Qed.

(** C11_clip_in_range, C11_argmin_is_min, C11_noisy_coordinate_in_interval *)
Example C11_clip_argmin_noisy_nonvacuous :
  ((-1 # 1) <= (1 # 2))%Q /\ nv_vals <> [] /\ In (1 # 1)%Q nv_vals /\
  (fst ((-1) # 1, 1 # 2) <= snd ((-1) # 1, 1 # 2))%Q /\ ~ (nv_sqrt (1 # 4) == 0)%Q.
Proof.
  repeat split; try (vm_compute; discriminate).
  right; left; reflexivity.
Qed.

(** C11_randmaxvar_in_box: a chain of two states inside the box with non-zero MaxVar value *)
Example C11_randmaxvar_in_box_nonvacuous :
  let chain := [[0 # 1; 1 # 4]; [1 # 2; 1 # 2]]%Q in
  let mv := fun x : row => (1 + nth 0 x 0)%Q in
  Forall (fun x => rmv_logpdf nv_bs mv (fun q => q) x <> NegInf) chain /\
  Forall (fun k => k < length chain) [1; 0; 1] /\
  Forall (In_box nv_bs) (select chain [1; 0; 1]).
Proof.
  intros chain mv.
  assert (H1 : Forall (fun x => rmv_logpdf nv_bs mv (fun q => q) x <> NegInf) chain)
    by (repeat constructor; vm_compute; discriminate).
  assert (H2 : Forall (fun k => k < length chain) [1; 0; 1]) by (repeat constructor).
  split; [exact H1|split; [exact H2|]].
  exact (proj2 (C11_randmaxvar_in_box nv_bs mv (fun q => q) chain [1; 0; 1] H1 H2)).
Qed.

(** C11_user_box_order_independent / C11_user_box_by_name: a two-key dict and its transposition *)
Definition nv_dict : bdict := [(C11_names.nb, (5 # 1, 6 # 1)); (C11_names.na, ((-2) # 1, 3 # 1))]%Q.
Definition nv_names : list String.string := [C11_names.na; C11_names.nb].
Example C11_user_box_nonvacuous :
  NoDup (map fst nv_dict) /\ Permutation nv_dict (rev nv_dict) /\ nv_dict <> rev nv_dict /\
  box_of nv_names nv_dict = Some [((-2) # 1, 3 # 1); (5 # 1, 6 # 1)]%Q /\ length nv_names <> 1 /\
  nth_error nv_names 1 = Some C11_names.nb /\
  box_of nv_names nv_dict = box_of nv_names (rev nv_dict).
Proof.
  assert (N : NoDup (map fst nv_dict)).
  { repeat constructor; simpl; intros H; repeat (destruct H as [H|H]; try discriminate H); exact H. }
  assert (P : Permutation nv_dict (rev nv_dict)) by (simpl; apply perm_swap).
  split; [exact N|]. split; [exact P|]. split; [discriminate|]. split; [reflexivity|].
  split; [discriminate|]. split; [reflexivity|].
  exact (C11_user_box_order_independent nv_names _ _ N P).
Qed.

(** C11_acquired_in_named_interval: an acquire call (MaxVar: tiled) with two points of the user's box,
    the dict written b first *)
Definition nv_acq_case : Acq.case :=
  {| a_kind := KTiled; a_names := nv_names; a_dict := nv_dict; a_mbounds := [((-2) # 1, 3 # 1); (5 # 1, 6 # 1)]%Q;
     a_n := 2; a_locs := [[7 # 1; 7 # 1]]%Q; a_vals := [0 # 1]%Q; a_sqrt := []; a_tn := []; a_tn_ab := []; a_uni := [];
     a_out := [[3 # 1; 6 # 1]; [3 # 1; 6 # 1]]%Q |}.
Example C11_acquired_in_named_interval_nonvacuous :
  Acq.ok nv_acq_case = true /\ Acq.agree nv_acq_case = true /\ length (a_names nv_acq_case) <> 1 /\
  In [3 # 1; 6 # 1]%Q (a_out nv_acq_case) /\ nth_error (a_names nv_acq_case) 1 = Some C11_names.nb.
Proof. vm_compute. repeat split; try discriminate. left; reflexivity. Qed.

(** C11_bo_rows_in_named_interval, C11_ok_sound: a run of three batches (one from the prior, two
    acquired) whose observations are those of the model *)
Definition nv_bo_cfg : cfg :=
  {| c_b := 1; c_bpa := 1; c_ninit := 1; c_npre := 0; c_upd := 1; c_async := false; c_nev := 3 |}.
Definition nv_k0 : bo_case :=
  {| k_cfg := nv_bo_cfg; k_maxp := 2; k_names := nv_names; k_dict := nv_dict;
     k_mbounds := [((-2) # 1, 3 # 1); (5 # 1, 6 # 1)]%Q; k_pre := []; k_oracle := [false; true; false];
     k_acq_tab := [[[1 # 1; 5 # 1]]; [[(-2) # 1; 6 # 1]]]%Q;
     k_batches := [[([0 # 1; 11 # 2], 1 # 1)]; [([1 # 1; 5 # 1], 2 # 1)]; [([(-2) # 1; 6 # 1], 3 # 1)]]%Q;
     k_trace := []; k_X := []; k_nev := 0; k_nbatches := 0; k_lastgp := 0; k_acqlog := []; k_optlog := [];
     k_supplied := [] |}.
Definition nv_k : bo_case :=
  match bo_model nv_k0 with
  | inl (s, tr) =>
      {| k_cfg := k_cfg nv_k0; k_maxp := k_maxp nv_k0; k_names := k_names nv_k0; k_dict := k_dict nv_k0;
         k_mbounds := k_mbounds nv_k0; k_pre := k_pre nv_k0; k_oracle := k_oracle nv_k0;
         k_acq_tab := k_acq_tab nv_k0; k_batches := k_batches nv_k0;
         k_trace := tr; k_X := ev (es s); k_nev := n_ev (es s); k_nbatches := nb (es s);
         k_lastgp := last_gp (es s); k_acqlog := acqlog (qs s); k_optlog := optlog (es s);
         k_supplied := clog s |}
  | inr _ => nv_k0
  end.
Example C11_bo_rows_in_named_interval_nonvacuous :
  bo_ok nv_k = true /\ bo_agree nv_k = true /\ BoCase.ok (CBo nv_k) = true /\ length (k_names nv_k) <> 1 /\
  In [[1 # 1; 5 # 1]]%Q (k_acq_tab nv_k) /\ In (2, Some [[(-2) # 1; 6 # 1]]%Q) (k_supplied nv_k) /\
  k_nbatches nv_k = 3 /\ nth_error (k_names nv_k) 0 = Some C11_names.na.
Proof. vm_compute. repeat split; try discriminate; auto. Qed.

(** the scheduler theorems of part 2 on a toy target over nat: the acquisition answers depend on the
    evidence it is shown but stay <= 7; every batch returns exactly batch_size = 1 row *)
Definition nv_acq (_ : unit) (e : list (nat * nat)) (n : nat) (_ : Z) : list nat * unit :=
  (repeat (Nat.min (length e + 3) 7) n, tt).
Definition nv_compute1 (i : nat) (p : option (list nat)) : list (nat * nat) :=
  [(match p with Some (r :: _) => r | _ => 0 end, i)].
Definition nv_cfg (async : bool) : cfg :=
  {| c_b := 1; c_bpa := 1; c_ninit := 2; c_npre := 1; c_upd := 1; c_async := async; c_nev := 4 |}.

(** C11_evidence_bookkeeping (1 <= maxp), C11_n_evidence_counts_rows, C11_supplied_rows: all the
    hypotheses, asynchronous acquisition, max_parallel 2, one precomputed row, three batches *)
Example C11_bo_schedule_hyps_nonvacuous :
  1 <= 2 /\ (forall i p, length (nv_compute1 i p) = c_b (nv_cfg true)) /\
  c_npre (nv_cfg true) = Z.of_nat (length [(9, 9)]) /\
  (forall a e n t, Forall (fun p => p <= 7) (fst (nv_acq a e n t))) /\
  (forall a e n t, length (fst (nv_acq a e n t)) = n) /\
  1 <= c_bpa (nv_cfg true) /\
  exists s tr,
    infer nat nat unit nv_acq nv_compute1 (nv_cfg true) 10 2 (sched0 nat nat unit (nv_cfg true) [(9, 9)] tt)
          [false; true; false] [] = inl (s, tr) /\
    clog s = [(0, None); (1, Some [4]); (2, Some [6])] /\ ev (es s) = [(9, 9); (0, 0); (4, 1); (6, 2)].
Proof.
  split; [auto|]. split; [reflexivity|]. split; [reflexivity|].
  split. { intros a e n t. apply Forall_forall. intros x Hx. apply repeat_spec in Hx. subst x. apply Nat.le_min_r. }
  split. { intros. apply repeat_length. }
  split; [auto|].
  eexists. eexists. vm_compute. split; [reflexivity|split; reflexivity].
Qed.

(** C11_sync_schedule_independent, C11_sync_acquisitions_see_index_evidence,
    C11_surrogate_evidence_schedule_independent, C11_surrogate_evidence_two_schedules: the sequential
    run succeeds; (the conclusion instantiated: two schedules, one store) *)
Example C11_sync_hyps_nonvacuous :
  c_async (nv_cfg false) = false /\ (forall i p, length (nv_compute1 i p) = c_b (nv_cfg false)) /\
  exists ef qf lgf,
    seq_run nat nat unit nv_acq nv_compute1 (nv_cfg false) 10 (estate0 nat nat (nv_cfg false) [(9, 9)])
            (qstate0 nat unit tt) 0 [] = Some (ef, qf, 3, lgf) /\
    lgf = [(0, None); (1, Some [5]); (2, Some [6])] /\ ev ef = [(9, 9); (0, 0); (5, 1); (6, 2)] /\
    exists g, bo_surrogate nat nat unit nv_acq nv_compute1 (nv_cfg false) 10 1 [(9, 9)] tt [] = Some g /\
              bo_surrogate nat nat unit nv_acq nv_compute1 (nv_cfg false) 10 3 [(9, 9)] tt [false; false; true] = Some g /\
              gp_X g = map fst (ev ef) /\ gp_Y g = map snd (ev ef).
Proof.
  split; [reflexivity|]. split; [reflexivity|].
  eexists. eexists. eexists.
  split; [vm_compute; reflexivity|]. split; [reflexivity|]. split; [reflexivity|].
  eapply C11_surrogate_evidence_two_schedules with (n := 3); try reflexivity; auto.
Qed.

(** C11_iterate_feeds_one_update: one scheduler iteration from the initial state *)
Example C11_iterate_nonvacuous :
  exists s' orc' tr',
    iterate nat nat unit nv_acq nv_compute1 (nv_cfg true) 2 (sched0 nat nat unit (nv_cfg true) [(9, 9)] tt)
            [false; true] [] = inl (s', orc', tr') /\ clog s' = [(0, None)] /\ pend s' <> [].
Proof. eexists. eexists. eexists. vm_compute. split; [reflexivity|split; [reflexivity|discriminate]]. Qed.

(** C11_surrogate_evidence_in_box, C11_surrogate_evidence_in_box_no_prior, C11_surrogate_X_is_simulated:
    rows over Q in the user's box built from [nv_dict]; the acquisition answers with a point whose first
    coordinate is the (clipped) number of evidence rows it was shown; the simulator echoes its rows; one
    precomputed row, one batch from the prior (n_initial 2 > n_precomputed 1), two acquired batches *)
Definition nv_ubox : box := [((-2) # 1, 3 # 1); (5 # 1, 6 # 1)]%Q.
Definition nv_qacq (a : nat) (e : list (row * Q)) (n : nat) (_ : Z) : list row * nat :=
  (repeat [clip ((-2) # 1) (3 # 1) (inject_Z (Z.of_nat (length e)) - (3 # 2)); 11 # 2]%Q n, S a).
Definition nv_qcompute (i : nat) (p : option (list row)) : list (row * Q) :=
  match p with None => [([0 # 1; 6 # 1], 1 # 1)]%Q | Some rows => map (fun r => (r, inject_Z (Z.of_nat i))) rows end.
Definition nv_qpre : list (row * Q) := [([3 # 1; 5 # 1], 7 # 1)]%Q.

Example C11_surrogate_evidence_in_box_nonvacuous :
  box_of nv_names nv_dict = Some nv_ubox /\
  (forall a e n t, Forall (In_box nv_ubox) (fst (nv_qacq a e n t))) /\
  (forall a e n t, length (fst (nv_qacq a e n t)) = n) /\
  1 <= c_bpa (nv_cfg true) /\
  (forall i rows, map fst (nv_qcompute i (Some rows)) = rows) /\
  1 <= 2 /\ Forall (In_box nv_ubox) (map fst nv_qpre) /\
  (forall i, (acq_index (nv_cfg true) i < 0)%Z -> Forall (In_box nv_ubox) (map fst (nv_qcompute i None))) /\
  (acq_index (nv_cfg true) 0 < 0)%Z /\ length nv_names <> 1 /\
  exists s tr,
    infer row Q nat nv_qacq nv_qcompute (nv_cfg true) 10 2 (sched0 row Q nat (nv_cfg true) nv_qpre 0)
          [false; true; false] [] = inl (s, tr) /\
    map fst (clog s) = [0; 1; 2] /\
    gp_X (surrogate_after row Q nv_qcompute nv_qpre (clog s)) =
      [[3 # 1; 5 # 1]; [0 # 1; 6 # 1]; [(-1) # 2; 11 # 2]; [3 # 2; 11 # 2]]%Q.
Proof.
  split; [reflexivity|].
  split. { intros a e n t. apply Forall_forall. intros x Hx. apply repeat_spec in Hx. subst x.
           constructor; [|constructor; [|constructor]].
           - apply C11_clip_in_range. vm_compute; discriminate.
           - split; vm_compute; discriminate. }
  split. { intros. apply repeat_length. }
  split; [auto|].
  split. { intros i rows. simpl. rewrite map_map. simpl. apply map_id. }
  split; [auto|].
  split. { repeat constructor; vm_compute; discriminate. }
  split. { intros i _. repeat constructor; vm_compute; discriminate. }
  split; [reflexivity|]. split; [discriminate|].
  eexists. eexists. split; [vm_compute; reflexivity|]. split; vm_compute; reflexivity.
Qed.

(** the same with n_initial_evidence <= n_precomputed (no batch from the prior) and batch_size 1 *)
Example C11_surrogate_evidence_in_box_no_prior_nonvacuous :
  1 <= c_b (nv_bo_cfg) /\
  let c := {| c_b := 1; c_bpa := 1; c_ninit := 1; c_npre := 1; c_upd := 1; c_async := false; c_nev := 3 |} in
  1 <= c_bpa c /\ 1 <= c_b c /\ (c_ninit c <= c_npre c)%Z /\
  exists s tr,
    infer row Q nat nv_qacq nv_qcompute c 10 2 (sched0 row Q nat c nv_qpre 0) [false; true] [] = inl (s, tr) /\
    gp_X (surrogate_after row Q nv_qcompute nv_qpre (clog s)) = [[3 # 1; 5 # 1]; [(-1) # 2; 11 # 2]; [1 # 2; 11 # 2]]%Q.
Proof.
  split; [auto|]. intros c. split; [auto|]. split; [auto|]. split; [vm_compute; discriminate|].
  eexists. eexists. split; vm_compute; reflexivity.
Qed.

(** C11_surrogate_evidence_in_box_lcbsc: the optimiser's end points (outside the box) depend on the evidence *)
Definition nv_opt (a : nat) (e : list (row * Q)) (n : nat) (_ : Z) : list row * list Q * nat :=
  ([[inject_Z (Z.of_nat (length e)); 7 # 1]; [(-3) # 1; (-2) # 1]]%Q, [1 # 1; 2 # 1]%Q, S a).
Example C11_surrogate_evidence_in_box_lcbsc_nonvacuous :
  wf_box nv_ubox /\
  (forall a e n t, let '(locs, vals, _) := nv_opt a e n t in
                   locs <> [] /\ length locs = length vals /\ Forall (fun l => length l = length nv_ubox) locs) /\
  exists s tr,
    infer row Q nat (acq_lcbsc Q nat nv_sqrt nv_tn nv_ubox (PerParam [0 # 1; 1 # 4]%Q) nv_opt) nv_qcompute (nv_cfg true) 10 2
          (sched0 row Q nat (nv_cfg true) nv_qpre 0) [false; true; false] [] = inl (s, tr) /\
    gp_X (surrogate_after row Q nv_qcompute nv_qpre (clog s)) =
      [[3 # 1; 5 # 1]; [0 # 1; 6 # 1]; [1 # 1; 5 # 1]; [3 # 1; 5 # 1]]%Q.
Proof.
  split. { repeat constructor; vm_compute; discriminate. }
  split. { intros a e n t. simpl. split; [discriminate|split; [reflexivity|repeat constructor]]. }
  eexists. eexists. split; vm_compute; reflexivity.
Qed.

(** C11_lcbsc_gradient_is_derivative, C11_lcb_derivative: mu y = 3 y, v y = y * y, k y = y at x = 2, beta = 5 *)
Example C11_lcbsc_derivative_nonvacuous :
  let mu := (fun y => 3 * y)%R in let v := (fun y => y * y)%R in let k := (fun y : R => y) in
  let mu' := (fun _ : R => 3)%R in let v' := (fun y => 2 * y)%R in let k' := (fun _ : R => 1)%R in
  (0 < 5)%R /\ (0 < v 2)%R /\ is_derive mu 2%R (mu' 2%R) /\ is_derive v 2%R (v' 2%R) /\ is_derive k 2%R (k' 2%R).
Proof.
  intros mu v k mu' v' k'. unfold mu, v, k, mu', v', k'.
  split; [apply (IZR_lt 0 5); reflexivity|].
  split; [apply Rmult_lt_0_compat; apply (IZR_lt 0 2); reflexivity|].
  split; [auto_derive; [exact I|ring]|]. split; [auto_derive; [exact I|ring]|]. auto_derive; [exact I|ring].
Qed.

(** C11_step_model_function: two steps with the same surrogate outputs and different observations *)
Example C11_step_model_function_nonvacuous :
  let sq := [(4 # 1, 2 # 1); (1 # 1, 1 # 1); (16 # 1, 4 # 1); (1 # 4, 1 # 2)]%Q in
  let mk := fun ov og => {| h_beta := 2 # 1; h_mean := 0 # 1; h_var := 8 # 1; h_gmean := [1 # 1]; h_gvar := [2 # 1]; h_sqrt := sq;
               h_val := ov; h_grad := og; h_fval := (-4) # 1; h_fgrad := [1 # 2]; h_fd := [1 # 2]; h_fd2 := [1 # 2]; h_aux := [] |}%Q in
  let s1 := mk (Some ((-4) # 1)%Q) (Some [1 # 2]%Q) in let s2 := mk (Some ((-1) # 1)%Q) None in
  s1 <> s2 /\ h_beta s1 = h_beta s2 /\ h_mean s1 = h_mean s2 /\ h_var s1 = h_var s2 /\
  h_gmean s1 = h_gmean s2 /\ h_gvar s1 = h_gvar s2 /\ h_sqrt s1 = h_sqrt s2.
Proof. simpl. repeat split; discriminate. Qed.

(** C11_history_ok_sound / C11_step_gradient_is_formula / C11_ok_sound (CHist): a two-step history with a
    two-parameter user box and two acquire calls along the way *)
Example C11_history_ok_nonvacuous :
  let sq := [(4 # 1, 2 # 1); (1 # 1, 1 # 1); (16 # 1, 4 # 1); (1 # 4, 1 # 2)]%Q in
  let aux := [{| x_h := 1 # 100000; x_rough := 0; x_sm := 1 # 1; x_sv := 2 # 1; x_sm2 := 1 # 1; x_sv2 := 2 # 1 |}]%Q in
  let s1 := {| h_beta := 2 # 1; h_mean := 1 # 1; h_var := 2 # 1; h_gmean := [1 # 1]; h_gvar := [2 # 1]; h_sqrt := sq;
               h_val := Some ((-1) # 1); h_grad := Some [0 # 1]; h_fval := (-1) # 1; h_fgrad := [0 # 1]; h_fd := [0 # 1]; h_fd2 := [0 # 1]; h_aux := aux |}%Q in
  let s2 := {| h_beta := 2 # 1; h_mean := 0 # 1; h_var := 8 # 1; h_gmean := [1 # 1]; h_gvar := [2 # 1]; h_sqrt := sq;
               h_val := Some ((-4) # 1); h_grad := Some [1 # 2]; h_fval := (-4) # 1; h_fgrad := [1 # 2]; h_fd := [1 # 2]; h_fd2 := [1 # 2]; h_aux := aux |}%Q in
  let h := {| hs_names := nv_names; hs_dict := nv_dict; hs_mbounds := nv_ubox; hs_steps := [s1; s2];
              hs_acq := [(1, [[3 # 1; 5 # 1]]%Q); (2, [[(-2) # 1; 6 # 1]; [0 # 1; 11 # 2]]%Q)] |} in
  hist_ok h = true /\ BoCase.ok (CHist h) = true /\ step_ok s2 = true /\ h_grad s2 = Some [1 # 2]%Q.
Proof. vm_compute. auto. Qed.

(** C11_ok_sound on a gradient case (beta 2, mean 0, variance 8: value -4, gradient 1 - 1/2 * 2 * 1/2) *)
Example C11_ok_sound_grad_nonvacuous :
  BoCase.ok (CGrad {| g_beta := 2 # 1; g_mean := 0 # 1; g_var := 8 # 1; g_gmean := 1 # 1; g_gvar := 2 # 1;
                      g_sqrt := [(16 # 1, 4 # 1); (1 # 4, 1 # 2)]; g_val := (-4) # 1; g_grad := 1 # 2 |}%Q) = true.
Proof. vm_compute. reflexivity. Qed.

(** C11_randmaxvar_metropolis_in_box over binary64: box [0, 1], start 0.5 (finite density), proposal
    steps 0.25 * 1 (accepted: inside) and 0.25 * 4 (outside the box: density -inf, rejected) *)
Module C11_nv_float.
Import PrimFloat.
Definition fbs : fbox := [(0%float, 1%float)].
Definition fmaxvar (v : vec) : float := 2%float.
Definition flog (x : float) : float := x.
Definition fexp (x : float) : float := 1%float.
Example C11_randmaxvar_metropolis_in_box_nonvacuous :
  is_finite (rmv_logpdf_f fbs fmaxvar flog [0.5%float]) = true /\
  metropolis (rmv_logpdf_f fbs fmaxvar flog) fexp [0.25%float] 2 0 [0.5%float]
             [DN [1%float]; DU 0.5%float; DN [4%float]; DU 0.5%float] = Chain [[0.75%float]; [0.75%float]] /\
  Forall (fun x => in_box_f fbs x = true) (select [[0.75%float]; [0.75%float]] [1; 0]).
Proof.
  assert (A : is_finite (rmv_logpdf_f fbs fmaxvar flog [0.5%float]) = true) by (vm_compute; reflexivity).
  assert (B : metropolis (rmv_logpdf_f fbs fmaxvar flog) fexp [0.25%float] 2 0 [0.5%float]
             [DN [1%float]; DU 0.5%float; DN [4%float]; DU 0.5%float] = Chain [[0.75%float]; [0.75%float]])
    by (vm_compute; reflexivity).
  split; [exact A|]. split; [exact B|].
  exact (C11_randmaxvar_metropolis_in_box _ _ _ _ _ _ _ _ _ _ [1; 0] A B).
Qed.
End C11_nv_float.

(** C11_model_ok instantiated on the instance of C11_acquire_hyps_nonvacuous *)
Example C11_model_ok_nonvacuous :
  let out := acquire_base nv_sqrt nv_tn nv_bs (Scalar (1 # 4)%Q) nv_locs nv_vals 3 in
  Nat.eqb (length out) 3 && forallb (in_box nv_bs) out = true.
Proof.
  destruct C11_acquire_hyps_nonvacuous as [A [B [C [D [E [F [G _]]]]]]].
  exact (C11_model_ok nv_sqrt nv_tn nv_uni (KBase (Scalar (1 # 4)%Q)) nv_bs 3 nv_locs nv_vals A B C D E F G).
Qed.
