(** C14 — editing, copying and saving a model preserves its structure and meaning.
    Model: Graph/Edit.v (add_node / add_edge / remove_node / update_node (become) /
    parameter_names / copy over several live models).  Proofs: Proofs/C14_Edit.v. *)
From Coq Require Import List String ZArith Arith Bool Sorting.Sorted.
From Elfi Require Import Graph.Net Graph.Edit Base.StrOrder Proofs.C03_Exec Proofs.C14_Edit.
Import ListNotations.

(** Along every edit script over any number of live models (creation with parents, add_edge,
    remove, become, parameter flags, observed data, copy, save/load) every model stays
    structurally consistent: node names distinct, edges between existing nodes, observed data
    only for existing nodes.  The guards are decidable and say: observed data is set for an
    existing node; a become leaves the replaced node in place. *)
Theorem C14_edits_preserve_structure :
  forall ops ms ms',
    Forall Closed ms -> guards_hold ms ops = true -> run ms ops = Ok ms' -> Forall Closed ms'.
Proof. exact run_closed. Qed.
Print Assumptions C14_edits_preserve_structure.

(** Removing nodes (with the recursive clean-up of private parents) never creates a cycle, the
    removed node is gone, and surviving nodes keep their state. *)
Theorem C14_remove_acyclic :
  forall fuel m n, acyclic (s_edges m) -> acyclic (s_edges (remove_node fuel m n)).
Proof. exact remove_node_acyclic. Qed.
Print Assumptions C14_remove_acyclic.

Theorem C14_remove_gone : forall fuel m n, ~ In n (names (remove_node fuel m n)).
Proof. exact remove_node_gone. Qed.
Print Assumptions C14_remove_gone.

Theorem C14_remove_keeps_others :
  forall fuel m n k st, lookup k (s_nodes (remove_node fuel m n)) = Some st -> lookup k (s_nodes m) = Some st.
Proof. exact remove_node_keeps_state. Qed.
Print Assumptions C14_remove_keeps_others.

(** A new node whose edges all come from existing nodes keeps the graph acyclic. *)
Theorem C14_new_node_acyclic :
  forall es es' nodes n,
    (forall e, In e es -> In (e_src e) nodes /\ In (e_dst e) nodes) -> ~ In n nodes ->
    (forall e, In e es' -> In e es \/ (In (e_src e) nodes /\ e_dst e = n)) ->
    acyclic es -> acyclic es'.
Proof. exact new_sink_acyclic. Qed.
Print Assumptions C14_new_node_acyclic.

(** become: the replaced node carries exactly the replacement's state; the replacement is gone. *)
Theorem C14_become_takes_state :
  forall m n u m' st', update_node m n u = Ok m' -> n <> u ->
    lookup n (s_nodes m') = Some st' -> lookup u (s_nodes m) = Some st'.
Proof. exact update_node_state. Qed.
Print Assumptions C14_become_takes_state.

Theorem C14_become_replacement_gone :
  forall m n u m', update_node m n u = Ok m' -> ~ In u (names m').
Proof. exact update_node_replacement_gone. Qed.
Print Assumptions C14_become_replacement_gone.

(** become keeps the graph acyclic whenever the replacement is neither the node itself nor one of
    its descendants (the case that is not is the known finding become-onto-descendant). *)
Theorem C14_become_acyclic :
  forall m n u m', update_node m n u = Ok m' -> acyclic (s_edges m) -> ~ reach (s_edges m) n u ->
    acyclic (s_edges m').
Proof. exact update_node_acyclic. Qed.
Print Assumptions C14_become_acyclic.

(** parameter_names lists exactly the parameter nodes, sorted; the setter marks exactly the
    named nodes. *)
Theorem C14_parameter_names :
  forall m n, In n (parameter_names m) <-> exists st, In (n, st) (s_nodes m) /\ s_parameter st = true.
Proof. exact parameter_names_spec. Qed.
Print Assumptions C14_parameter_names.

Theorem C14_parameter_names_sorted : forall m, StronglySorted leP (parameter_names m).
Proof. exact parameter_names_sorted. Qed.
Print Assumptions C14_parameter_names_sorted.

Theorem C14_set_parameter_names :
  forall m ps m' n, set_parameter_names m ps = Ok m' ->
    (In n (parameter_names m') <-> In n (names m) /\ In n ps).
Proof. exact set_parameter_names_spec. Qed.
Print Assumptions C14_set_parameter_names.

(** Non-vacuity: a script with creation, a copy, an edit of the copy, a become and a removal; the
    guards hold, both live models end consistent and the original is untouched by the copy's edit. *)
Definition st0 (o : option value) (op par : bool) (id : name) : sstate :=
  {| s_output := o; s_has_op := op; s_stochastic := false; s_observable := false; s_uses_observed := false;
     s_uses_batch_size := false; s_uses_meta := false; s_parameter := par; s_opid := id |}.
Definition ex_ops : list eop :=
  [ EAddNode 0 "_k"%string (st0 (Some (VConst 1)) false false ""%string) [] None;
    EAddNode 0 "a"%string (st0 None true true "a"%string) ["_k"%string] None;
    EAddNode 0 "b"%string (st0 None true false "b"%string) ["a"%string] (Some (VConst 7));
    ECopy 0;
    ESetParams 1 ["b"%string];
    EAddNode 0 "c"%string (st0 None true false "c"%string) [] None;
    EBecome 0 "b"%string "c"%string;
    ERemove 1 "a"%string ].
Example C14_example :
  guards_hold [empty_net] ex_ops = true
  /\ match run [empty_net] ex_ops with
     | Ok [m0; m1] => consistent_b m0 && consistent_b m1
                      && names_eqb (parameter_names m0) ["a"%string] && names_eqb (parameter_names m1) ["b"%string]
                      && negb (has "c"%string (s_nodes m0)) && negb (has "_k"%string (s_nodes m1))
                      && has "_k"%string (s_nodes m0)
     | _ => false
     end = true.
Proof. vm_compute. split; reflexivity. Qed.
