(** C14 — editing, copying and saving a model preserves its structure and meaning.
    Model: Graph/Edit.v (add_node / add_edge / remove_node / update_node (become) /
    parameter_names / copy over several live models).  Proofs: Proofs/C14_Edit.v. *)
From Coq Require Import List String ZArith Arith Bool Sorting.Sorted.
From Elfi Require Import Graph.Net Graph.Edit Base.StrOrder Proofs.C03_Exec Proofs.C14_Edit Proofs.C14_Become Proofs.C14_Copy.
Import ListNotations.

(** Along every edit script over any number of live models (creation with parents, add_edge,
    remove, become, parameter flags, observed data, in-place writes to a node state through a
    reference ([ESetFlag]: [node.uses_meta = b], [get_state(n)['attr_dict'][key] = b]), copy, save/load) every model stays
    structurally consistent: node names distinct, edges between existing nodes, observed data
    only for existing nodes.  The guards are decidable and say: observed data is set for an
    existing node; a become leaves the replaced node in place. *)
Theorem C14_edits_preserve_structure :
  forall ops ms ms',
    Forall Closed ms -> guards_hold ms ops = true -> run ms ops = Ok ms' -> Forall Closed ms'.
Proof. exact run_closed. Qed.
Print Assumptions C14_edits_preserve_structure.

(** Removing nodes (with the recursive clean-up of private parents) never creates a cycle, the
    removed node is gone, and surviving nodes keep their state. *)
Theorem C14_remove_acyclic :
  forall fuel m n, acyclic (s_edges m) -> acyclic (s_edges (remove_node fuel m n)).
Proof. exact remove_node_acyclic. Qed.
Print Assumptions C14_remove_acyclic.

Theorem C14_remove_gone : forall fuel m n, ~ In n (names (remove_node fuel m n)).
Proof. exact remove_node_gone. Qed.
Print Assumptions C14_remove_gone.

Theorem C14_remove_keeps_others :
  forall fuel m n k st, lookup k (s_nodes (remove_node fuel m n)) = Some st -> lookup k (s_nodes m) = Some st.
Proof. exact remove_node_keeps_state. Qed.
Print Assumptions C14_remove_keeps_others.

(** A new node whose edges all come from existing nodes keeps the graph acyclic. *)
Theorem C14_new_node_acyclic :
  forall es es' nodes n,
    (forall e, In e es -> In (e_src e) nodes /\ In (e_dst e) nodes) -> ~ In n nodes ->
    (forall e, In e es' -> In e es \/ (In (e_src e) nodes /\ e_dst e = n)) ->
    acyclic es -> acyclic es'.
Proof. exact new_sink_acyclic. Qed.
Print Assumptions C14_new_node_acyclic.

(** become: the replaced node carries exactly the replacement's state; the replacement is gone. *)
Theorem C14_become_takes_state :
  forall m n u m' st', update_node m n u = Ok m' -> n <> u ->
    lookup n (s_nodes m') = Some st' -> lookup u (s_nodes m) = Some st'.
Proof. exact update_node_state. Qed.
Print Assumptions C14_become_takes_state.

Theorem C14_become_replacement_gone :
  forall m n u m', update_node m n u = Ok m' -> ~ In u (names m').
Proof. exact update_node_replacement_gone. Qed.
Print Assumptions C14_become_replacement_gone.

(** become keeps the graph acyclic whenever the replacement is neither the node itself nor one of
    its descendants (the case that is not is the known finding become-onto-descendant). *)
Theorem C14_become_acyclic :
  forall m n u m', update_node m n u = Ok m' -> acyclic (s_edges m) -> ~ reach (s_edges m) n u ->
    acyclic (s_edges m').
Proof. exact update_node_acyclic. Qed.
Print Assumptions C14_become_acyclic.

(** become, in full (Proofs/C14_Become.v).  Everything below follows from the success of
    [update_node m n u] and [n <> u]; the edge clauses also use [simple]: one edge per ordered
    pair of nodes, which holds in every state an edit script can reach
    ([C14_reachable_simple]).  [cleaned_b m n k] says that [k] is one of the private ("_...")
    positional parents of [n] that the removal of the old [n] takes along; its logical meaning is
    the last clause of [C14_become_takes_parents].

    1. The replaced node keeps its children: every out-edge to a child other than [u] (and other
    than [n] itself) is kept with its parameter; no out-edge is invented except the self-loop that
    an edge [n -> u] turns into; and when [u] is not a child of [n] the out-edges are exactly the
    same.  (With a self-loop at [n] and an edge [n -> u] the self-loop's parameter is overwritten:
    [become_children_selfloop_refuted].) *)
Theorem C14_become_keeps_children :
  forall m n u m', update_node m n u = Ok m' -> n <> u -> simple (s_edges m) ->
    (forall c p, In (n, c, p) (s_edges m) -> c <> u -> c <> n -> In (n, c, p) (s_edges m'))
    /\ (forall c p, In (n, c, p) (s_edges m') ->
          (In (n, c, p) (s_edges m) /\ c <> u) \/ (c = n /\ In (n, u, p) (s_edges m)))
    /\ ((forall p, ~ In (n, u, p) (s_edges m)) ->
        forall c p, In (n, c, p) (s_edges m') <-> In (n, c, p) (s_edges m)).
Proof. exact become_keeps_children. Qed.
Print Assumptions C14_become_keeps_children.

(** 2. It takes the replacement's parents: every in-edge of [u] from a node other than [n] and
    [u] is copied onto [n] with its parameter; when [u] is not a child of [n] and [n] has no
    self-loop the in-edges of [n] afterwards are exactly those (so an old parent of [n] stays a
    parent only if it was also a parent of [u], with the same parameter); the nodes that disappear
    are [u] and exactly the clean-up set: private positional parents of [n] all of whose edges
    went to or came from [n]. *)
Theorem C14_become_takes_parents :
  forall m n u m', update_node m n u = Ok m' -> n <> u -> simple (s_edges m) ->
    (forall q p, In (q, u, p) (s_edges m) -> q <> n -> q <> u -> In (q, n, p) (s_edges m'))
    /\ ((forall p, ~ In (n, u, p) (s_edges m)) -> (forall p, ~ In (n, n, p) (s_edges m)) ->
        forall q p, In (q, n, p) (s_edges m') <-> In (q, u, p) (s_edges m) /\ q <> u)
    /\ (forall k, In k (names m') <-> In k (names m) /\ k <> u /\ cleaned_b m n k = false)
    /\ (forall k, cleaned_b m n k = true <->
          k <> n /\ In k (names m) /\ is_private k = true
          /\ (exists i, In (k, n, PInt i) (s_edges m))
          /\ (forall e, In e (s_edges m) -> e_src e = k \/ e_dst e = k -> e_src e = n \/ e_dst e = n)).
Proof. exact become_takes_parents. Qed.
Print Assumptions C14_become_takes_parents.

(** 3. Everything else is untouched: every node other than [n], [u] and the clean-up set keeps
    its state; the edges between nodes other than [n] and [u] are the same before and after (and
    none of them touches a cleaned-up node). *)
Theorem C14_become_others_untouched :
  forall m n u m', update_node m n u = Ok m' -> n <> u ->
    (forall k, k <> n -> k <> u -> cleaned_b m n k = false -> lookup k (s_nodes m') = lookup k (s_nodes m))
    /\ (forall e, e_src e <> n -> e_src e <> u -> e_dst e <> n -> e_dst e <> u ->
          (In e (s_edges m') <-> In e (s_edges m)))
    /\ (forall k e, cleaned_b m n k = true -> In e (s_edges m) -> e_src e <> n -> e_dst e <> n ->
          e_src e <> k /\ e_dst e <> k).
Proof. exact become_others_untouched. Qed.
Print Assumptions C14_become_others_untouched.

(** 4. Observed data: [n] ends up with [u]'s entry (or none), its own old entry is dropped, [u]
    has none, the cleaned-up nodes have none and every other entry is unchanged. *)
Theorem C14_become_observed :
  forall m n u m', update_node m n u = Ok m' -> n <> u ->
    lookup n (s_observed m') = lookup u (s_observed m)
    /\ lookup u (s_observed m') = None
    /\ forall k, k <> n -> k <> u ->
         lookup k (s_observed m') = if cleaned_b m n k then None else lookup k (s_observed m).
Proof. exact become_observed. Qed.
Print Assumptions C14_become_observed.

(** On an acyclic model with the replacement not reachable from the node, no side condition is
    left: same out-edges, and the in-edges are exactly the replacement's. *)
Theorem C14_become_edges_acyclic :
  forall m n u m', update_node m n u = Ok m' -> simple (s_edges m) -> acyclic (s_edges m) ->
    ~ reach (s_edges m) n u ->
    (forall c p, In (n, c, p) (s_edges m') <-> In (n, c, p) (s_edges m))
    /\ (forall q p, In (q, n, p) (s_edges m') <-> In (q, u, p) (s_edges m)).
Proof. exact become_edges_acyclic. Qed.
Print Assumptions C14_become_edges_acyclic.

(** A successful become always leaves the replaced node in place and the model structurally
    consistent, and [simple] holds for every model an edit script builds from the empty one. *)
Theorem C14_become_closed :
  forall m n u m', Closed m -> update_node m n u = Ok m' -> n <> u -> Closed m'.
Proof. exact become_closed. Qed.
Print Assumptions C14_become_closed.

Theorem C14_reachable_simple :
  forall ops ms, run [empty_net] ops = Ok ms -> Forall (fun m => simple (s_edges m)) ms.
Proof. exact reachable_simple. Qed.
Print Assumptions C14_reachable_simple.

(** parameter_names lists exactly the parameter nodes, sorted; the setter marks exactly the
    named nodes. *)
Theorem C14_parameter_names :
  forall m n, In n (parameter_names m) <-> exists st, In (n, st) (s_nodes m) /\ s_parameter st = true.
Proof. exact parameter_names_spec. Qed.
Print Assumptions C14_parameter_names.

Theorem C14_parameter_names_sorted : forall m, StronglySorted leP (parameter_names m).
Proof. exact parameter_names_sorted. Qed.
Print Assumptions C14_parameter_names_sorted.

Theorem C14_set_parameter_names :
  forall m ps m' n, set_parameter_names m ps = Ok m' ->
    (In n (parameter_names m') <-> In n (names m) /\ In n ps).
Proof. exact set_parameter_names_spec. Qed.
Print Assumptions C14_set_parameter_names.

(** In-place writes to a node state ([model[n].uses_meta = b], [model.get_state(n)['attr_dict'][key] = b]):
    exactly the named flag of exactly the named node of that model changes; edges and observed data stay. *)
Theorem C14_state_write :
  forall m n f b k,
    lookup k (s_nodes (write_flag m n f b))
    = (if String.eqb k n then option_map (fun st => set_flag st f b) (lookup k (s_nodes m)) else lookup k (s_nodes m))
    /\ s_edges (write_flag m n f b) = s_edges m /\ s_observed (write_flag m n f b) = s_observed m.
Proof. exact write_flag_spec. Qed.
Print Assumptions C14_state_write.

Theorem C14_state_write_flag :
  forall st f b,
    s_output (set_flag st f b) = s_output st /\ s_has_op (set_flag st f b) = s_has_op st
    /\ s_stochastic (set_flag st f b) = s_stochastic st /\ s_observable (set_flag st f b) = s_observable st
    /\ s_opid (set_flag st f b) = s_opid st
    /\ s_uses_meta (set_flag st f b) = (match f with FUsesMeta => b | _ => s_uses_meta st end)
    /\ s_uses_batch_size (set_flag st f b) = (match f with FUsesBatchSize => b | _ => s_uses_batch_size st end)
    /\ s_uses_observed (set_flag st f b) = (match f with FUsesObserved => b | _ => s_uses_observed st end)
    /\ s_parameter (set_flag st f b) = (match f with FParameter => b | _ => s_parameter st end).
Proof. exact set_flag_spec. Qed.
Print Assumptions C14_state_write_flag.

(** Independence of the live models.  One operation changes only the model it is addressed to
    (a copy / save+load changes none and appends the value of its source) ... *)
Theorem C14_step_frame :
  forall ms o ms' j, step ms o = Ok ms' -> writes_to o j = false -> j < List.length ms ->
    nth_error ms' j = nth_error ms j /\ List.length ms <= List.length ms'.
Proof. exact step_frame. Qed.
Print Assumptions C14_step_frame.

Theorem C14_copy_equals_source :
  forall ms o ms', step ms o = Ok ms' -> (exists h, o = ECopy h \/ o = ESaveLoad h) ->
    exists m, nth_error ms (handle_of o) = Some m /\ ms' = ms ++ [m].
Proof. exact step_copy. Qed.
Print Assumptions C14_copy_equals_source.

(** ... so along ANY script a live model that no operation writes to keeps its value ... *)
Theorem C14_run_frame :
  forall ops ms ms' j, run ms ops = Ok ms' -> j < List.length ms ->
    forallb (fun o => negb (writes_to o j)) ops = true -> nth_error ms' j = nth_error ms j.
Proof. exact run_frame. Qed.
Print Assumptions C14_run_frame.

(** ... and a copy (or a reloaded model) and its original are independent: after the copy, any
    script that does not write to the copy leaves it with the value the original had at copy time,
    whatever it does to the original (node creation, edges, removal, become, parameter flags,
    observed data, in-place state writes, further copies), and any script that does not write to
    the original leaves the original unchanged whatever it does to the copy. *)
Theorem C14_copy_independent :
  forall ms o ms1 ops ms2 m,
    (exists h, o = ECopy h \/ o = ESaveLoad h) ->
    step ms o = Ok ms1 -> nth_error ms (handle_of o) = Some m -> run ms1 ops = Ok ms2 ->
    (forallb (fun x => negb (writes_to x (List.length ms))) ops = true -> nth_error ms2 (List.length ms) = Some m)
    /\ (forallb (fun x => negb (writes_to x (handle_of o))) ops = true -> nth_error ms2 (handle_of o) = Some m).
Proof. exact copy_independent. Qed.
Print Assumptions C14_copy_independent.

(** Non-vacuity: a script with creation, a copy, an edit of the copy, a become and a removal; the
    guards hold, both live models end consistent and the original is untouched by the copy's edit. *)
Definition st0 (o : option value) (op par : bool) (id : name) : sstate :=
  {| s_output := o; s_has_op := op; s_stochastic := false; s_observable := false; s_uses_observed := false;
     s_uses_batch_size := false; s_uses_meta := false; s_parameter := par; s_opid := id |}.
Definition ex_ops : list eop :=
  [ EAddNode 0 "_k"%string (st0 (Some (VConst 1)) false false ""%string) [] None;
    EAddNode 0 "a"%string (st0 None true true "a"%string) ["_k"%string] None;
    EAddNode 0 "b"%string (st0 None true false "b"%string) ["a"%string] (Some (VConst 7));
    ECopy 0;
    ESetFlag 1 "a"%string FUsesMeta true;
    ESetFlag 0 "b"%string FUsesBatchSize true;
    ESetParams 1 ["b"%string];
    EAddNode 0 "c"%string (st0 None true false "c"%string) [] None;
    EBecome 0 "b"%string "c"%string;
    ERemove 1 "a"%string ].
Example C14_example :
  guards_hold [empty_net] ex_ops = true
  /\ match run [empty_net] ex_ops with
     | Ok [m0; m1] => consistent_b m0 && consistent_b m1
                      && names_eqb (parameter_names m0) ["a"%string] && names_eqb (parameter_names m1) ["b"%string]
                      && negb (has "c"%string (s_nodes m0)) && negb (has "_k"%string (s_nodes m1))
                      && has "_k"%string (s_nodes m0)
                      (* the state write to the copy's [a] is in the copy only *)
                      && match lookup "a"%string (s_nodes m0) with Some st => negb (s_uses_meta st) | None => false end
     | _ => false
     end = true.
Proof. vm_compute. split; reflexivity. Qed.

(** Non-vacuity of copy independence: copy, then write to the original only / to the copy only. *)
Definition ex_base : list eop :=
  [ EAddNode 0 "a"%string (st0 None true true "a"%string) [] None;
    EAddNode 0 "b"%string (st0 None true false "b"%string) ["a"%string] (Some (VConst 7)) ].
Definition ex_on_original : list eop :=
  [ ESetFlag 0 "b"%string FUsesMeta true; ESetParams 0 ["b"%string]; ESetObserved 0 "b"%string (VConst 9);
    ERemove 0 "a"%string ].
Definition ex_on_copy : list eop :=
  [ ESetFlag 1 "b"%string FUsesMeta true; ESetFlag 1 "a"%string FParameter false; ERemove 1 "b"%string ].
Example C14_copy_independent_example :
  match run [empty_net] ex_base with
  | Ok ms =>
      match step ms (ECopy 0), nth_error ms 0 with
      | Ok ms1, Some m =>
          forallb (fun x => negb (writes_to x 1)) ex_on_original
          && forallb (fun x => negb (writes_to x 0)) ex_on_copy
          && match run ms1 ex_on_original with
             | Ok [m0; m1] => snet_eqb m1 m && negb (snet_eqb m0 m)
             | _ => false
             end
          && match run ms1 ex_on_copy with
             | Ok [m0; m1] => snet_eqb m0 m && negb (snet_eqb m1 m)
             | _ => false
             end
      | _, _ => false
      end
  | Err _ => false
  end = true.
Proof. vm_compute. reflexivity. Qed.

(** Non-vacuity for become: [n] has a private constant parent [_k] of its own (cleaned up), a
    private parent [_s] shared with [u] (kept), a named non-private parent [a] (edge dropped), a
    child [c]; [n], [u], [_k] and [c] carry observed data.  The hypotheses of the four theorems
    hold and the result is computed. *)
Local Open Scope string_scope.
Definition ex_become : snet :=
  {| s_nodes := [("_k", st0 (Some (VConst 1)) false false ""); ("_s", st0 (Some (VConst 2)) false false "");
                 ("a", st0 None true true "a"); ("n", st0 None true false "n"); ("u", st0 None true false "u");
                 ("c", st0 None true false "c")];
     s_edges := [("_k", "n", PInt 0); ("_s", "n", PInt 1); ("a", "n", PStr "kw");
                 ("_s", "u", PInt 0); ("a", "u", PInt 1); ("n", "c", PInt 0)];
     s_observed := [("n", VConst 1); ("u", VConst 2); ("_k", VConst 3); ("c", VConst 4)] |}.
Definition ex_become_after : snet :=
  {| s_nodes := [("_s", st0 (Some (VConst 2)) false false ""); ("a", st0 None true true "a");
                 ("c", st0 None true false "c"); ("n", st0 None true false "u")];
     s_edges := [("n", "c", PInt 0); ("_s", "n", PInt 0); ("a", "n", PInt 1)];
     s_observed := [("c", VConst 4); ("n", VConst 2)] |}.
Example C14_become_example :
  consistent_b ex_become = true /\ uniq_b (s_edges ex_become) = true
  /\ pair_in "n" "u" (s_edges ex_become) = false /\ pair_in "n" "n" (s_edges ex_become) = false
  /\ cleaned_b ex_become "n" "_k" = true /\ cleaned_b ex_become "n" "_s" = false
  /\ match update_node ex_become "n" "u" with
     | Ok m' => snet_eqb m' ex_become_after && consistent_b m'
     | Err _ => false
     end = true.
Proof. vm_compute. repeat split. Qed.

(** ... and the general theorems apply to it *)
Example C14_become_example_applied :
  forall m', update_node ex_become "n" "u" = Ok m' ->
    (forall c p, In ("n", c, p) (s_edges m') <-> In ("n", c, p) (s_edges ex_become))
    /\ (forall q p, In (q, "n", p) (s_edges m') <-> In (q, "u", p) (s_edges ex_become) /\ q <> "u")
    /\ ~ In "_k" (names m') /\ In "_s" (names m')
    /\ lookup "n" (s_observed m') = Some (VConst 2) /\ lookup "_k" (s_observed m') = None.
Proof.
  intros m' H.
  assert (Hnu : "n" <> "u") by discriminate.
  assert (Hsim : simple (s_edges ex_become)) by (apply uniq_simple, uniq_b_sound; reflexivity).
  assert (Hchild : forall p, ~ In ("n", "u", p) (s_edges ex_become)) by (apply pair_in_false; reflexivity).
  assert (Hloop : forall p, ~ In ("n", "n", p) (s_edges ex_become)) by (apply pair_in_false; reflexivity).
  destruct (C14_become_keeps_children _ _ _ _ H Hnu Hsim) as [_ [_ Hc]].
  destruct (C14_become_takes_parents _ _ _ _ H Hnu Hsim) as [_ [Hp [Hn _]]].
  destruct (C14_become_observed _ _ _ _ H Hnu) as [Ho1 [_ Ho3]].
  split; [exact (Hc Hchild)|]. split; [exact (Hp Hchild Hloop)|].
  split; [intros Hin; apply Hn in Hin; destruct Hin as [_ [_ Hin]]; vm_compute in Hin; discriminate|].
  split; [apply Hn; split; [simpl; tauto|]; split; [discriminate | reflexivity]|].
  split; [rewrite Ho1; reflexivity|].
  rewrite Ho3; [reflexivity | discriminate | discriminate].
Qed.

(** ---- Link to C03 / C02 / C05 / C08 (Proofs/C14_Wfsrc.v): every model an edit script can reach
    from the empty model is a well-formed source net [wfsrc], the hypothesis of the end-to-end
    theorems.  The script guard [script_ok ops = wf_guards [empty_net] ops] checks, at every step,
    [wf_guard] on the model the step edits ([C14_script_guard]):
      - [EAddNode]: the state has the shape one of the node constructors produces ([class_state]:
        Constant / Operation / RandomVariable-Prior / Simulator / Summary / Discrepancy), the name
        is not one of the reserved instruction-node names [inames], and observed data come only
        with an observable state (only ObservableMixin takes [observed=]);
      - [ESetObserved]: the key is an observable node of the edited model;
      - nothing for add_edge, remove, become, parameter_names, state writes, copy, save/load:
        become moves the replacement's state AND its observed data and drops the node's own, and a
        state write never touches [_output] / [_operation] / [_observable].
    Both guards are needed and can be violated through the public API
    ([C14_reserved_name_refuted], [C14_set_observed_on_constant_refuted]). *)
From Elfi Require Import Graph.Denote Proofs.C03_EndToEnd Proofs.C03_Twins Proofs.C14_Wfsrc.

Theorem C14_script_guard :
  (forall ops, script_ok ops = wf_guards [empty_net] ops)
  /\ (forall ms o r, wf_guards ms (o :: r) =
        match nth_error ms (handle_of o) with
        | None => true
        | Some m => wf_guard m o && match step ms o with Ok ms' => wf_guards ms' r | Err _ => true end
        end)
  /\ (forall m o, wf_guard m o =
        match o with
        | EAddNode _ n st _ obs =>
            class_state st && negb (mem n inames) && match obs with Some _ => s_observable st | None => true end
        | ESetObserved _ n _ => flag m s_observable n
        | _ => true
        end)
  /\ (forall st, class_state st = true ->
        (s_observable st = true -> s_output st = None)
        /\ (s_output st = None -> s_has_op st = true) /\ (s_output st <> None -> s_has_op st = false)).
Proof.
  split; [reflexivity|]. split; [reflexivity|]. split; [reflexivity|].
  intros st H. apply shape_ok_spec, class_state_shape, H.
Qed.
Print Assumptions C14_script_guard.

Theorem C14_reachable_models_well_formed :
  forall ops ms, run [empty_net] ops = Ok ms -> script_ok ops = true -> Forall wfsrc ms.
Proof. exact reachable_wfsrc. Qed.
Print Assumptions C14_reachable_models_well_formed.

(** ... so for every script-reachable model, whatever [generate] returns for a node or an observed
    twin is its user-level dataflow meaning [den_name] (C03's [generate_sound], hypothesis discharged). *)
Theorem C14_reachable_generate_is_dataflow :
  forall ops ms m outs W out log,
    run [empty_net] ops = Ok ms -> script_ok ops = true -> In m ms ->
    NoDup (map fst W) -> (forall k, In k (map fst W) -> ~ In k inames) ->
    generate m outs W = Ok (out, log) ->
    forall o v, In (o, v) out ->
      (has o (s_nodes m) = true
       \/ exists x st, lookup x (s_nodes m) = Some st /\ o = observed_name x
                       /\ (s_observable st = true \/ s_uses_observed st = true)) ->
      den_name m W o = Some v.
Proof. exact reachable_generate_sound. Qed.
Print Assumptions C14_reachable_generate_is_dataflow.

(** the OutputCompiler never rejects a node of a reachable model *)
Theorem C14_reachable_one_of_output_operation :
  forall ops ms, run [empty_net] ops = Ok ms -> script_ok ops = true ->
    Forall (fun m => forall n st, lookup n (s_nodes m) = Some st ->
                       (s_output st = None -> s_has_op st = true) /\ (s_output st <> None -> s_has_op st = false)) ms.
Proof. exact reachable_one_of_output_operation. Qed.
Print Assumptions C14_reachable_one_of_output_operation.

(** the two guards cannot be dropped: [elfi.Constant(1, name='_batch_size')] and
    [m.observed['c'] = 2] for a constant [c] both succeed and leave [wfsrc] *)
Theorem C14_reserved_name_refuted :
  class_state (st_constant (VConst 1)) = true
  /\ match run [empty_net] [EAddNode 0 "_batch_size" (st_constant (VConst 1)) [] None] with
     | Ok [m] => wfsrc_b m = false /\ has "_batch_size" (s_nodes m) = true
     | _ => False
     end.
Proof. exact reserved_name_refuted. Qed.
Print Assumptions C14_reserved_name_refuted.

Theorem C14_set_observed_on_constant_refuted :
  match run [empty_net] [EAddNode 0 "c" (st_constant (VConst 1)) [] None; ESetObserved 0 "c" (VConst 2)] with
  | Ok [m] => wfsrc_b m = false /\ consistent_b m = true /\ flag m s_observable "c" = false
  | _ => False
  end.
Proof. exact set_observed_on_constant_refuted. Qed.
Print Assumptions C14_set_observed_on_constant_refuted.

(** Non-vacuity: prior [t] -> simulator [y] with data -> summary [s] -> discrepancy [d]; a copy; on
    the copy a new summary [s2] of [y] that [s] then becomes.  The script meets the guard, both
    live models satisfy [wfsrc_b], and [generate] succeeds on both with the expected value of [d]
    (the copy's summary operation is [s2]'s, and its observed twin summarises the data 5). *)
Definition stc (sto obs uo ub par : bool) (id : name) : sstate :=
  {| s_output := None; s_has_op := true; s_stochastic := sto; s_observable := obs; s_uses_observed := uo;
     s_uses_batch_size := ub; s_uses_meta := false; s_parameter := par; s_opid := id |}.
Definition ex_wf_ops : list eop :=
  [ EAddNode 0 "t" (stc true false false true true "t") [] None;                   (* Prior *)
    EAddNode 0 "y" (stc true true false true false "y") ["t"] (Some (VConst 5));    (* Simulator, observed=5 *)
    EAddNode 0 "s" (stc false true false false false "s") ["y"] None;               (* Summary *)
    EAddNode 0 "d" (stc false false true false false "d") ["s"] None;               (* Discrepancy *)
    ECopy 0;
    EAddNode 1 "s2" (stc false true false false false "s2") ["y"] None;
    EBecome 1 "s" "s2" ].
Definition ex_wf_d (sname : name) : value :=
  let rt := [("batch_size", VBatch); ("random_state", VRng)] in
  VApp (OpUser "d") [VApp (OpUser sname) [VApp (OpUser "y") [VApp (OpUser "t") [] rt] rt] []]
       [("observed", VApp OpTuple [VApp (OpUser sname) [VConst 5] []] [])].
Example C14_reachable_example :
  script_ok ex_wf_ops = true
  /\ match run [empty_net] ex_wf_ops with
     | Ok [m0; m1] =>
         wfsrc_b m0 = true /\ wfsrc_b m1 = true
         /\ (exists log, generate m0 ["d"] [] = Ok ([("d", ex_wf_d "s")], log))
         /\ (exists log, generate m1 ["d"] [] = Ok ([("d", ex_wf_d "s2")], log))
         /\ negb (has "s2" (s_nodes m0)) && negb (has "s2" (s_nodes m1)) = true
     | _ => False
     end.
Proof. vm_compute. repeat split; eexists; reflexivity. Qed.
Print Assumptions C14_reachable_example.

(** ... and the general theorems apply to it: both models are well formed without computing
    [wfsrc_b], and the generated value of [d] is its dataflow meaning. *)
Example C14_reachable_example_applied :
  forall ms, run [empty_net] ex_wf_ops = Ok ms ->
    Forall wfsrc ms
    /\ forall m out log, In m ms -> generate m ["d"] [] = Ok (out, log) ->
         forall v, In ("d", v) out -> has "d" (s_nodes m) = true -> den_name m [] "d" = Some v.
Proof.
  intros ms H.
  assert (Hg : script_ok ex_wf_ops = true) by (vm_compute; reflexivity).
  split; [exact (C14_reachable_models_well_formed _ _ H Hg)|].
  intros m out log Hm Hgen v Hv Hd.
  apply (C14_reachable_generate_is_dataflow _ _ m ["d"] [] out log H Hg Hm); [constructor | intros k [] | exact Hgen | exact Hv | now left].
Qed.
Print Assumptions C14_reachable_example_applied.

(** ---- C14 -> C02: a seeded run does not depend on the insertion order, at the level of the API ---- *)
From Elfi Require Import Proofs.C03_ModelOk Proofs.C02_Insertion Proofs.C14_C02_Link.

(** Two guarded scripts whose live models [m1], [m2] are the same model with nodes, edges and
    observed data inserted in another order: [generate] gives the same values and the same call
    log on both, or fails on both. *)
Theorem C14_scripts_same_model_same_generate :
  forall ops1 ops2 ms1 ms2 m1 m2 outs W,
    run [empty_net] ops1 = Ok ms1 -> script_ok ops1 = true -> In m1 ms1 ->
    run [empty_net] ops2 = Ok ms2 -> script_ok ops2 = true -> In m2 ms2 ->
    same_model m1 m2 -> params_distinct m1 ->
    NoDup (map fst W) -> (forall k, In k (map fst W) -> ~ In k inames) -> outputs_wf m1 outs ->
    (exists r, generate m1 outs W = Ok r /\ generate m2 outs W = Ok r)
    \/ ((exists e, generate m1 outs W = Err e) /\ (exists e, generate m2 outs W = Err e)).
Proof. exact scripts_same_model_same_generate. Qed.
Print Assumptions C14_scripts_same_model_same_generate.

(** the second model need not be script-reachable: any reordering of a reachable model will do *)
Theorem C14_reachable_same_model_same_generate :
  forall ops ms m1 m2 outs W,
    run [empty_net] ops = Ok ms -> script_ok ops = true -> In m1 ms ->
    same_model m1 m2 -> params_distinct m1 ->
    NoDup (map fst W) -> (forall k, In k (map fst W) -> ~ In k inames) -> outputs_wf m1 outs ->
    same_result (generate m1 outs W) (generate m2 outs W).
Proof. exact reachable_same_model_same_generate. Qed.
Print Assumptions C14_reachable_same_model_same_generate.

Theorem C14_scripts_same_model_same_generate_ok :
  forall ops1 ops2 ms1 ms2 m1 m2 outs W r,
    run [empty_net] ops1 = Ok ms1 -> script_ok ops1 = true -> In m1 ms1 ->
    run [empty_net] ops2 = Ok ms2 -> script_ok ops2 = true -> In m2 ms2 ->
    same_model m1 m2 -> params_distinct m1 ->
    NoDup (map fst W) -> (forall k, In k (map fst W) -> ~ In k inames) -> outputs_wf m1 outs ->
    (generate m1 outs W = Ok r <-> generate m2 outs W = Ok r).
Proof. exact scripts_same_model_same_generate_ok. Qed.
Print Assumptions C14_scripts_same_model_same_generate_ok.

(** [params_distinct] is not an invariant of [script_ok] scripts: [Operation(f, t, t, u)];
    [remove_node] of parent 0 followed by [add_edge(v, o)]; the explicit [add_edge(u, o, 0)]. *)
Theorem C14_params_distinct_refuted_repeated_parent :
  pd_broken [ EAddNode 0 "t" (st_prior "t") [] None; EAddNode 0 "u" (st_prior "u") [] None;
              EAddNode 0 "o" (st_op "o") ["t"; "t"; "u"] None ].
Proof. exact params_distinct_refuted_repeated_parent. Qed.
Print Assumptions C14_params_distinct_refuted_repeated_parent.

Theorem C14_params_distinct_refuted_remove_then_add :
  pd_broken [ EAddNode 0 "t" (st_prior "t") [] None; EAddNode 0 "u" (st_prior "u") [] None;
              EAddNode 0 "v" (st_prior "v") [] None;
              EAddNode 0 "o" (st_op "o") ["t"; "u"] None;
              ERemove 0 "t"; EAddEdge 0 "v" "o" None ].
Proof. exact params_distinct_refuted_remove_then_add. Qed.
Print Assumptions C14_params_distinct_refuted_remove_then_add.

Theorem C14_params_distinct_refuted_explicit_edge :
  pd_broken [ EAddNode 0 "t" (st_prior "t") [] None; EAddNode 0 "u" (st_prior "u") [] None;
              EAddNode 0 "o" (st_op "o") ["t"] None; EAddEdge 0 "u" "o" (Some (PInt 0)) ].
Proof. exact params_distinct_refuted_explicit_edge. Qed.
Print Assumptions C14_params_distinct_refuted_explicit_edge.

(** Two different scripts for one 5-node model (prior, simulator with data, two summaries,
    discrepancy): the node lists and the edge lists differ as lists, the models are the same up to
    order, and the theorem (and a direct computation) gives equal [generate] results. *)
Example C14_two_scripts_one_model :
  script_ok ex_ops_a = true /\ script_ok ex_ops_b = true
  /\ run [empty_net] ex_ops_a = Ok [ex_m_a] /\ run [empty_net] ex_ops_b = Ok [ex_m_b]
  /\ same_model ex_m_a ex_m_b
  /\ map fst (s_nodes ex_m_a) <> map fst (s_nodes ex_m_b)
  /\ s_edges ex_m_a <> s_edges ex_m_b
  /\ params_distinct ex_m_a
  /\ (forall outs W, NoDup (map fst W) -> (forall k, In k (map fst W) -> ~ In k inames) -> outputs_wf ex_m_a outs ->
        same_result (generate ex_m_a outs W) (generate ex_m_b outs W))
  /\ (exists v log, log <> [] /\ generate ex_m_a ["d"] [] = Ok ([("d", v)], log) /\ generate ex_m_b ["d"] [] = Ok ([("d", v)], log)).
Proof. exact two_scripts_one_model. Qed.
Print Assumptions C14_two_scripts_one_model.

(** [params_distinct] is an invariant under the additional guard [pd_guard'] (Proofs/C14_C02_Link.v),
    every clause of which is read off the call and the model BEFORE it:
      pd_guard' m (EAddNode _ _ _ parents _) = nodup_b parents            (positional parents pairwise distinct)
      pd_guard' m (EAddEdge _ p c par)       = edge_guard m p c par       (the parameter -- explicit, or the next
                                                                           positional index -- is not held by
                                                                           another parent of [c])
      pd_guard' m (EBecome _ n _)            = negb (pair_in n n (s_edges m))   (no self-loop at [n])
      pd_guard' m (ESetObserved _ n _)       = has n (s_nodes m)          (data only on a node; keeps [Closed])
      pd_guard' m _                          = true
    [script_pd_ok' ops] asks it of every step of [ops] run from the empty model. *)
Theorem C14_params_distinct_reachable :
  forall ops ms, run [empty_net] ops = Ok ms -> script_pd_ok' ops = true -> Forall params_distinct ms.
Proof. exact reachable_params_distinct. Qed.
Print Assumptions C14_params_distinct_reachable.

(** why the [EAddNode] clause suffices: with pairwise distinct parents on a structurally consistent
    model, the i-th positional parent of the new node gets the parameter [PInt i] *)
Theorem C14_add_node_positional_params :
  forall m h n st parents obs m',
    Closed m -> NoDup parents -> step_model m (EAddNode h n st parents obs) = Ok m' ->
    map fst (preds (s_edges m') n) = parents
    /\ map snd (preds (s_edges m') n) = map PInt (seq 0 (List.length parents)).
Proof. exact add_node_positional_params. Qed.
Print Assumptions C14_add_node_positional_params.

Theorem C14_step_keeps_params_distinct :
  forall m o m', Closed m -> pd_guard' m o = true -> step_model m o = Ok m' -> PD (s_edges m) -> PD (s_edges m').
Proof. exact step_model_PD'. Qed.
Print Assumptions C14_step_keeps_params_distinct.

(** the same with the [EAddNode] clause checked on the step's result ([pd_guard]); no [Closed] needed *)
Theorem C14_step_keeps_params_distinct_result_checked :
  forall m o m', pd_guard m o = true -> step_model m o = Ok m' -> PD (s_edges m) -> PD (s_edges m').
Proof. exact step_model_PD. Qed.
Print Assumptions C14_step_keeps_params_distinct_result_checked.

Theorem C14_scripts_same_model_same_generate_guarded :
  forall ops1 ops2 ms1 ms2 m1 m2 outs W,
    run [empty_net] ops1 = Ok ms1 -> script_ok ops1 = true -> script_pd_ok' ops1 = true -> In m1 ms1 ->
    run [empty_net] ops2 = Ok ms2 -> script_ok ops2 = true -> In m2 ms2 ->
    same_model m1 m2 ->
    NoDup (map fst W) -> (forall k, In k (map fst W) -> ~ In k inames) -> outputs_wf m1 outs ->
    same_result (generate m1 outs W) (generate m2 outs W).
Proof. exact scripts_same_model_same_generate_guarded. Qed.
Print Assumptions C14_scripts_same_model_same_generate_guarded.

Example C14_two_scripts_pd_ok : script_pd_ok' ex_ops_a = true /\ script_pd_ok' ex_ops_b = true.
Proof. exact two_scripts_pd_ok. Qed.
Print Assumptions C14_two_scripts_pd_ok.

(** the guard refuses the three refuting scripts above *)
Example C14_refuted_scripts_refused :
  script_pd_ok' [ EAddNode 0 "t" (st_prior "t") [] None; EAddNode 0 "u" (st_prior "u") [] None;
                  EAddNode 0 "o" (st_op "o") ["t"; "t"; "u"] None ] = false
  /\ script_pd_ok' [ EAddNode 0 "t" (st_prior "t") [] None; EAddNode 0 "u" (st_prior "u") [] None;
                     EAddNode 0 "v" (st_prior "v") [] None;
                     EAddNode 0 "o" (st_op "o") ["t"; "u"] None;
                     ERemove 0 "t"; EAddEdge 0 "v" "o" None ] = false
  /\ script_pd_ok' [ EAddNode 0 "t" (st_prior "t") [] None; EAddNode 0 "u" (st_prior "u") [] None;
                     EAddNode 0 "o" (st_op "o") ["t"] None; EAddEdge 0 "u" "o" (Some (PInt 0)) ] = false.
Proof. exact refuted_scripts_refused. Qed.
Print Assumptions C14_refuted_scripts_refused.

(** ---- "model_ok" (Proofs/C14_ModelOk.v): the model's own edit step passes the decidable property
    clause [op_ok] that the correspondence check evaluates on the implementation's before/after
    dumps.  So the clause is satisfiable at every step a script can reach, and wherever model and
    implementation agree it holds of the implementation's dumps.  [become_hazard o m = false] says
    that a become does not replace a node by itself or one of its descendants; [simple]: one edge
    per ordered pair of nodes (not implied by [consistent_b], needed: [C14_model_op_ok_needs_simple];
    free on script-reachable models: [C14_model_op_ok_reachable]).  [edge_hazard] is not needed. *)
From Elfi Require Import Proofs.C14_ModelOk.

Theorem C14_snet_eqb_refl : forall m, snet_eqb m m = true.
Proof. exact snet_eqb_refl. Qed.
Print Assumptions C14_snet_eqb_refl.

Theorem C14_model_op_ok :
  forall m o m',
    consistent_b m = true -> simple (s_edges m) ->
    step_model m o = Ok m' -> become_hazard o m = false ->
    op_ok o m m' = true.
Proof. exact model_op_ok. Qed.
Print Assumptions C14_model_op_ok.

Theorem C14_model_op_ok_reachable :
  forall ops ms m o m',
    run [empty_net] ops = Ok ms -> In m ms -> consistent_b m = true ->
    step_model m o = Ok m' -> become_hazard o m = false ->
    op_ok o m m' = true.
Proof. exact model_op_ok_reachable. Qed.
Print Assumptions C14_model_op_ok_reachable.

(** per operation, with the hypotheses each one really uses: none for a state write and a removal;
    for a become only the acyclicity check of [consistent_b] and [simple] *)
Theorem C14_model_op_ok_setflag :
  forall h m n f b m', step_model m (ESetFlag h n f b) = Ok m' -> op_ok (ESetFlag h n f b) m m' = true.
Proof. exact model_op_ok_setflag. Qed.
Print Assumptions C14_model_op_ok_setflag.

Theorem C14_model_op_ok_remove :
  forall h m n m', step_model m (ERemove h n) = Ok m' -> op_ok (ERemove h n) m m' = true.
Proof. exact model_op_ok_remove. Qed.
Print Assumptions C14_model_op_ok_remove.

Theorem C14_model_op_ok_become :
  forall h m n u m',
    acyclic_b m = true -> simple (s_edges m) ->
    step_model m (EBecome h n u) = Ok m' -> become_hazard (EBecome h n u) m = false ->
    op_ok (EBecome h n u) m m' = true.
Proof. exact model_op_ok_become. Qed.
Print Assumptions C14_model_op_ok_become.

(** [simple] cannot be dropped: with two edges n -> c (parameters 0 and 1) the model is
    [consistent_b], no hazard flag is raised, and the model's become step -- which re-adds the
    out-edges of [n] with DiGraph semantics -- keeps one of the two, failing "keeps its children". *)
Theorem C14_model_op_ok_needs_simple :
  let st id := st0 None true false id in
  let m := {| s_nodes := [("n", st "n"); ("u", st "u"); ("c", st "c")];
              s_edges := [("n", "c", PInt 0); ("n", "c", PInt 1)]; s_observed := [] |} in
  consistent_b m = true /\ become_hazard (EBecome 0 "n" "u") m = false
  /\ edge_hazard (EBecome 0 "n" "u") m = false
  /\ match step_model m (EBecome 0 "n" "u") with
     | Ok m' => op_ok (EBecome 0 "n" "u") m m' = false /\ consistent_b m' = true
     | Err _ => False
     end.
Proof. exact become_needs_simple. Qed.
Print Assumptions C14_model_op_ok_needs_simple.

(** Non-vacuity: a 4-node model ([a] parent of [u] positionally and of [n] by keyword, [c] child of
    [n], data on both); the hypotheses of [C14_model_op_ok] hold and the become step passes the
    clause by computation: [n] keeps its child, its only parent is now [u]'s, its data are [u]'s. *)
Example C14_model_op_ok_example :
  let st id := st0 None true false id in
  let m := {| s_nodes := [("a", st "a"); ("n", st "n"); ("u", st "u"); ("c", st "c")];
              s_edges := [("a", "n", PStr "kw"); ("a", "u", PInt 0); ("n", "c", PInt 0)];
              s_observed := [("n", VConst 1); ("u", VConst 2)] |} in
  consistent_b m = true /\ uniq_b (s_edges m) = true
  /\ become_hazard (EBecome 0 "n" "u") m = false
  /\ match step_model m (EBecome 0 "n" "u") with
     | Ok m' => op_ok (EBecome 0 "n" "u") m m' = true /\ has "u" (s_nodes m') = false
                /\ children m' "n" = [("c", PInt 0)]
                /\ preds (s_edges m') "n" = [("a", PInt 0)] /\ lookup "n" (s_observed m') = Some (VConst 2)
     | Err _ => False
     end.
Proof. vm_compute. repeat split. Qed.
Print Assumptions C14_model_op_ok_example.

(** ... and the general theorem applies to it *)
Example C14_model_op_ok_example_applied :
  forall m', step_model mo_net (EBecome 0 "n" "u") = Ok m' -> op_ok (EBecome 0 "n" "u") mo_net m' = true.
Proof.
  intros m' H. apply C14_model_op_ok; [reflexivity | apply uniq_simple, uniq_b_sound; reflexivity | exact H | reflexivity].
Qed.
Print Assumptions C14_model_op_ok_example_applied.

(** ---- non-vacuity of the hypotheses (audit) ---- *)
(** The 6-node model [ex_become] (private parents [_k], [_s]; [a]; [n]; [u]; child [c]) is acyclic,
    structurally consistent, [simple], and [u] is not reachable from [n]. *)
Example C14_audit_ex_become_acyclic : acyclic (s_edges ex_become).
Proof.
  intros u v p Hin. simpl in Hin.
  repeat (destruct Hin as [Hin|Hin];
          [inversion Hin; subst; apply (become_hazard_reach 0 _ _ ex_become); vm_compute; reflexivity|]).
  destruct Hin.
Qed.

Example C14_audit_ex_become_closed : Closed ex_become.
Proof.
  constructor.
  - unfold names; simpl. repeat constructor; simpl; intuition discriminate.
  - intros e He. simpl in He. unfold names; simpl.
    repeat (destruct He as [He|He]; [subst e; simpl; tauto|]). destruct He.
  - intros k v Hk. simpl in Hk. unfold names; simpl.
    repeat (destruct Hk as [Hk|Hk]; [inversion Hk; subst; tauto|]). destruct Hk.
Qed.

Example C14_audit_ex_become_simple_noreach :
  simple (s_edges ex_become) /\ ~ reach (s_edges ex_become) "n" "u".
Proof.
  split; [apply uniq_simple, uniq_b_sound; reflexivity|].
  apply (become_hazard_reach 0 _ _ ex_become). vm_compute. reflexivity.
Qed.

(** removal of [n] from [ex_become] (takes the private parent [_k] along, keeps [_s] and [c]) *)
Example C14_remove_acyclic_nonvacuous :
  acyclic (s_edges ex_become)
  /\ names (remove_node 6 ex_become "n") = ["_s"; "a"; "u"; "c"]
  /\ acyclic (s_edges (remove_node 6 ex_become "n")).
Proof.
  split; [exact C14_audit_ex_become_acyclic|]. split; [vm_compute; reflexivity|].
  apply C14_remove_acyclic, C14_audit_ex_become_acyclic.
Qed.

Example C14_remove_keeps_others_nonvacuous :
  lookup "c" (s_nodes (remove_node 6 ex_become "n")) = Some (st0 None true false "c")
  /\ lookup "c" (s_nodes ex_become) = Some (st0 None true false "c").
Proof.
  assert (H : lookup "c" (s_nodes (remove_node 6 ex_become "n")) = Some (st0 None true false "c"))
    by (vm_compute; reflexivity).
  split; [exact H | exact (C14_remove_keeps_others _ _ _ _ _ H)].
Qed.

(** a new node [z] with the two parents [c] and [a] on top of the six edges of [ex_become] *)
Example C14_new_node_acyclic_nonvacuous :
  let es := s_edges ex_become in
  let es' := (es ++ [("c", "z", PInt 0); ("a", "z", PInt 1)])%list in
  let nodes := names ex_become in
  (forall e, In e es -> In (e_src e) nodes /\ In (e_dst e) nodes) /\ ~ In "z" nodes
  /\ (forall e, In e es' -> In e es \/ (In (e_src e) nodes /\ e_dst e = "z"))
  /\ acyclic es /\ acyclic es'.
Proof.
  intros es es' nodes.
  assert (H1 : forall e, In e es -> In (e_src e) nodes /\ In (e_dst e) nodes)
    by (exact (cl_edges _ C14_audit_ex_become_closed)).
  assert (H2 : ~ In "z" nodes) by (unfold nodes, names; simpl; intuition discriminate).
  assert (H3 : forall e, In e es' -> In e es \/ (In (e_src e) nodes /\ e_dst e = "z")).
  { intros e He. unfold es' in He. apply in_app_or in He. destruct He as [He|He]; [now left|right].
    simpl in He. destruct He as [He|[He|[]]]; subst e; unfold nodes, names; simpl; tauto. }
  split; [exact H1|]. split; [exact H2|]. split; [exact H3|]. split; [exact C14_audit_ex_become_acyclic|].
  exact (C14_new_node_acyclic es es' nodes "z" H1 H2 H3 C14_audit_ex_become_acyclic).
Qed.

(** become [n] <- [u] on [ex_become]: all the hypotheses of the become theorems together *)
Example C14_become_takes_state_nonvacuous :
  exists m' st', update_node ex_become "n" "u" = Ok m' /\ "n" <> "u"
    /\ lookup "n" (s_nodes m') = Some st' /\ lookup "u" (s_nodes ex_become) = Some st'
    /\ st' = st0 None true false "u".
Proof.
  eexists. eexists. split; [vm_compute; reflexivity|]. split; [discriminate|].
  split; [vm_compute; reflexivity|]. split; vm_compute; reflexivity.
Qed.

Example C14_become_acyclic_nonvacuous :
  exists m', update_node ex_become "n" "u" = Ok m' /\ Closed ex_become /\ "n" <> "u"
    /\ simple (s_edges ex_become) /\ acyclic (s_edges ex_become) /\ ~ reach (s_edges ex_become) "n" "u"
    /\ acyclic (s_edges m') /\ Closed m' /\ ~ In "u" (names m')
    /\ (forall c p, In ("n", c, p) (s_edges m') <-> In ("n", c, p) (s_edges ex_become))
    /\ (forall q p, In (q, "n", p) (s_edges m') <-> In (q, "u", p) (s_edges ex_become)).
Proof.
  destruct C14_audit_ex_become_simple_noreach as [Hs Hr].
  assert (Hnu : "n" <> "u") by discriminate.
  eexists. split; [vm_compute; reflexivity|].
  match goal with |- context [Closed ex_become /\ _] => idtac end.
  set (m' := {| s_nodes := _ |}).
  assert (H : update_node ex_become "n" "u" = Ok m') by (vm_compute; reflexivity).
  split; [exact C14_audit_ex_become_closed|]. split; [exact Hnu|]. split; [exact Hs|].
  split; [exact C14_audit_ex_become_acyclic|]. split; [exact Hr|].
  split; [exact (C14_become_acyclic _ _ _ _ H C14_audit_ex_become_acyclic Hr)|].
  split; [exact (C14_become_closed _ _ _ _ C14_audit_ex_become_closed H Hnu)|].
  split; [exact (C14_become_replacement_gone _ _ _ _ H)|].
  exact (C14_become_edges_acyclic _ _ _ _ H Hs C14_audit_ex_become_acyclic Hr).
Qed.

(** the parameter_names setter on [ex_become] *)
Example C14_set_parameter_names_nonvacuous :
  exists m', set_parameter_names ex_become ["c"; "a"] = Ok m'
    /\ parameter_names ex_become = ["a"] /\ parameter_names m' = ["a"; "c"].
Proof. eexists. split; vm_compute; [reflexivity | split; reflexivity]. Qed.

(** one step on two live models (original, copy): a state write to the copy leaves the original *)
Example C14_step_frame_nonvacuous :
  match run [empty_net] (ex_base ++ [ECopy 0])%list with
  | Ok ms =>
      let o := ESetFlag 1 "b" FUsesMeta true in
      exists ms', step ms o = Ok ms' /\ writes_to o 0 = false /\ 0 < List.length ms
        /\ nth_error ms' 0 = nth_error ms 0
        /\ match nth_error ms' 1, nth_error ms 1 with
           | Some x, Some y => snet_eqb x y = false
           | _, _ => False
           end
  | Err _ => False
  end.
Proof. vm_compute. eexists. split; [reflexivity|]. repeat split; auto. Qed.

Example C14_copy_equals_source_nonvacuous :
  match run [empty_net] ex_base with
  | Ok ms => exists m, nth_error ms 0 = Some m /\ step ms (ESaveLoad 0) = Ok (ms ++ [m])%list /\ s_edges m <> []
  | Err _ => False
  end.
Proof. vm_compute. eexists. split; [reflexivity|]. split; [reflexivity | discriminate]. Qed.

(** the two-script example: side hypotheses on the outputs and on a non-empty [W] *)
Example C14_scripts_same_model_side_conditions_nonvacuous :
  let W := [("t", VConst 3)] in
  NoDup (map fst W) /\ (forall k, In k (map fst W) -> ~ In k inames)
  /\ outputs_wf ex_m_a ["d"; observed_name "y"] /\ In ex_m_a [ex_m_a]
  /\ same_result (generate ex_m_a ["d"; observed_name "y"] W) (generate ex_m_b ["d"; observed_name "y"] W).
Proof.
  intros W.
  assert (H1 : NoDup (map fst W)) by (repeat constructor; simpl; tauto).
  assert (H2 : forall k, In k (map fst W) -> ~ In k inames).
  { intros k [Hk|[]]; subst k. vm_compute. intuition discriminate. }
  assert (H3 : outputs_wf ex_m_a ["d"; observed_name "y"]).
  { intros o [Ho|[Ho|[]]]; subst o; [left; reflexivity|right].
    exists "y". eexists. split; [vm_compute; reflexivity|]. split; [reflexivity | left; reflexivity]. }
  split; [exact H1|]. split; [exact H2|]. split; [exact H3|]. split; [now left|].
  destruct C14_two_scripts_one_model as [_ [_ [_ [_ [_ [_ [_ [_ [H _]]]]]]]]]. exact (H _ W H1 H2 H3).
Qed.

(** [ex_m_a] (5 nodes, 5 edges) is [Closed] and [PD]; a new node with three distinct parents *)
Example C14_audit_ex_m_a_closed : guards_hold [empty_net] ex_ops_a = true /\ Closed ex_m_a.
Proof.
  assert (Hg : guards_hold [empty_net] ex_ops_a = true) by (vm_compute; reflexivity).
  split; [exact Hg|].
  assert (Hr : run [empty_net] ex_ops_a = Ok [ex_m_a]) by (vm_compute; reflexivity).
  pose proof (C14_edits_preserve_structure _ _ _ (Forall_cons _ Closed_empty (Forall_nil _)) Hg Hr) as H.
  now inversion H.
Qed.

Example C14_audit_ex_m_a_PD : PD (s_edges ex_m_a).
Proof.
  apply PD_of_params_distinct.
  destruct C14_two_scripts_one_model as [_ [_ [_ [_ [_ [_ [_ [H _]]]]]]]]. exact H.
Qed.

Example C14_add_node_positional_params_nonvacuous :
  let o := EAddNode 0 "z" (st_op "z") ["s1"; "t"; "y"] None in
  exists m', Closed ex_m_a /\ NoDup ["s1"; "t"; "y"] /\ step_model ex_m_a o = Ok m'
    /\ pd_guard' ex_m_a o = true /\ pd_guard ex_m_a o = true /\ PD (s_edges ex_m_a)
    /\ preds (s_edges m') "z" = [("s1", PInt 0); ("t", PInt 1); ("y", PInt 2)]
    /\ PD (s_edges m').
Proof.
  intros o. destruct C14_audit_ex_m_a_closed as [_ Hc].
  eexists. split; [exact Hc|]. split; [repeat constructor; simpl; intuition discriminate|].
  split; [vm_compute; reflexivity|].
  set (m' := {| s_nodes := _ |}).
  assert (H : step_model ex_m_a o = Ok m') by (vm_compute; reflexivity).
  assert (Hg : pd_guard' ex_m_a o = true) by (vm_compute; reflexivity).
  split; [exact Hg|]. split; [vm_compute; reflexivity|]. split; [exact C14_audit_ex_m_a_PD|].
  split; [vm_compute; reflexivity|].
  exact (C14_step_keeps_params_distinct _ _ _ Hc Hg H C14_audit_ex_m_a_PD).
Qed.

Example C14_step_keeps_params_distinct_edge_nonvacuous :
  let o := EAddEdge 0 "t" "d" (Some (PStr "scale")) in
  exists m', Closed ex_m_a /\ pd_guard' ex_m_a o = true /\ pd_guard ex_m_a o = true
    /\ step_model ex_m_a o = Ok m' /\ PD (s_edges ex_m_a)
    /\ List.length (s_edges m') = 6 /\ PD (s_edges m').
Proof.
  intros o. destruct C14_audit_ex_m_a_closed as [_ Hc].
  eexists. split; [exact Hc|]. split; [vm_compute; reflexivity|]. split; [vm_compute; reflexivity|].
  split; [vm_compute; reflexivity|].
  set (m' := {| s_nodes := _ |}).
  assert (H : step_model ex_m_a o = Ok m') by (vm_compute; reflexivity).
  split; [exact C14_audit_ex_m_a_PD|]. split; [vm_compute; reflexivity|].
  refine (C14_step_keeps_params_distinct_result_checked _ _ _ _ H C14_audit_ex_m_a_PD). vm_compute. reflexivity.
Qed.

(** [op_ok] on a script-reachable model: become [s1] <- [s2] on [ex_m_a]; a state write and a removal *)
Example C14_model_op_ok_reachable_nonvacuous :
  exists m', run [empty_net] ex_ops_a = Ok [ex_m_a] /\ In ex_m_a [ex_m_a] /\ consistent_b ex_m_a = true
    /\ step_model ex_m_a (EBecome 0 "s1" "s2") = Ok m' /\ become_hazard (EBecome 0 "s1" "s2") ex_m_a = false
    /\ has "s2" (s_nodes m') = false
    /\ op_ok (EBecome 0 "s1" "s2") ex_m_a m' = true.
Proof.
  assert (Hr : run [empty_net] ex_ops_a = Ok [ex_m_a]) by (vm_compute; reflexivity).
  assert (Hc : consistent_b ex_m_a = true) by (vm_compute; reflexivity).
  assert (Hh : become_hazard (EBecome 0 "s1" "s2") ex_m_a = false) by (vm_compute; reflexivity).
  eexists. split; [exact Hr|]. split; [now left|]. split; [exact Hc|]. split; [vm_compute; reflexivity|].
  set (m' := {| s_nodes := _ |}).
  assert (H : step_model ex_m_a (EBecome 0 "s1" "s2") = Ok m') by (vm_compute; reflexivity).
  split; [exact Hh|]. split; [vm_compute; reflexivity|].
  exact (C14_model_op_ok_reachable _ _ _ _ _ Hr (or_introl eq_refl) Hc H Hh).
Qed.

Example C14_model_op_ok_setflag_remove_nonvacuous :
  exists m1 m2,
    step_model mo_net (ESetFlag 0 "n" FUsesMeta true) = Ok m1 /\ snet_eqb m1 mo_net = false
    /\ step_model mo_net (ERemove 0 "n") = Ok m2 /\ names m2 = ["a"; "u"; "c"]
    /\ op_ok (ESetFlag 0 "n" FUsesMeta true) mo_net m1 = true /\ op_ok (ERemove 0 "n") mo_net m2 = true.
Proof.
  eexists. eexists. split; [vm_compute; reflexivity|]. split; [vm_compute; reflexivity|].
  split; [vm_compute; reflexivity|]. split; [vm_compute; reflexivity|].
  split; [apply C14_model_op_ok_setflag | apply C14_model_op_ok_remove]; vm_compute; reflexivity.
Qed.

Example C14_model_op_ok_become_nonvacuous :
  acyclic_b mo_net = true /\ simple (s_edges mo_net)
  /\ (exists m', step_model mo_net (EBecome 0 "n" "u") = Ok m')
  /\ become_hazard (EBecome 0 "n" "u") mo_net = false.
Proof.
  split; [vm_compute; reflexivity|]. split; [apply uniq_simple, uniq_b_sound; reflexivity|].
  split; [eexists; vm_compute; reflexivity | vm_compute; reflexivity].
Qed.

(** ---- "model_ok" for whole scripts (Proofs/C14_ScriptOk.v).  [model_steps ms ops] replays the model
    as [agree_steps] does and records after every step the model's own dumps of all live models and
    [parameter_names] of each.  That record passes [ok_steps]: the edited model changed as stated
    ([op_ok]), no other live model changed, a copy / a reloaded model equals its source and the
    number of live models is right, [parameter_names] is as [params_ok] asks -- for all scripts.
    PARTIAL: the clause "every live model stays consistent" is the decidable hypothesis
    [consistent_along] (evaluated on the model's own run, up to the first raising / edge-hazard
    step); missing is that [step_model] preserves the [nodup_params] and [acyclic_b] conjuncts of
    [consistent_b] ([acyclic_b] is phrased through [topo_order]).  [no_become_hazard]: no become
    onto the node itself or a descendant (strict variant only). *)
From Elfi Require Import Proofs.C14_ScriptOk.

Theorem C14_model_steps_agree : forall ops ms, agree_steps ms (model_steps ms ops) = true.
Proof. exact model_steps_agree. Qed.
Print Assumptions C14_model_steps_agree.

Theorem C14_model_script_ok_partial :
  forall ops,
    consistent_along true [empty_net] ops = true -> no_become_hazard true [empty_net] ops = true ->
    ok_steps true [empty_net] (model_steps [empty_net] ops) = true.
Proof. exact model_script_ok_partial. Qed.
Print Assumptions C14_model_script_ok_partial.

(** from any consistent, one-edge-per-pair list of live models; both variants *)
Theorem C14_model_steps_ok :
  forall strict ops ms,
    forallb consistent_b ms = true -> Forall (fun m => uniq (s_edges m)) ms ->
    consistent_along strict ms ops = true -> no_become_hazard strict ms ops = true ->
    ok_steps strict ms (model_steps ms ops) = true.
Proof. exact model_steps_ok. Qed.
Print Assumptions C14_model_steps_ok.

(** the non-strict predicate stops at a become hazard: no hypothesis on become *)
Theorem C14_model_script_ok_nonstrict_partial :
  forall ops,
    consistent_along false [empty_net] ops = true ->
    ok_steps false [empty_net] (model_steps [empty_net] ops) = true.
Proof. exact model_script_ok_nonstrict_partial. Qed.
Print Assumptions C14_model_script_ok_nonstrict_partial.

(** the case record of the model's own run agrees with the model and passes [ok_strict] and [ok] *)
Theorem C14_model_case_ok_strict_partial :
  forall ops,
    consistent_along true [empty_net] ops = true -> no_become_hazard true [empty_net] ops = true ->
    Edit.agree (model_case ops) = true /\ Edit.ok_strict (model_case ops) = true /\ Edit.ok (model_case ops) = true.
Proof. exact model_case_ok_strict_partial. Qed.
Print Assumptions C14_model_case_ok_strict_partial.

(** the clauses, one step of the model at a time *)
Theorem C14_step_clause_op_ok :
  forall ms o ms',
    step ms o = Ok ms' ->
    forallb consistent_b ms = true -> Forall (fun m => uniq (s_edges m)) ms ->
    become_hazard o (nth (handle_of o) ms empty_net) = false ->
    match nth_error ms (handle_of o), nth_error ms' (handle_of o) with
    | Some b, Some a => op_ok o b a
    | _, _ => false
    end = true.
Proof. exact step_clause_op_ok. Qed.
Print Assumptions C14_step_clause_op_ok.

Theorem C14_step_clause_others :
  forall ms o ms', step ms o = Ok ms' -> others_fix (handle_of o) 0 ms ms' = true.
Proof. exact step_clause_others. Qed.
Print Assumptions C14_step_clause_others.

Theorem C14_step_clause_copy :
  forall ms o ms',
    step ms o = Ok ms' ->
    match o with
    | ECopy _ | ESaveLoad _ =>
        match nth_error ms (handle_of o), nth_error ms' (List.length ms) with
        | Some b, Some a => snet_eqb b a && Nat.eqb (List.length ms') (S (List.length ms))
        | _, _ => false
        end
    | _ => Nat.eqb (List.length ms') (List.length ms)
    end = true.
Proof. exact step_clause_copy. Qed.
Print Assumptions C14_step_clause_copy.

Theorem C14_params_ok_self : forall ms, all2 params_ok ms (map parameter_names ms) = true.
Proof. exact params_ok_self. Qed.
Print Assumptions C14_params_ok_self.

(** a 6-step script over two live models: three creations, a copy, a become on the original, a
    remove on the copy; every step succeeds, the hypotheses hold by computation, and the model's own
    record (dumps and parameter_names per live model) passes the strict predicate *)
Example C14_model_script_ok_nonvacuous :
  consistent_along true [empty_net] so_script = true
  /\ no_become_hazard true [empty_net] so_script = true
  /\ List.length (model_steps [empty_net] so_script) = 6
  /\ forallb (fun s => match so_after s with Some _ => true | None => false end)
             (model_steps [empty_net] so_script) = true
  /\ map so_params (model_steps [empty_net] so_script)
     = [[["t1"]]; [["t1"; "t2"]]; [["t1"; "t2"]]; [["t1"; "t2"]; ["t1"; "t2"]];
        [["t1"]; ["t1"; "t2"]]; [["t1"]; ["t1"; "t2"]]]
  /\ match run [empty_net] so_script with
     | Ok [m0; m1] => map fst (s_nodes m0) = ["s"; "t1"] /\ map fst (s_nodes m1) = ["t1"; "t2"]
     | _ => False
     end
  /\ ok_steps true [empty_net] (model_steps [empty_net] so_script) = true.
Proof. exact model_script_ok_example. Qed.
Print Assumptions C14_model_script_ok_nonvacuous.

(** ---- the clause "every live model stays consistent", derived (Proofs/C14_Consistent.v) ---- *)
From Elfi Require Import Proofs.C14_Consistent.

(** the decidable [consistent_b] read at Prop level, both ways ([uniq]: one edge per ordered pair,
    an invariant of all scripts by [run_uniq] in Proofs/C14_Become.v) *)
Theorem C14_consistent_b_sound :
  forall m, consistent_b m = true -> Closed m /\ PD (s_edges m) /\ acyclic (s_edges m).
Proof.
  intros m H. split; [exact (consistent_Closed m H)|]. split; [exact (consistent_PD m H) | exact (consistent_acyclic m H)].
Qed.
Print Assumptions C14_consistent_b_sound.

Theorem C14_consistent_b_complete :
  forall m, Closed m -> uniq (s_edges m) -> PD (s_edges m) -> acyclic (s_edges m) -> consistent_b m = true.
Proof. exact consistent_of_props. Qed.
Print Assumptions C14_consistent_b_complete.

Theorem C14_acyclic_b_iff :
  forall m, Closed m -> (acyclic_b m = true <-> acyclic (s_edges m)).
Proof. intros m Hc. split; [now apply acyclic_b_acyclic | now apply acyclic_acyclic_b]. Qed.
Print Assumptions C14_acyclic_b_iff.

(** one step keeps every live model consistent, outside the two hazards [ok_steps] excludes and
    the input hazards it does NOT exclude (observed data for a missing node; a new node among its
    own parents; a repeated positional parent) *)
Theorem C14_step_consistent :
  forall ms o ms',
    step ms o = Ok ms' ->
    forallb consistent_b ms = true -> Forall (fun m => uniq (s_edges m)) ms ->
    input_hazard o (nth (handle_of o) ms empty_net) = false ->
    edge_hazard o (nth (handle_of o) ms empty_net) = false ->
    become_hazard o (nth (handle_of o) ms empty_net) = false ->
    forallb consistent_b ms' = true.
Proof. exact step_consistent. Qed.
Print Assumptions C14_step_consistent.

Theorem C14_consistent_along_derived :
  forall strict ops,
    no_input_hazard strict [empty_net] ops = true -> no_become_hazard strict [empty_net] ops = true ->
    consistent_along strict [empty_net] ops = true.
Proof. exact consistent_along_derived. Qed.
Print Assumptions C14_consistent_along_derived.

(** model_ok for whole scripts, every clause of [ok_steps] derived: no hypothesis on the model's
    dumps any more.  [no_input_hazard] cannot be dropped ([C14_input_hazard_necessary]). *)
Theorem C14_model_script_ok :
  forall ops,
    no_input_hazard true [empty_net] ops = true -> no_become_hazard true [empty_net] ops = true ->
    ok_steps true [empty_net] (model_steps [empty_net] ops) = true.
Proof. exact model_script_ok. Qed.
Print Assumptions C14_model_script_ok.

Theorem C14_model_script_ok_nonstrict :
  forall ops,
    no_input_hazard false [empty_net] ops = true ->
    ok_steps false [empty_net] (model_steps [empty_net] ops) = true.
Proof. exact model_script_ok_nonstrict. Qed.
Print Assumptions C14_model_script_ok_nonstrict.

Theorem C14_model_case_ok_strict :
  forall ops,
    no_input_hazard true [empty_net] ops = true -> no_become_hazard true [empty_net] ops = true ->
    Edit.agree (model_case ops) = true /\ Edit.ok_strict (model_case ops) = true /\ Edit.ok (model_case ops) = true.
Proof. exact model_case_ok_strict. Qed.
Print Assumptions C14_model_case_ok_strict.

Theorem C14_model_case_ok :
  forall ops,
    no_input_hazard false [empty_net] ops = true ->
    Edit.agree (model_case ops) = true /\ Edit.ok (model_case ops) = true.
Proof. exact model_case_ok. Qed.
Print Assumptions C14_model_case_ok.

(** every live model reached by a script that raises no hazard flag at any step is consistent *)
Theorem C14_reachable_consistent :
  forall ops ms m,
    hazard_free [empty_net] ops = true -> run [empty_net] ops = Ok ms -> In m ms -> consistent_b m = true.
Proof. exact reachable_consistent. Qed.
Print Assumptions C14_reachable_consistent.

(** the three input hazards, each alone in a script with no edge / become hazard: the model's own
    dump is not [consistent_b] and the model's own record fails [ok_steps] (strict and non-strict) *)
Example C14_input_hazard_necessary :
  forallb (fun ops =>
     negb (consistent_along true [empty_net] ops)
     && no_become_hazard true [empty_net] ops
     && negb (no_input_hazard true [empty_net] ops)
     && negb (ok_steps true [empty_net] (model_steps [empty_net] ops))
     && negb (ok_steps false [empty_net] (model_steps [empty_net] ops))
     && match run [empty_net] ops with Ok [m] => negb (consistent_b m) | _ => false end)
    [ih_observe_missing; ih_self_parent; ih_repeated_parent] = true.
Proof. exact input_hazard_necessary. Qed.

Example C14_model_script_ok_full_nonvacuous :
  no_input_hazard true [empty_net] so_script = true
  /\ no_become_hazard true [empty_net] so_script = true
  /\ ok_steps true [empty_net] (model_steps [empty_net] so_script) = true.
Proof. exact model_script_ok_full_example. Qed.
