(** C16 — result objects report what the sampler produced.
    Model: Num/Results.v (Sample / BolfiSample containers, weighted_sample_quantile,
    gelman_rubin_statistic, eff_sample_size over canonical rationals [Qc]).
    This file only states the property theorems; proofs are in Proofs/C16_Results.v.
    File round trips: the CSV table layout (zip_longest rows / column read-back) has theorems
    (Proofs/C16_Csv.v); the text form of a cell, JSON and pickle are differential tests in harness/c16.py. *)
From Coq Require Import String.
From Coq Require Import ZArith QArith Qcanon Bool Arith List Permutation.
From Elfi Require Import Num.Results Proofs.C16_Results Proofs.C16_Csv.
Import ListNotations.
Local Open Scope Qc_scope.

(** [samples_array] has one row per stored sample and one entry per parameter; entry (r, j) is the
    r-th stored value of the j-th name in [parameter_names] (whatever the order of [outputs]). *)
Theorem C16_samples_array_column :
  forall (names : list string) (outputs : dict) (arr : list (list Qc)),
    NoDup names -> samples_array names outputs = Some arr ->
    forall j, (j < length names)%nat ->
      exists col, lookup (nth j names EmptyString) outputs = Some col
                  /\ length arr = length col
                  /\ forall r, (r < length arr)%nat ->
                       length (nth r arr []) = length names /\ nth j (nth r arr []) 0 = nth r col 0.
Proof. exact samples_array_column. Qed.
Print Assumptions C16_samples_array_column.

(** the mean without weights is the weighted mean  sum w_i x_i / sum w_i  with unit weights, and
    the weighted mean does not depend on the scale of the weights *)
Theorem C16_mean_unit_weights :
  forall x, average None x = Some (wsum (repeat 1 (length x)) x / sumq (repeat 1 (length x))).
Proof. exact average_none_is_unit_weights. Qed.
Print Assumptions C16_mean_unit_weights.

Theorem C16_mean_weight_scale :
  forall c w x, c <> 0 -> wsum (map (Qcmult c) w) x / sumq (map (Qcmult c) w) = wsum w x / sumq w.
Proof. exact wmean_weight_scale. Qed.
Print Assumptions C16_mean_weight_scale.

(** BOLFI sample = each chain without its warm-up prefix, chain after chain: for all numbers of
    chains, chain lengths N and warm-ups w < N, row r is chain r/(N-w) at position w + r mod (N-w),
    and there are n_chains * (N-w) rows (none when w >= N). *)
Theorem C16_bolfi_row :
  forall (chains : list (list (list Qc))) (N w r : nat),
    Forall (fun c => length c = N) chains -> (w < N)%nat -> (r < length chains * (N - w))%nat ->
    nth r (bolfi_rows chains w) [] = nth (w + r mod (N - w)) (nth (r / (N - w)) chains []) [].
Proof. exact bolfi_rows_index. Qed.
Print Assumptions C16_bolfi_row.

Theorem C16_bolfi_length :
  forall (chains : list (list (list Qc))) (N w : nat),
    Forall (fun c => length c = N) chains ->
    length (bolfi_rows chains w) = (length chains * (N - w))%nat.
Proof. exact bolfi_rows_length. Qed.
Print Assumptions C16_bolfi_length.

(** split R-hat: invariant under x -> a x + b (a <> 0) and under any reordering of the chains,
    for every square-root function (the statistic is [sqrt (rhat2 chains)]) *)
Theorem C16_rhat_affine :
  forall (sqrt : Qc -> Qc) (a b : Qc) (chains : list (list Qc)) (N : nat),
    a <> 0 -> (2 <= N)%nat -> Forall (fun c => length c = N) chains ->
    rhat sqrt (map (map (fun x => a * x + b)) chains) = rhat sqrt chains.
Proof. exact rhat_affine. Qed.
Print Assumptions C16_rhat_affine.

Theorem C16_rhat_permutation :
  forall (sqrt : Qc -> Qc) (chains chains' : list (list Qc)) (N : nat),
    Permutation chains chains' -> Forall (fun c => length c = N) chains ->
    rhat sqrt chains = rhat sqrt chains'.
Proof. exact rhat_perm. Qed.
Print Assumptions C16_rhat_permutation.

(** its ingredients W (within), B (between) scale by a^2 *)
Theorem C16_variances_affine :
  forall (a b : Qc) (n : nat) (chains : list (list Qc)),
    Forall (fun c => c <> []) chains ->
    var_within (map (map (fun x => a * x + b)) chains) = (a * a) * var_within chains
    /\ var_between n (map (map (fun x => a * x + b)) chains) = (a * a) * var_between n chains.
Proof. intros a b n chains H. split; [apply var_within_aff | apply (var_between_aff a b n chains H)]. Qed.
Print Assumptions C16_variances_affine.

(** effective sample size: same invariances (the truncation lag is decided on invariant terms) *)
Theorem C16_ess_affine :
  forall (a b : Qc) (chains : list (list Qc)),
    a <> 0 -> Forall (fun c => c <> []) chains ->
    ess (map (map (fun x => a * x + b)) chains) = ess chains.
Proof. exact ess_affine. Qed.
Print Assumptions C16_ess_affine.

Theorem C16_ess_permutation :
  forall (chains chains' : list (list Qc)) (N : nat),
    Permutation chains chains' -> Forall (fun c => length c = N) chains ->
    ess chains = ess chains'.
Proof. exact ess_perm. Qed.
Print Assumptions C16_ess_permutation.

(** the textbook formulas *)
Theorem C16_rhat_formula :
  forall chains : list (list Qc),
    let n := (length (hd [] chains) / 2)%nat in
    let halves := flat_map (fun c => [firstn n c; firstn n (skipn n c)]) chains in
    let W := mean (map var1 halves) in
    let B := qn n * var1 (map mean halves) in
    rhat2 chains = (((qn n - 1) * W + B) / qn n) / W.
Proof. exact rhat2_formula. Qed.
Print Assumptions C16_rhat_formula.

(** ... and the same quantity written with index sums over the 2m half chains
    x_{s,i} = chain (s div 2), position (s mod 2) n + i  (BDA3 11.3-11.4); this is the form [ok]
    evaluates against the implementation's R-hat *)
Theorem C16_rhat_textbook :
  forall (chains : list (list Qc)) (N : nat),
    Forall (fun c => length c = N) chains -> rhat2 chains = sp_rhat2 chains.
Proof. exact rhat2_textbook. Qed.
Print Assumptions C16_rhat_textbook.

Theorem C16_ess_formula :
  forall chains : list (list Qc),
    let m := length chains in
    let n := length (hd [] chains) in
    let W := mean (map var1 chains) in
    let B := if (m =? 1)%nat then 0 else qn n * var1 (map mean chains) in
    let vp := ((qn n - 1) * W + B) / qn n in
    let acov t c := dot (map (fun x => x - mean c) c) (skipn t (map (fun x => x - mean c) c)) / qn (length c - t) in
    let rho_t t := 1 - (W - mean (map (acov t) chains)) / vp in
    ess chains = qn m * qn n / (1 + (1 + 1) * sum_until_neg (map rho_t (seq 1 (n - 1)))).
Proof. exact ess_formula. Qed.
Print Assumptions C16_ess_formula.

Theorem C16_truncation_rule :
  forall ts : list Qc,
    exists T, (T <= length ts)%nat
              /\ sum_until_neg ts = sumq (firstn T ts)
              /\ Forall (fun t => qleb 0 t = true) (firstn T ts)
              /\ ((T < length ts)%nat -> qleb 0 (nth T ts 0) = false).
Proof. exact sum_until_neg_spec. Qed.
Print Assumptions C16_truncation_rule.

(** the decidable checks evaluated on the implementation's output mean what they say, and the
    model's own BOLFI output passes its check for all well-formed inputs *)
Theorem C16_ok_sound :
  forall k chains w i_n arr,
    bolfi_ok k chains w (Some i_n) arr = true ->
    let L := (length (hd [] chains) - w)%nat in
    i_n = (length chains * L)%nat /\ length arr = i_n
    /\ forall r, (r < i_n)%nat ->
         cQ (nth r arr []) = firstn k (nth (w + r mod L) (nth (r / L) chains []) []).
Proof. exact bolfi_ok_sound. Qed.
Print Assumptions C16_ok_sound.

Theorem C16_array_ok_sound :
  forall names o arr,
    array_ok names o arr = true ->
    forall j, (j < length names)%nat ->
      exists col, lookup (nth j names EmptyString) o = Some col /\ length col = length arr
        /\ forall r, (r < length arr)%nat ->
             length (nth r arr []) = length names /\ nth r col 0 = Q2Qc (nth j (nth r arr []) 0%Q).
Proof. exact array_ok_sound. Qed.
Print Assumptions C16_array_ok_sound.

Theorem C16_model_ok :
  forall k (chains : list (list (list Qc))) N w,
    Forall (fun c => length c = N) chains ->
    Forall (Forall (fun row => length row = k)) chains ->
    bolfi_ok k chains w (Some (length (bolfi_rows chains w))) (map (map this) (bolfi_rows chains w)) = true.
Proof. exact bolfi_model_ok. Qed.
Print Assumptions C16_model_ok.

(** Histories on one object.  [weights] and the entries of [samples] are public attributes which
    callers - and the library itself: SMC builds each population unweighted and then assigns
    [sample.weights = w] - set after construction.  For EVERY sequence of such assignments the
    object's array, means and quantiles (every level) are those of a freshly constructed Sample
    holding the current samples and the current weights: the model has no state besides them. *)
Theorem C16_history_fresh :
  forall (names : list string) (outputs : dict) (w0 : option (list Qc)) (o : sobj) (ops : list op),
    NoDup names -> construct names outputs w0 = Some o -> Forall (op_wf names) ops ->
    let o' := run o ops in
    exists f, construct names (so_samples o') (so_weights o') = Some f
              /\ so_samples f = so_samples o' /\ so_weights f = so_weights o'
              /\ so_array f = so_array o' /\ so_means f = so_means o'
              /\ forall alpha, so_quantiles f alpha = so_quantiles o' alpha.
Proof. exact history_fresh. Qed.
Print Assumptions C16_history_fresh.

Theorem C16_history_last_weights :
  forall (o : sobj) (ops : list op) (w : option (list Q)),
    so_weights (run o (ops ++ [OSetW w])) = option_map (map Q2Qc) w
    /\ so_samples (run o (ops ++ [OSetW w])) = so_samples (run o ops).
Proof. exact history_last_weights. Qed.
Print Assumptions C16_history_last_weights.

(** on a fresh object the state-based summaries are the constructor-based ones above *)
Theorem C16_construct_summaries :
  forall names outputs w o,
    construct names outputs w = Some o ->
    so_array o = samples_array names outputs /\ so_means o = sample_means names outputs w
    /\ (forall alpha, so_quantiles o alpha = model_quantiles names outputs w alpha)
    /\ so_n o = n_samples names outputs.
Proof. exact construct_summaries. Qed.
Print Assumptions C16_construct_summaries.

(** and the means are the definition: entry j is (key j, sum w_i x_i / sum w_i) over the j-th stored
    column with the current weights (unit weights when there are none) *)
Theorem C16_means_definition :
  forall (s : dict) (w : option (list Qc)) (ms : list (string * Qc)),
    means_of s w = Some ms ->
    length ms = length s
    /\ forall j k v, nth_error ms j = Some (k, v) ->
         exists col, nth_error s j = Some (k, col)
                     /\ let w' := match w with None => repeat 1 (length col) | Some w => w end in
                        length w' = length col /\ v = wsum w' col / sumq w'
                        /\ (w <> None -> sumq w' <> 0).
Proof. exact means_of_spec. Qed.
Print Assumptions C16_means_definition.

(** Non-vacuity. *)
Definition q (z : Z) : Qc := Q2Qc (inject_Z z).
Definition ex_chains : list (list (list Qc)) :=
  [ [[q 0; q 1]; [q 2; q 3]; [q 4; q 5]]; [[q 10; q 11]; [q 12; q 13]; [q 14; q 15]] ].

Example C16_ex_bolfi :
  Forall (fun c => length c = 3%nat) ex_chains
  /\ map (map this) (bolfi_rows ex_chains 1) = [[2; 3]; [4; 5]; [12; 13]; [14; 15]]%Q.
Proof. split; [repeat constructor | vm_compute; reflexivity]. Qed.

Example C16_ex_sample :
  option_map (map (map this))
    (samples_array ["b"; "a"]%string [("a"%string, [q 1; q 2]); ("d"%string, [q 7; q 8]); ("b"%string, [q 3; q 4])])
  = Some [[3; 1]; [4; 2]]%Q.
Proof. vm_compute. reflexivity. Qed.

Definition ex_diag : list (list Qc) := [[q 1; q 3; q 2; q 5; q 4; q 7]; [q 2; q 2; q 6; q 3; q 9; q 8]].

Example C16_ex_diag :
  Forall (fun c => length c = 6%nat) ex_diag
  /\ this (rhat2 ex_diag) = (806 # 513)%Q
  /\ this (rhat2 (map (map (fun x => q (-3) * x + q 7)) ex_diag)) = (806 # 513)%Q
  /\ this (ess ex_diag) = this (ess (map (map (fun x => q (-3) * x + q 7)) (rev ex_diag)))
  /\ negb (Qeq_bool (this (ess ex_diag)) 12) = true.
Proof. split; [repeat constructor|]. vm_compute. repeat split; reflexivity. Qed.

(** a history: built without weights, weights assigned afterwards (what SMC does), then replaced,
    then a column replaced: every summary follows the current state *)
Definition ex_obj : option sobj :=
  construct ["b"; "a"]%string [("a"%string, [q 1; q 2; q 6]); ("d"%string, [q 7; q 8; q 9]); ("b"%string, [q 3; q 4; q 8])] None.

Example C16_ex_history :
  match ex_obj with
  | None => False
  | Some o =>
      let o1 := run o [OSetW (Some [1; 1; 2]%Q)] in
      let o2 := run o1 [OSetW (Some [4; 0; 0]%Q)] in
      let o3 := run o2 [OSetCol "a"%string [5; 5; 5]%Q; OSetW None] in
      Forall (op_wf ["b"; "a"]%string) [OSetW (Some [1; 1; 2]%Q); OSetW (Some [4; 0; 0]%Q); OSetCol "a"%string [5; 5; 5]%Q; OSetW None]
      /\ option_map (map (fun kv => (fst kv, this (snd kv)))) (so_means o) = Some [("b"%string, 5); ("a"%string, 3)]%Q
      /\ option_map (map (fun kv => (fst kv, this (snd kv)))) (so_means o1) = Some [("b"%string, 23 # 4); ("a"%string, 15 # 4)]%Q
      /\ option_map (map (fun kv => (fst kv, this (snd kv)))) (so_means o2) = Some [("b"%string, 3); ("a"%string, 1)]%Q
      /\ option_map (map (fun kv => (fst kv, this (snd kv)))) (so_means o3) = Some [("b"%string, 5); ("a"%string, 5)]%Q
      /\ option_map (map (fun kv => (fst kv, this (snd kv)))) (so_quantiles o (q 1)) = Some [("b"%string, 8); ("a"%string, 6)]%Q
      /\ option_map (map (fun kv => (fst kv, this (snd kv)))) (so_quantiles o2 (q 1)) = Some [("b"%string, 3); ("a"%string, 1)]%Q
      /\ option_map (map (fun kv => (fst kv, this (snd kv)))) (so_quantiles o1 (Q2Qc (1 # 2))) = Some [("b"%string, 4); ("a"%string, 2)]%Q
  end.
Proof. vm_compute. repeat split; try reflexivity. repeat (apply Forall_cons; [simpl; auto|]). apply Forall_nil. Qed.

(** Link with C13.  [Sample.sample_quantiles] calls [elfi.methods.utils.weighted_sample_quantile];
    the model of that function used above ([Results.quantile], over [Qc]) and the C13 model of the
    same function ([Quantile.wsq], over [Q], Num/Quantile.v) return the same result on the same
    numbers ([this : Qc -> Q]), [None] in the same cases, for ALL samples, levels and weights:
    [Results.quantile] makes the checks of the Python code in the order of the Python code
    (alpha = 0 first, without reading the weights; the lengths; the zero weight sum).
    The definition used before ([Results.quantile_old]: length check first, [w / 0 = 0]) is the
    same function on every well-formed input ([C16_quantile_unchanged_on_wf]), so the values of
    [agree] / [ok] on recorded well-formed inputs are those obtained with it.
    Proofs: Proofs/C16_C13_Link.v, Proofs/C16_Results.v section 9. *)
From Elfi Require Num.Quantile Proofs.C13_Quantile Proofs.C16_C13_Link.

Theorem C16_quantile_is_C13_quantile :
  forall (x : list Qc) (alpha : Qc) (w : option (list Qc)),
    option_map this (quantile x alpha w)
    = Quantile.wsq (map this x) (this alpha) (option_map (map this) w).
Proof. exact C16_C13_Link.quantile_is_wsq. Qed.
Print Assumptions C16_quantile_is_C13_quantile.

(** ... and on any rationals equal to the weights (not only their canonical forms) *)
Theorem C16_quantile_is_C13_quantile_gen :
  forall (x : list Qc) (alpha : Qc) (w : list Qc) (wq : list Q),
    Forall2 (fun a b => (this a == b)%Q) w wq ->
    option_map this (quantile x alpha (Some w)) = Quantile.wsq (map this x) (this alpha) (Some wq).
Proof. exact C16_C13_Link.quantile_wsq_gen. Qed.
Print Assumptions C16_quantile_is_C13_quantile_gen.

(** the statement of [C16_quantile_is_C13_quantile] before [quantile] was aligned (it needed this
    hypothesis then); a special case now *)
Theorem C16_quantile_is_C13_quantile_on_dom :
  forall (x : list Qc) (alpha : Qc) (w : option (list Qc)),
    match w with
    | Some w => length w = length x /\ (sumq w <> 0 \/ alpha = 0)
    | None => True
    end ->
    option_map this (quantile x alpha w)
    = Quantile.wsq (map this x) (this alpha) (option_map (map this) w).
Proof. intros x alpha w _. apply C16_C13_Link.quantile_is_wsq. Qed.
Print Assumptions C16_quantile_is_C13_quantile_on_dom.

(** equal lengths and a non-zero weight sum, or no weights: [quantile] computes exactly what the
    former definition computed ... *)
Theorem C16_quantile_unchanged_on_wf :
  forall (x : list Qc) (alpha : Qc) (w : option (list Qc)),
    match w with Some w => length w = length x /\ sumq w <> 0 | None => True end ->
    quantile x alpha w = quantile_old x alpha w.
Proof. exact C16_Results.quantile_unchanged_on_wf. Qed.
Print Assumptions C16_quantile_unchanged_on_wf.

(** ... and the two differ only where the former definition was not the Python code *)
Theorem C16_quantile_changed_only_off_wf :
  forall (x : list Qc) (alpha : Qc) (w : list Qc),
    quantile x alpha (Some w) <> quantile_old x alpha (Some w) ->
    (alpha = 0 /\ length w <> length x)
    \/ (alpha <> 0 /\ length w = length x /\ sumq w = 0 /\ length x <> 1%nat).
Proof. exact C16_Results.quantile_changed_only_off_wf. Qed.
Print Assumptions C16_quantile_changed_only_off_wf.

(** wrong length and alpha <> 0: both fail *)
Theorem C16_quantile_C13_mismatch :
  forall x alpha w, length w <> length x -> alpha <> 0 ->
    quantile x alpha (Some w) = None
    /\ Quantile.wsq (map this x) (this alpha) (Some (map this w)) = None.
Proof. exact C16_C13_Link.quantile_wsq_mismatch. Qed.
Print Assumptions C16_quantile_C13_mismatch.

(** zero weight sum, alpha <> 0, not exactly one value: both fail (numpy: every normalised weight is nan) *)
Theorem C16_quantile_C13_zero_sum :
  forall x alpha w, sumq w = 0 -> length x <> 1%nat -> alpha <> 0 ->
    quantile x alpha (Some w) = None
    /\ Quantile.wsq (map this x) (this alpha) (Some (map this w)) = None.
Proof. exact C16_C13_Link.quantile_wsq_zero_sum. Qed.
Print Assumptions C16_quantile_C13_zero_sum.

(** regression: the inputs on which the former definition differed from the C13 model (and from the
    Python code): zero-sum weights on two or more samples ([quantile_old]: [w / 0 = 0] in [Qc], the
    largest value; numpy: nan weights, IndexError), and weights of the wrong length with alpha = 0
    ([quantile_old]: length check first; the Python code never looks at the weights then).
    Both models now agree there. *)
Example C16_quantile_C13_agree :
  (option_map this (quantile [q 1; q 2] (Q2Qc (1 # 2)) (Some [q 0; q 0])) = None
   /\ Quantile.wsq [1; 2]%Q (1 # 2)%Q (Some [0; 0]%Q) = None
   /\ option_map this (quantile_old [q 1; q 2] (Q2Qc (1 # 2)) (Some [q 0; q 0])) = Some 2%Q)
  /\ (option_map this (quantile [q 2; q 1] (q 0) (Some [q 1])) = Some 1%Q
      /\ Quantile.wsq [2; 1]%Q 0%Q (Some [1]%Q) = Some 1%Q
      /\ option_map this (quantile_old [q 2; q 1] (q 0) (Some [q 1])) = None).
Proof. vm_compute. repeat split; reflexivity. Qed.

(** C13_quantile_spec, for this model: with non-negative weights of positive sum and alpha in
    [0, 1] the quantile is defined, is an element of the column, the normalised weight of the values
    <= q is at least alpha and that of the values < q at most alpha (less than alpha if alpha > 0;
    q is the minimum if alpha = 0) *)
Theorem C16_quantile_inequalities :
  forall (x w : list Qc), length w = length x -> Forall (fun v => 0 <= v) w -> 0 < sumq w ->
    forall alpha, 0 <= alpha -> alpha <= 1 ->
    exists v, quantile x alpha (Some w) = Some v /\ In v x
              /\ alpha <= wle v x w / sumq w
              /\ wlt v x w / sumq w <= alpha
              /\ (0 < alpha -> wlt v x w / sumq w < alpha)
              /\ (alpha = 0 -> forall y, In y x -> v <= y).
Proof. exact C16_C13_Link.quantile_inequalities. Qed.
Print Assumptions C16_quantile_inequalities.

(** C13_quantile_scale_invariant, for this model *)
Theorem C16_quantile_scale_invariant :
  forall (x w : list Qc), length w = length x -> Forall (fun v => 0 <= v) w -> 0 < sumq w ->
    forall c alpha, 0 < c -> 0 <= alpha -> alpha <= 1 ->
    quantile x alpha (Some (map (Qcmult c) w)) = quantile x alpha (Some w).
Proof. exact C16_C13_Link.quantile_scale_invariant_c. Qed.
Print Assumptions C16_quantile_scale_invariant.

(** the reported quantiles of an object ([so_quantiles o alpha = quantiles_of (so_samples o) (so_weights o) alpha])
    are, column by column, weighted sample quantiles in the C13 sense, and do not depend on the
    scale of the weights.
    The hypothesis for alpha = 0 (columns of the length of the weights) was added when [quantile]
    was aligned with the Python code: without it the statement held only because the former
    definition checked the length of the weights before looking at alpha, so that success implied
    [length w = length col]; the Python code does not read the weights when alpha = 0. *)
Theorem C16_quantiles_inequalities :
  forall (s : dict) (w : list Qc) (alpha : Qc) (qs : list (string * Qc)),
    Forall (fun v => 0 <= v) w -> 0 < sumq w -> 0 <= alpha -> alpha <= 1 ->
    (alpha = 0 -> Forall (fun kv => length (snd kv) = length w) s) ->
    quantiles_of s (Some w) alpha = Some qs ->
    length qs = length s
    /\ forall j k v, nth_error qs j = Some (k, v) ->
         exists col, nth_error s j = Some (k, col) /\ length w = length col /\ In v col
                     /\ alpha <= wle v col w / sumq w
                     /\ wlt v col w / sumq w <= alpha
                     /\ (0 < alpha -> wlt v col w / sumq w < alpha)
                     /\ (alpha = 0 -> forall y, In y col -> v <= y).
Proof. exact C16_C13_Link.quantiles_of_inequalities. Qed.
Print Assumptions C16_quantiles_inequalities.

Theorem C16_quantiles_scale_invariant :
  forall (s : dict) (w : list Qc) (c alpha : Qc),
    Forall (fun kv => length (snd kv) = length w) s ->
    Forall (fun v => 0 <= v) w -> 0 < sumq w -> 0 < c -> 0 <= alpha -> alpha <= 1 ->
    quantiles_of s (Some (map (Qcmult c) w)) alpha = quantiles_of s (Some w) alpha.
Proof. exact C16_C13_Link.quantiles_of_scale_invariant. Qed.
Print Assumptions C16_quantiles_scale_invariant.

(** C13_quantile_tie_independent, for this model.  The C13 theorem says that the value does not
    depend on the order the argsort gives to equal values (every sorting permutation [index]).
    [Results.quantile] has no argsort argument (it sorts by itself), so the theorem transfers in two
    forms: (a) the C13 model run with ANY sorting permutation of the column returns the value of
    [quantile]; (b) the value depends only on the multiset of (value, weight) rows: reordering the
    sample (values and weights together) does not change it. *)
Theorem C16_quantile_tie_independent :
  forall (x w : list Qc), length w = length x -> Forall (fun v => 0 <= v) w -> 0 < sumq w ->
    forall index alpha, C13_Quantile.sorting_perm index (map this x) -> 0 <= alpha -> alpha <= 1 ->
    Quantile.wsq_idx index (map this x) (this alpha) (Some (map this w))
    = option_map this (quantile x alpha (Some w)).
Proof. exact C16_C13_Link.quantile_any_argsort. Qed.
Print Assumptions C16_quantile_tie_independent.

Theorem C16_quantile_permutation_invariant :
  forall (x w x' w' : list Qc) (alpha : Qc),
    length w = length x -> length w' = length x' -> Permutation (combine x w) (combine x' w') ->
    Forall (fun v => 0 <= v) w -> 0 < sumq w -> 0 <= alpha -> alpha <= 1 ->
    quantile x' alpha (Some w') = quantile x alpha (Some w).
Proof. exact C16_C13_Link.quantile_permutation_invariant_c. Qed.
Print Assumptions C16_quantile_permutation_invariant.

(** C13_quantile_monotone, for this model ([weights=None]: unit weights, no hypothesis) *)
Theorem C16_quantile_monotone :
  forall (x : list Qc) (w : option (list Qc)) (a1 a2 q1 q2 : Qc),
    match w with Some w => Forall (fun v => 0 <= v) w /\ 0 < sumq w | None => True end ->
    match w with Some w => length w = length x | None => True end ->
    0 <= a1 -> a1 <= a2 -> a2 <= 1 ->
    quantile x a1 w = Some q1 -> quantile x a2 w = Some q2 -> q1 <= q2.
Proof. exact C16_C13_Link.quantile_monotone_opt. Qed.
Print Assumptions C16_quantile_monotone.

(** the end points.  C13 states them inside its characterisation of the value ([qchar]), not as
    theorems of their own:
    alpha = 0: the smallest stored value - of ALL values, also those of weight zero, and whatever
    the weights are (they are not read: [x[index[0]]]); no hypothesis;
    alpha = 1: the largest value of POSITIVE weight (values of weight zero above it are skipped:
    W(<= q) >= W and W(< q) < W). *)
Theorem C16_quantile_endpoints :
  (forall (x : list Qc) (w : option (list Qc)) (v : Qc),
     quantile x 0 w = Some v -> In v x /\ forall y, In y x -> v <= y)
  /\ (forall (x w : list Qc), length w = length x -> Forall (fun v => 0 <= v) w -> 0 < sumq w ->
      forall v, quantile x 1 (Some w) = Some v ->
        (forall y u, In (y, u) (combine x w) -> 0 < u -> y <= v)
        /\ exists u, In (v, u) (combine x w) /\ 0 < u).
Proof. split; [exact C16_C13_Link.quantile_zero_min | exact C16_C13_Link.quantile_one_max]. Qed.
Print Assumptions C16_quantile_endpoints.

(** the reported quantiles ([sample_quantiles]) are monotone in the level, parameter by parameter
    (for alpha = 0 the weights are not read, so the length of the columns is a hypothesis there) *)
Theorem C16_quantiles_monotone :
  forall (s : dict) (w : option (list Qc)) (a1 a2 : Qc) (lo hi : list (string * Qc)),
    match w with Some w => Forall (fun v => 0 <= v) w /\ 0 < sumq w | None => True end ->
    0 <= a1 -> a1 <= a2 -> a2 <= 1 ->
    (a1 = 0 -> match w with Some w => Forall (fun kv => length (snd kv) = length w) s | None => True end) ->
    quantiles_of s w a1 = Some lo -> quantiles_of s w a2 = Some hi ->
    length lo = length s /\ length hi = length s
    /\ forall j k l k' u, nth_error lo j = Some (k, l) -> nth_error hi j = Some (k', u) -> k = k' /\ l <= u.
Proof. exact C16_C13_Link.quantiles_of_monotone. Qed.
Print Assumptions C16_quantiles_monotone.

(** [sample_means_and_95CIs]: Num/Results.v has no function of its own for it; its interval ends are
    the entries of [sample_quantiles(alpha=0.025)] and [sample_quantiles(alpha=0.975)] (recorded as
    two [ob_quant] queries).  With non-negative weights of positive sum (or none) the lower end of
    every parameter's interval is at most the upper end. *)
Theorem C16_ci_ordered :
  forall (s : dict) (w : option (list Qc)) (lo hi : list (string * Qc)),
    match w with Some w => Forall (fun v => 0 <= v) w /\ 0 < sumq w | None => True end ->
    quantiles_of s w (Q2Qc (25 # 1000)) = Some lo -> quantiles_of s w (Q2Qc (975 # 1000)) = Some hi ->
    length lo = length s /\ length hi = length s
    /\ forall j k l k' u, nth_error lo j = Some (k, l) -> nth_error hi j = Some (k', u) -> k = k' /\ l <= u.
Proof. exact C16_C13_Link.ci_ordered. Qed.
Print Assumptions C16_ci_ordered.

(** reordering the sample (one permutation applied to every column and to the weights) does not
    change the reported quantiles *)
Theorem C16_quantiles_permutation_invariant :
  forall (s s' : dict) (w w' : list Qc) (alpha : Qc),
    Forall2 (fun kv kv' => fst kv = fst kv' /\ length (snd kv) = length w /\ length (snd kv') = length w'
                           /\ Permutation (combine (snd kv) w) (combine (snd kv') w')) s s' ->
    Forall (fun v => 0 <= v) w -> 0 < sumq w -> 0 <= alpha -> alpha <= 1 ->
    quantiles_of s' (Some w') alpha = quantiles_of s (Some w) alpha.
Proof. exact C16_C13_Link.quantiles_of_permutation_invariant. Qed.
Print Assumptions C16_quantiles_permutation_invariant.

(** non-vacuity: a column with a tie and a zero weight on its largest value, in two orders; the end
    points; the interval ends *)
Example C16_ex_quantile_order :
  let x := [q 3; q 1; q 2; q 2; q 9] in let w := [q 1; q 1; q 0; q 2; q 0] in
  let x' := rev x in let w' := rev w in
  Permutation (combine x w) (combine x' w')
  /\ map (fun a => option_map this (quantile x (Q2Qc a) (Some w))) [0; 25 # 1000; 1 # 2; 975 # 1000; 1]%Q
     = [Some 1; Some 1; Some 2; Some 3; Some 3]%Q
  /\ map (fun a => option_map this (quantile x' (Q2Qc a) (Some w'))) [0; 25 # 1000; 1 # 2; 975 # 1000; 1]%Q
     = [Some 1; Some 1; Some 2; Some 3; Some 3]%Q.
Proof.
  intros x w x' w'. split; [|vm_compute; split; reflexivity].
  change (Permutation (combine x w) (rev (combine x w))). apply Permutation_rev.
Qed.

(** non-vacuity: one weighted column, both models, the inequalities at the value returned *)
Example C16_ex_quantile_link :
  let x := [q 3; q 1; q 2] in let w := [q 1; q 2; q 1] in let a := Q2Qc (3 # 5) in
  option_map this (quantile x a (Some w)) = Some 2%Q
  /\ Quantile.wsq (map this x) (this a) (Some (map this w)) = Some 2%Q
  /\ this (wle (q 2) x w / sumq w) = (3 # 4)%Q /\ this (wlt (q 2) x w / sumq w) = (1 # 2)%Q
  /\ quantile x a (Some (map (Qcmult (q 7)) w)) = quantile x a (Some w).
Proof. vm_compute. repeat split; reflexivity. Qed.

(** the weighted mean of this model is the weighted mean inside the C13 variance
    ([xbar = average(x, weights=w)] of [Quantile.wvar_core]):  sum x_i w_i / sum w_i  on the same numbers *)
Theorem C16_mean_is_C13_mean :
  forall (x w : list Qc) (m : Qc),
    average (Some w) x = Some m ->
    let xw := combine (map this x) (map this w) in
    length w = length x /\ ~ (Quantile.wtot xw == 0)%Q
    /\ (this m == Quantile.qsum (map (fun p => fst p * snd p) xw) / Quantile.wtot xw)%Q.
Proof. exact C16_C13_Link.average_is_wvar_xbar. Qed.
Print Assumptions C16_mean_is_C13_mean.

(** ---- Sample.save('x.csv'): the table layout round-trips ----
    header = samples.keys(), data rows = itertools.zip_longest of the columns (fill value '' = [None]);
    reading column j back as the non-fill cells at position j returns exactly the stored column, for every
    number of parameters and samples (ragged columns included); the file has max-length data rows, each as
    wide as the header; a rectangular sample (the Sample invariant) writes no fill cell. *)
Theorem C16_csv_roundtrip :
  forall (A : Type) (cols : list (list A)),
    C16_Csv.read_columns (length cols) (C16_Csv.zip_longest cols) = cols.
Proof. exact (@C16_Csv.csv_roundtrip). Qed.
Print Assumptions C16_csv_roundtrip.

Theorem C16_csv_shape :
  forall (A : Type) (cols : list (list A)),
    length (C16_Csv.zip_longest cols) = list_max (map (@length A) cols)
    /\ forall row, In row (C16_Csv.zip_longest cols) -> length row = length cols.
Proof. exact (@C16_Csv.csv_shape). Qed.
Print Assumptions C16_csv_shape.

Theorem C16_csv_rectangular_no_fill :
  forall (A : Type) (cols : list (list A)) (n : nat),
    Forall (fun c => length c = n) cols ->
    forall row, In row (C16_Csv.zip_longest cols) -> ~ In None row.
Proof. exact (@C16_Csv.csv_rectangular_no_fill). Qed.
Print Assumptions C16_csv_rectangular_no_fill.

Example C16_csv_rectangular_no_fill_nonvacuous :
  Forall (fun c => length c = 2%nat) [[1; 2]; [3; 4]; [5; 6]]%nat
  /\ C16_Csv.zip_longest [[1; 2]; [3; 4]; [5; 6]]%nat = [[Some 1; Some 3; Some 5]; [Some 2; Some 4; Some 6]]%nat.
Proof. split; [repeat constructor | reflexivity]. Qed.

(** ---- non-vacuity of the hypotheses (audit) ---- *)
From Coq Require Import Sorted.
Ltac c16_qc := vm_compute; first [reflexivity | discriminate | (let H := fresh in intro H; discriminate H)].
Ltac c16_all := repeat first [apply Forall_nil | apply Forall_cons | apply SSorted_nil | apply SSorted_cons | c16_qc].

Definition nv_x : list Qc := [q 3; q 1; q 2; q 2; q 9].
Definition nv_w : list Qc := [q 1; q 1; q 0; q 2; q 0].
Definition nv_s : dict := [("a"%string, nv_x); ("b"%string, [q 5; q 4; q 4; q 7; q 0])].
Definition nv_s' : dict := [("a"%string, rev nv_x); ("b"%string, rev [q 5; q 4; q 4; q 7; q 0])].
Definition nv_names : list string := ["b"; "a"]%string.
Definition nv_outputs : dict :=
  [("a"%string, [q 1; q 2; q 6]); ("d"%string, [q 7; q 8; q 9]); ("b"%string, [q 3; q 4; q 8])].
Definition nv_ops : list op :=
  [OSetW (Some [1; 1; 2]%Q); OSetW (Some [4; 0; 0]%Q); OSetCol "a"%string [5; 5; 5]%Q; OSetW None].

(** the common hypotheses on a weighted column: lengths, non-negative weights (one of them zero,
    on the largest value), positive sum, a level inside (0, 1), a positive scale *)
Example C16_weighted_column_nonvacuous :
  length nv_w = length nv_x /\ Forall (fun v => 0 <= v) nv_w /\ 0 < sumq nv_w
  /\ 0 <= Q2Qc (3 # 5) /\ Q2Qc (3 # 5) <= 1 /\ 0 < q 7 /\ q 7 <> 0 /\ Q2Qc (3 # 5) <> 0
  /\ Forall (fun kv : string * list Qc => length (snd kv) = length nv_w) nv_s.
Proof. repeat split; c16_all. Qed.

Example C16_samples_array_column_nonvacuous :
  NoDup nv_names
  /\ option_map (map (map this)) (samples_array nv_names nv_outputs) = Some [[3; 1]; [4; 2]; [8; 6]]%Q
  /\ (1 < length nv_names)%nat.
Proof.
  split; [|split; [vm_compute; reflexivity | vm_compute; auto]].
  repeat constructor; simpl; intuition discriminate.
Qed.

(** BOLFI: equal chain lengths, warm-up below the length, a row index in the second chain, rows of
    k = 2 entries; the model's output passes [bolfi_ok] (hypothesis of [C16_ok_sound]) *)
Example C16_bolfi_row_nonvacuous :
  Forall (fun c => length c = 3%nat) ex_chains /\ (1 < 3)%nat /\ (3 < length ex_chains * (3 - 1))%nat
  /\ map this (nth 3 (bolfi_rows ex_chains 1) []) = [14; 15]%Q.
Proof. split; [repeat constructor|]. vm_compute. repeat split; auto. Qed.

Example C16_bolfi_row_instance :
  nth 3 (bolfi_rows ex_chains 1) [] = nth (1 + 3 mod (3 - 1)) (nth (3 / (3 - 1)) ex_chains []) [].
Proof.
  apply C16_bolfi_row; [exact (proj1 C16_bolfi_row_nonvacuous) | auto | vm_compute; auto].
Qed.

Example C16_model_ok_nonvacuous :
  Forall (fun c => length c = 3%nat) ex_chains
  /\ Forall (Forall (fun row : list Qc => length row = 2%nat)) ex_chains.
Proof. split; repeat constructor. Qed.

Example C16_ok_sound_nonvacuous :
  bolfi_ok 2 ex_chains 1 (Some 4%nat) [[2; 3]; [4; 5]; [12; 13]; [14; 15]]%Q = true
  /\ bolfi_ok 2 ex_chains 1 (Some 4%nat) [[2; 3]; [4; 5]; [12; 13]; [14; 16]]%Q = false.
Proof. split; vm_compute; reflexivity. Qed.

Example C16_array_ok_sound_nonvacuous :
  array_ok nv_names nv_outputs [[3; 1]; [4; 2]; [8; 6]]%Q = true
  /\ array_ok nv_names nv_outputs [[1; 3]; [2; 4]; [6; 8]]%Q = false
  /\ (1 < length nv_names)%nat.
Proof. repeat split; vm_compute; auto. Qed.

(** diagnostics: a <> 0, chains of equal length N = 6 >= 2 (so non-empty), a reordering of the chains *)
Example C16_diag_nonvacuous :
  q (-3) <> 0 /\ (2 <= 6)%nat /\ Forall (fun c => length c = 6%nat) ex_diag
  /\ Forall (fun c : list Qc => c <> []) ex_diag
  /\ Permutation ex_diag (rev ex_diag) /\ rev ex_diag <> ex_diag.
Proof.
  split; [c16_qc|]. split; [auto|]. split; [repeat constructor|].
  split; [repeat constructor; discriminate|]. split; [apply Permutation_rev|].
  intro H. apply (f_equal (fun l => map (map this) l)) in H. vm_compute in H. discriminate H.
Qed.

Example C16_rhat_permutation_instance : forall sqrt, rhat sqrt ex_diag = rhat sqrt (rev ex_diag).
Proof.
  intro sqrt. apply (C16_rhat_permutation sqrt ex_diag (rev ex_diag) 6).
  - apply Permutation_rev.
  - repeat constructor.
Qed.

(** histories *)
Example C16_history_fresh_nonvacuous :
  NoDup nv_names
  /\ (exists o, construct nv_names nv_outputs None = Some o)
  /\ Forall (op_wf nv_names) nv_ops.
Proof.
  split; [exact (proj1 C16_samples_array_column_nonvacuous)|]. split.
  - eexists. vm_compute. reflexivity.
  - vm_compute. repeat (apply Forall_cons; [simpl; auto|]). apply Forall_nil.
Qed.

(** weighted means of two columns (hypothesis of [C16_means_definition], [C16_mean_is_C13_mean]) *)
Example C16_means_definition_nonvacuous :
  option_map (map (fun kv => (fst kv, this (snd kv)))) (means_of nv_s (Some nv_w))
  = Some [("a"%string, 2); ("b"%string, 23 # 4)]%Q
  /\ option_map this (average (Some nv_w) nv_x) = Some 2%Q
  /\ exists m, average (Some nv_w) nv_x = Some m.
Proof. split; [vm_compute; reflexivity|]. split; [vm_compute; reflexivity|]. eexists. vm_compute. reflexivity. Qed.

(** quantiles: the C13 link on rationals that are not in canonical form *)
Example C16_quantile_is_C13_quantile_gen_nonvacuous :
  Forall2 (fun a b => (this a == b)%Q) nv_w [2 # 2; 3 # 3; 0 # 5; 4 # 2; 0]%Q
  /\ map this nv_w <> [2 # 2; 3 # 3; 0 # 5; 4 # 2; 0]%Q.
Proof. split; [repeat constructor|vm_compute; discriminate]. Qed.

(** the domain hypotheses of [C16_quantile_is_C13_quantile_on_dom] / [C16_quantile_unchanged_on_wf] *)
Example C16_quantile_wf_nonvacuous :
  length nv_w = length nv_x /\ sumq nv_w <> 0 /\ (sumq nv_w <> 0 \/ Q2Qc (3 # 5) = 0).
Proof. split; [reflexivity|]. split; [c16_qc | left; c16_qc]. Qed.

(** off the domain: the two cases of [C16_quantile_changed_only_off_wf], and the hypotheses of
    [C16_quantile_C13_mismatch] and [C16_quantile_C13_zero_sum] *)
Example C16_quantile_off_wf_nonvacuous :
  quantile [q 1; q 2] (Q2Qc (1 # 2)) (Some [q 0; q 0]) <> quantile_old [q 1; q 2] (Q2Qc (1 # 2)) (Some [q 0; q 0])
  /\ quantile [q 2; q 1] (q 0) (Some [q 1]) <> quantile_old [q 2; q 1] (q 0) (Some [q 1])
  /\ (sumq [q 0; q 0] = 0 /\ length [q 1; q 2] <> 1%nat /\ Q2Qc (1 # 2) <> 0)
  /\ (length [q 1] <> length [q 2; q 1] /\ Q2Qc (1 # 2) <> 0).
Proof.
  split; [vm_compute; discriminate|]. split; [vm_compute; discriminate|].
  split; [split; [apply Qc_is_canon; vm_compute; reflexivity | split; [simpl; discriminate | c16_qc]]|].
  split; [simpl; discriminate | c16_qc].
Qed.

(** an argsort of the column that puts the tied values 2, 2 (positions 2 and 3) in the order the
    stable sort does not: still a sorting permutation *)
Example C16_quantile_tie_independent_nonvacuous :
  C13_Quantile.sorting_perm [1; 3; 2; 0; 4]%nat (map this nv_x)
  /\ C13_Quantile.sorting_perm [1; 2; 3; 0; 4]%nat (map this nv_x)
  /\ Quantile.wsq_idx [1; 3; 2; 0; 4]%nat (map this nv_x) (3 # 5)%Q (Some (map this nv_w)) = Some 2%Q.
Proof.
  split; [|split; [|vm_compute; reflexivity]].
  - split.
    + change (Permutation [1; 3; 2; 0; 4]%nat [0; 1; 2; 3; 4]%nat).
      apply (Permutation_cons_app [0]%nat [2; 3; 4]%nat). simpl.
      apply (Permutation_cons_app [0; 2]%nat [4]%nat). simpl.
      apply (Permutation_cons_app [0]%nat [4]%nat). apply Permutation_refl.
    + c16_all.
  - split.
    + change (Permutation [1; 2; 3; 0; 4]%nat [0; 1; 2; 3; 4]%nat).
      apply (Permutation_cons_app [0]%nat [2; 3; 4]%nat). simpl.
      apply (Permutation_cons_app [0]%nat [3; 4]%nat). simpl.
      apply (Permutation_cons_app [0]%nat [4]%nat). apply Permutation_refl.
    + c16_all.
Qed.

Example C16_quantile_tie_independent_instance :
  Quantile.wsq_idx [1; 3; 2; 0; 4]%nat (map this nv_x) (this (Q2Qc (3 # 5))) (Some (map this nv_w))
  = option_map this (quantile nv_x (Q2Qc (3 # 5)) (Some nv_w)).
Proof.
  destruct C16_weighted_column_nonvacuous as (H1 & H2 & H3 & H4 & H5 & _).
  exact (C16_quantile_tie_independent nv_x nv_w H1 H2 H3 _ _ (proj1 C16_quantile_tie_independent_nonvacuous) H4 H5).
Qed.

(** the sample in another order (values and weights together) *)
Example C16_quantile_permutation_invariant_nonvacuous :
  length nv_w = length nv_x /\ length (rev nv_w) = length (rev nv_x)
  /\ Permutation (combine nv_x nv_w) (combine (rev nv_x) (rev nv_w))
  /\ rev nv_x <> nv_x.
Proof.
  split; [reflexivity|]. split; [reflexivity|]. split; [exact (Permutation_rev (combine nv_x nv_w))|].
  intro H. apply (f_equal (map this)) in H. vm_compute in H. discriminate H.
Qed.

(** two levels, with weights and without: the hypotheses of [C16_quantile_monotone],
    [C16_quantile_endpoints], [C16_quantiles_monotone], [C16_ci_ordered], [C16_quantiles_inequalities],
    [C16_quantiles_scale_invariant] (with [C16_weighted_column_nonvacuous]) *)
Example C16_quantile_monotone_nonvacuous :
  (Forall (fun v => 0 <= v) nv_w /\ 0 < sumq nv_w) /\ length nv_w = length nv_x
  /\ 0 <= Q2Qc (1 # 4) /\ Q2Qc (1 # 4) <= Q2Qc (3 # 5) /\ Q2Qc (3 # 5) <= 1
  /\ (exists q1 q2, quantile nv_x (Q2Qc (1 # 4)) (Some nv_w) = Some q1 /\ quantile nv_x (Q2Qc (3 # 5)) (Some nv_w) = Some q2
                    /\ this q1 = 1%Q /\ this q2 = 2%Q)
  /\ (exists q1 q2, quantile nv_x (Q2Qc (1 # 4)) None = Some q1 /\ quantile nv_x (Q2Qc (3 # 5)) None = Some q2)
  /\ (exists v0 v1, quantile nv_x 0 (Some nv_w) = Some v0 /\ quantile nv_x 1 (Some nv_w) = Some v1
                    /\ this v0 = 1%Q /\ this v1 = 3%Q).
Proof.
  split; [split; c16_all|]. split; [reflexivity|]. split; [c16_qc|]. split; [c16_qc|]. split; [c16_qc|].
  split; [do 2 eexists; vm_compute; repeat split; reflexivity|].
  split; do 2 eexists; vm_compute; repeat split; reflexivity.
Qed.

Example C16_quantiles_nonvacuous :
  let sh := option_map (map (fun kv : string * Qc => (fst kv, this (snd kv)))) in
  Forall (fun kv : string * list Qc => length (snd kv) = length nv_w) nv_s
  /\ sh (quantiles_of nv_s (Some nv_w) 0) = Some [("a"%string, 1); ("b"%string, 0)]%Q
  /\ sh (quantiles_of nv_s (Some nv_w) (Q2Qc (25 # 1000))) = Some [("a"%string, 1); ("b"%string, 4)]%Q
  /\ sh (quantiles_of nv_s (Some nv_w) (Q2Qc (3 # 5))) = Some [("a"%string, 2); ("b"%string, 7)]%Q
  /\ sh (quantiles_of nv_s (Some nv_w) (Q2Qc (975 # 1000))) = Some [("a"%string, 3); ("b"%string, 7)]%Q
  /\ sh (quantiles_of nv_s None (Q2Qc (25 # 1000))) = Some [("a"%string, 1); ("b"%string, 0)]%Q
  /\ sh (quantiles_of nv_s None (Q2Qc (975 # 1000))) = Some [("a"%string, 9); ("b"%string, 7)]%Q
  /\ (exists lo hi, quantiles_of nv_s (Some nv_w) 0 = Some lo /\ quantiles_of nv_s (Some nv_w) (Q2Qc (3 # 5)) = Some hi)
  /\ (exists lo hi, quantiles_of nv_s (Some nv_w) (Q2Qc (25 # 1000)) = Some lo
                    /\ quantiles_of nv_s (Some nv_w) (Q2Qc (975 # 1000)) = Some hi).
Proof.
  intro sh. split; [repeat constructor|]. vm_compute.
  repeat (split; [reflexivity|]). split; do 2 eexists; split; reflexivity.
Qed.

Example C16_ci_ordered_instance :
  forall lo hi,
    quantiles_of nv_s (Some nv_w) (Q2Qc (25 # 1000)) = Some lo -> quantiles_of nv_s (Some nv_w) (Q2Qc (975 # 1000)) = Some hi ->
    length lo = length nv_s /\ length hi = length nv_s
    /\ forall j k l k' u, nth_error lo j = Some (k, l) -> nth_error hi j = Some (k', u) -> k = k' /\ l <= u.
Proof.
  intros lo hi. apply (C16_ci_ordered nv_s (Some nv_w) lo hi).
  exact (conj (proj1 (proj2 C16_weighted_column_nonvacuous)) (proj1 (proj2 (proj2 C16_weighted_column_nonvacuous)))).
Qed.

(** every column and the weights reordered by the same permutation *)
Example C16_quantiles_permutation_invariant_nonvacuous :
  Forall2 (fun kv kv' : string * list Qc =>
             fst kv = fst kv' /\ length (snd kv) = length nv_w /\ length (snd kv') = length (rev nv_w)
             /\ Permutation (combine (snd kv) nv_w) (combine (snd kv') (rev nv_w))) nv_s nv_s'.
Proof.
  repeat (apply Forall2_cons; [split; [reflexivity|]; split; [reflexivity|]; split; [reflexivity|]|]).
  - exact (Permutation_rev (combine nv_x nv_w)).
  - exact (Permutation_rev (combine [q 5; q 4; q 4; q 7; q 0] nv_w)).
  - apply Forall2_nil.
Qed.

Example C16_quantiles_permutation_invariant_instance :
  quantiles_of nv_s' (Some (rev nv_w)) (Q2Qc (3 # 5)) = quantiles_of nv_s (Some nv_w) (Q2Qc (3 # 5)).
Proof.
  destruct C16_weighted_column_nonvacuous as (_ & H2 & H3 & H4 & H5 & _).
  exact (C16_quantiles_permutation_invariant _ _ _ _ _ C16_quantiles_permutation_invariant_nonvacuous H2 H3 H4 H5).
Qed.

Example C16_history_fresh_instance :
  forall o, construct nv_names nv_outputs None = Some o ->
    exists f, construct nv_names (so_samples (run o nv_ops)) (so_weights (run o nv_ops)) = Some f
              /\ so_means f = so_means (run o nv_ops).
Proof.
  intros o Ho.
  destruct (C16_history_fresh nv_names nv_outputs None o nv_ops (proj1 C16_history_fresh_nonvacuous) Ho
              (proj2 (proj2 C16_history_fresh_nonvacuous))) as (f & Hf & _ & _ & _ & Hm & _).
  exists f. split; assumption.
Qed.

Example C16_quantiles_inequalities_instance :
  forall qs, quantiles_of nv_s (Some nv_w) 0 = Some qs ->
    length qs = length nv_s
    /\ forall j k v, nth_error qs j = Some (k, v) ->
         exists col, nth_error nv_s j = Some (k, col) /\ length nv_w = length col /\ In v col
                     /\ (forall y, In y col -> v <= y).
Proof.
  intros qs Hq.
  destruct C16_weighted_column_nonvacuous as (_ & H2 & H3 & _ & _ & _ & _ & _ & H9).
  destruct (C16_quantiles_inequalities nv_s nv_w 0 qs H2 H3) as (Hl & Hj); try assumption; try c16_qc.
  - intros _. exact H9.
  - split; [exact Hl|]. intros j k v Hn. destruct (Hj j k v Hn) as (col & A & B & C & _ & _ & _ & D).
    exists col. repeat split; try assumption. apply D. reflexivity.
Qed.
