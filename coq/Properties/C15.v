(** C15 — batch sub-seeds are distinct and depend only on (seed, index).
    Model: Num/Seed.v ([get_sub_seed] over the recorded stream of [RandomState(seed).randint]).
    This file only states the property theorems; proofs are in Proofs/C15_Seed.v. *)
From Coq Require Import List NArith Arith Bool.
From Elfi Require Import Num.Seed Proofs.C15_Seed.
Import ListNotations.

(** Every answer in every request history sharing one cache (or using none) is the [idx]-th value
    of the stream in first-appearance order: independent of cache content and of earlier requests;
    an index is rejected exactly when it is [>= high]. *)
Theorem C15_history_independent :
  forall fuel s high reqs,
    Forall2 (fun rq r => good s high (fst rq) r) reqs (run_history fuel s high None reqs).
Proof. intros. apply history_independent. exact I. Qed.
Print Assumptions C15_history_independent.

(** Two different indices never receive the same derived seed. *)
Theorem C15_injective : forall s i j v, spec s i = Some v -> spec s j = Some v -> i = j.
Proof. exact spec_injective. Qed.
Print Assumptions C15_injective.

(** Every derived seed lies in [0, high) when the generator's draws do. *)
Theorem C15_in_range :
  forall s high i v, Forall (fun x => (x < high)%N) s -> spec s i = Some v -> (v < high)%N.
Proof. exact spec_in_range. Qed.
Print Assumptions C15_in_range.

(** Non-vacuity / liveness: with enough distinct values in the stream the model answers. *)
Theorem C15_live :
  forall s high idx c, InvC s c -> (N.of_nat idx < high)%N -> idx < length (dedup s) ->
    exists v c', get_sub_seed (S (length s)) s high idx c = Answer v c'.
Proof. exact get_sub_seed_live. Qed.
Print Assumptions C15_live.

(** The decidable predicate evaluated on the implementation's answers is sound for the
    property, and the model itself satisfies it. *)
Theorem C15_ok_sound :
  forall s high reqs i, ok_answers s high reqs i = true ->
    Forall2 (fun (rq : nat * bool) o => answer_ok s high (fst rq) o) reqs i.
Proof. exact ok_answers_sound. Qed.
Print Assumptions C15_ok_sound.

Theorem C15_model_ok :
  forall fuel s high, Forall (fun x => (x < high)%N) s ->
  forall reqs c, InvC s c ->
    Forall (fun r => r <> Exhausted) (run_history fuel s high c reqs) ->
    ok_answers s high reqs (map view_of (run_history fuel s high c reqs)) = true.
Proof. exact model_ok_answers. Qed.
Print Assumptions C15_model_ok.

(** First-appearance characterisation (what the harness's numpy reference evaluates for indices and ranges
    too large for a Coq literal): the value at the raw position [p] of a first appearance is the sub seed of the
    index "number of distinct values among the first [p] draws". *)
Theorem C15_first_appearance :
  forall s p v, nth_error s p = Some v -> ~ In v (firstn p s) -> spec s (length (dedup (firstn p s))) = Some v.
Proof. exact spec_first_appearance. Qed.
Print Assumptions C15_first_appearance.

(** On a duplicate-free prefix of the draw stream the sub seed of index [i] is the raw draw [i] ... *)
Theorem C15_nodup_prefix : forall s i, NoDup (firstn (S i) s) -> spec s i = nth_error s i.
Proof. exact spec_nodup_prefix. Qed.
Print Assumptions C15_nodup_prefix.

(** ... and at the first repeated raw draw [d] the raw draw is NOT the sub seed of index [d]: handing out raw
    draws aliases two indices exactly there, for every range (2**31 included). *)
Theorem C15_raw_draw_wrong_at_collision :
  forall s d x, NoDup (firstn d s) -> nth_error s d = Some x -> In x (firstn d s) -> spec s d <> Some x.
Proof. exact raw_draw_wrong_at_collision. Qed.
Print Assumptions C15_raw_draw_wrong_at_collision.

(** The reference answers accepted by the correspondence ([ref_ok], part of [agree]) are the [spec] values. *)
Theorem C15_ref_ok_sound :
  forall s high reqs r, ref_ok s high reqs r = true ->
    Forall2 (fun (rq : nat * bool) o => match o with
                                        | None => (high <= N.of_nat (fst rq))%N
                                        | Some v => (N.of_nat (fst rq) < high)%N /\ spec s (fst rq) = Some v
                                        end) reqs r.
Proof. exact ref_ok_sound. Qed.
Print Assumptions C15_ref_ok_sound.

(** Non-vacuity of the collision theorem: draw 3 repeats draw 1; index 3 gets the next fresh value. *)
Example C15_collision_example :
  let s := [5;7;2;7;9]%N in
  NoDup (firstn 3 s) /\ nth_error s 3 = Some 7%N /\ In 7%N (firstn 3 s) /\ spec s 3 = Some 9%N /\ spec s 1 = Some 7%N.
Proof. vm_compute. repeat split; try reflexivity; [repeat constructor; simpl; intuition discriminate | right; left; reflexivity]. Qed.

(** Non-vacuity: a stream with forced collisions, a jumping/decreasing/repeated history. *)
Example C15_example :
  map view_of (run_history 20 [3;3;1;3;0;1;2;2]%N 4%N None [(2,true);(0,true);(3,true);(3,false);(1,true);(4,true)])
  = [Some 0; Some 3; Some 2; Some 2; Some 1; None]%N.
Proof. vm_compute. reflexivity. Qed.

(** ---- non-vacuity of the hypotheses (audit) ---- *)
(** the stream of [C15_example] (forced collisions, first-appearance order [3;1;0;2]), range 4, and a
    NON-EMPTY cache that has consumed three draws: hypotheses of [C15_in_range], [C15_live],
    [C15_model_ok], [C15_ok_sound], [C15_ref_ok_sound], [C15_injective] *)
Definition C15_nv_s : list N := [3; 3; 1; 3; 0; 1; 2; 2]%N.
Definition C15_nv_reqs : list (nat * bool) := [(2, true); (0, true); (3, true); (3, false); (1, true); (4, true)].
Definition C15_nv_cache : cache := Some (3, [3; 1]%N).

Example C15_hyps_nonvacuous :
  Forall (fun x => (x < 4)%N) C15_nv_s /\ InvC C15_nv_s C15_nv_cache
  /\ (N.of_nat 3 < 4)%N /\ 3 < length (dedup C15_nv_s)
  /\ spec C15_nv_s 3 = Some 2%N /\ spec C15_nv_s 1 = Some 1%N
  /\ Forall (fun r => r <> Exhausted) (run_history 20 C15_nv_s 4%N C15_nv_cache C15_nv_reqs)
  /\ map view_of (run_history 20 C15_nv_s 4%N C15_nv_cache C15_nv_reqs) = [Some 0; Some 3; Some 2; Some 2; Some 1; None]%N
  /\ ok_answers C15_nv_s 4%N C15_nv_reqs [Some 0; Some 3; Some 2; Some 2; Some 1; None]%N = true
  /\ ref_ok C15_nv_s 4%N C15_nv_reqs [Some 0; Some 3; Some 2; Some 2; Some 1; None]%N = true
  /\ ok_answers C15_nv_s 4%N C15_nv_reqs [Some 0; Some 3; Some 3; Some 2; Some 1; None]%N = false.
Proof.
  split; [repeat (apply Forall_cons; [reflexivity|]); apply Forall_nil|].
  split; [split; [reflexivity | simpl; repeat constructor]|].
  split; [reflexivity|].
  split; [vm_compute; repeat constructor|].
  split; [reflexivity|]. split; [reflexivity|].
  split; [vm_compute; repeat (apply Forall_cons; [intro HH; discriminate HH|]); apply Forall_nil|].
  repeat split; vm_compute; reflexivity.
Qed.

Example C15_live_nonvacuous :
  exists v c', get_sub_seed (S (length C15_nv_s)) C15_nv_s 4%N 3 C15_nv_cache = Answer v c'.
Proof.
  destruct C15_hyps_nonvacuous as (_ & H1 & H2 & H3 & _).
  exact (C15_live _ _ _ _ H1 H2 H3).
Qed.

Example C15_model_ok_nonvacuous :
  ok_answers C15_nv_s 4%N C15_nv_reqs (map view_of (run_history 20 C15_nv_s 4%N C15_nv_cache C15_nv_reqs)) = true.
Proof.
  destruct C15_hyps_nonvacuous as (H0 & H1 & _ & _ & _ & _ & H2 & _).
  exact (C15_model_ok 20 _ _ H0 _ _ H1 H2).
Qed.

(** [C15_first_appearance] at a position after a repeated draw (p = 4: the 4th draw is the 3rd distinct value),
    [C15_nodup_prefix] on the duplicate-free prefix of length 3 *)
Example C15_first_appearance_nonvacuous :
  let s := [5; 7; 2; 7; 9]%N in
  nth_error s 4 = Some 9%N /\ ~ In 9%N (firstn 4 s) /\ length (dedup (firstn 4 s)) = 3 /\ spec s 3 = Some 9%N
  /\ NoDup (firstn (S 2) s) /\ spec s 2 = nth_error s 2.
Proof.
  cbv zeta. split; [reflexivity|]. split; [simpl; intuition discriminate|].
  split; [reflexivity|]. split; [reflexivity|].
  split; [simpl; repeat constructor; simpl; intuition discriminate | reflexivity].
Qed.
