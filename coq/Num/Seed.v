(** Model of [elfi.utils.get_sub_seed] (C15).

    The generator [RandomState(seed).randint(high, size=..., dtype='uint32')] is modelled by the
    finite prefix [s : list N] of the stream it yields (successive [randint] calls continue the
    same stream).  The cache is [(pos, seen)]: how many stream items the cached generator has
    consumed, and the set of values seen, kept in first-appearance order.                      *)
From Coq Require Import List NArith Arith Bool.
Import ListNotations.

Definition mem (x : N) (l : list N) : bool := existsb (N.eqb x) l.

(** [seen.update([x])] *)
Definition add (seen : list N) (x : N) : list N := if mem x seen then seen else seen ++ [x].

Definition update (seen draws : list N) : list N := fold_left add draws seen.

Definition cache := option (nat * list N).

Inductive result :=
| Rejected                             (* ValueError: index out of range *)
| Exhausted                            (* the recorded stream prefix / the fuel was too short *)
| Answer (v : N) (c : nat * list N).   (* returned sub seed and the new cache content *)

Definition last_opt (l : list N) : option N :=
  match l with [] => None | _ => Some (List.last l 0%N) end.

(** the [while n_unique != n_unique_required] loop; [last] is [sub_seeds[-1]] of the latest draw *)
Fixpoint loop (fuel : nat) (s : list N) (pos : nat) (seen : list N) (need : nat) (last : option N)
  : option (nat * list N * option N) :=
  if length seen =? need then Some (pos, seen, last) else
  match fuel with
  | O => None
  | S f =>
      let n := need - length seen in
      let draws := firstn n (skipn pos s) in
      if length draws <? n then None else
      loop f s (pos + n) (update seen draws) need (last_opt draws)
  end.

(** [get_sub_seed seed idx high cache] on the stream [s] of [(seed, high)] *)
Definition get_sub_seed (fuel : nat) (s : list N) (high : N) (idx : nat) (c : cache) : result :=
  if (high <=? N.of_nat idx)%N then Rejected else
  let '(pos, seen) :=
    match c with
    | Some (p, sn) => if length sn <? idx + 1 then (p, sn) else (0, [])
    | None => (0, [])
    end in
  match loop fuel s pos seen (idx + 1) None with
  | Some (pos', seen', Some v) => Answer v (pos', seen')
  | _ => Exhausted
  end.

(** A history of requests sharing one cache ([use_cache = false] models [cache=None]). *)
Fixpoint run_history (fuel : nat) (s : list N) (high : N) (c : cache) (reqs : list (nat * bool))
  : list result :=
  match reqs with
  | [] => []
  | (idx, use_cache) :: r =>
      if use_cache then
        let res := get_sub_seed fuel s high idx c in
        let c' := match res with Answer _ c1 => Some c1 | _ => c end in
        res :: run_history fuel s high c' r
      else get_sub_seed fuel s high idx None :: run_history fuel s high c r
  end.

(** Specification: values of the stream in order of first appearance. *)
Definition dedup (s : list N) : list N := update [] s.

Definition spec (s : list N) (idx : nat) : option N := nth_error (dedup s) idx.

(** ---- correspondence-check interface ---- *)

(** implementation outcome per request: [None] = ValueError, [Some v] = returned value *)
Record case := {
  c_stream : list N;
  c_high : N;
  c_reqs : list (nat * bool);
  c_impl : list (option N);
  c_impl_seen : list N;           (* final cache['seen'], sorted ascending; [] if no cache used *)
  c_ref : list (option N)         (* answers of the harness's independent reference (value at the position of the
                                     (idx+1)-th first appearance, located with numpy): the reference decides the
                                     python-side clause for indices/ranges too large for a Coq literal and is itself
                                     checked against [spec] on every case that reaches Coq *)
}.

Definition res_view (r : result) : option (option N) :=
  match r with Rejected => Some None | Answer v _ => Some (Some v) | Exhausted => None end.

Fixpoint eq_views (m : list result) (i : list (option N)) : bool :=
  match m, i with
  | [], [] => true
  | r :: m', o :: i' =>
      match res_view r, o with
      | Some None, None => eq_views m' i'
      | Some (Some v), Some w => N.eqb v w && eq_views m' i'
      | _, _ => false
      end
  | _, _ => false
  end.

Definition fuel_for (c : case) : nat := S (length (c_stream c)).

Fixpoint insert_sorted (x : N) (l : list N) : list N :=
  match l with [] => [x] | y :: r => if (x <=? y)%N then x :: l else y :: insert_sorted x r end.
Definition sortN (l : list N) : list N := fold_right insert_sorted [] l.

Fixpoint final_cache (fuel : nat) (s : list N) (high : N) (c : cache) (reqs : list (nat * bool)) : cache :=
  match reqs with
  | [] => c
  | (idx, true) :: r =>
      let c' := match get_sub_seed fuel s high idx c with Answer _ c1 => Some c1 | _ => c end in
      final_cache fuel s high c' r
  | (_, false) :: r => final_cache fuel s high c r
  end.

(** the harness's reference answers are the [spec] values (no range clause: it is a statement about the reference) *)
Fixpoint ref_ok (s : list N) (high : N) (reqs : list (nat * bool)) (r : list (option N)) : bool :=
  match reqs, r with
  | [], [] => true
  | (idx, _) :: q, o :: r' =>
      (match o with
       | None => (high <=? N.of_nat idx)%N
       | Some v => (N.of_nat idx <? high)%N && match spec s idx with Some w => N.eqb v w | None => false end
       end) && ref_ok s high q r'
  | _, _ => false
  end.

Definition agree (c : case) : bool :=
  eq_views (run_history (fuel_for c) (c_stream c) (c_high c) None (c_reqs c)) (c_impl c)
  && match final_cache (fuel_for c) (c_stream c) (c_high c) None (c_reqs c) with
     | Some (_, sn) => if list_eq_dec N.eq_dec (sortN sn) (c_impl_seen c) then true else false
     | None => match c_impl_seen c with [] => true | _ => false end
     end
  && ref_ok (c_stream c) (c_high c) (c_reqs c) (c_ref c).

(** the property's own decidable statement, applied to the implementation's answers *)
Fixpoint ok_answers (s : list N) (high : N) (reqs : list (nat * bool)) (i : list (option N)) : bool :=
  match reqs, i with
  | [], [] => true
  | (idx, _) :: r, o :: i' =>
      (match o with
       | None => (high <=? N.of_nat idx)%N                                       (* rejected only if out of range *)
       | Some v => (N.of_nat idx <? high)%N && (v <? high)%N
                   && match spec s idx with Some w => N.eqb v w | None => false end
       end) && ok_answers s high r i'
  | _, _ => false
  end.

(** pairwise: different indices never share an answer *)
Fixpoint distinct_answers (reqs : list (nat * bool)) (i : list (option N)) (acc : list (nat * N)) : bool :=
  match reqs, i with
  | (idx, _) :: r, Some v :: i' =>
      forallb (fun p => (fst p =? idx) || negb (N.eqb (snd p) v)) acc
      && distinct_answers r i' ((idx, v) :: acc)
  | _ :: r, None :: i' => distinct_answers r i' acc
  | _, _ => true
  end.

Definition ok (c : case) : bool :=
  ok_answers (c_stream c) (c_high c) (c_reqs c) (c_impl c)
  && distinct_answers (c_reqs c) (c_impl c) [].
