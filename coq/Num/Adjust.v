(** C17 — model of the regression adjustment and of model comparison.

    /repo/elfi/methods/post_processing.py
        LinearAdjustment._input_variables   -> [input_variables]
        RegressionAdjustment._get_finite    -> [finite_inputs], [finite_mask]
        RegressionAdjustment._pairs         -> [pairs]           (what the regression is fitted on)
        RegressionAdjustment.fit / _fit1    -> the coefficient vector is an ORACLE argument [b]
                                               (sklearn LinearRegression = some least-squares
                                               solution; see Num/AdjustMx.v for what that means)
        LinearAdjustment._adjust            -> [adjust_rows]
        RegressionAdjustment.adjust         -> [adjust_all]
    /repo/elfi/methods/model_selection.py
        compare_models                      -> [compare_models]  (argsort tie order = oracle)

    Data values are exact rationals ([Q]; every binary64 is one); a non-finite float (nan, +-inf)
    is [None].  No proofs in this file (Proofs/C17_Adjust.v).                                  *)
From Coq Require Import List ZArith QArith Qabs Bool Arith.
Import ListNotations.

(** * Regression adjustment *)

Definition fval := option Q.                       (* None = nan / inf / -inf *)
Definition isfinite (a : fval) : bool := match a with Some _ => true | None => false end.
(** float subtraction: finite - finite (no overflow, generator keeps magnitudes small) is the exact
    difference here; anything involving a non-finite operand is non-finite *)
Definition fsub (a b : fval) : fval :=
  match a, b with Some x, Some y => Some (Qred (x - y)) | _, _ => None end.
Definition fget (a : fval) : Q := match a with Some x => x | None => 0 end.

Fixpoint zipw {A B C} (f : A -> B -> C) (l : list A) (m : list B) : list C :=
  match l, m with
  | x :: l', y :: m' => f x y :: zipw f l' m'
  | _, _ => []
  end.

Fixpoint nodupb (l : list nat) : bool :=
  match l with [] => true | x :: r => negb (existsb (Nat.eqb x) r) && nodupb r end.

(** [summaries - observed_summaries] (n x k minus 1 x k, broadcast over rows) *)
Definition input_variables (summ : list (list fval)) (obs : list fval) : list (list fval) :=
  map (fun row => zipw fsub row obs) summ.

(** [np.isfinite(self._X).all(axis=1)] *)
Definition row_finite (row : list fval) : bool := forallb isfinite row.
Definition finite_inputs (X : list (list fval)) : list bool := map row_finite X.
(** [finite_inputs & np.isfinite(outputs[p])] *)
Definition finite_mask (X : list (list fval)) (theta : list fval) : list bool :=
  zipw andb (finite_inputs X) (map isfinite theta).

(** boolean-mask indexing [a[mask]] *)
Fixpoint select {A} (mask : list bool) (l : list A) : list A :=
  match mask, l with
  | m :: mask', x :: l' => if m then x :: select mask' l' else select mask' l'
  | _, _ => []
  end.

(** [_pairs]: the rows the regression of one parameter is fitted on (and that are adjusted) *)
Definition pairs (X : list (list fval)) (theta : list fval) : list (list Q) * list Q :=
  let m := finite_mask X theta in
  (map (map fget) (select m X), map fget (select m theta)).

Fixpoint dot (r b : list Q) : Q :=
  match r, b with x :: r', y :: b' => x * y + dot r' b' | _, _ => 0 end.

(** one entry of [theta_i - X[finite].dot(b)] *)
Definition adj1 (th : Q) (row b : list Q) : Q := Qred (th - dot row b).

(** [LinearAdjustment._adjust] *)
Definition adjust_rows (Xf : list (list Q)) (thf : list Q) (b : list Q) : list Q :=
  zipw (fun th row => adj1 th row b) thf Xf.

Definition adjust_param (X : list (list fval)) (theta : list fval) (b : list Q) : list Q :=
  let (Xf, thf) := pairs X theta in adjust_rows Xf thf b.

(** [fit] + [adjust] for all parameters; [bs] = the coefficient vectors the regression returned.
    sklearn refuses an empty design ("Found array with 0 sample(s)"): [None]. *)
Fixpoint adjust_all (X : list (list fval)) (thetas : list (list fval)) (bs : list (list Q))
  : option (list (list Q)) :=
  match thetas, bs with
  | [], _ => Some []
  | theta :: ts, b :: bs' =>
      if existsb (fun x => x) (finite_mask X theta) then
        match adjust_all X ts bs' with
        | Some r => Some (adjust_param X theta b :: r)
        | None => None
        end
      else None
  | _ :: _, [] => None
  end.

(** ** specification side *)

Definition good_row (X : list (list fval)) (theta : list fval) (i : nat) : bool :=
  row_finite (nth i X []) && isfinite (nth i theta None).

(** indices of the rows that are used, in increasing order *)
Definition finite_indices (X : list (list fval)) (theta : list fval) : list nat :=
  filter (good_row X theta) (seq 0 (length theta)).

(** ** tolerances and decidable checks on the implementation's output *)

Definition qsum (l : list Q) : Q := fold_right (fun x a => Qred (x + a)) 0 l.
Definition absdot (r b : list Q) : Q := dot (map Qabs r) (map Qabs b).

(** |a - b| <= tol * scale *)
Definition close (tol scale a b : Q) : bool := Qle_bool (Qabs (a - b)) (tol * scale).

Definition tol_agree : Q := 1 # 100000000.          (* 1e-8: model with oracle lstsq slope vs implementation *)
Definition tol_formula : Q := 1 # 1000000000000.    (* 1e-12: implementation output vs formula with its own coef_ *)
Definition tol_ne : Q := 1 # 1000000000.            (* 1e-9: normal-equation residual of (intercept_, coef_) *)

Fixpoint close_rows (tol : Q) (Xf : list (list Q)) (thf : list Q) (b : list Q) (out : list Q) : bool :=
  match Xf, thf, out with
  | [], [], [] => true
  | row :: Xf', th :: thf', o :: out' =>
      close tol (1 + Qabs th + absdot row b) (adj1 th row b) o && close_rows tol Xf' thf' b out'
  | _, _, _ => false
  end.

(** rows whose regressors are all zero (simulated summaries = observed summaries) come back
    exactly unchanged *)
Fixpoint zero_rows_fixed (Xf : list (list Q)) (thf : list Q) (out : list Q) : bool :=
  match Xf, thf, out with
  | row :: Xf', th :: thf', o :: out' =>
      (if forallb (fun x => Qeq_bool x 0) row then Qeq_bool o th else true) && zero_rows_fixed Xf' thf' out'
  | _, _, _ => true
  end.

(** residuals [b0 + x_i . b - theta_i] *)
Definition residuals (Xf : list (list Q)) (thf : list Q) (b0 : Q) (b : list Q) : list Q :=
  zipw (fun th row => Qred (b0 + dot row b - th)) thf Xf.
Definition row_scales (Xf : list (list Q)) (thf : list Q) (b0 : Q) (b : list Q) : list Q :=
  zipw (fun th row => Qred (Qabs b0 + absdot row b + Qabs th)) thf Xf.

(** column [j] of the design [1 X] *)
Definition design_col (Xf : list (list Q)) (j : nat) : list Q :=
  match j with O => map (fun _ => 1) Xf | S j' => map (fun row => nth j' row 0) Xf end.

(** D^T (D beta - theta) = 0 within [tol_ne], column by column, relative to the natural scale *)
(** [dot] with the running sum kept in lowest terms (same value; only used where the check is evaluated
    on long columns of full-mantissa numbers) *)
Fixpoint dotr (r b : list Q) : Q :=
  match r, b with x :: r', y :: b' => Qred (x * y + dotr r' b') | _, _ => 0 end.

Definition normal_eq_ok (Xf : list (list Q)) (thf : list Q) (b0 : Q) (b : list Q) : bool :=
  let r := residuals Xf thf b0 b in
  let s := row_scales Xf thf b0 b in
  forallb (fun j => let c := design_col Xf j in
                    Qle_bool (Qabs (dotr c r)) (tol_ne * dotr (map Qabs c) (map Qabs s)))
          (seq 0 (S (length b))).

(** ** configuration of the adjustment object (wave 3)

    The constructor of [RegressionAdjustment] (keyword arguments) hands every keyword to the regression model, for
    [LinearAdjustment] scikit-learn's [LinearRegression(fit_intercept, copy_X, positive, n_jobs)].
    Which regression problem is solved depends on [fit_intercept] and [positive] only:
      fit_intercept = True , positive = False : least squares on [1 X]          ([normal_eq_ok])
      fit_intercept = False                   : least squares on [X], intercept_ = 0
      positive = True                         : the same with slope >= 0 (NNLS): Karush-Kuhn-Tucker
                                                conditions instead of the normal equations
    [copy_X] (may scikit-learn overwrite the matrix it is GIVEN) and [n_jobs] are not part of the
    problem; the functions above ([input_variables], [pairs], [adjust_all]) do not take a
    configuration at all: whatever coefficient vector comes back, it is applied to the rows of
    [summaries - observed]. *)
Record config := {
  cf_fit_intercept : bool;
  cf_copy_X : bool;
  cf_positive : bool;
  cf_n_jobs : option Z
}.
Definition default_config : config :=
  {| cf_fit_intercept := true; cf_copy_X := true; cf_positive := false; cf_n_jobs := None |}.
Definition same_problem (a b : config) : bool :=
  Bool.eqb (cf_fit_intercept a) (cf_fit_intercept b) && Bool.eqb (cf_positive a) (cf_positive b).

(** column [j] of the gradient [D^T (D beta - theta)] from the residuals [r] (computed once per fit),
    and the bound it is compared with for the non-default problems: [tol_ne] of the GLOBAL scale
    (sum |column j|) * (sum of the row scales).  (The row-wise scale of [normal_eq_ok] degenerates
    without an intercept: theta = 0 on every row with a non-zero regressor has the exact solution
    b = 0, every such row then has scale |rounding noise of coef_| and the noise is compared with
    itself.  For the default problem the clause stays [normal_eq_ok], verbatim.) *)
Definition gradc (Xf : list (list Q)) (r : list Q) (j : nat) : Q := dotr (design_col Xf j) r.
Definition limg (Xf : list (list Q)) (s : list Q) (j : nat) : Q :=
  tol_ne * (qsum (map Qabs (design_col Xf j)) * qsum (map Qabs s)).
Definition grad (Xf : list (list Q)) (thf : list Q) (b0 : Q) (b : list Q) (j : nat) : Q :=
  gradc Xf (residuals Xf thf b0 b) j.
Definition grad_lim (Xf : list (list Q)) (thf : list Q) (b0 : Q) (b : list Q) (j : nat) : Q :=
  limg Xf (row_scales Xf thf b0 b) j.

(** slope entry [j] (design column [j], [1 <= j]) is optimal for the configuration *)
Definition slope_ok (cfg : config) (Xf : list (list Q)) (r s : list Q) (b : list Q) (j : nat) : bool :=
  let g := gradc Xf r j in
  let lim := limg Xf s j in
  if cf_positive cfg then
    let bj := nth (pred j) b 0 in
    Qle_bool 0 bj && (if Qeq_bool bj 0 then Qle_bool (- lim) g else Qle_bool (Qabs g) lim)
  else Qle_bool (Qabs g) lim.

Definition default_problem (cfg : config) : bool := cf_fit_intercept cfg && negb (cf_positive cfg).

(** [(intercept_, coef_)] solve the regression problem of the configuration on the usable rows *)
Definition fit_ok (cfg : config) (Xf : list (list Q)) (thf : list Q) (b0 : Q) (b : list Q) : bool :=
  if default_problem cfg then normal_eq_ok Xf thf b0 b
  else
    let r := residuals Xf thf b0 b in
    let s := row_scales Xf thf b0 b in
    (if cf_fit_intercept cfg then Qle_bool (Qabs (gradc Xf r 0)) (limg Xf s 0) else Qeq_bool b0 0)
    && forallb (slope_ok cfg Xf r s b) (seq 1 (length b)).

(** the object's public [X] attribute, read back after [adjust()]: the same shape, non-finite exactly
    where [summaries - observed] is, and the same numbers (binary64 subtraction vs exact [Q]) *)
Definition close_fval (a b : fval) : bool :=
  match a, b with
  | Some x, Some y => close tol_formula (1 + Qabs x) x y
  | None, None => true
  | _, _ => false
  end.
Fixpoint all2 {A B} (f : A -> B -> bool) (l : list A) (m : list B) : bool :=
  match l, m with
  | [], [] => true
  | x :: l', y :: m' => f x y && all2 f l' m'
  | _, _ => false
  end.
Definition x_attr_ok (X Ximpl : list (list fval)) : bool := all2 (all2 close_fval) X Ximpl.

(** the adjustment object as a state: [fit] stores the regressors, the masks and the fitted
    coefficients; [adjust] READS them -- it returns the adjusted arrays and leaves the object as it
    was, so any number of [adjust()] calls return the same arrays and [X] stays [summaries - observed] *)
Record astate := {
  st_X : list (list fval);
  st_masks : list (list bool);
  st_coefs : list (list Q)
}.
Definition fit_state (summ : list (list fval)) (obs : list fval) (thetas : list (list fval))
           (bs : list (list Q)) : astate :=
  let X := input_variables summ obs in
  {| st_X := X; st_masks := map (finite_mask X) thetas; st_coefs := bs |}.
Definition adjust_state (st : astate) (thetas : list (list fval)) : astate * option (list (list Q)) :=
  (st, adjust_all (st_X st) thetas (st_coefs st)).
Fixpoint adjust_calls (n : nat) (st : astate) (thetas : list (list fval))
  : astate * list (option (list (list Q))) :=
  match n with
  | O => (st, [])
  | S n' => let (st1, o) := adjust_state st thetas in
            let (st2, os) := adjust_calls n' st1 thetas in (st2, o :: os)
  end.

(** a history of uses of ONE object: each entry = a [fit] on some sample (with the coefficients the
    regression returned for it) followed by [n] calls of [adjust].  [fit] overwrites the whole state
    (regressors, masks, fitted models): nothing of an earlier fit survives *)
Record fitargs := {
  f_summ : list (list fval); f_obs : list fval; f_thetas : list (list fval); f_bs : list (list Q)
}.
Definition refit (st : astate) (a : fitargs) : astate :=
  fit_state (f_summ a) (f_obs a) (f_thetas a) (f_bs a).
Fixpoint run_history (st : astate) (h : list (fitargs * nat))
  : astate * list (list (option (list (list Q)))) :=
  match h with
  | [] => (st, [])
  | (a, n) :: h' =>
      let (st1, os) := adjust_calls n (refit st a) (f_thetas a) in
      let (st2, r) := run_history st1 h' in (st2, os :: r)
  end.
(** what a fresh object returns for one entry *)
Definition fresh_result (an : fitargs * nat) : list (option (list (list Q))) :=
  repeat (adjust_all (input_variables (f_summ (fst an)) (f_obs (fst an))) (f_thetas (fst an)) (f_bs (fst an))) (snd an).

(** ** listing order of the summaries and storage of the arrays

    The model above is a function of the NUMERIC values of the sample alone: it has no notion of the
    dtype / memory layout in which [sample.outputs[...]] and [model[s].observed] are stored, and the
    order in which the summaries are listed in [summary_names] only permutes the columns of X (and
    with them the fitted slope, Num/AdjustMx.v), which leaves every adjusted value unchanged
    (Proofs/C17_Adjust.v: [listing_invariant]).  A case therefore carries, besides the reference run
    (canonical listing, float64 C-contiguous arrays), further runs [arun] of the real code on the SAME
    numeric sample, listed in another order and stored otherwise; every one of them is compared with
    the model's single result ([a_agree]) and must satisfy the property in its own listing ([a_ok]). *)

Definition permute {A} (perm : list nat) (l : list A) (d : A) : list A := map (fun j => nth j l d) perm.
Definition permute_cols (perm : list nat) (X : list (list fval)) : list (list fval) :=
  map (fun row => permute perm row None) X.
(** [perm] lists each of the [k] summaries exactly once *)
Definition is_perm (k : nat) (perm : list nat) : bool :=
  Nat.eqb (length perm) k && nodupb perm && forallb (fun j => Nat.ltb j k) perm.

(** storage dtypes explored by the harness (float64, float32, int64, int32, bool) and the values
    each can hold exactly: the harness stores a value only in a dtype that represents it, so a
    difference between runs can never come from the harness's own conversion *)
Inductive dtype := F64 | F32 | I64 | I32 | B8.
Fixpoint is_pow2 (p : positive) : bool := match p with xH => true | xO p' => is_pow2 p' | xI _ => false end.
Fixpoint odd_part (p : positive) : positive := match p with xO p' => odd_part p' | _ => p end.
Definition is_int (q : Q) : bool := Pos.eqb (Qden (Qred q)) 1.
Definition is_f32 (q : Q) : bool :=
  let r := Qred q in
  is_pow2 (Qden r) && match Qnum r with Z0 => true | Zpos p | Zneg p => Pos.ltb (odd_part p) 16777216 end.
Definition storable (t : dtype) (v : fval) : bool :=
  match t with
  | F64 => true
  | F32 => match v with Some q => is_f32 q | None => true end
  | I64 | I32 => match v with Some q => is_int q | None => false end
  | B8 => match v with Some q => Qeq_bool q 0 || Qeq_bool q 1 | None => false end
  end.

(** one further run of [adjust_posterior] on the same numeric sample *)
Record arun := {
  r_perm : list nat;             (* summary_names[j] = summary number r_perm[j] of the case *)
  r_sdt : list dtype;            (* dtype of sample.outputs[summary_names[j]] *)
  r_odt : list dtype;            (* dtype of model[summary_names[j]].observed *)
  r_pdt : list dtype;            (* dtype of sample.outputs[parameter q] *)
  r_coef : list (list Q);        (* coef_ per parameter, in the run's own listing order *)
  r_icpt : list Q;
  r_out : option (list (list Q));
  r_cfg : config;                (* keyword arguments the adjustment object was built with *)
  r_oracle : list (list Q);      (* canonical listing: oracle slope of the run's regression problem; [] = the
                                    reference run's [a_oracle] (default problem, unique slope) *)
  r_X : option (list (list fval)); (* the object's X attribute after adjust(), in the run's own listing *)
  r_prev : nat;                  (* how many OTHER samples this object was fitted / adjusted on before (the model has
                                    no memory across fits: [refit] ignores the old state, so they are not part of the case) *)
  r_nmodels : nat                (* len(regression_models) after the run *)
}.

Record acase := {
  a_summ : list (list fval);          (* n rows of k simulated summaries *)
  a_obs : list fval;                  (* k observed summaries *)
  a_params : list (list fval);        (* p parameter columns, n values each *)
  a_oracle : list (list Q);           (* per parameter: numpy.linalg.lstsq slope on the finite rows *)
  a_impl_coef : list (list Q);        (* per parameter: regression_models[i].coef_ *)
  a_impl_icpt : list Q;               (* per parameter: regression_models[i].intercept_ *)
  a_impl_out : option (list (list Q)); (* adjust_posterior(...).outputs per parameter; None = raised *)
  a_impl_X : option (list (list fval)); (* the adjustment object's X attribute after adjust() *)
  a_impl_nmodels : nat;               (* len(regression_models) after the run *)
  a_runs : list arun                  (* the same numeric sample, listed / stored otherwise *)
}.

Definition col (j : nat) (M : list (list fval)) : list fval := map (fun row => nth j row None) M.

(** the run is a re-listing / re-storage of THIS sample: a permutation of the summaries, and every
    array holds only values its dtype represents exactly *)
Definition run_wf (c : acase) (r : arun) : bool :=
  let k := length (a_obs c) in
  is_perm k (r_perm r)
  && Nat.eqb (length (r_sdt r)) k && Nat.eqb (length (r_odt r)) k
  && Nat.eqb (length (r_pdt r)) (length (a_params c))
  && forallb (fun jt => forallb (storable (snd jt)) (col (fst jt) (a_summ c))) (combine (r_perm r) (r_sdt r))
  && forallb (fun jt => storable (snd jt) (nth (fst jt) (a_obs c) None)) (combine (r_perm r) (r_odt r))
  && forallb (fun pt => forallb (storable (snd pt)) (fst pt)) (combine (a_params c) (r_pdt r)).

(** the oracle slope of the run's regression problem (canonical listing): a run that leaves [r_oracle]
    empty -- the harness does so for every run whose configuration poses the default problem, whatever
    its [copy_X] / [n_jobs], unless the least-squares slope is not unique -- is held against the SAME
    slope as the reference run *)
Definition run_oracle (c : acase) (r : arun) : list (list Q) :=
  match r_oracle r with [] => a_oracle c | o => o end.

(** the run seen as a case of its own, in its own listing order *)
Definition run_case (c : acase) (r : arun) : acase :=
  {| a_summ := permute_cols (r_perm r) (a_summ c);
     a_obs := permute (r_perm r) (a_obs c) None;
     a_params := a_params c;
     a_oracle := map (fun b => permute (r_perm r) b 0) (run_oracle c r);
     a_impl_coef := r_coef r; a_impl_icpt := r_icpt r; a_impl_out := r_out r; a_impl_X := r_X r;
     a_impl_nmodels := r_nmodels r;
     a_runs := [] |}.

Fixpoint close_all (tol : Q) (X : list (list fval)) (thetas : list (list fval)) (bs : list (list Q))
         (outs : list (list Q)) : bool :=
  match thetas, bs, outs with
  | [], _, [] => true
  | theta :: ts, b :: bs', o :: outs' =>
      (let (Xf, thf) := pairs X theta in close_rows tol Xf thf b o) && close_all tol X ts bs' outs'
  | _, _, _ => false
  end.

(** the model's single result (canonical listing, numeric values, oracle slope) against the output of
    one run of the implementation *)
Definition agree_out (c : acase) (oracle : list (list Q)) (impl : option (list (list Q))) : bool :=
  let X := input_variables (a_summ c) (a_obs c) in
  match adjust_all X (a_params c) oracle, impl with
  | Some _, Some outs => close_all tol_agree X (a_params c) oracle outs
  | None, None => true
  | _, _ => false
  end.

(** every run -- whatever the listing order, the storage, and the [copy_X] / [n_jobs] it was configured
    with -- reproduces the model's result for its regression problem *)
Definition a_agree (c : acase) : bool :=
  agree_out c (a_oracle c) (a_impl_out c)
  && forallb (fun r => run_wf c r && agree_out c (run_oracle c r) (r_out r)) (a_runs c).

Fixpoint ok_all (cfg : config) (X : list (list fval)) (thetas : list (list fval)) (bs : list (list Q))
         (b0s : list Q) (outs : list (list Q)) : bool :=
  match thetas, bs, b0s, outs with
  | [], _, _, [] => true
  | theta :: ts, b :: bs', b0 :: b0s', o :: outs' =>
      (let (Xf, thf) := pairs X theta in
       Nat.eqb (length o) (length (finite_indices X theta))
       && close_rows tol_formula Xf thf b o
       && zero_rows_fixed Xf thf o
       && fit_ok cfg Xf thf b0 b)
      && ok_all cfg X ts bs' b0s' outs'
  | _, _, _, _ => false
  end.

(** the property evaluated on the implementation's own output and own coefficients *)
Definition a_ok1 (cfg : config) (c : acase) : bool :=
  let X := input_variables (a_summ c) (a_obs c) in
  match a_impl_out c with
  | Some outs => ok_all cfg X (a_params c) (a_impl_coef c) (a_impl_icpt c) outs
                 && match a_impl_X c with Some Xi => x_attr_ok X Xi | None => false end
                 && Nat.eqb (a_impl_nmodels c) (length (a_params c))   (* one model per parameter of THIS fit *)
  | None =>                           (* a failed run is admissible only when some parameter has no usable row *)
      match adjust_all X (a_params c) (map (fun _ => []) (a_params c)) with None => true | Some _ => false end
  end.

(** ... for the reference run (default configuration) and for every further run in its own listing and
    under its own configuration (the numeric regressors are the permuted columns of the case's, never a
    dtype-converted copy, and never what the object holds after the fit) *)
Definition a_ok (c : acase) : bool :=
  a_ok1 default_config c && forallb (fun r => a_ok1 (r_cfg r) (run_case c r)) (a_runs c).

(** * Model comparison *)

Record cmodel := {
  m_disc : list Q;      (* sample.discrepancies; n_samples = its length *)
  m_nsim : Q;           (* sample.n_sim *)
  m_w : Q               (* model_priors[i]; 1 when model_priors is None (no multiplication) *)
}.

Definition all_disc (ms : list cmodel) : list Q := concat (map m_disc ms).

(** [min([s.n_samples for s in sample_objs])] of a non-empty list *)
Definition n_min (ms : list cmodel) : nat :=
  match ms with
  | [] => 0
  | m :: r => fold_right (fun m' a => Nat.min (length (m_disc m')) a) (length (m_disc m)) r
  end.

(** [np.logical_and(inds >= low, inds < up).sum()] *)
Definition count_range (inds : list nat) (lo hi : nat) : nat :=
  length (filter (fun j => Nat.leb lo j && Nat.ltb j hi) inds).

Definition score (cnt : nat) (m : cmodel) : Q :=
  Qred ((inject_Z (Z.of_nat cnt) / m_nsim m) * m_w m).

(** the [for i in range(n_models)] loop; [up] = up_bound before the iteration *)
Fixpoint scores_from (ms : list cmodel) (inds : list nat) (up : nat) : list Q :=
  match ms with
  | [] => []
  | m :: r =>
      let hi := (up + length (m_disc m))%nat in
      score (count_range inds up hi) m :: scores_from r inds hi
  end.

Definition normalise (sc : list Q) : option (list Q) :=
  let tot := qsum sc in
  if Qeq_bool tot 0 then None else Some (map (fun s => Qred (s / tot)) sc).

(** [order] = np.argsort(concatenated discrepancies): an oracle (tie order unspecified).
    [None]: ValueError on an empty list of samples, or 0/0 = nan probabilities. *)
Definition compare_models (ms : list cmodel) (order : list nat) : option (list Q) :=
  match ms with
  | [] => None
  | _ => normalise (scores_from ms (firstn (n_min ms) order) 0)
  end.

(** [model_priors] handling: None -> weight 1; too short -> IndexError ([None]) *)
Fixpoint attach (samples : list (list Q * Q)) (priors : option (list Q)) : option (list cmodel) :=
  match samples with
  | [] => Some []
  | (d, ns) :: r =>
      match priors with
      | None => option_map (cons {| m_disc := d; m_nsim := ns; m_w := 1 |}) (attach r None)
      | Some [] => None
      | Some (w :: ws) => option_map (cons {| m_disc := d; m_nsim := ns; m_w := w |}) (attach r (Some ws))
      end
  end.

(** ** specification side *)

(** the order oracle is admissible: a permutation of the indices along which the values ascend *)
Fixpoint ascending (l : list Q) : bool :=
  match l with
  | x :: ((y :: _) as r) => Qle_bool x y && ascending r
  | _ => true
  end.

Definition valid_orderb (disc : list Q) (order : list nat) : bool :=
  Nat.eqb (length order) (length disc) && nodupb order && forallb (fun j => Nat.ltb j (length disc)) order
  && ascending (map (fun j => nth j disc 0) order).

(** model-position-free description of a model's share: how many of its discrepancies are <= t *)
Definition cnt_le (t : Q) (l : list Q) : nat := length (filter (fun d => Qle_bool d t) l).
Definition cnt_lt (t : Q) (l : list Q) : nat := length (filter (fun d => negb (Qle_bool t d)) l).
Definition score_t (t : Q) (m : cmodel) : Q := score (cnt_le t (m_disc m)) m.
Definition total_le (t : Q) (ms : list cmodel) : nat := fold_right (fun m a => (cnt_le t (m_disc m) + a)%nat) 0%nat ms.
Definition prob_of (t : Q) (ms : list cmodel) (m : cmodel) : Q :=
  Qred (score_t t m / qsum (map (score_t t) ms)).

(** the cut value: discrepancy of the last index kept *)
Definition cut_value (ms : list cmodel) (order : list nat) : Q :=
  nth (nth (n_min ms - 1)%nat order 0%nat) (all_disc ms) 0.

(** per-model admissible range for the count when ties may straddle the cut *)
Fixpoint counts_from (ms : list cmodel) (inds : list nat) (up : nat) : list nat :=
  match ms with
  | [] => []
  | m :: r => let hi := (up + length (m_disc m))%nat in count_range inds up hi :: counts_from r inds hi
  end.

Definition tol_cmp : Q := 1 # 1000000000000.   (* 1e-12: float division/normalisation vs exact Q *)

Record ccase := {
  c_samples : list (list Q * Q);     (* per model: discrepancies, n_sim *)
  c_priors : option (list Q);
  c_order : list nat;                (* argsort oracle (validated by [valid_orderb]) *)
  c_impl : option (list Q)           (* compare_models(...) ; None = raised or nan *)
}.

Fixpoint close_list (tol : Q) (a b : list Q) : bool :=
  match a, b with
  | [], [] => true
  | x :: a', y :: b' => close tol 1 x y && close_list tol a' b'
  | _, _ => false
  end.

Definition c_agree (c : ccase) : bool :=
  match attach (c_samples c) (c_priors c) with
  | None => match c_impl c with None => true | Some _ => false end
  | Some ms =>
      match compare_models ms (c_order c), c_impl c with
      | Some p, Some q => close_list tol_cmp p q
      | None, None => true
      | _, _ => false
      end
  end.

(** the property on the implementation's output: sums to one; each entry is the stated
    proportion for SOME admissible tie order (the validated oracle): with v the cut value,
    count_i lies between #(d_i < v) and #(d_i <= v), the counts add up to n_min, and
    p_i * sum_j score_j = score_i *)
Fixpoint counts_within (v : Q) (ms : list cmodel) (cnts : list nat) : bool :=
  match ms, cnts with
  | [], [] => true
  | m :: r, c :: cs => Nat.leb (cnt_lt v (m_disc m)) c && Nat.leb c (cnt_le v (m_disc m)) && counts_within v r cs
  | _, _ => false
  end.

Definition c_ok (c : ccase) : bool :=
  match attach (c_samples c) (c_priors c) with
  | Some ((_ :: _) as ms) =>
      let inds := firstn (n_min ms) (c_order c) in
      let cnts := counts_from ms inds 0 in
      let sc := map (fun cm => score (fst cm) (snd cm)) (combine cnts ms) in
      let tot := qsum sc in
      valid_orderb (all_disc ms) (c_order c)
      && Nat.eqb (fold_right Nat.add 0%nat cnts) (n_min ms)
      && (if Nat.ltb 0 (n_min ms) then counts_within (cut_value ms (c_order c)) ms cnts else true)
      && match c_impl c with
         | Some p => negb (Qeq_bool tot 0) && close tol_cmp 1 (qsum p) 1
                     && close_list tol_cmp (map (fun s => Qred (s / tot)) sc) p
         | None => Qeq_bool tot 0        (* undefined (nan) only when every score is zero *)
         end
  | _ => true                           (* malformed call (no samples / too few priors): outside the property *)
  end.

(** * Case type of the correspondence check *)
Inductive case := CAdj (a : acase) | CCmp (c : ccase).
Definition agree (c : case) : bool := match c with CAdj a => a_agree a | CCmp c => c_agree c end.
Definition ok (c : case) : bool := match c with CAdj a => a_ok a | CCmp c => c_ok c end.
