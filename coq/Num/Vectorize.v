(** Model of [elfi.model.tools] (C18): [run_vectorized]/[vectorize], [unpack_meta], [prepare_seed],
    the [str.format] step of [run_external], and (sampled only) the echo/[np.fromstring] round trip.

    Values are symbolic trees: what the harness' recording operation sees.  A numpy array with
    [ndim > 0] is [VArr rows] (a row of a 2-d array is again a [VArr]); everything else (python and
    numpy scalars, 0-d arrays, strings, lists, tuples, None) is a non-array.  The operation that is
    vectorised is uninterpreted: the model returns the list of calls it receives ([call] = the
    positional arguments, the keyword arguments, and the content of the [meta] dict at call time).

    No proofs in this file (Proofs/C18_Vectorize.v). *)
From Coq Require Import List ZArith NArith Arith Bool String Ascii DecimalString.
From Elfi Require Import Num.Seed.
Import ListNotations.

(** ** values *)

Inductive value :=
| VNum (n : Z) (d : positive)      (* exact number n/d (ints have d = 1) *)
| VStr (s : string)
| VNone
| VArr (l : list value)            (* numpy array, ndim > 0: its rows *)
| VSeq (l : list value).           (* any other container (list, tuple, 0-d array, tagged objects) *)

Definition vint (z : Z) : value := VNum z 1.

(** [elfi.utils.is_array]: [hasattr(x, 'shape') and x.ndim > 0] *)
Definition is_array (v : value) : bool := match v with VArr _ => true | _ => false end.

(** [len(x)] / [x[i]] of an array *)
Definition rows (v : value) : list value := match v with VArr l => l | _ => [] end.

Fixpoint value_eqb (a b : value) {struct a} : bool :=
  let fix leq (l m : list value) {struct l} : bool :=
    match l, m with
    | [], [] => true
    | x :: l', y :: m' => value_eqb x y && leq l' m'
    | _, _ => false
    end in
  match a, b with
  | VNum n d, VNum n' d' => Z.eqb n n' && Pos.eqb d d'
  | VStr s, VStr s' => String.eqb s s'
  | VNone, VNone => true
  | VArr l, VArr m => leq l m
  | VSeq l, VSeq m => leq l m
  | _, _ => false
  end.

Fixpoint list_eqb {A B} (e : A -> B -> bool) (l : list A) (m : list B) : bool :=
  match l, m with
  | [], [] => true
  | x :: l', y :: m' => e x y && list_eqb e l' m'
  | _, _ => false
  end.

(** ** python dicts as association lists in insertion order *)

Definition dict := list (string * value).

Fixpoint lookup (k : string) (d : dict) : option value :=
  match d with
  | [] => None
  | (k', v) :: r => if String.eqb k k' then Some v else lookup k r
  end.

(** [d[k] = v] *)
Fixpoint dict_set (k : string) (v : value) (d : dict) : dict :=
  match d with
  | [] => [(k, v)]
  | (k', v') :: r => if String.eqb k k' then (k, v) :: r else (k', v') :: dict_set k v r
  end.

(** [d.update(e)] *)
Definition dict_update (d e : dict) : dict := fold_left (fun acc kv => dict_set (fst kv) (snd kv) acc) e d.

Definition pair_eqb (a b : string * value) : bool := String.eqb (fst a) (fst b) && value_eqb (snd a) (snd b).
Definition dict_eqb (a b : dict) : bool := list_eqb pair_eqb a b.

(** ** run_vectorized *)

Definition memn (i : nat) (l : list nat) : bool := existsb (Nat.eqb i) l.

Definition iib : string := "index_in_batch"%string.

(** one call of the wrapped operation *)
Record call := mkcall {
  c_args : list value;
  c_kw : dict;                 (* keyword arguments other than [meta] *)
  c_meta : option dict         (* content of [kwargs['meta']] when the operation is entered *)
}.

Definition call_eqb (a b : call) : bool :=
  list_eqb value_eqb (c_args a) (c_args b) && dict_eqb (c_kw a) (c_kw b)
  && match c_meta a, c_meta b with
     | None, None => true
     | Some x, Some y => dict_eqb x y
     | _, _ => false
     end.

(** the first loop: "Check input and set constants and batch_size if needed".
    [None] = the ValueError (batch size does not match an input length). *)
Fixpoint scan (i : nat) (inputs : list value) (consts : list nat) (bs : option nat)
  : option (list nat * option nat) :=
  match inputs with
  | [] => Some (consts, bs)
  | x :: r =>
      if memn i consts then scan (S i) r consts bs else
      if is_array x then
        let len := List.length (rows x) in
        match bs with
        | None => scan (S i) r consts (Some len)
        | Some b => if b =? len then scan (S i) r consts bs else None
        end
      else scan (S i) r (consts ++ [i]) bs
  end.

Fixpoint mapi_from {A B} (f : nat -> A -> B) (i : nat) (l : list A) : list B :=
  match l with
  | [] => []
  | x :: r => f i x :: mapi_from f (S i) r
  end.

(** "Prepare inputs for this run" *)
Definition row_args (inputs : list value) (consts : list nat) (k : nat) : list value :=
  mapi_from (fun i x => if memn i consts then x else nth k (rows x) VNone) 0 inputs.

(** [kwargs['meta']['index_in_batch'] = index_in_batch] (in place, when there is a meta dict) *)
Definition set_index (meta : option dict) (k : nat) : option dict :=
  match meta with
  | Some m => Some (dict_set iib (vint (Z.of_nat k)) m)
  | None => None
  end.

(** the second loop; the meta dict is mutated in place, so it is threaded through *)
Fixpoint run_loop (ks : list nat) (inputs : list value) (consts : list nat) (kw : dict) (meta : option dict)
  : list call :=
  match ks with
  | [] => []
  | k :: r =>
      let m := set_index meta k in
      mkcall (row_args inputs consts k) kw m :: run_loop r inputs consts kw m
  end.

Inductive container := ObjArray | Converted.   (* dtype=False: 1-d object array of the raw outputs *)

Inductive vresult :=
| VError                                        (* ValueError: List.length mismatch *)
| VOk (k : container) (calls : list call).

(** [run_vectorized(operation, inputs..., constants, dtype, batch_size, **kwargs)];
    [dtype_false] = ([dtype is False]). [batch_size] is consumed here and not passed on. *)
Definition run_vectorized (inputs : list value) (constants : option (list nat)) (batch_size : option nat)
           (kw : dict) (meta : option dict) (dtype_false : bool) : vresult :=
  let c0 := match constants with None => [] | Some c => c end in
  match scan 0 inputs c0 batch_size with
  | None => VError
  | Some (consts, bs) =>
      let n := match bs with None => 1 | Some b => b end in
      VOk (if dtype_false then ObjArray else Converted) (run_loop (seq 0 n) inputs consts kw meta)
  end.

(** ** specification of per-row application (used by [ok], independent of the loops above) *)

Definition consts0 (constants : option (list nat)) : list nat :=
  match constants with None => [] | Some c => c end.

(** input [j] is treated as a constant: marked, or not an array *)
Definition is_const (cs : list nat) (j : nat) (x : value) : bool := memn j cs || negb (is_array x).

Fixpoint first_len_from (i : nat) (inputs : list value) (cs : list nat) : option nat :=
  match inputs with
  | [] => None
  | x :: r => if is_const cs i x then first_len_from (S i) r cs else Some (List.length (rows x))
  end.

Definition batch_len (inputs : list value) (cs : list nat) (bs : option nat) : nat :=
  match bs with
  | Some b => b
  | None => match first_len_from 0 inputs cs with Some n => n | None => 1 end
  end.

Fixpoint mismatch_from (i : nat) (inputs : list value) (cs : list nat) (n : nat) : bool :=
  match inputs with
  | [] => false
  | x :: r => (negb (is_const cs i x) && negb (List.length (rows x) =? n)) || mismatch_from (S i) r cs n
  end.

Definition expected_args (inputs : list value) (cs : list nat) (k : nat) : list value :=
  mapi_from (fun j x => if is_const cs j x then x else nth k (rows x) VNone) 0 inputs.

Definition expected_call (inputs : list value) (cs : list nat) (kw : dict) (meta : option dict) (k : nat) : call :=
  mkcall (expected_args inputs cs k) kw (set_index meta k).

Fixpoint calls_ok_from (i : nat) (calls : list call) (inputs : list value) (cs : list nat) (kw : dict)
         (meta : option dict) : bool :=
  match calls with
  | [] => true
  | c :: r => call_eqb c (expected_call inputs cs kw meta i) && calls_ok_from (S i) r inputs cs kw meta
  end.

(** ** str.format on the restricted template language *)

Inductive tok := Lit (s : string) | Pos (n : nat) | Key (k : string).

Inductive fresult :=
| FOk (s : string)
| FIndexError (n : nat)       (* positional placeholder without input *)
| FKeyError (k : string).     (* keyword placeholder without input *)

Definition render_Z (z : Z) : string := NilZero.string_of_int (Z.to_int z).

(** [format(v, '')] for the values the harness substitutes (ints and strings) *)
Definition render (v : value) : string :=
  match v with
  | VNum z 1 => render_Z z
  | VStr s => s
  | VNone => "None"%string
  | _ => "<object>"%string
  end.

Definition tok_str (x : tok) (args : list value) (kw : dict) : fresult :=
  match x with
  | Lit s => FOk s
  | Pos n => match nth_error args n with Some v => FOk (render v) | None => FIndexError n end
  | Key k => match lookup k kw with Some v => FOk (render v) | None => FKeyError k end
  end.

(** left to right; the first placeholder without input raises *)
Fixpoint format (t : list tok) (args : list value) (kw : dict) : fresult :=
  match t with
  | [] => FOk EmptyString
  | x :: r =>
      match tok_str x args kw with
      | FOk s => match format r args kw with FOk s' => FOk (String.append s s') | e => e end
      | e => e
      end
  end.

(** ** unpack_meta, prepare_seed, run_external *)

(** [new = meta.copy(); new.update(kwinputs)] *)
Definition unpack_meta (kw : dict) (meta : option dict) : dict :=
  match meta with
  | Some m => dict_update m kw
  | None => kw
  end.

Definition high31 : N := 2147483648.

(** [kwinputs.get('index_in_batch') or 0] (non-negative ints; anything else counts as 0) *)
Definition sub_index (kw : dict) : nat :=
  match lookup iib kw with
  | Some (VNum (Zpos p) 1) => Pos.to_nat p
  | _ => 0
  end.

Inductive sresult :=
| SOk (kw : dict) (seed : option N)
| SExhausted            (* recorded stream prefix too short (harness artefact) *)
| SRejected.            (* index >= 2**31 *)

(** [rs] = [Some s] when a [random_state] keyword is present; [s] is the stream of
    [RandomState(random_state.get_state()[1][0]).randint(2**31, dtype='uint32')] *)
Definition prepare_seed (kw : dict) (rs : option (list N)) : sresult :=
  match rs with
  | None => SOk kw None
  | Some s =>
      match Seed.get_sub_seed (S (List.length s)) s high31 (sub_index kw) None with
      | Answer v _ => SOk (dict_set "seed"%string (vint (Z.of_N v)) kw) (Some v)
      | Rejected => SRejected
      | Exhausted => SExhausted
      end
  end.

Inductive eresult :=
| EOk (cmd : string) (seed : option N)
| EIndexError (n : nat)
| EKeyError (k : string)
| ESeedExhausted
| ESeedRejected.

(** [run_external] up to and including [command.format( *inputs, **kwinputs )] (no [prepare_inputs]) *)
Definition run_external (t : list tok) (args : list value) (kw : dict) (meta : option dict)
           (rs : option (list N)) : eresult :=
  match prepare_seed (unpack_meta kw meta) rs with
  | SOk kw' seed =>
      match format t args kw' with
      | FOk s => EOk s seed
      | FIndexError n => EIndexError n
      | FKeyError k => EKeyError k
      end
  | SExhausted => ESeedExhausted
  | SRejected => ESeedRejected
  end.

(** [vectorize(external_operation(t))]: every call made by [run_vectorized] goes through [run_external]
    with the same [random_state] (the external command cannot advance it) *)
Definition run_vec_ext (t : list tok) (inputs : list value) (constants : option (list nat))
           (batch_size : option nat) (kw : dict) (meta : option dict) (rs : option (list N))
  : option (list eresult) :=
  match run_vectorized inputs constants batch_size kw meta false with
  | VError => None
  | VOk _ calls => Some (map (fun c => run_external t (c_args c) (c_kw c) (c_meta c) rs) calls)
  end.

(** ** echo + np.fromstring (runtime behaviour, sampled only): what a command "echo w1 w2 ..." with
    decimal words prints and parses to *)

Definition is_space (a : ascii) : bool := Ascii.eqb a " "%char.

Fixpoint words_aux (s : string) (cur : string) : list string :=
  match s with
  | EmptyString => match cur with EmptyString => [] | _ => [cur] end
  | String a r =>
      if is_space a then
        match cur with EmptyString => words_aux r EmptyString | _ => cur :: words_aux r EmptyString end
      else words_aux r (String.append cur (String a EmptyString))
  end.

Definition words (s : string) : list string := words_aux s EmptyString.

Definition digit_of (a : ascii) : option Z :=
  let n := nat_of_ascii a in
  if (48 <=? n) && (n <=? 57) then Some (Z.of_nat (n - 48)) else None.

Fixpoint parse_nat_aux (s : string) (acc : Z) : option Z :=
  match s with
  | EmptyString => Some acc
  | String a r => match digit_of a with Some d => parse_nat_aux r (acc * 10 + d)%Z | None => None end
  end.

Definition parse_int (s : string) : option Z :=
  match s with
  | EmptyString => None
  | String "-"%char r => match r with EmptyString => None | _ => option_map Z.opp (parse_nat_aux r 0%Z) end
  | _ => parse_nat_aux s 0%Z
  end.

Fixpoint all_some {A} (l : list (option A)) : option (list A) :=
  match l with
  | [] => Some []
  | Some x :: r => option_map (cons x) (all_some r)
  | None :: _ => None
  end.

(** numbers printed by the command, when it is "echo" followed by decimal words *)
Definition echo_numbers (cmd : string) : option (list Z) :=
  match words cmd with
  | w :: r => if String.eqb w "echo"%string then all_some (map parse_int r) else None
  | [] => None
  end.

(** ** correspondence-check interface *)

Record vcase := {
  v_inputs : list value;
  v_constants : option (list nat);
  v_batch_size : option nat;
  v_kw : dict;
  v_meta : option dict;
  v_dtype_false : bool;
  v_impl : option (list call);    (* None = ValueError; calls in the order of the returned array's entries *)
  v_impl_obj : bool               (* the returned array was a 1-d object array *)
}.

(** observed outcome of one external call *)
Inductive eobs :=
| OCmd (cmd : string) (seed : option N) (parsed : option (list Z))   (* executed command, seed kw, parsed stdout *)
| OIndexError
| OKeyError (k : string).

Record ecase := {
  e_toks : list tok;
  e_inputs : list value;
  e_constants : option (list nat);
  e_batch_size : option nat;
  e_vectorized : bool;            (* through vectorize(...) or a single direct call *)
  e_kw : dict;
  e_meta : option dict;
  e_rs : option (list N);
  e_first_only : bool;            (* a row raised: the batch was aborted, [e_impl] holds that row's exception only *)
  e_impl : option (list eobs)     (* None = ValueError of vectorize; one entry per row *)
}.

Inductive case := CVec (c : vcase) | CExt (c : ecase).

Definition opt_eqb {A} (e : A -> A -> bool) (a b : option A) : bool :=
  match a, b with
  | None, None => true
  | Some x, Some y => e x y
  | _, _ => false
  end.

Definition vagree (c : vcase) : bool :=
  match run_vectorized (v_inputs c) (v_constants c) (v_batch_size c) (v_kw c) (v_meta c) (v_dtype_false c), v_impl c with
  | VError, None => true
  | VOk k calls, Some icalls =>
      list_eqb call_eqb calls icalls
      && Bool.eqb (v_impl_obj c) (match k with ObjArray => true | Converted => false end)
  | _, _ => false
  end.

(** the property's statement on the implementation's calls *)
Definition vok (c : vcase) : bool :=
  let cs := consts0 (v_constants c) in
  let n := batch_len (v_inputs c) cs (v_batch_size c) in
  match v_impl c with
  | None => mismatch_from 0 (v_inputs c) cs n
  | Some calls =>
      negb (mismatch_from 0 (v_inputs c) cs n)
      && (List.length calls =? n)
      && calls_ok_from 0 calls (v_inputs c) cs (v_kw c) (v_meta c)
      && (Bool.eqb (v_impl_obj c) (v_dtype_false c))
  end.

Definition model_ext (c : ecase) : option (list eresult) :=
  if e_vectorized c then
    run_vec_ext (e_toks c) (e_inputs c) (e_constants c) (e_batch_size c) (e_kw c) (e_meta c) (e_rs c)
  else Some [run_external (e_toks c) (e_inputs c) (e_kw c) (e_meta c) (e_rs c)].

Definition eres_agree (m : eresult) (o : eobs) : bool :=
  match m, o with
  | EOk cmd seed, OCmd cmd' seed' parsed =>
      String.eqb cmd cmd' && opt_eqb N.eqb seed seed'
      && match parsed with
         | None => true
         | Some zs => opt_eqb (list_eqb Z.eqb) (echo_numbers cmd) (Some zs)    (* sampled runtime part *)
         end
  | EIndexError _, OIndexError => true
  | EKeyError k, OKeyError k' => String.eqb k k'
  | _, _ => false
  end.

Definition is_eok (m : eresult) : bool := match m with EOk _ _ => true | _ => false end.

Definition eagree (c : ecase) : bool :=
  match model_ext c, e_impl c with
  | None, None => true
  | Some ms, Some os =>
      if e_first_only c then
        match find (fun m => negb (is_eok m)) ms, os with
        | Some m, [o] => eres_agree m o
        | _, _ => false
        end
      else list_eqb eres_agree ms os
  | _, _ => false
  end.

(** all placeholders of [t] have an input *)
Definition supplied (t : list tok) (args : list value) (kw : dict) : bool :=
  forallb (fun x => match x with
                    | Lit _ => true
                    | Pos n => n <? List.length args
                    | Key k => match lookup k kw with Some _ => true | None => false end
                    end) t.

Definition seed_of (o : eobs) : option N := match o with OCmd _ (Some v) _ => Some v | _ => None end.

(** pairwise distinct seeds among the rows that have one *)
Fixpoint distinct_seeds (os : list eobs) (acc : list N) : bool :=
  match os with
  | [] => true
  | o :: r =>
      match seed_of o with
      | Some v => negb (Seed.mem v acc) && distinct_seeds r (v :: acc)
      | None => distinct_seeds r acc
      end
  end.

(** per row: the seed is the C15 function of (generator stream, row index); the command is the
    per-token substitution. [idx] = row index seen by [prepare_seed]. *)
Definition row_ok (t : list tok) (args : list value) (kw : dict) (rs : option (list N)) (idx : nat) (o : eobs) : bool :=
  match o with
  | OCmd cmd seed _ =>
      opt_eqb N.eqb seed (match rs with Some s => Seed.spec s idx | None => None end)
      && match rs, seed with Some _, None => false | _, _ => true end
      && let kw' := match seed with Some v => dict_set "seed"%string (vint (Z.of_N v)) kw | None => kw end in
         supplied t args kw'
         && String.eqb cmd (String.concat EmptyString
                              (map (fun x => match tok_str x args kw' with FOk s => s | _ => EmptyString end) t))
  | OIndexError => negb (forallb (fun x => match x with Pos n => n <? List.length args | _ => true end) t)
  | OKeyError k =>
      let kw' := match rs with Some _ => dict_set "seed"%string VNone kw | None => kw end in
      existsb (fun x => match x with Key k' => String.eqb k k' | _ => false end) t
      && match lookup k kw' with None => true | Some _ => false end
  end.

Fixpoint rows_ok_from (i : nat) (t : list tok) (calls : list call) (rs : option (list N)) (uses_meta : bool)
         (os : list eobs) : bool :=
  match calls, os with
  | [], [] => true
  | c :: cr, o :: orest =>
      row_ok t (c_args c) (unpack_meta (c_kw c) (c_meta c)) rs
             (if uses_meta then i else sub_index (unpack_meta (c_kw c) (c_meta c))) o
      && rows_ok_from (S i) t cr rs uses_meta orest
  | _, _ => false
  end.

Definition is_some {A} (o : option A) : bool := match o with Some _ => true | None => false end.

(** the property's statement on the implementation's observations: every row is the per-row
    application (spec calls, independent of the loops), and under the [uses_meta] precondition
    (meta dict present, no explicit index_in_batch keyword) the seeds of the rows differ *)
Definition eok (c : ecase) : bool :=
  let cs := consts0 (e_constants c) in
  if e_vectorized c then
    let n := batch_len (e_inputs c) cs (e_batch_size c) in
    match e_impl c with
    | None => mismatch_from 0 (e_inputs c) cs n
    | Some os =>
        let uses_meta := is_some (e_meta c) && negb (is_some (lookup iib (e_kw c))) in
        if e_first_only c then
          (* an exception: some row of the per-row application lacks the input named by it *)
          negb (mismatch_from 0 (e_inputs c) cs n)
          && match os with
             | [o] => negb (is_some (seed_of o)) && negb (match o with OCmd _ _ _ => true | _ => false end)
                      && existsb (fun k => let cl := expected_call (e_inputs c) cs (e_kw c) (e_meta c) k in
                                           row_ok (e_toks c) (c_args cl) (unpack_meta (c_kw cl) (c_meta cl)) (e_rs c) k o)
                                 (seq 0 n)
             | _ => false
             end
        else
        negb (mismatch_from 0 (e_inputs c) cs n)
        && (List.length os =? n)
        && rows_ok_from 0 (e_toks c) (map (expected_call (e_inputs c) cs (e_kw c) (e_meta c)) (seq 0 n))
                        (e_rs c) uses_meta os
        && (if uses_meta then distinct_seeds os [] else true)
    end
  else
    match e_impl c with
    | Some [o] =>
        let kw := unpack_meta (e_kw c) (e_meta c) in
        row_ok (e_toks c) (e_inputs c) kw (e_rs c) (sub_index kw) o
    | _ => false
    end.

Definition agree (c : case) : bool := match c with CVec v => vagree v | CExt e => eagree e end.
Definition ok (c : case) : bool := match c with CVec v => vok v | CExt e => eok e end.

(** ** histories: ONE vectorised callable ([functools.partial(run_vectorized, op, constants=c, dtype=d)]) called several times.
    [run_vectorized] starts with [constants = [] if constants is None else list(constants)]: every call works on a fresh copy of the
    caller's [constants], so nothing that a call appends (auto-detected constants) survives the call and the object held by the partial
    keeps its contents.  A history is therefore a list of independent calls, each judged against ITS OWN inputs and the caller's
    original [constants]; that the caller's object really is unchanged after every call is a python-side clause of the harness
    ([constants_unchanged]) because object identity/mutation has no counterpart in this value model. *)
Definition history := list case.
Definition agree_history (h : history) : bool := forallb agree h.
Definition ok_history (h : history) : bool := forallb ok h.
