(** Model of [elfi.model.tools] (C18): [run_vectorized]/[vectorize], [unpack_meta], [prepare_seed],
    the [str.format] step of [run_external], and (sampled only) the echo/[np.fromstring] round trip.

    Values are symbolic trees: what the harness' recording operation sees.  A numpy array with
    [ndim > 0] is [VArr rows] (a row of a 2-d array is again a [VArr]); everything else (python and
    numpy scalars, 0-d arrays, strings, lists, tuples, None) is a non-array.  The operation that is
    vectorised is uninterpreted: the model returns the list of calls it receives ([call] = the
    positional arguments, the keyword arguments, and the content of the [meta] dict at call time).

    No proofs in this file (Proofs/C18_Vectorize.v). *)
From Coq Require Import List ZArith NArith Arith Bool String Ascii DecimalString.
From Elfi Require Import Num.Seed.
Import ListNotations.

(** ** values *)

Inductive value :=
| VNum (n : Z) (d : positive)      (* exact number n/d (ints have d = 1) *)
| VStr (s : string)
| VNone
| VArr (l : list value)            (* numpy array, ndim > 0: its rows *)
| VSeq (l : list value).           (* any other container (list, tuple, 0-d array, tagged objects) *)

Definition vint (z : Z) : value := VNum z 1.

(** [elfi.utils.is_array]: [hasattr(x, 'shape') and x.ndim > 0] *)
Definition is_array (v : value) : bool := match v with VArr _ => true | _ => false end.

(** [len(x)] / [x[i]] of an array *)
Definition rows (v : value) : list value := match v with VArr l => l | _ => [] end.

Fixpoint value_eqb (a b : value) {struct a} : bool :=
  let fix leq (l m : list value) {struct l} : bool :=
    match l, m with
    | [], [] => true
    | x :: l', y :: m' => value_eqb x y && leq l' m'
    | _, _ => false
    end in
  match a, b with
  | VNum n d, VNum n' d' => Z.eqb n n' && Pos.eqb d d'
  | VStr s, VStr s' => String.eqb s s'
  | VNone, VNone => true
  | VArr l, VArr m => leq l m
  | VSeq l, VSeq m => leq l m
  | _, _ => false
  end.

Fixpoint list_eqb {A B} (e : A -> B -> bool) (l : list A) (m : list B) : bool :=
  match l, m with
  | [], [] => true
  | x :: l', y :: m' => e x y && list_eqb e l' m'
  | _, _ => false
  end.

(** ** python dicts as association lists in insertion order *)

Definition dict := list (string * value).

Fixpoint lookup (k : string) (d : dict) : option value :=
  match d with
  | [] => None
  | (k', v) :: r => if String.eqb k k' then Some v else lookup k r
  end.

(** [d[k] = v] *)
Fixpoint dict_set (k : string) (v : value) (d : dict) : dict :=
  match d with
  | [] => [(k, v)]
  | (k', v') :: r => if String.eqb k k' then (k, v) :: r else (k', v') :: dict_set k v r
  end.

(** [d.update(e)] *)
Definition dict_update (d e : dict) : dict := fold_left (fun acc kv => dict_set (fst kv) (snd kv) acc) e d.

Definition pair_eqb (a b : string * value) : bool := String.eqb (fst a) (fst b) && value_eqb (snd a) (snd b).
Definition dict_eqb (a b : dict) : bool := list_eqb pair_eqb a b.

(** ** run_vectorized *)

Definition memn (i : nat) (l : list nat) : bool := existsb (Nat.eqb i) l.

Definition iib : string := "index_in_batch"%string.

(** one call of the wrapped operation *)
Record call := mkcall {
  c_args : list value;
  c_kw : dict;                 (* keyword arguments other than [meta] *)
  c_meta : option dict         (* content of [kwargs['meta']] when the operation is entered *)
}.

Definition call_eqb (a b : call) : bool :=
  list_eqb value_eqb (c_args a) (c_args b) && dict_eqb (c_kw a) (c_kw b)
  && match c_meta a, c_meta b with
     | None, None => true
     | Some x, Some y => dict_eqb x y
     | _, _ => false
     end.

(** the first loop: "Check input and set constants and batch_size if needed".
    [None] = the ValueError (batch size does not match an input length). *)
Fixpoint scan (i : nat) (inputs : list value) (consts : list nat) (bs : option nat)
  : option (list nat * option nat) :=
  match inputs with
  | [] => Some (consts, bs)
  | x :: r =>
      if memn i consts then scan (S i) r consts bs else
      if is_array x then
        let len := List.length (rows x) in
        match bs with
        | None => scan (S i) r consts (Some len)
        | Some b => if b =? len then scan (S i) r consts bs else None
        end
      else scan (S i) r (consts ++ [i]) bs
  end.

Fixpoint mapi_from {A B} (f : nat -> A -> B) (i : nat) (l : list A) : list B :=
  match l with
  | [] => []
  | x :: r => f i x :: mapi_from f (S i) r
  end.

(** "Prepare inputs for this run" *)
Definition row_args (inputs : list value) (consts : list nat) (k : nat) : list value :=
  mapi_from (fun i x => if memn i consts then x else nth k (rows x) VNone) 0 inputs.

(** [kwargs['meta']['index_in_batch'] = index_in_batch] (in place, when there is a meta dict) *)
Definition set_index (meta : option dict) (k : nat) : option dict :=
  match meta with
  | Some m => Some (dict_set iib (vint (Z.of_nat k)) m)
  | None => None
  end.

(** the second loop; the meta dict is mutated in place, so it is threaded through *)
Fixpoint run_loop (ks : list nat) (inputs : list value) (consts : list nat) (kw : dict) (meta : option dict)
  : list call :=
  match ks with
  | [] => []
  | k :: r =>
      let m := set_index meta k in
      mkcall (row_args inputs consts k) kw m :: run_loop r inputs consts kw m
  end.

Inductive container := ObjArray | Converted.   (* dtype=False: 1-d object array of the raw outputs *)

Inductive vresult :=
| VError                                        (* ValueError: List.length mismatch *)
| VOk (k : container) (calls : list call).

(** [run_vectorized(operation, inputs..., constants, dtype, batch_size, **kwargs)];
    [dtype_false] = ([dtype is False]). [batch_size] is consumed here and not passed on. *)
Definition run_vectorized (inputs : list value) (constants : option (list nat)) (batch_size : option nat)
           (kw : dict) (meta : option dict) (dtype_false : bool) : vresult :=
  let c0 := match constants with None => [] | Some c => c end in
  match scan 0 inputs c0 batch_size with
  | None => VError
  | Some (consts, bs) =>
      let n := match bs with None => 1 | Some b => b end in
      VOk (if dtype_false then ObjArray else Converted) (run_loop (seq 0 n) inputs consts kw meta)
  end.

(** ** specification of per-row application (used by [ok], independent of the loops above) *)

Definition consts0 (constants : option (list nat)) : list nat :=
  match constants with None => [] | Some c => c end.

(** input [j] is treated as a constant: marked, or not an array *)
Definition is_const (cs : list nat) (j : nat) (x : value) : bool := memn j cs || negb (is_array x).

Fixpoint first_len_from (i : nat) (inputs : list value) (cs : list nat) : option nat :=
  match inputs with
  | [] => None
  | x :: r => if is_const cs i x then first_len_from (S i) r cs else Some (List.length (rows x))
  end.

Definition batch_len (inputs : list value) (cs : list nat) (bs : option nat) : nat :=
  match bs with
  | Some b => b
  | None => match first_len_from 0 inputs cs with Some n => n | None => 1 end
  end.

Fixpoint mismatch_from (i : nat) (inputs : list value) (cs : list nat) (n : nat) : bool :=
  match inputs with
  | [] => false
  | x :: r => (negb (is_const cs i x) && negb (List.length (rows x) =? n)) || mismatch_from (S i) r cs n
  end.

Definition expected_args (inputs : list value) (cs : list nat) (k : nat) : list value :=
  mapi_from (fun j x => if is_const cs j x then x else nth k (rows x) VNone) 0 inputs.

Definition expected_call (inputs : list value) (cs : list nat) (kw : dict) (meta : option dict) (k : nat) : call :=
  mkcall (expected_args inputs cs k) kw (set_index meta k).

Fixpoint calls_ok_from (i : nat) (calls : list call) (inputs : list value) (cs : list nat) (kw : dict)
         (meta : option dict) : bool :=
  match calls with
  | [] => true
  | c :: r => call_eqb c (expected_call inputs cs kw meta i) && calls_ok_from (S i) r inputs cs kw meta
  end.

(** ** str.format on the restricted template language *)

Inductive tok := Lit (s : string) | Pos (n : nat) | Key (k : string).

Inductive fresult :=
| FOk (s : string)
| FIndexError (n : nat)       (* positional placeholder without input *)
| FKeyError (k : string).     (* keyword placeholder without input *)

Definition render_Z (z : Z) : string := NilZero.string_of_int (Z.to_int z).

(** [format(v, '')] for the values the harness substitutes (ints and strings) *)
Definition render (v : value) : string :=
  match v with
  | VNum z 1 => render_Z z
  | VStr s => s
  | VNone => "None"%string
  | _ => "<object>"%string
  end.

Definition tok_str (x : tok) (args : list value) (kw : dict) : fresult :=
  match x with
  | Lit s => FOk s
  | Pos n => match nth_error args n with Some v => FOk (render v) | None => FIndexError n end
  | Key k => match lookup k kw with Some v => FOk (render v) | None => FKeyError k end
  end.

(** left to right; the first placeholder without input raises *)
Fixpoint format (t : list tok) (args : list value) (kw : dict) : fresult :=
  match t with
  | [] => FOk EmptyString
  | x :: r =>
      match tok_str x args kw with
      | FOk s => match format r args kw with FOk s' => FOk (String.append s s') | e => e end
      | e => e
      end
  end.

(** ** unpack_meta, prepare_seed, run_external *)

(** [new = meta.copy(); new.update(kwinputs)] *)
Definition unpack_meta (kw : dict) (meta : option dict) : dict :=
  match meta with
  | Some m => dict_update m kw
  | None => kw
  end.

Definition high31 : N := 2147483648.

(** [kwinputs.get('index_in_batch') or 0] (non-negative ints; anything else counts as 0) *)
Definition sub_index (kw : dict) : nat :=
  match lookup iib kw with
  | Some (VNum (Zpos p) 1) => Pos.to_nat p
  | _ => 0
  end.

Inductive sresult :=
| SOk (kw : dict) (seed : option N)
| SExhausted            (* recorded stream prefix too short (harness artefact) *)
| SRejected.            (* index >= 2**31 *)

(** [rs] = [Some s] when a [random_state] keyword is present; [s] is the stream of
    [RandomState(random_state.get_state()[1][0]).randint(2**31, dtype='uint32')] *)
Definition prepare_seed (kw : dict) (rs : option (list N)) : sresult :=
  match rs with
  | None => SOk kw None
  | Some s =>
      match Seed.get_sub_seed (S (List.length s)) s high31 (sub_index kw) None with
      | Answer v _ => SOk (dict_set "seed"%string (vint (Z.of_N v)) kw) (Some v)
      | Rejected => SRejected
      | Exhausted => SExhausted
      end
  end.

Inductive eresult :=
| EOk (cmd : string) (seed : option N)
| EIndexError (n : nat)
| EKeyError (k : string)
| ESeedExhausted
| ESeedRejected.

(** [run_external] up to and including [command.format( *inputs, **kwinputs )] (no [prepare_inputs]) *)
Definition run_external (t : list tok) (args : list value) (kw : dict) (meta : option dict)
           (rs : option (list N)) : eresult :=
  match prepare_seed (unpack_meta kw meta) rs with
  | SOk kw' seed =>
      match format t args kw' with
      | FOk s => EOk s seed
      | FIndexError n => EIndexError n
      | FKeyError k => EKeyError k
      end
  | SExhausted => ESeedExhausted
  | SRejected => ESeedRejected
  end.

(** [vectorize(external_operation(t))]: every call made by [run_vectorized] goes through [run_external]
    with the same [random_state] (the external command cannot advance it) *)
Definition run_vec_ext (t : list tok) (inputs : list value) (constants : option (list nat))
           (batch_size : option nat) (kw : dict) (meta : option dict) (rs : option (list N))
  : option (list eresult) :=
  match run_vectorized inputs constants batch_size kw meta false with
  | VError => None
  | VOk _ calls => Some (map (fun c => run_external t (c_args c) (c_kw c) (c_meta c) rs) calls)
  end.

(** ** the default stdout handler [stdout_to_array] = [np.fromstring(stdout, dtype=dtype, sep=sep)] in text mode, as far as the
    property speaks about it: the standard output is split on the separator and every field is converted to the requested
    element type.  numpy's reading of [sep]: white space in the separator matches zero or more white space characters of the
    text, white space around a field is skipped.  So a separator made of white space only ([" "], tab, ...) splits on runs of
    white space, and any other separator splits on its non-white core (exact substring) with the fields trimmed.
    Outside the model (never generated): an empty field / trailing separator / empty output (numpy returns a filler element
    instead of raising), separators whose characters can be part of a number, white space inside the core of a separator,
    values outside the range of an integer dtype (C cast wraps), non-native byte orders. *)

Definition text := list ascii.
Definition chars (s : string) : text := list_ascii_of_string s.

(** C [isspace]: space, \t \n \v \f \r *)
Definition is_ws (a : ascii) : bool :=
  let n := nat_of_ascii a in (n =? 32) || ((9 <=? n) && (n <=? 13)).

Fixpoint drop_ws (t : text) : text :=
  match t with
  | a :: r => if is_ws a then drop_ws r else t
  | [] => []
  end.

Definition trim (t : text) : text := rev (drop_ws (rev (drop_ws t))).

Fixpoint is_prefix (p t : text) : bool :=
  match p, t with
  | [], _ => true
  | a :: p', b :: t' => Ascii.eqb a b && is_prefix p' t'
  | _ :: _, [] => false
  end.

(** split [t] at every (leftmost, non-overlapping) occurrence of the non-empty [core]; [cur] = the field being read,
    [skip] = characters of a matched separator still to be dropped *)
Fixpoint split_on (core t cur : text) (skip : nat) : list text :=
  match t with
  | [] => [cur]
  | a :: r =>
      match skip with
      | S k => split_on core r cur k
      | O => if is_prefix core t then cur :: split_on core r [] (List.length core - 1)
             else split_on core r (cur ++ [a]) 0
      end
  end.

(** split on runs of white space (no empty fields) *)
Fixpoint ws_fields (t cur : text) : list text :=
  match t with
  | [] => match cur with [] => [] | _ => [cur] end
  | a :: r =>
      if is_ws a then match cur with [] => ws_fields r [] | _ => cur :: ws_fields r [] end
      else ws_fields r (cur ++ [a])
  end.

(** the fields of the standard output [out] for the separator [sep]: no element type is involved *)
Definition fields (sep out : string) : list text :=
  match trim (chars sep) with
  | [] => ws_fields (chars out) []
  | core => map trim (split_on core (chars out) [] 0)
  end.

(** [sep.join(fields)] *)
Fixpoint join (sep : text) (fs : list text) : text :=
  match fs with
  | [] => []
  | [f] => f
  | f :: r => f ++ sep ++ join sep r
  end.

(** element types: what a field may look like and what it becomes.  Values are exact rationals n/d. *)
Inductive ekind := KInt | KUInt | KFloat.
Definition num := (Z * positive)%type.

Definition str (t : text) : string := string_of_list_ascii t.

(** a decimal integer literal with optional minus sign (leading zeros allowed) *)
Definition conv_int (f : text) : option Z := option_map Z.of_int (NilZero.int_of_string (str f)).

(** [-]digits.digits *)
Definition conv_decimal (f : text) : option num :=
  let neg := match f with a :: _ => Ascii.eqb a "-"%char | [] => false end in
  let body := if neg then tl f else f in
  match split_on ["."%char] body [] 0 with
  | [ip; fp] =>
      match NilZero.uint_of_string (str ip), NilZero.uint_of_string (str fp) with
      | Some ui, Some uf =>
          let d := Z.pow 10 (Z.of_nat (List.length fp)) in
          let n := (Z.of_uint ui * d + Z.of_uint uf)%Z in
          Some (if neg then Z.opp n else n, Z.to_pos d)
      | _, _ => None
      end
  | _ => None
  end.

Definition conv (k : ekind) (f : text) : option num :=
  match k with
  | KInt => option_map (fun z => (z, 1%positive)) (conv_int f)
  | KUInt => match conv_int f with
             | Some z => if (0 <=? z)%Z then Some (z, 1%positive) else None
             | None => None
             end
  | KFloat => match conv_int f with
              | Some z => Some (z, 1%positive)
              | None => conv_decimal f
              end
  end.

Fixpoint all_some {A} (l : list (option A)) : option (list A) :=
  match l with
  | [] => Some []
  | Some x :: r => option_map (cons x) (all_some r)
  | None :: _ => None
  end.

(** [None] = ValueError ("string or file could not be read to its end"): some field is not a literal of the element type *)
Definition parse_stdout (k : ekind) (sep out : string) : option (list num) :=
  match fields sep out with
  | [] => None
  | fs => all_some (map (conv k) fs)
  end.

(** the requested type: [process_result] None (default handler, float64) or the canonical name of the dtype given as str / np.dtype *)
Definition kind_of (req : option string) : ekind :=
  match req with
  | None => KFloat
  | Some d => if String.prefix "uint" d then KUInt else if String.prefix "int" d then KInt else KFloat
  end.

Definition result_dtype (req : option string) : string :=
  match req with None => "float64"%string | Some d => d end.

Definition num_eqb (a b : num) : bool := (fst a * Zpos (snd b) =? fst b * Zpos (snd a))%Z.

(** ** /bin/sh echo (runtime behaviour, sampled only): what "echo w1 w2 ..." (unquoted words: joined by one space) or
    "echo '...'" (one single-quoted argument: verbatim) prints *)

Definition NL : string := String (ascii_of_nat 10) EmptyString.
Definition TAB : string := String (ascii_of_nat 9) EmptyString.
Definition cat (l : list string) : string := String.concat EmptyString l.

Definition is_quote (a : ascii) : bool := Ascii.eqb a "'"%char.

Definition echo_stdout (cmd : string) : option string :=
  match ws_fields (chars cmd) [] with
  | w :: _ =>
      if String.eqb (str w) "echo"%string then
        let rest := trim (skipn 4 (drop_ws (chars cmd))) in
        if existsb is_quote rest then
          match rest with
          | q :: r1 =>
              match rev r1 with
              | q' :: inner_rev =>
                  if is_quote q && is_quote q' && negb (existsb is_quote inner_rev)
                  then Some (String.append (str (rev inner_rev)) NL) else None
              | [] => None
              end
          | [] => None
          end
        else Some (String.append (str (join [" "%char] (ws_fields rest []))) NL)
      else None
  | [] => None
  end.

(** ** the last statement of [run_vectorized]: [runs = np.array(runs, dtype=dtype)] (and the object array for dtype=False).
    The operation is uninterpreted, but what it returns carries its KIND: a python bool / int / float / str, or a flat
    list (1-d array) of such.  numpy collects the list of the row outputs into ONE array whose element type is the
    promotion over ALL rows (bool < int64 < float64; strings: the longest length), unless a dtype is requested.
    Not modelled ([KOther], [cast] = None; never generated): numbers and strings in one batch (numpy renders the numbers
    as decimal strings), the binary64 rounding of integers beyond 2^53 (floats are exact rationals here), rows of
    different shapes (numpy raises), nan/inf. *)

Inductive scal := SBool (b : bool) | SInt (z : Z) | SFloat (n : Z) (d : positive) | SStr (s : string).
Inductive skind := KB | KI | KF | KS (len : nat) | KOther.      (* bool_, int64, float64, <U len, anything else *)

Definition kind_of_scal (x : scal) : skind :=
  match x with
  | SBool _ => KB
  | SInt _ => KI
  | SFloat _ _ => KF
  | SStr s => KS (Nat.max 1 (String.length s))       (* numpy: an empty string still takes <U1 *)
  end.

(** numpy's promotion of two element types *)
Definition promote (a b : skind) : skind :=
  match a, b with
  | KOther, _ => KOther
  | _, KOther => KOther
  | KS n, KS m => KS (Nat.max n m)
  | KS _, _ => KOther
  | _, KS _ => KOther
  | KF, _ => KF
  | _, KF => KF
  | KI, _ => KI
  | _, KI => KI
  | KB, KB => KB
  end.

(** promotion over a whole batch; [np.array([])] is float64 *)
Definition promote_all (ks : list skind) : skind :=
  match ks with
  | [] => KF
  | k :: r => fold_left promote r k
  end.

(** [a] can be held by [b] without loss *)
Definition kind_le (a b : skind) : bool :=
  match a, b with
  | _, KOther => true
  | KOther, _ => false
  | KS n, KS m => n <=? m
  | KS _, _ => false
  | _, KS _ => false
  | KB, _ => true
  | KI, KB => false
  | KI, _ => true
  | KF, KF => true
  | KF, _ => false
  end.

Definition is_other (k : skind) : bool := match k with KOther => true | _ => false end.

(** the C cast numpy applies when an element is stored into an array of kind [k] (also the narrowing ones a user may
    request with an explicit dtype: float -> int truncates toward zero, number -> bool is "non-zero", <U n cuts) *)
Definition cast (k : skind) (x : scal) : option scal :=
  match k, x with
  | KB, SBool _ => Some x
  | KB, SInt z => Some (SBool (negb (z =? 0)%Z))
  | KB, SFloat n _ => Some (SBool (negb (n =? 0)%Z))
  | KI, SBool b => Some (SInt (Z.b2z b))
  | KI, SInt _ => Some x
  | KI, SFloat n d => Some (SInt (Z.quot n (Zpos d)))
  | KF, SBool b => Some (SFloat (Z.b2z b) 1)
  | KF, SInt z => Some (SFloat z 1)
  | KF, SFloat _ _ => Some x
  | KS n, SStr s => Some (SStr (substring 0 n s))
  | _, _ => None
  end.

(** [y] is an element of an array of kind [k] *)
Definition has_kind (k : skind) (y : scal) : bool :=
  match k, y with
  | KB, SBool _ => true
  | KI, SInt _ => true
  | KF, SFloat _ _ => true
  | KS n, SStr s => String.length s <=? n
  | _, _ => false
  end.

(** the value an element stands for: an exact rational, or a text *)
Definition same_value (x y : scal) : bool :=
  let den (s : scal) : option num := match s with
                                     | SBool b => Some (Z.b2z b, 1%positive)
                                     | SInt z => Some (z, 1%positive)
                                     | SFloat n d => Some (n, d)
                                     | SStr _ => None
                                     end in
  match x, y with
  | SStr s, SStr t => String.eqb s t
  | _, _ => match den x, den y with Some a, Some b => num_eqb a b | _, _ => false end
  end.

Definition scal_eqb (x y : scal) : bool :=
  match x, y with
  | SBool a, SBool b => Bool.eqb a b
  | SInt a, SInt b => (a =? b)%Z
  | SFloat n d, SFloat n' d' => (n =? n')%Z && Pos.eqb d d'
  | SStr s, SStr t => String.eqb s t
  | _, _ => false
  end.

(** what one call of the operation returned: a scalar or a flat list / 1-d array *)
Inductive oval := OSc (x : scal) | OVec (l : list scal).

Definition elems (v : oval) : list scal := match v with OSc x => [x] | OVec l => l end.
Definition shape_eqb (a b : oval) : bool :=
  match a, b with
  | OSc _, OSc _ => true
  | OVec l, OVec m => List.length l =? List.length m
  | _, _ => false
  end.
Definition oval_eqb (a b : oval) : bool := shape_eqb a b && list_eqb scal_eqb (elems a) (elems b).

Definition cast_oval (k : skind) (v : oval) : option oval :=
  match v with
  | OSc x => option_map OSc (cast k x)
  | OVec l => option_map OVec (all_some (map (cast k) l))
  end.

(** all rows have the shape of the first one (otherwise numpy raises "inhomogeneous shape") *)
Definition homogeneous (outs : list oval) : bool :=
  match outs with
  | [] => true
  | o :: r => forallb (shape_eqb o) r
  end.

(** the kinds of ALL elements of ALL rows *)
Definition kinds (outs : list oval) : list skind := map kind_of_scal (flat_map elems outs).

Definition kind_name (k : skind) : string :=
  match k with
  | KB => "bool"
  | KI => "int64"
  | KF => "float64"
  | KS n => String.append "<U" (NilZero.string_of_uint (Nat.to_uint n))
  | KOther => "other"
  end%string.

(** the [dtype] argument of [vectorize] *)
Inductive dreq :=
| DNone                                   (* default: numpy decides *)
| DFalse                                  (* no conversion: 1-d object array of the outputs *)
| DGiven (k : skind) (name : string).     (* explicit dtype: its kind and numpy's name of it *)

(** the returned array: (dtype name, rows).  [None] = numpy raises / outside the model *)
Definition collect (d : dreq) (outs : list oval) : option (string * list oval) :=
  match d with
  | DFalse => Some ("object"%string, outs)
  | DNone =>
      if homogeneous outs then
        let k := promote_all (kinds outs) in
        option_map (fun r => (kind_name k, r)) (all_some (map (cast_oval k) outs))
      else None
  | DGiven k name =>
      if homogeneous outs then option_map (fun r => (name, r)) (all_some (map (cast_oval k) outs)) else None
  end.

(** the property's statement about the returned array, evaluated on what was observed: "the array whose i-th entry is
    the operation applied to the i-th row" = the row outputs collected as numpy collects a list.
    dtype=False: the entries ARE the outputs (kind included, nothing is converted);
    dtype=None: the element type is the promotion over ALL rows and every entry holds its row's own value (same shape,
    element of the promoted kind, same number / same text: no row is narrowed to another row's type);
    explicit dtype: the requested type, every entry = its own row's output cast to it. *)
Definition row_unchanged (k : skind) (o r : oval) : bool :=
  shape_eqb o r && list_eqb (fun x y => has_kind k y && same_value x y) (elems o) (elems r).

Definition row_cast_to (k : skind) (o r : oval) : bool :=
  match cast_oval k o with Some r' => oval_eqb r' r | None => false end.

Definition typed_ok (d : dreq) (outs : list oval) (ret : string * list oval) : bool :=
  match d with
  | DFalse => String.eqb (fst ret) "object"%string && list_eqb oval_eqb outs (snd ret)
  | DNone =>
      let k := promote_all (kinds outs) in
      String.eqb (fst ret) (kind_name k) && list_eqb (row_unchanged k) outs (snd ret)
  | DGiven k name => String.eqb (fst ret) name && list_eqb (row_cast_to k) outs (snd ret)
  end.

(** typed observation of one call of the vectorised callable *)
Record tobs := {
  t_dtype : dreq;
  t_outs : list oval;                 (* what the operation returned, one entry per call, in call order *)
  t_ret : string * list oval          (* dtype name and rows of the array the vectorised callable returned *)
}.

Definition ret_eqb (a b : string * list oval) : bool := String.eqb (fst a) (fst b) && list_eqb oval_eqb (snd a) (snd b).

(** model = implementation for the collection step *)
Definition typed_agree (t : tobs) : bool :=
  match collect (t_dtype t) (t_outs t) with
  | Some r => ret_eqb r (t_ret t)
  | None => false
  end.

(** ** correspondence-check interface *)

Record vcase := {
  v_inputs : list value;
  v_constants : option (list nat);
  v_batch_size : option nat;
  v_kw : dict;
  v_meta : option dict;
  v_dtype_false : bool;
  v_impl : option (list call);    (* None = ValueError; calls in the order of the returned array's entries *)
  v_impl_obj : bool;              (* the returned array was a 1-d object array *)
  v_typed : option tobs           (* the operation's typed outputs and the returned array's dtype / entries *)
}.

(** what was observed of the stdout handling of one row: the standard output of the command (read by the inspection handler)
    and the row returned by a second run with the handler under test ([None] = that run raised ValueError, for the whole batch) *)
Record pout := mkpout {
  p_stdout : string;
  p_res : option (string * list num)     (* dtype name of the returned array, its entries *)
}.

(** observed outcome of one external call *)
Inductive eobs :=
| OCmd (cmd : string) (seed : option N) (parsed : option pout)   (* executed command, seed kw, stdout + parsed stdout *)
| OIndexError
| OKeyError (k : string).

Record ecase := {
  e_toks : list tok;
  e_inputs : list value;
  e_constants : option (list nat);
  e_batch_size : option nat;
  e_vectorized : bool;            (* through vectorize(...) or a single direct call *)
  e_kw : dict;
  e_meta : option dict;
  e_rs : option (list N);
  e_sep : string;                 (* the [sep] the standard output is to be split on *)
  e_req : option string;          (* requested element type: None = default handler, Some d = dtype given as str / np.dtype (canonical name) *)
  e_first_only : bool;            (* a row raised: the batch was aborted, [e_impl] holds that row's exception only *)
  e_impl : option (list eobs)     (* None = ValueError of vectorize; one entry per row *)
}.

Inductive case := CVec (c : vcase) | CExt (c : ecase).

Definition opt_eqb {A} (e : A -> A -> bool) (a b : option A) : bool :=
  match a, b with
  | None, None => true
  | Some x, Some y => e x y
  | _, _ => false
  end.

Definition vagree (c : vcase) : bool :=
  match run_vectorized (v_inputs c) (v_constants c) (v_batch_size c) (v_kw c) (v_meta c) (v_dtype_false c), v_impl c with
  | VError, None => true
  | VOk k calls, Some icalls =>
      list_eqb call_eqb calls icalls
      && Bool.eqb (v_impl_obj c) (match k with ObjArray => true | Converted => false end)
      && match v_typed c with Some t => typed_agree t | None => true end
  | _, _ => false
  end.

(** the property's statement on the implementation's calls *)
Definition vok (c : vcase) : bool :=
  let cs := consts0 (v_constants c) in
  let n := batch_len (v_inputs c) cs (v_batch_size c) in
  match v_impl c with
  | None => mismatch_from 0 (v_inputs c) cs n
  | Some calls =>
      negb (mismatch_from 0 (v_inputs c) cs n)
      && (List.length calls =? n)
      && calls_ok_from 0 calls (v_inputs c) cs (v_kw c) (v_meta c)
      && (Bool.eqb (v_impl_obj c) (v_dtype_false c))
      && match v_typed c with
         | Some t => (List.length (t_outs t) =? List.length calls) && typed_ok (t_dtype t) (t_outs t) (t_ret t)
         | None => true
         end
  end.

Definition model_ext (c : ecase) : option (list eresult) :=
  if e_vectorized c then
    run_vec_ext (e_toks c) (e_inputs c) (e_constants c) (e_batch_size c) (e_kw c) (e_meta c) (e_rs c)
  else Some [run_external (e_toks c) (e_inputs c) (e_kw c) (e_meta c) (e_rs c)].

(** the returned row is the parse of the standard output [out]: same split for every requested type, the type decides
    what a field may look like and the dtype of the result *)
Definition parse_agree (sep : string) (req : option string) (out : string) (res : option (string * list num)) : bool :=
  match res with
  | Some (dt, vals) =>
      String.eqb dt (result_dtype req)
      && match parse_stdout (kind_of req) sep out with
         | Some vs => list_eqb num_eqb vs vals
         | None => false
         end
  | None => true      (* ValueError of the whole batch: see [parse_fail_ok] *)
  end.

Definition pout_of (o : eobs) : option pout := match o with OCmd _ _ p => p | _ => None end.

(** a ValueError of the run with the default handler is justified by a row whose standard output has a field that is not
    a literal of the requested type *)
Definition parse_fail_ok (sep : string) (req : option string) (os : list eobs) : bool :=
  if existsb (fun o => match pout_of o with Some p => negb (match p_res p with Some _ => true | None => false end) | None => false end) os
  then existsb (fun o => match pout_of o with
                         | Some p => match parse_stdout (kind_of req) sep (p_stdout p) with Some _ => false | None => true end
                         | None => false
                         end) os
  else true.

Definition eres_agree (sep : string) (req : option string) (m : eresult) (o : eobs) : bool :=
  match m, o with
  | EOk cmd seed, OCmd cmd' seed' parsed =>
      String.eqb cmd cmd' && opt_eqb N.eqb seed seed'
      && match parsed with
         | None => true
         | Some p =>                                                        (* sampled runtime part: the shell *)
             match echo_stdout cmd with
             | Some out => String.eqb out (p_stdout p) && parse_agree sep req out (p_res p)
             | None => false
             end
         end
  | EIndexError _, OIndexError => true
  | EKeyError k, OKeyError k' => String.eqb k k'
  | _, _ => false
  end.

Definition is_eok (m : eresult) : bool := match m with EOk _ _ => true | _ => false end.

Definition eagree (c : ecase) : bool :=
  match model_ext c, e_impl c with
  | None, None => true
  | Some ms, Some os =>
      if e_first_only c then
        match find (fun m => negb (is_eok m)) ms, os with
        | Some m, [o] => eres_agree (e_sep c) (e_req c) m o
        | _, _ => false
        end
      else list_eqb (eres_agree (e_sep c) (e_req c)) ms os && parse_fail_ok (e_sep c) (e_req c) os
  | _, _ => false
  end.

(** all placeholders of [t] have an input *)
Definition supplied (t : list tok) (args : list value) (kw : dict) : bool :=
  forallb (fun x => match x with
                    | Lit _ => true
                    | Pos n => n <? List.length args
                    | Key k => match lookup k kw with Some _ => true | None => false end
                    end) t.

Definition seed_of (o : eobs) : option N := match o with OCmd _ (Some v) _ => Some v | _ => None end.

(** pairwise distinct seeds among the rows that have one *)
Fixpoint distinct_seeds (os : list eobs) (acc : list N) : bool :=
  match os with
  | [] => true
  | o :: r =>
      match seed_of o with
      | Some v => negb (Seed.mem v acc) && distinct_seeds r (v :: acc)
      | None => distinct_seeds r acc
      end
  end.

(** per row: the seed is the C15 function of (generator stream, row index); the command is the
    per-token substitution. [idx] = row index seen by [prepare_seed]. *)
Definition row_ok (t : list tok) (args : list value) (kw : dict) (rs : option (list N)) (idx : nat) (o : eobs) : bool :=
  match o with
  | OCmd cmd seed _ =>
      opt_eqb N.eqb seed (match rs with Some s => Seed.spec s idx | None => None end)
      && match rs, seed with Some _, None => false | _, _ => true end
      && let kw' := match seed with Some v => dict_set "seed"%string (vint (Z.of_N v)) kw | None => kw end in
         supplied t args kw'
         && String.eqb cmd (String.concat EmptyString
                              (map (fun x => match tok_str x args kw' with FOk s => s | _ => EmptyString end) t))
  | OIndexError => negb (forallb (fun x => match x with Pos n => n <? List.length args | _ => true end) t)
  | OKeyError k =>
      let kw' := match rs with Some _ => dict_set "seed"%string VNone kw | None => kw end in
      existsb (fun x => match x with Key k' => String.eqb k k' | _ => false end) t
      && match lookup k kw' with None => true | Some _ => false end
  end.

Fixpoint rows_ok_from (i : nat) (t : list tok) (calls : list call) (rs : option (list N)) (uses_meta : bool)
         (os : list eobs) : bool :=
  match calls, os with
  | [], [] => true
  | c :: cr, o :: orest =>
      row_ok t (c_args c) (unpack_meta (c_kw c) (c_meta c)) rs
             (if uses_meta then i else sub_index (unpack_meta (c_kw c) (c_meta c))) o
      && rows_ok_from (S i) t cr rs uses_meta orest
  | _, _ => false
  end.

Definition is_some {A} (o : option A) : bool := match o with Some _ => true | None => false end.

(** the property's statement on the implementation's observations: every row is the per-row
    application (spec calls, independent of the loops), and under the [uses_meta] precondition
    (meta dict present, no explicit index_in_batch keyword) the seeds of the rows differ *)
Definition eok_rows (c : ecase) : bool :=
  let cs := consts0 (e_constants c) in
  if e_vectorized c then
    let n := batch_len (e_inputs c) cs (e_batch_size c) in
    match e_impl c with
    | None => mismatch_from 0 (e_inputs c) cs n
    | Some os =>
        let uses_meta := is_some (e_meta c) && negb (is_some (lookup iib (e_kw c))) in
        if e_first_only c then
          (* an exception: some row of the per-row application lacks the input named by it *)
          negb (mismatch_from 0 (e_inputs c) cs n)
          && match os with
             | [o] => negb (is_some (seed_of o)) && negb (match o with OCmd _ _ _ => true | _ => false end)
                      && existsb (fun k => let cl := expected_call (e_inputs c) cs (e_kw c) (e_meta c) k in
                                           row_ok (e_toks c) (c_args cl) (unpack_meta (c_kw cl) (c_meta cl)) (e_rs c) k o)
                                 (seq 0 n)
             | _ => false
             end
        else
        negb (mismatch_from 0 (e_inputs c) cs n)
        && (List.length os =? n)
        && rows_ok_from 0 (e_toks c) (map (expected_call (e_inputs c) cs (e_kw c) (e_meta c)) (seq 0 n))
                        (e_rs c) uses_meta os
        && (if uses_meta then distinct_seeds os [] else true)
    end
  else
    match e_impl c with
    | Some [o] =>
        let kw := unpack_meta (e_kw c) (e_meta c) in
        row_ok (e_toks c) (e_inputs c) kw (e_rs c) (sub_index kw) o
    | _ => false
    end.

(** "parses its standard output into an array of the requested type": every returned row is the parse of the standard output
    that row's command printed *)
Definition parse_rows_ok (sep : string) (req : option string) (os : list eobs) : bool :=
  forallb (fun o => match pout_of o with Some p => parse_agree sep req (p_stdout p) (p_res p) | None => true end) os
  && parse_fail_ok sep req os.

Definition eok (c : ecase) : bool :=
  eok_rows c && match e_impl c with Some os => parse_rows_ok (e_sep c) (e_req c) os | None => true end.

Definition agree (c : case) : bool := match c with CVec v => vagree v | CExt e => eagree e end.
Definition ok (c : case) : bool := match c with CVec v => vok v | CExt e => eok e end.

(** ** histories: ONE vectorised callable ([functools.partial(run_vectorized, op, constants=c, dtype=d)]) called several times.
    [run_vectorized] starts with [constants = [] if constants is None else list(constants)]: every call works on a fresh copy of the
    caller's [constants], so nothing that a call appends (auto-detected constants) survives the call and the object held by the partial
    keeps its contents.  A history is therefore a list of independent calls, each judged against ITS OWN inputs and the caller's
    original [constants]; that the caller's object really is unchanged after every call is a python-side clause of the harness
    ([constants_unchanged]) because object identity/mutation has no counterpart in this value model. *)
Definition history := list case.
Definition agree_history (h : history) : bool := forallb agree h.
Definition ok_history (h : history) : bool := forallb ok h.
