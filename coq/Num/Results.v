(** Model of the result containers and MCMC diagnostics of ELFI (C16).

    elfi/methods/results.py : Sample.__init__ (samples), n_samples, samples_array, sample_means,
                              sample_means_and_95CIs / sample_quantiles, BolfiSample.__init__
    elfi/methods/utils.py   : weighted_sample_quantile
    elfi/methods/mcmc.py    : gelman_rubin_statistic, eff_sample_size

    Data values are canonical rationals [Qc] (every binary64 is a rational; [Qc] has Leibniz
    equality and a declared field structure, and every operation re-normalises, which keeps the
    terms small under [vm_compute]).  Python dicts are association lists in insertion order with
    unique keys ([dset]).  No proofs in this file.                                               *)
From Coq Require Import String.
From Coq Require Import ZArith QArith Qcanon Qabs Qminmax Bool Arith List.
Import ListNotations.
Local Open Scope Qc_scope.

(** ---------- numbers ---------- *)

Definition qn (n : nat) : Qc := Q2Qc (inject_Z (Z.of_nat n)).
Definition sqr (x : Qc) : Qc := x * x.
Definition sumq (l : list Qc) : Qc := fold_right Qcplus 0 l.
Definition qleb (x y : Qc) : bool := Qle_bool x y.
Definition qltb (x y : Qc) : bool := negb (Qle_bool y x).
Definition qeqb (x y : Qc) : bool := Qc_eq_bool x y.

(** [np.mean] and [np.var(ddof=1)] of a 1-d array *)
Definition mean (l : list Qc) : Qc := sumq l / qn (length l).
Definition var1 (l : list Qc) : Qc :=
  sumq (map (fun x => sqr (x - mean l)) l) / qn (length l - 1).

(** ---------- dicts ---------- *)

Definition dict := list (string * list Qc).

Fixpoint lookup (k : string) (d : dict) : option (list Qc) :=
  match d with
  | [] => None
  | (k', v) :: r => if String.eqb k k' then Some v else lookup k r
  end.

(** [d[k] = v] : replace in place, or append *)
Fixpoint dset (d : dict) (k : string) (v : list Qc) : dict :=
  match d with
  | [] => [(k, v)]
  | (k', v') :: r => if String.eqb k k' then (k', v) :: r else (k', v') :: dset r k v
  end.

Definition mkdict (pairs : list (string * list Qc)) : dict :=
  fold_left (fun d p => dset d (fst p) (snd p)) pairs [].

(** ---------- Sample ---------- *)

(** [Sample.__init__]: [for n in parameter_names: samples[n] = outputs[n]]; [None] = KeyError *)
Fixpoint samples_from (names : list string) (outputs : dict) (acc : dict) : option dict :=
  match names with
  | [] => Some acc
  | n :: r => match lookup n outputs with
              | None => None
              | Some v => samples_from r outputs (dset acc n v)
              end
  end.
Definition samples (names : list string) (outputs : dict) : option dict := samples_from names outputs [].

(** [n_samples = len(outputs[parameter_names[0]])] *)
Definition n_samples (names : list string) (outputs : dict) : option nat :=
  match names with
  | [] => None
  | n :: _ => option_map (@length Qc) (lookup n outputs)
  end.

(** [np.column_stack(cols)] for 1-d columns: row r = (col_0[r], col_1[r], ...).
    [None]: no column, or columns of different lengths (ValueError). *)
Definition rows_of (n : nat) (cols : list (list Qc)) : list (list Qc) :=
  map (fun r => map (fun c => nth r c 0) cols) (seq 0 n).

Definition column_stack (cols : list (list Qc)) : option (list (list Qc)) :=
  match cols with
  | [] => None
  | c0 :: _ => if forallb (fun c => length c =? length c0)%nat cols then Some (rows_of (length c0) cols) else None
  end.

Definition samples_array (names : list string) (outputs : dict) : option (list (list Qc)) :=
  match samples names outputs with
  | None => None
  | Some s => column_stack (map snd s)
  end.

(** [np.average(v, axis=0, weights=w)] ; [None] = exception (shape mismatch / weights sum to zero) *)
Fixpoint map2 (f : Qc -> Qc -> Qc) (a b : list Qc) : list Qc :=
  match a, b with
  | x :: a', y :: b' => f x y :: map2 f a' b'
  | _, _ => []
  end.

Definition wsum (w x : list Qc) : Qc := sumq (map2 Qcmult x w).

Definition average (w : option (list Qc)) (x : list Qc) : option Qc :=
  match w with
  | None => Some (mean x)
  | Some w => if negb (length w =? length x)%nat then None
              else if qeqb (sumq w) 0 then None
              else Some (wsum w x / sumq w)
  end.

Fixpoint opt_all {A} (l : list (option A)) : option (list A) :=
  match l with
  | [] => Some []
  | None :: _ => None
  | Some x :: r => option_map (cons x) (opt_all r)
  end.

Definition sample_means (names : list string) (outputs : dict) (w : option (list Qc)) : option (list (string * Qc)) :=
  match samples names outputs with
  | None => None
  | Some s => opt_all (map (fun kv => option_map (pair (fst kv)) (average w (snd kv))) s)
  end.

(** ---------- weighted_sample_quantile ---------- *)

Fixpoint insert (p : Qc * Qc) (l : list (Qc * Qc)) : list (Qc * Qc) :=
  match l with
  | [] => [p]
  | q :: r => if qleb (fst p) (fst q) then p :: l else q :: insert p r
  end.
(** stable ascending sort by value ([np.argsort]; its tie order is irrelevant for the value returned) *)
Definition isort (l : list (Qc * Qc)) : list (Qc * Qc) := fold_right insert [] l.

Fixpoint cumsum_from (acc : Qc) (l : list Qc) : list Qc :=
  match l with [] => [] | x :: r => (acc + x) :: cumsum_from (acc + x) r end.

(** [cum_weights[-1] = 1.0] on [c_1..c_n] *)
Definition force_last (l : list Qc) : list Qc :=
  match l with [] => [] | _ => removelast l ++ [1] end.

(** first i with [cum[i] < alpha <= cum[i+1]]; [prev] = cum[i] *)
Fixpoint find_q (prev : Qc) (s : list (Qc * Qc)) (cw : list Qc) (alpha : Qc) : option Qc :=
  match s, cw with
  | p :: s', c :: cw' => if qltb prev alpha && qleb alpha c then Some (fst p) else find_q c s' cw' alpha
  | _, _ => None
  end.

(** the definition in use before the order of the checks was aligned with the Python code (and with
    the C13 model [Quantile.wsq_idx]); kept only to state that nothing changed on well-formed
    inputs: [C16_Results.quantile_unchanged_on_wf] *)
Definition quantile_old (x : list Qc) (alpha : Qc) (w : option (list Qc)) : option Qc :=
  let w' := match w with None => repeat 1 (length x) | Some w => w end in
  if negb (length w' =? length x)%nat then None else
  let s := isort (combine x w') in
  if qeqb alpha 0 then option_map fst (hd_error s) else
  let tot := sumq w' in
  find_q 0 s (force_last (cumsum_from 0 (map (fun p => snd p / tot) s))) alpha.

(** in the order of the Python code:
    - [alpha == 0]: [x[index[0]]], the smallest value; the weights are NOT read (no length check;
      IndexError on an empty sample).  The sort key is the value, so the second component of the
      sorted pairs is immaterial here ([x] itself is used);
    - [weights / np.sum(weights)], [weights[index]]: lengths must agree;
    - a zero sum makes every normalised weight nan: [cum = [0, nan, .., nan, 1.0]] has a hit only
      for a one-element sample ([cum = [0, 1.0]]), otherwise IndexError.  ([Qc] has [w / 0 = 0]:
      without this test the scan would select the largest value.) *)
Definition quantile (x : list Qc) (alpha : Qc) (w : option (list Qc)) : option Qc :=
  if qeqb alpha 0 then option_map fst (hd_error (isort (combine x x))) else
  let w' := match w with None => repeat 1 (length x) | Some w => w end in
  if negb (length w' =? length x)%nat then None else
  let s := isort (combine x w') in
  let tot := sumq w' in
  if qeqb tot 0 && negb (length x =? 1)%nat then None else
  find_q 0 s (force_last (cumsum_from 0 (map (fun p => snd p / tot) s))) alpha.

(** ---------- BolfiSample ---------- *)

(** [concatenated.T] for an (n, k) array given as rows *)
Definition cols_of (k : nat) (rows : list (list Qc)) : list (list Qc) :=
  map (fun j => map (fun row => nth j row 0) rows) (seq 0 k).

(** [chains[:, warmup:, :].reshape((-1, k))] *)
Definition bolfi_rows (chains : list (list (list Qc))) (warmup : nat) : list (list Qc) :=
  concat (map (skipn warmup) chains).

(** [outputs = dict(zip(parameter_names, concatenated.T))]; [k] = shape[2] *)
Definition bolfi_outputs (names : list string) (k : nat) (chains : list (list (list Qc))) (warmup : nat) : dict :=
  mkdict (combine names (cols_of k (bolfi_rows chains warmup))).

Definition bolfi_samples_array (names : list string) (k : nat) (chains : list (list (list Qc))) (warmup : nat) :=
  samples_array names (bolfi_outputs names k chains warmup).

(** ---------- gelman_rubin_statistic (split R-hat) ---------- *)

(** [chains[:, :2*n].reshape((2*m, n))] : chain j becomes rows 2j and 2j+1 *)
Definition split2 (n : nat) (c : list Qc) : list (list Qc) := [firstn n c; firstn n (skipn n c)].
Definition split_chains (n : nat) (chains : list (list Qc)) : list (list Qc) := flat_map (split2 n) chains.

Definition var_within (chains : list (list Qc)) : Qc := mean (map var1 chains).
Definition var_between (n : nat) (chains : list (list Qc)) : Qc := qn n * var1 (map mean chains).
Definition var_pooled (n : nat) (w b : Qc) : Qc := ((qn n - 1) * w + b) / qn n.

(** the quantity under the square root *)
Definition rhat2 (chains : list (list Qc)) : Qc :=
  let n := (length (hd [] chains) / 2)%nat in
  let cs := split_chains n chains in
  let w := var_within cs in
  var_pooled n w (var_between n cs) / w.

Section Sqrt.
  Variable sqrt : Qc -> Qc.
  Definition rhat (chains : list (list Qc)) : Qc := sqrt (rhat2 chains).
End Sqrt.

(** ---------- eff_sample_size ---------- *)

(** lag-[l] autocovariance of one chain around its own mean, divided by [n - l]
    (what [irfft(|rfft(x - mean, n_padded)|^2)[l] / (n - l)] computes: the zero padding to
    [n_padded >= 2n] makes the circular correlation the linear one).  FFT = oracle for this sum. *)
Fixpoint dot (a b : list Qc) : Qc :=
  match a, b with
  | x :: a', y :: b' => x * y + dot a' b'
  | _, _ => 0
  end.
Definition autocov (l : nat) (c : list Qc) : Qc :=
  let d := map (fun x => x - mean c) c in
  dot d (skipn l d) / qn (length c - l).

(** multi-chain autocorrelation estimate at lag [l] via the variogram *)
Definition rho (chains : list (list Qc)) (w vp : Qc) (l : nat) : Qc :=
  1 - (w - mean (map (autocov l) chains)) / vp.

(** the [while lag < n_samples] loop: add terms until the first negative one *)
Fixpoint sum_until_neg (ts : list Qc) : Qc :=
  match ts with
  | [] => 0
  | t :: r => if qleb 0 t then t + sum_until_neg r else 0
  end.

Definition ess_parts (chains : list (list Qc)) : nat * nat * Qc * Qc :=
  let m := length chains in
  let n := length (hd [] chains) in
  let b := if (m =? 1)%nat then 0 else var_between n chains in
  let w := var_within chains in
  (m, n, w, var_pooled n w b).

Definition ess_terms (chains : list (list Qc)) : list Qc :=
  let '(m, n, w, vp) := ess_parts chains in
  map (rho chains w vp) (seq 1 (n - 1)).

Definition ess (chains : list (list Qc)) : Qc :=
  let '(m, n, w, vp) := ess_parts chains in
  qn m * qn n / (1 + (1 + 1) * sum_until_neg (ess_terms chains)).

(** ---------- textbook forms (index sums) used by [ok] and the specification theorems ---------- *)

Fixpoint bigsum (n : nat) (f : nat -> Qc) : Qc :=
  match n with O => 0 | S k => bigsum k f + f k end.

(** element i of split chain s: original chain s/2, offset (s mod 2) * n *)
Definition sx (chains : list (list Qc)) (n s i : nat) : Qc :=
  nth ((s mod 2) * n + i) (nth (s / 2) chains []) 0.
Definition sp_mean (x : nat -> nat -> Qc) (n s : nat) : Qc := bigsum n (x s) / qn n.
Definition sp_var (x : nat -> nat -> Qc) (n s : nat) : Qc :=
  bigsum n (fun i => sqr (x s i - sp_mean x n s)) / qn (n - 1).
Definition sp_W (x : nat -> nat -> Qc) (M n : nat) : Qc := bigsum M (sp_var x n) / qn M.
Definition sp_grand (x : nat -> nat -> Qc) (M n : nat) : Qc := bigsum M (sp_mean x n) / qn M.
Definition sp_B (x : nat -> nat -> Qc) (M n : nat) : Qc :=
  qn n * (bigsum M (fun s => sqr (sp_mean x n s - sp_grand x M n)) / qn (M - 1)).
(** BDA3 (11.3)-(11.4): var+ = (n-1)/n W + B/n ;  Rhat^2 = var+ / W, on the 2m half chains *)
Definition sp_rhat2 (chains : list (list Qc)) : Qc :=
  let n := (length (hd [] chains) / 2)%nat in
  let M := (2 * length chains)%nat in
  let x := sx chains n in
  ((qn n - 1) * sp_W x M n + sp_B x M n) / qn n / sp_W x M n.

(** ---------- histories of public-attribute assignments on ONE Sample object ---------- *)

(** The summaries as functions of the object's CURRENT public state only: the [samples] dict and
    the [weights] attribute.  The model keeps nothing else: no value is remembered from the
    constructor or from an earlier call (same inner expressions as [sample_means] /
    [model_quantiles] / [samples_array] above, which apply them to the freshly built dict). *)
Definition means_of (s : dict) (w : option (list Qc)) : option (list (string * Qc)) :=
  opt_all (map (fun kv => option_map (pair (fst kv)) (average w (snd kv))) s).
Definition quantiles_of (s : dict) (w : option (list Qc)) (alpha : Qc) : option (list (string * Qc)) :=
  opt_all (map (fun kv => option_map (pair (fst kv)) (quantile (snd kv) alpha w)) s).
Definition array_of (s : dict) : option (list (list Qc)) := column_stack (map snd s).

(** the attributes of a constructed [Sample] the summaries read *)
Record sobj := { so_names : list string; so_outputs : dict; so_samples : dict; so_weights : option (list Qc) }.

(** [Sample(method, outputs, parameter_names, weights=w)] *)
Definition construct (names : list string) (outputs : dict) (w : option (list Qc)) : option sobj :=
  option_map (fun s => Build_sobj names outputs s w) (samples names outputs).

(** what a caller (or the library: [SMC._extract_population] does [sample.weights = w]) may do to
    the object after construction.  Rebinding the attribute and writing into the stored array are
    the same transition here: the state is the VALUE of the attribute. *)
Inductive op :=
| OSetW (w : option (list Q))          (* obj.weights = w        /  obj.weights[...] = ... *)
| OSetCol (k : string) (v : list Q).   (* obj.samples[k] = v     /  obj.samples[k][...] = ... *)

Definition step (o : sobj) (a : op) : sobj :=
  match a with
  | OSetW w => Build_sobj (so_names o) (so_outputs o) (so_samples o) (option_map (map Q2Qc) w)
  | OSetCol k v => Build_sobj (so_names o) (so_outputs o) (dset (so_samples o) k (map Q2Qc v)) (so_weights o)
  end.
Definition run (o : sobj) (ops : list op) : sobj := fold_left step ops o.

(** the summaries of an object *)
Definition so_n (o : sobj) : option nat := n_samples (so_names o) (so_outputs o).
Definition so_array (o : sobj) := array_of (so_samples o).
Definition so_means (o : sobj) := means_of (so_samples o) (so_weights o).
Definition so_quantiles (o : sobj) (alpha : Qc) := quantiles_of (so_samples o) (so_weights o) alpha.

(** ---------- correspondence interface ---------- *)

Definition cQ (l : list Q) : list Qc := map Q2Qc l.
Definition cD (d : list (string * list Q)) : dict := map (fun kv => (fst kv, cQ (snd kv))) d.

(** |a - b| <= tol * max(1, |b|) *)
Definition close (tol : Q) (a : Qc) (b : Q) : bool :=
  Qle_bool (Qabs (this a - b)%Q) (tol * Qmax 1 (Qabs b))%Q.
Definition closeq (tol : Q) (a b : Q) : bool :=
  Qle_bool (Qabs (a - b)%Q) (tol * Qmax 1 (Qabs b))%Q.

Definition tol_mean : Q := (1 # 1000000000).
Definition tol_diag : Q := (1 # 1000000).

Definition eq_rows (m : list (list Qc)) (i : list (list Q)) : bool :=
  if list_eq_dec (list_eq_dec Qc_eq_dec) m (map cQ i) then true else false.

Definition eq_opt_rows (m : option (list (list Qc))) (i : option (list (list Q))) : bool :=
  match m, i with
  | None, None => true
  | Some a, Some b => eq_rows a b
  | _, _ => false
  end.

(** named values: same keys in the same order, values exact or within tolerance *)
Fixpoint eq_named (exact : bool) (m : list (string * Qc)) (i : list (string * Q)) : bool :=
  match m, i with
  | [], [] => true
  | (k, a) :: m', (k', b) :: i' =>
      String.eqb k k' && (if exact then qeqb a (Q2Qc b) else close tol_mean a b) && eq_named exact m' i'
  | _, _ => false
  end.

Definition eq_opt_named (exact : bool) (m : option (list (string * Qc))) (i : option (list (string * Q))) : bool :=
  match m, i with
  | None, None => true
  | Some a, Some b => eq_named exact a b
  | _, _ => false
  end.

(** one observed quantile query: alpha, and per parameter (in samples order) the value returned *)
Definition qobs := (Q * list (string * Q))%type.

Definition model_quantiles (names : list string) (outputs : dict) (w : option (list Qc)) (alpha : Qc)
  : option (list (string * Qc)) :=
  match samples names outputs with
  | None => None
  | Some s => opt_all (map (fun kv => option_map (pair (fst kv)) (quantile (snd kv) alpha w)) s)
  end.

(** everything observed on one object at one point of its history *)
Record obs := {
  ob_exact : bool;                                 (* binary64 arithmetic is exact on the current data and weights *)
  ob_n : option nat;                               (* n_samples *)
  ob_array : option (list (list Q));               (* samples_array, None = raised *)
  ob_means : option (list (string * Q));           (* sample_means, None = raised *)
  ob_means_more : list (list (string * Q));        (* sample_means_array and the means of sample_means_and_95CIs, keyed *)
  ob_quant : list qobs                             (* sample_quantiles(alpha); the 2.5% / 97.5% ends of sample_means_and_95CIs *)
}.

Inductive case :=
| CSample (names : list string) (outputs : list (string * list Q)) (burn : nat)   (* BslSample: outputs[k][burn_in:] *)
          (weights : option (list Q)) (exact : bool)
          (i_n : option nat)                               (* n_samples *)
          (i_array : option (list (list Q)))               (* samples_array, None = raised *)
          (i_means : option (list (string * Q)))           (* sample_means, None = raised *)
          (i_quant : list qobs)                            (* sample_quantiles(alpha) *)
| CBolfi (names : list string) (k : nat) (chains : list (list (list Q))) (warmup : nat)
         (i_n : option nat) (i_array : option (list (list Q))) (i_means : option (list (string * Q)))
| CDiag (chains : list (list Q))
        (i_rhat i_ess : Q)                                  (* on the chains as given *)
        (a b : Q) (i_rhat_aff i_ess_aff : Q)                (* on a*x+b *)
        (perm : list nat) (i_rhat_perm i_ess_perm : Q)      (* on chains reordered by perm *)
| CHist (names : list string) (outputs : list (string * list Q)) (burn : nat) (weights : option (list Q))
        (steps : list (list op * obs)).                     (* assignments, then everything observed on the SAME object *)

Definition opt_nat_eqb (a b : option nat) : bool :=
  match a, b with None, None => true | Some x, Some y => (x =? y)%nat | _, _ => false end.

Definition burned (burn : nat) (outputs : list (string * list Q)) : dict :=
  map (fun kv => (fst kv, skipn burn (snd kv))) (cD outputs).

(** the constructor raises KeyError when a parameter name has no output: nothing is observable then *)
Definition built (names : list string) (o : dict) : bool :=
  match samples names o with Some _ => true | None => false end.

(** model = implementation at one point of a history: the model's summaries of the CURRENT state *)
Definition obs_agree (o : sobj) (b : obs) : bool :=
  opt_nat_eqb (so_n o) (ob_n b)
  && eq_opt_rows (so_array o) (ob_array b)
  && (match ob_n b with
      | Some O => true
      | _ => eq_opt_named (ob_exact b) (so_means o) (ob_means b)
             && forallb (fun ms => eq_opt_named (ob_exact b) (so_means o) (Some ms)) (ob_means_more b)
      end)
  && forallb (fun q : qobs => eq_opt_named true (so_quantiles o (Q2Qc (fst q))) (Some (snd q))) (ob_quant b).

Definition obs_none (b : obs) : bool :=
  match ob_n b, ob_array b, ob_means b, ob_means_more b, ob_quant b with
  | None, None, None, [], [] => true
  | _, _, _, _, _ => false
  end.

(** walk through a history: apply the assignments of a step, then judge what was observed *)
Fixpoint hist_all (f : sobj -> obs -> bool) (o : sobj) (steps : list (list op * obs)) : bool :=
  match steps with
  | [] => true
  | (ops, b) :: r => let o' := run o ops in f o' b && hist_all f o' r
  end.

Definition agree (c : case) : bool :=
  match c with
  | CSample names outputs burn w exact i_n i_array i_means i_quant =>
      let o := burned burn outputs in
      let w' := option_map cQ w in
      if built names o then
        opt_nat_eqb (n_samples names o) i_n
        && eq_opt_rows (samples_array names o) i_array
        && (match i_n with Some O => true | _ => eq_opt_named exact (sample_means names o w') i_means end)
        && forallb (fun q : qobs => eq_opt_named true (model_quantiles names o w' (Q2Qc (fst q))) (Some (snd q))) i_quant
      else match i_n, i_array, i_means, i_quant with None, None, None, [] => true | _, _, _, _ => false end
  | CBolfi names k chains warmup i_n i_array i_means =>
      let ch := map (map cQ) chains in
      let o := bolfi_outputs names k ch warmup in
      if built names o then
        opt_nat_eqb (n_samples names o) i_n
        && eq_opt_rows (samples_array names o) i_array
        && (match i_n with Some O => true | _ => eq_opt_named false (sample_means names o None) i_means end)
      else match i_n, i_array, i_means with None, None, None => true | _, _, _ => false end
  | CDiag chains i_rhat i_ess a b i_rhat_aff i_ess_aff perm i_rhat_perm i_ess_perm =>
      let ch := map cQ chains in
      close tol_diag (rhat2 ch) (i_rhat * i_rhat)%Q && close tol_diag (ess ch) i_ess
  | CHist names outputs burn w steps =>
      match construct names (burned burn outputs) (option_map cQ w) with
      | Some o => hist_all obs_agree o steps
      | None => forallb (fun st => obs_none (snd st)) steps
      end
  end.

(** ---------- [ok]: the property's own statement, evaluated on the implementation's output ---------- *)

(** column j of the returned array is the stored output of parameter j, row by row *)
Definition array_ok (names : list string) (o : dict) (arr : list (list Q)) : bool :=
  forallb (fun row => (length row =? length names)%nat) arr
  && forallb (fun j =>
       match lookup (nth j names EmptyString) o with
       | None => false
       | Some col => (length col =? length arr)%nat
                     && forallb (fun r => qeqb (nth r col 0) (Q2Qc (nth j (nth r arr []) 0%Q))) (seq 0 (length arr))
       end) (seq 0 (length names)).

(** the reported mean of every parameter is  sum w_i x_i / sum w_i  over the stored column *)
Definition means_ok (exact : bool) (names : list string) (o : dict) (w : option (list Qc)) (ms : list (string * Q)) : bool :=
  (length ms =? length names)%nat
  && forallb (fun j =>
       match lookup (nth j names EmptyString) o, nth_error ms j with
       | Some col, Some (k, v) =>
           String.eqb k (nth j names EmptyString)
           && let w' := match w with None => repeat 1 (length col) | Some w => w end in
              let spec := wsum w' col / sumq w' in
              if exact then qeqb spec (Q2Qc v) else close tol_mean spec v
       | _, _ => false
       end) (seq 0 (length names)).

(** textbook weighted quantile: q is a stored value, W(< q) < alpha <= W(<= q) (normalised), with
    slack [tol_mean] because the code accumulates the weights in binary64 *)
Definition wlt (q : Qc) (x w : list Qc) : Qc := sumq (map2 (fun xi wi => if qltb xi q then wi else 0) x w).
Definition wle (q : Qc) (x w : list Qc) : Qc := sumq (map2 (fun xi wi => if qleb xi q then wi else 0) x w).
Definition quantile_ok (exact : bool) (col : list Qc) (w : list Qc) (alpha : Qc) (q : Qc) : bool :=
  existsb (qeqb q) col
  && (if qeqb alpha 0 then forallb (qleb q) col
      else let tot := sumq w in
           if exact then qltb (wlt q col w / tot) alpha && qleb alpha (wle q col w / tot)
           else Qle_bool (this (wlt q col w / tot)) (this alpha + tol_mean)%Q
                && Qle_bool (this alpha) (this (wle q col w / tot) + tol_mean)%Q).

Definition quants_ok (exact : bool) (names : list string) (o : dict) (w : option (list Qc)) (q : qobs) : bool :=
  (length (snd q) =? length names)%nat
  && forallb (fun j =>
       match lookup (nth j names EmptyString) o, nth_error (snd q) j with
       | Some col, Some (k, v) =>
           String.eqb k (nth j names EmptyString)
           && quantile_ok exact col (match w with None => repeat 1 (length col) | Some w => w end) (Q2Qc (fst q)) (Q2Qc v)
       | _, _ => false
       end) (seq 0 (length names)).

Fixpoint nodupb (l : list string) : bool :=
  match l with [] => true | x :: r => negb (existsb (String.eqb x) r) && nodupb r end.

(** row r of a BOLFI sample = chain r/(N-w), position w + r mod (N-w); n_chains*(N-w) rows *)
Definition bolfi_ok (k : nat) (chains : list (list (list Qc))) (warmup : nat) (i_n : option nat) (arr : list (list Q)) : bool :=
  match i_n with None => false | Some i_n =>
  let N := length (hd [] chains) in
  let L := (N - warmup)%nat in
  (i_n =? length chains * L)%nat && (length arr =? i_n)%nat
  && forallb (fun r =>
       if list_eq_dec Qc_eq_dec (cQ (nth r arr [])) (firstn k (nth (warmup + r mod L) (nth (r / L) chains []) []))
       then true else false) (seq 0 i_n)
  end.

Definition permute {A} (d : A) (perm : list nat) (l : list A) : list A := map (fun i => nth i l d) perm.

(** the property at one point of a history: columns, means and quantiles reported by the
    implementation are those of the samples and weights the object holds NOW *)
Definition obs_ok (o : sobj) (b : obs) : bool :=
  let names := so_names o in
  let s := so_samples o in
  let w := so_weights o in
  match ob_array b with Some arr => array_ok names s arr && opt_nat_eqb (ob_n b) (Some (length arr)) | None => true end
  && match ob_means b with Some ms => means_ok (ob_exact b) names s w ms | None => true end
  && forallb (means_ok (ob_exact b) names s w) (ob_means_more b)
  && forallb (quants_ok (ob_exact b) names s w) (ob_quant b).

Definition ok (c : case) : bool :=
  match c with
  | CSample names outputs burn w exact i_n i_array i_means i_quant =>
      let o := burned burn outputs in
      let w' := option_map cQ w in
      (* only the success path is constrained; names must be distinct for "column j = parameter j" *)
      (if nodupb names then
         match i_array with Some arr => array_ok names o arr && opt_nat_eqb i_n (Some (length arr)) | None => true end
         && match i_means with Some ms => means_ok exact names o w' ms | None => true end
         && forallb (quants_ok exact names o w') i_quant
       else true)
  | CBolfi names k chains warmup i_n i_array i_means =>
      let ch := map (map cQ) chains in
      if nodupb names && (length names =? k)%nat then
        match i_array with
        | Some arr => bolfi_ok k ch warmup i_n arr
                      && match i_means with
                         | Some ms => means_ok false names (combine names (cols_of k (map cQ arr))) None ms
                         | None => opt_nat_eqb i_n (Some O)      (* mean of no rows: nan, not compared *)
                         end
        | None => false
        end
      else true
  | CDiag chains i_rhat i_ess a b i_rhat_aff i_ess_aff perm i_rhat_perm i_ess_perm =>
      let ch := map cQ chains in
      (* textbook value, and invariance of the implementation's own answers *)
      close tol_diag (sp_rhat2 ch) (i_rhat * i_rhat)%Q
      && close tol_diag (ess ch) i_ess        (* [ess] is the formula itself: C16_ess_formula *)
      && closeq tol_diag i_rhat_aff i_rhat && closeq tol_diag i_ess_aff i_ess
      && closeq tol_diag i_rhat_perm i_rhat && closeq tol_diag i_ess_perm i_ess
  | CHist names outputs burn w steps =>
      match construct names (burned burn outputs) (option_map cQ w) with
      | Some o => if nodupb names then hist_all obs_ok o steps else true
      | None => true
      end
  end.
