(** Where Bayesian optimisation may place a simulation (C11, part 1): models of

      elfi/methods/bo/utils.py        minimize          (post-processing: argmin over the start points,
                                                         then per-coordinate np.clip of the winner)
      elfi/methods/bo/acquisition.py  AcquisitionBase.acquire / _add_noise   (np.tile + truncated normal)
                                      MaxVar.acquire / ExpIntVar.acquire     (minimize + np.tile)
                                      UniformAcquisition.acquire
                                      RandMaxVar.acquire: _evaluate_logpdf and the selection from the chain

    over exact rationals.  The inner optimiser (scipy.optimize.minimize), the truncated-normal and
    uniform samplers and sqrt are ORACLES: the optimiser's end points are arbitrary inputs (no
    assumption at all), the samplers are functions with the range hypothesis stated in
    Proofs/C11_Acq.v.  No proofs in this file.                                                       *)
From Coq Require Import List ZArith QArith Qminmax Qabs Bool PrimFloat.
From Coq Require String.
Notation string := String.string.
From Elfi Require Import Num.Mcmc.
Import ListNotations.
Local Open Scope Q_scope.

Definition row := list Q.
Definition box := list (Q * Q).          (* model.bounds: (lower, upper) per parameter *)

(** ---- GPyRegression.__init__: from the user's bounds dict to model.bounds ----

      elif len(bounds) != input_dim: raise ValueError
      elif isinstance(bounds, dict):
          if len(bounds) == 1: bounds = [bounds[n] for n in bounds.keys()]      (parameter_names may be None)
          else:                bounds = [bounds[n] for n in parameter_names]

    The dict is an association list in INSERTION order (what the user wrote); every consumer of
    model.bounds (minimize, _add_noise, UniformAcquisition, RandMaxVar's bounds test, arr2d_to_batch in
    prepare_new_batch) pairs bounds[i] with parameter_names[i].                                         *)
Definition bdict := list (string * (Q * Q)).

Fixpoint lookup (d : bdict) (n : string) : option (Q * Q) :=
  match d with
  | [] => None
  | (k, iv) :: d' => if String.eqb k n then Some iv else lookup d' n
  end.

Fixpoint lookup_all (d : bdict) (names : list string) : option box :=
  match names with
  | [] => Some []
  | n :: r => match lookup d n, lookup_all d r with
              | Some iv, Some b => Some (iv :: b)
              | _, _ => None                     (* KeyError *)
              end
  end.

Definition box_of (names : list string) (d : bdict) : option box :=
  if negb (Nat.eqb (length d) (length names)) then None          (* ValueError *)
  else if Nat.eqb (length d) 1 then Some (map snd d)
  else lookup_all d names.

Definition iv_eqb (x y : Q * Q) : bool := Qeq_bool (fst x) (fst y) && Qeq_bool (snd x) (snd y).

Fixpoint box_eqb (x y : box) : bool :=
  match x, y with
  | [], [] => true
  | a :: x', b :: y' => iv_eqb a b && box_eqb x' y'
  | _, _ => false
  end.

(** np.clip(x, lo, hi) = minimum(maximum(x, lo), hi) *)
Definition clip (lo hi x : Q) : Q := Qmin (Qmax x lo) hi.

Definition in_itv (lohi : Q * Q) (x : Q) : bool := Qle_bool (fst lohi) x && Qle_bool x (snd lohi).

Fixpoint in_box (bs : box) (x : row) : bool :=
  match bs, x with
  | [], [] => true
  | lohi :: bs', xi :: x' => in_itv lohi xi && in_box bs' x'
  | _, _ => false
  end.

(** ---- minimize: "ind_min = np.argmin(vals); locs_out = locs[ind_min]; clip each coordinate" ---- *)

(** np.argmin: index of the FIRST smallest value *)
Fixpoint argmin_from (best : Q) (bi : nat) (i : nat) (vals : list Q) : nat :=
  match vals with
  | [] => bi
  | v :: r => if Qlt_le_dec v best then argmin_from v i (S i) r else argmin_from best bi (S i) r
  end.

Definition argmin (vals : list Q) : nat :=
  match vals with [] => O | v :: r => argmin_from v O 1 r end.

(** for i in range(ndim): locs_out[i] = np.clip(locs_out[i], *bounds[i])   (range(ndim) = the bounds) *)
Fixpoint clip_row (bs : box) (x : row) : row :=
  match bs, x with
  | (lo, hi) :: bs', xi :: x' => clip lo hi xi :: clip_row bs' x'
  | _, _ => x               (* coordinates beyond len(bounds) are left alone (none when shapes agree) *)
  end.

(** [locs]: the end points of the inner optimiser, one per start point; [vals]: their objective values *)
Definition minimize_post (bs : box) (locs : list row) (vals : list Q) : row :=
  clip_row bs (nth (argmin vals) locs []).

(** start points drawn from the prior are clipped column by column before the optimiser sees them *)
Definition clip_starts (bs : box) (starts : list row) : list row := map (clip_row bs) starts.

(** ---- AcquisitionBase._add_noise ---- *)

Inductive noise :=
| NoNoise                       (* noise_var is None *)
| Scalar (v : Q)                (* one variance for every parameter: np.tile(noise_var, input_dim) *)
| PerParam (vs : list Q).       (* dict / list: one variance per parameter *)

Definition noise_vec (dim : nat) (nz : noise) : option (list Q) :=
  match nz with
  | NoNoise => None
  | Scalar v => Some (repeat v dim)
  | PerParam vs => Some vs
  end.

Section Samplers.
  (** sqrtf v                       = np.sqrt(v)
      tn i r a b loc std            = entry r of ss.truncnorm.rvs(a, b, loc=xi, scale=std, size=len(x)) for column i
      uni i r loc scale             = entry (r, i) of ss.uniform(loc, scale).rvs(size=(n, dim))                    *)
  Variable sqrtf : Q -> Q.
  Variable tn : nat -> nat -> Q -> Q -> Q -> Q -> Q.
  Variable uni : nat -> nat -> Q -> Q -> Q.

  (** the truncation points handed to the sampler for one entry (acquisition.py:186-187) *)
  Definition tn_a (lo xi std : Q) : Q := (lo - xi) / std.
  Definition tn_b (hi xi std : Q) : Q := (hi - xi) / std.

  (** one entry of column i, row r *)
  Definition noisy_entry (i r : nat) (lohi : Q * Q) (var xi : Q) : Q :=
    let std := sqrtf var in
    if Qeq_bool std 0 then xi       (* "if std == 0: continue" *)
    else tn i r (tn_a (fst lohi) xi std) (tn_b (snd lohi) xi std) xi std.

  (** one row r: for i in range(input_dim) -- columns are independent of each other *)
  Fixpoint noisy_row (i r : nat) (bs : box) (vars : list Q) (x : row) : row :=
    match bs, vars, x with
    | lohi :: bs', v :: vars', xi :: x' => noisy_entry i r lohi v xi :: noisy_row (S i) r bs' vars' x'
    | _, _, _ => x
    end.

  Fixpoint mapi {A B} (f : nat -> A -> B) (i : nat) (l : list A) : list B :=
    match l with [] => [] | a :: r => f i a :: mapi f (S i) r end.

  Definition add_noise (bs : box) (nz : noise) (xs : list row) : list row :=
    match noise_vec (length bs) nz with
    | None => xs
    | Some vars => mapi (fun r x => noisy_row 0 r bs vars x) 0 xs
    end.

  (** np.tile(xhat, (n, 1)) *)
  Definition tile (n : nat) (x : row) : list row := repeat x n.

  (** AcquisitionBase.acquire (LCBSC and every class that does not override it) *)
  Definition acquire_base (bs : box) (nz : noise) (locs : list row) (vals : list Q) (n : nat) : list row :=
    add_noise bs nz (tile n (minimize_post bs locs vals)).

  (** MaxVar.acquire, ExpIntVar.acquire: minimize, then tile; no noise *)
  Definition acquire_tiled (bs : box) (locs : list row) (vals : list Q) (n : nat) : list row :=
    tile n (minimize_post bs locs vals).

  (** UniformAcquisition.acquire: ss.uniform(lo, hi - lo).rvs(size=(n, dim)) *)
  Definition uniform_row (r : nat) (bs : box) : row :=
    mapi (fun i lohi => uni i r (fst lohi) (snd lohi - fst lohi)) 0 bs.

  Definition acquire_uniform (bs : box) (n : nat) : list row := map (fun r => uniform_row r bs) (seq 0 n).
End Samplers.

(** ---- RandMaxVar: the density handed to the MCMC kernel, and the selection from the chain ---- *)

Inductive lp := NegInf | Fin (v : Q).

(** _evaluate_logpdf(theta): -inf outside the bounds, -inf where the MaxVar value is 0, else its log *)
Definition rmv_logpdf (bs : box) (maxvar : row -> Q) (logf : Q -> Q) (theta : row) : lp :=
  if in_box bs theta then
    (if Qeq_bool (maxvar theta) 0 then NegInf else Fin (logf (maxvar theta)))
  else NegInf.

(** the same function over binary64, in the shape Num/Mcmc.v's [metropolis] takes its target *)
Definition fbox := list (float * float).

Fixpoint in_box_f (bs : fbox) (x : vec) : bool :=
  match bs, x with
  | [], _ => true                 (* "for idx_param, bound in enumerate(gp.bounds)": only len(bounds) coordinates are tested *)
  | (lo, hi) :: bs', xi :: x' => (PrimFloat.leb lo xi && PrimFloat.leb xi hi) && in_box_f bs' x'
  | _ :: _, [] => false
  end.

Definition rmv_logpdf_f (bs : fbox) (maxvar : vec -> float) (logf : float -> float) (theta : vec) : float :=
  if in_box_f bs theta then
    (if PrimFloat.eqb (maxvar theta) 0 then neg_infinity else logf (maxvar theta))
  else neg_infinity.

(** "samples[self._warmup:]" then "permutation(samples)[:n]" (n > 1), or "samples[-1:]" (n = 1):
    the rows of the chain selected by an arbitrary index list (the permutation is an oracle) *)
Definition select {X} (chain : list X) (picks : list nat) : list X :=
  flat_map (fun k => match nth_error chain k with Some x => [x] | None => [] end) picks.

(** ---- correspondence interface ---- *)

Inductive acq_kind :=
| KBase (nz : noise)    (* AcquisitionBase.acquire: LCBSC (and direct calls of minimize: NoNoise, n = 1) *)
| KTiled                (* MaxVar / ExpIntVar *)
| KUniform
| KSampled.             (* RandMaxVar: only the property is evaluated *)

Record case := {
  a_kind : acq_kind;
  a_names : list string;               (* model.parameter_names *)
  a_dict : bdict;                      (* the user's bounds dict, in the key order the user wrote *)
  a_mbounds : box;                     (* model.bounds as the surrogate holds it *)
  a_n : nat;
  a_locs : list row;                   (* what scipy.optimize.minimize returned, per start point *)
  a_vals : list Q;
  a_sqrt : list (Q * Q);               (* np.sqrt calls of _add_noise: (argument, result) *)
  a_tn : list (list Q);                (* truncnorm.rvs results: per column i the n entries ([] if the column was skipped) *)
  a_tn_ab : list (list (Q * Q));       (* the (a, b) arrays handed to truncnorm.rvs, per column *)
  a_uni : list row;                    (* uniform.rvs result, row-major *)
  a_out : list row                     (* what acquire returned *)
}.

(** the user's box: coordinate i carries the interval the dict binds to parameter_names[i] *)
Definition a_bounds (c : case) : box :=
  match box_of (a_names c) (a_dict c) with Some b => b | None => [] end.

Fixpoint assoc_q (t : list (Q * Q)) (x : Q) : Q :=
  match t with [] => 0 | (k, v) :: r => if Qeq_bool k x then v else assoc_q r x end.

Definition tab2 (t : list (list Q)) (i r : nat) : Q := nth r (nth i t []) 0.

Definition row_eqb (x y : row) : bool :=
  Nat.eqb (length x) (length y) && forallb (fun p => Qeq_bool (fst p) (snd p)) (combine x y).

Fixpoint rows_eqb (x y : list row) : bool :=
  match x, y with
  | [], [] => true
  | a :: x', b :: y' => row_eqb a b && rows_eqb x' y'
  | _, _ => false
  end.

Definition close (tol a b : Q) : bool := Qle_bool (Qabs (a - b)) (tol * (1 + Qabs b)).

(** the (a, b) the code computed in binary64 agree with the model's exact quotients *)
Definition ab_ok (c : case) (vars : list Q) (center : row) : bool :=
  let fix go (i : nat) (bs : box) (vars : list Q) (x : row) : bool :=
    match bs, vars, x with
    | lohi :: bs', v :: vars', xi :: x' =>
        let std := assoc_q (a_sqrt c) v in
        (if Qeq_bool std 0 then match nth i (a_tn_ab c) [] with [] => true | _ => false end
         else forallb (fun ab => close (1 # 1000000000) (tn_a (fst lohi) xi std) (fst ab)
                                 && close (1 # 1000000000) (tn_b (snd lohi) xi std) (snd ab))
                      (nth i (a_tn_ab c) [])
              && Nat.eqb (length (nth i (a_tn_ab c) [])) (a_n c))
        && go (S i) bs' vars' x'
    | _, _, _ => true
    end in go O (a_bounds c) vars center.

Definition model_out (c : case) : option (list row) :=
  let sq := assoc_q (a_sqrt c) in
  let tn := fun i r (_ _ _ _ : Q) => tab2 (a_tn c) i r in
  let uni := fun i r (_ _ : Q) => nth i (nth r (a_uni c) []) 0 in
  match a_kind c with
  | KBase nz => Some (acquire_base sq tn (a_bounds c) nz (a_locs c) (a_vals c) (a_n c))
  | KTiled => Some (acquire_tiled (a_bounds c) (a_locs c) (a_vals c) (a_n c))
  | KUniform => Some (acquire_uniform uni (a_bounds c) (a_n c))
  | KSampled => None
  end.

Definition agree (c : case) : bool :=
  match model_out c with
  | None => box_eqb (a_bounds c) (a_mbounds c)
  | Some o =>
      rows_eqb o (a_out c)
      && box_eqb (a_bounds c) (a_mbounds c)        (* model.bounds is the box built from (parameter_names, dict) *)
      && match a_kind c with
         | KBase nz => match noise_vec (length (a_bounds c)) nz with
                       | Some vars => ab_ok c vars (minimize_post (a_bounds c) (a_locs c) (a_vals c))
                       | None => true
                       end
         | _ => true
         end
  end.

(** the property on the implementation's output: exactly n points, each inside the USER's box
    (coordinate i in the interval the user's dict gives for parameter i, whatever the key order) *)
Definition ok (c : case) : bool :=
  match box_of (a_names c) (a_dict c) with Some _ => true | None => false end
  && Nat.eqb (length (a_out c)) (a_n c) && forallb (in_box (a_bounds c)) (a_out c).
