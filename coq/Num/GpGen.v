(** C10 — evaluation of the GENERATED definitions (Gen/C10_Gradient.v, written by
    harness/translate_c10.py from the source text on every run) on the recorded oracle values,
    compared with what the implementation returned.  Definitions only. *)
From Coq Require Import List QArith Qabs Bool Arith.
From Elfi Require Import Num.Gp Gen.C10_Gradient.
Import ListNotations.

(** a library function known at one recorded argument: [k |-> v]; any other argument (a formula
    that asks for a value the harness did not record) yields 0 and the comparison fails *)
Definition tab (k v : Q) (x : Q) : Q := if close x k then v else 0.

Definition gen_ll (t : Q) (o : gp_oracle) : Q :=
  loglikQ (tab (o_var o) (o_sd o)) (tab (o_z o) (o_logcdf o)) t (o_mean o) (o_var o).

Definition gen_grad_coord (t : Q) (o : gp_oracle) (gm gv : Q) : Q :=
  gradQ (tab (o_var o) (o_sd o)) (tab (o_lr o) (o_ratio o))
        (tab (o_z o) (o_pdf o)) (tab (o_z o) (o_cdf o))
        (tab (o_z o) (o_logpdf o)) (tab (o_z o) (o_logcdf o))
        t (o_mean o) (o_var o) gm gv.

Definition gen_ll_row (b : list bound) (t : Q) (r : row) : ext :=
  if within_bounds (r_x r) b then Fin (gen_ll t (r_orc r)) else NegInf.

Definition gen_gradlik_row (b : list bound) (t : Q) (r : row) : list Q :=
  if within_bounds (r_x r) b
  then map2 (gen_grad_coord t (r_orc r)) (o_gmean (r_orc r)) (o_gvar (r_orc r))
  else map (fun _ => 0) (r_x r).

Definition post_agree_gen (c : post_case) : bool :=
  let b := pc_bounds c in let t := pc_t c in
  shaped_all2 ext_obs_close (shape_out (pc_ndim c) (pc_dim c) NegInf (map (gen_ll_row b t) (pc_rows c))) (pc_impl_ll c)
  && shaped_all2 (all2 q_obs_close)
       (shape_out (pc_ndim c) (pc_dim c) [] (map (gen_gradlik_row b t) (pc_rows c))) (pc_impl_gl c).

Definition agree_gen (c : case) : bool :=
  match c with PostCase p => post_agree_gen p | EvCase _ => true end.
