(** Model of the distance nodes of ELFI (C12, first half).

    Anchors: [elfi/model/utils.py: distance_as_discrepancy],
             [elfi/model/elfi_model.py: Distance.__init__] (cdist keyword extraction).

    Arrays are nested lists of exact rationals (every binary64 is a rational).  numpy's shape
    functions are modelled at the level of their documented meaning:
      - [np.column_stack]  : 0-d / 1-d arrays become columns ([array(v, ndmin=2).T]), 2-d arrays are
                             taken as they are, everything is concatenated along axis 1 (all pieces
                             must have the same number of rows, otherwise ValueError = [None]);
      - [np.atleast_2d]    : scalar -> 1x1, vector of length L -> 1xL, matrix unchanged;
      - [np.concatenate(axis=1)] as for column_stack;
      - [cdist(XA, XB, metric, **kw)] : the matrix [metric kw a b] for rows [a] of XA, [b] of XB,
                             ValueError when the widths differ.
    The metric itself is a [Section] variable (scipy is an oracle) in the shape functions; a
    second part gives exact "power form" specifications ([d^p] as a rational) of the metrics the
    correspondence check exercises.  No proofs in this file.                                   *)
From Coq Require Import String.
From Coq Require Import ZArith QArith Qabs List Bool Arith.
Import ListNotations.
Open Scope Q_scope.

(** ** numbers *)

Definition Qn (n : nat) : Q := inject_Z (Z.of_nat n).

(** sum with reduction (keeps vm_compute terms small); equal to the plain fold, see Proofs *)
Definition qsum (l : list Q) : Q := fold_right (fun x acc => Qred (x + acc)) 0 l.

Fixpoint zipw {A B C} (f : A -> B -> C) (a : list A) (b : list B) : list C :=
  match a, b with
  | x :: a', y :: b' => f x y :: zipw f a' b'
  | _, _ => []
  end.

Definition Qsq (x : Q) : Q := x * x.

(** relative closeness used wherever binary64 output meets the exact model *)
Definition tol : Q := 1 # 1000000000.
Definition close (a b : Q) : bool := Qle_bool (Qabs (a - b)) (tol * (Qabs a + Qabs b)).

(** the same with an extra magnitude [s] (for sums with cancellation: the error of a float mean is
    relative to the size of the data, not of the mean) *)
Definition close_at (s a b : Q) : bool := Qle_bool (Qabs (a - b)) (tol * (Qabs a + Qabs b + s)).

Fixpoint all2 {A B} (f : A -> B -> bool) (a : list A) (b : list B) : bool :=
  match a, b with
  | [], [] => true
  | x :: a', y :: b' => f x y && all2 f a' b'
  | _, _ => false
  end.

(** ** arrays and numpy's shape plumbing *)

Definition mat := list (list Q).

Inductive arr :=
| A0 (x : Q)              (* 0-d *)
| A1 (v : list Q)         (* 1-d *)
| A2 (m : mat).           (* 2-d, rows *)

Definition as_cols (a : arr) : mat :=
  match a with A0 x => [[x]] | A1 v => map (fun x => [x]) v | A2 m => m end.

Definition atleast_2d (a : arr) : mat :=
  match a with A0 x => [[x]] | A1 v => [v] | A2 m => m end.

(** concatenate 2-d arrays along axis 1 *)
Definition hcat (ms : list mat) : option mat :=
  match ms with
  | [] => None
  | m0 :: _ =>
      let M := length m0 in
      if forallb (fun m => Nat.eqb (length m) M) ms
      then Some (map (fun i => concat (map (fun m => nth i m []) ms)) (seq 0 M))
      else None
  end.

Definition column_stack (l : list arr) : option mat := hcat (map as_cols l).
Definition observed_2d (l : list arr) : option mat := hcat (map atleast_2d l).

Definition width (m : mat) : nat := match m with [] => 0%nat | r :: _ => length r end.

Section Dist.
  Variables K D : Type.
  Variable metric : K -> list Q -> list Q -> D.

  (** what a distance callable may return: a vector, or a 2-d array (with its shape[1]) *)
  Inductive dres := R1 (v : list D) | R2 (ncol : nat) (rows : list (list D)).
  (** what the node outputs *)
  Inductive dout := D1 (v : list D) | D2 (rows : list (list D)).

  Definition same_width (XA XB : mat) : bool :=
    forallb (fun a => Nat.eqb (length a) (width XB)) XA.

  (** [scipy.spatial.distance.cdist(XA, XB, **kw)] *)
  Definition cdist (kw : K) (XA XB : mat) : option dres :=
    if same_width XA XB
    then Some (R2 (length XB) (map (fun a => map (fun b => metric kw a b) XB) XA))
    else None.

  (** [if d.ndim == 2 and d.shape[1] == 1: d = d.reshape(-1)] *)
  Definition squeeze (d : dres) : dout :=
    match d with
    | R1 v => D1 v
    | R2 ncol rows => if Nat.eqb ncol 1 then D1 (concat rows) else D2 rows
    end.

  (** [distance_as_discrepancy(dist, *summaries, observed)]; [None] = ValueError *)
  Definition distance_as_discrepancy (dist : mat -> mat -> option dres)
             (summaries observed : list arr) : option dout :=
    match column_stack summaries, observed_2d observed with
    | Some s, Some o => option_map squeeze (dist s o)
    | _, _ => None
    end.

  (** the operation of [elfi.Distance(name, *summaries, **kw)] for a string metric *)
  Definition distance_node (kw : K) (summaries observed : list arr) : option dout :=
    distance_as_discrepancy (cdist kw) summaries observed.

  (** [AdaptiveDistance.nested_distance]: [np.column_stack([d(u, v) for d in distance_functions])]
      where every [d] is [cdist(..., metric='euclidean', w=...)], an M x rows(v) array *)
  Definition nested_distance (funcs : list K) (u v : mat) : option dres :=
    if same_width u v
    then Some (R2 (length funcs * length v)
                  (map (fun a => flat_map (fun f => map (fun b => metric f a b) v) funcs) u))
    else None.
End Dist.

Arguments R1 {D}. Arguments R2 {D}. Arguments D1 {D}. Arguments D2 {D}.
Arguments cdist {K D}. Arguments squeeze {D}. Arguments distance_as_discrepancy {D}.
Arguments distance_node {K D}. Arguments nested_distance {K D}.

(** ** Distance.__init__: which keyword arguments reach cdist *)

Section Init.
  Variable V : Type.

  Fixpoint lookup (k : string) (kw : list (string * V)) : option V :=
    match kw with
    | [] => None
    | (k', v) :: r => if String.eqb k k' then Some v else lookup k r
    end.

  Definition cdist_keys : list string := ["p"; "w"; "V"; "VI"]%string.

  Definition mem_str (k : string) (l : list string) : bool := existsb (String.eqb k) l.

  (** [for key in ['p','w','V','VI']: if key in kwargs: cdist_kwargs[key] = kwargs.pop(key)] *)
  Definition extract (kw : list (string * V)) : list (string * V) :=
    flat_map (fun k => match lookup k kw with Some v => [(k, v)] | None => [] end) cdist_keys.

  Definition remaining (kw : list (string * V)) : list (string * V) :=
    filter (fun kv => negb (mem_str (fst kv) cdist_keys)) kw.

  Definition has (k : string) (kw : list (string * V)) : bool :=
    match lookup k kw with Some _ => true | None => false end.

  (** result: (metric name, extracted cdist kwargs, kwargs passed on to Discrepancy); [None] = ValueError *)
  Definition distance_init (distance : string) (kw : list (string * V))
    : option (string * list (string * V) * list (string * V)) :=
    if (String.eqb distance "wminkowski" && negb (has "w" kw))%bool then None
    else if (String.eqb distance "seuclidean" && negb (has "V" kw))%bool then None
    else if (String.eqb distance "mahalanobis" && negb (has "VI" kw))%bool then None
    else Some (distance, extract kw, remaining kw).
End Init.

Arguments lookup {V}. Arguments extract {V}. Arguments remaining {V}. Arguments has {V}.
Arguments distance_init {V}.

(** ** exact specifications of the metrics, in power form (value = d^p, a rational) *)

Inductive mkind :=
| MEuclid (w : option (list Q))            (* sqrt(sum w (u-v)^2), p = 2 *)
| MCity                                    (* sum |u-v|,           p = 1 *)
| MCheb                                    (* max |u-v|,           p = 1 *)
| MMink (p : positive) (w : option (list Q))   (* (sum w |u-v|^p)^(1/p) *)
| MSeuclid (V : list Q)                    (* sqrt(sum (u-v)^2 / V), p = 2 *)
| MOracle (tbl : list (list Q * Q)).       (* values supplied by scipy's pairwise function: u |-> d *)

Definition mpow (k : mkind) : positive :=
  match k with
  | MEuclid _ => 2 | MCity => 1 | MCheb => 1 | MMink p _ => p | MSeuclid _ => 2 | MOracle _ => 1
  end%positive.

Definition weights (w : option (list Q)) (n : nat) : list Q :=
  match w with Some l => l | None => repeat 1 n end.

Definition diffs (u v : list Q) : list Q := zipw Qminus u v.

Definition Qmax (a b : Q) : Q := if Qle_bool a b then b else a.

Fixpoint eq_vec (a b : list Q) : bool :=
  match a, b with
  | [], [] => true
  | x :: a', y :: b' => Qeq_bool x y && eq_vec a' b'
  | _, _ => false
  end.

Fixpoint tbl_lookup (u : list Q) (tbl : list (list Q * Q)) : Q :=
  match tbl with
  | [] => -(1)      (* absent: never close to a distance *)
  | (k, d) :: r => if eq_vec u k then d else tbl_lookup u r
  end.

Definition metric_pow (k : mkind) (u v : list Q) : Q :=
  match k with
  | MEuclid w => qsum (zipw Qmult (weights w (length u)) (map Qsq (diffs u v)))
  | MCity => qsum (map Qabs (diffs u v))
  | MCheb => fold_right Qmax 0 (map Qabs (diffs u v))
  | MMink p w => qsum (zipw Qmult (weights w (length u))
                            (map (fun d => Qred (Qpower_positive (Qabs d) p)) (diffs u v)))
  | MSeuclid V => qsum (zipw Qdiv (map Qsq (diffs u v)) V)
  | MOracle tbl => tbl_lookup u tbl
  end.

(** scipy validates the length of weight / variance vectors against the width (ValueError) *)
Definition kw_ok (k : mkind) (wd : nat) : bool :=
  match k with
  | MEuclid (Some w) | MMink _ (Some w) => Nat.eqb (length w) wd
  | MSeuclid V => Nat.eqb (length V) wd
  | _ => true
  end.

Definition cdist_checked (k : mkind) (XA XB : mat) : option (@dres Q) :=
  if kw_ok k (width XB) then cdist metric_pow k XA XB else None.

(** ** correspondence interface for plain Distance nodes *)

(** the implementation's output (binary64 values as rationals); [None] = ValueError *)
Record dcase := {
  d_kind : mkind;
  d_summaries : list arr;           (* with_values of the parents *)
  d_observed : list arr;            (* observed data of the parents *)
  d_callable : nat;                 (* 0: string metric through cdist; 1: callable returning a vector;
                                       2: callable returning an M x 1 array *)
  d_impl : option (@dout Q)
}.

Definition pw (k : mkind) (x : Q) : Q := Qred (Qpower_positive x (mpow k)).

(** impl value [x] (a distance) against the model's power-form value [y]: x >= 0 and x^p ~ y *)
Definition close_pow (k : mkind) (x y : Q) : bool := Qle_bool 0 x && close (pw k x) y.

Definition close_out (k : mkind) (i m : @dout Q) : bool :=
  match i, m with
  | D1 a, D1 b => all2 (close_pow k) a b
  | D2 a, D2 b => all2 (all2 (close_pow k)) a b
  | _, _ => false
  end.

(** a user callable [dist(X, Y)] that works row-wise against the single observed row *)
Definition callable_dist (k : mkind) (two_d : bool) (X Y : mat) : option (@dres Q) :=
  if same_width X Y then
    let v := map (fun a => metric_pow k a (hd [] Y)) X in
    Some (if two_d then R2 1 (map (fun x => [x]) v) else R1 v)
  else None.

Definition d_model (c : dcase) : option (@dout Q) :=
  match d_callable c with
  | O => distance_as_discrepancy (cdist_checked (d_kind c)) (d_summaries c) (d_observed c)
  | S O => distance_as_discrepancy (callable_dist (d_kind c) false) (d_summaries c) (d_observed c)
  | _ => distance_as_discrepancy (callable_dist (d_kind c) true) (d_summaries c) (d_observed c)
  end.

Definition d_agree (c : dcase) : bool :=
  match d_impl c, d_model c with
  | Some i, Some m => close_out (d_kind c) i m
  | None, None => true
  | _, _ => false
  end.

(** rows of the stacked summaries / the stacked observed row, computed without the model's
    [hcat]: row [i] is the concatenation of the [i]-th rows of the pieces *)
Definition srow (summaries : list arr) (i : nat) : list Q :=
  concat (map (fun a => nth i (as_cols a) []) summaries).
Definition orow (observed : list arr) : list Q :=
  concat (map (fun a => nth 0 (atleast_2d a) []) observed).

Definition well_shaped (M : nat) (summaries observed : list arr) : bool :=
  negb (Nat.eqb (length summaries) 0) && negb (Nat.eqb (length observed) 0)
  && forallb (fun a => Nat.eqb (length (as_cols a)) M) summaries
  && forallb (fun a => Nat.eqb (length (atleast_2d a)) 1) observed
  && forallb (fun i => Nat.eqb (length (srow summaries i)) (length (orow observed))) (seq 0 M).

(** the property's statement on the implementation's output: for well-shaped inputs with [M]
    simulated rows the output is a vector of [M] values, the [i]-th being the metric between
    row [i] of the stacked summaries and the stacked observed row *)
Definition d_ok (c : dcase) : bool :=
  let M := match d_summaries c with [] => 0%nat | a :: _ => length (as_cols a) end in
  if well_shaped M (d_summaries c) (d_observed c) && kw_ok (d_kind c) (length (orow (d_observed c))) then
    match d_impl c with
    | Some (D1 v) =>
        Nat.eqb (length v) M
        && forallb (fun i => close_pow (d_kind c) (nth i v (-(1)))
                                       (metric_pow (d_kind c) (srow (d_summaries c) i) (orow (d_observed c))))
                   (seq 0 M)
    | _ => false
    end
  else true.

(** keyword extraction *)
Record kcase := {
  k_metric : string;
  k_kwargs : list (string * list Q);
  k_impl : option (string * list (string * list Q))   (* metric + the other cdist keywords, in dict order *)
}.

Definition eq_kw (a b : string * list Q) : bool := String.eqb (fst a) (fst b) && eq_vec (snd a) (snd b).

Definition k_agree (c : kcase) : bool :=
  match k_impl c, distance_init (k_metric c) (k_kwargs c) with
  | Some (m, kw), Some (m', kw', _) => String.eqb m m' && all2 eq_kw kw kw'
  | None, None => true
  | _, _ => false
  end.

(** statement: the metric name is passed on; a cdist key is forwarded iff given, with its value;
    nothing else is forwarded *)
Definition k_ok (c : kcase) : bool :=
  match k_impl c with
  | None => (String.eqb (k_metric c) "wminkowski" && negb (has "w" (k_kwargs c)))
            || (String.eqb (k_metric c) "seuclidean" && negb (has "V" (k_kwargs c)))
            || (String.eqb (k_metric c) "mahalanobis" && negb (has "VI" (k_kwargs c)))
  | Some (m, kw) =>
      String.eqb m (k_metric c)
      && forallb (fun kv => mem_str (fst kv) cdist_keys
                            && match lookup (fst kv) (k_kwargs c) with Some v => eq_vec v (snd kv) | None => false end) kw
      && forallb (fun k => match lookup k (k_kwargs c) with
                           | Some v => match lookup k kw with Some v' => eq_vec v v' | None => false end
                           | None => true end) cdist_keys
  end.
