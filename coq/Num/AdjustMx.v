(** C17, matrix-level model (mathcomp) of [LinearAdjustment] in
    /repo/elfi/methods/post_processing.py, over an arbitrary field:

      _input_variables :  X = summaries - observed_summaries         ([regressors])
      _fit1            :  LinearRegression().fit(X, theta): (intercept_, coef_) is a least-squares
                          solution for the design [1 X], i.e. a solution of the normal equations
                          ([is_fit]); which one is the solver's business (oracle)
      _adjust          :  theta - X.dot(coef_)                         ([adjusted])
                          -- only the slope term is subtracted, the intercept is not.
    Definitions only; proofs are in Proofs/C17_AdjustMx.v.                                     *)
From mathcomp Require Import all_ssreflect all_algebra.
Set Implicit Arguments.
Unset Strict Implicit.
Unset Printing Implicit Defensive.
Import GRing.Theory.
Local Open Scope ring_scope.

Section AdjustMx.
Variable F : fieldType.
Variables n k : nat.

(** the column of ones ([fit_intercept=True]) *)
Definition ones : 'cV[F]_n := const_mx 1.

(** design matrix of a regression with intercept *)
Definition design (X : 'M[F]_(n, k)) : 'M[F]_(n, 1 + k) := row_mx ones X.

Definition gram p (D : 'M[F]_(n, p)) : 'M[F]_p := D^T *m D.

(** [beta] solves the normal equations of regressing [y] on the columns of [D] *)
Definition normal_eq p (D : 'M[F]_(n, p)) (y : 'cV[F]_n) (beta : 'cV[F]_p) : Prop :=
  D^T *m (D *m beta) = D^T *m y.

(** (intercept_, coef_) = (b0, b) is a least-squares fit of theta on [1 X] *)
Definition is_fit (X : 'M[F]_(n, k)) (theta : 'cV[F]_n) (b0 : 'M[F]_1) (b : 'cV[F]_k) : Prop :=
  normal_eq (design X) theta (col_mx b0 b).

(** [_input_variables]: summaries (n x k) minus the observed summaries (1 x k), broadcast *)
Definition regressors (S : 'M[F]_(n, k)) (o : 'rV[F]_k) : 'M[F]_(n, k) := S - ones *m o.

(** [_adjust] *)
Definition adjusted (theta : 'cV[F]_n) (X : 'M[F]_(n, k)) (b : 'cV[F]_k) : 'cV[F]_n :=
  theta - X *m b.

(** the change of basis on [1 X] induced by X |-> X A + 1 c *)
Definition affine_block (A : 'M[F]_k) (c : 'rV[F]_k) : 'M[F]_(1 + k) :=
  block_mx 1%:M c 0 A.

End AdjustMx.
