(** Control-flow model of [elfi.methods.mcmc.nuts] / [_build_tree_nuts] (C09).

    The phase space is abstract: [P] positions, [M] momenta, [Sz] signed step sizes, [SV] slice
    variables, [E]/[U] exponential / uniform draws.  Everything numeric is an oracle (Section
    variable): one leapfrog step with its energy tests ([base]), the no-U-turn criterion
    ([uturn_ok]), the comparison of a uniform draw with a ratio of counts ([acc]), the
    direction test ([dir]), the slice variable ([slice]), the step size used in iteration [ii]
    ([eps]: the dual-averaging adaptation is not modelled, the theorems hold for every step-size
    schedule) and [np.isinf(target(params0))] ([tinf]).  What is modelled is the control flow as
    coded: which draws are made and in which order, the recursion (base case / first subtree /
    second subtree only when the first is ok / acceptance draw only when the second subtree
    has [n_sub2 > 0]), how the two subtrees are combined, the doubling loop with its stop
    criteria, the top-level acceptance of a subtree proposal, and the returned slice.          *)
From Coq Require Import List Bool Arith NArith ZArith PrimFloat Uint63.
From Elfi Require Import Num.Mcmc.
Import ListNotations.

Inductive ndraw (M E U : Type) :=
| NM (m : M)      (* random_state.randn( *params0.shape) *)
| NE (e : E)      (* random_state.exponential() *)
| NU (u : U).     (* random_state.rand() *)
Arguments NM {M E U} m.
Arguments NE {M E U} e.
Arguments NU {M E U} u.

(** what one leapfrog step returns: params1, momentum1, [log_slicevar <= log_joint],
    [log_slicevar < 1000 + log_joint], is_out, mh_ratio *)
Record leaf (P M : Type) := {
  l_p : P; l_m : M; l_in : bool; l_ok : bool; l_out : bool; l_mh : float }.
Arguments l_p {P M} l. Arguments l_m {P M} l. Arguments l_in {P M} l.
Arguments l_ok {P M} l. Arguments l_out {P M} l. Arguments l_mh {P M} l.

(** the 11-tuple returned by [_build_tree_nuts] *)
Record tree (P M : Type) := {
  t_pl : P; t_ml : M; t_pr : P; t_mr : M; t_p1 : P;
  t_n : nat;            (* n_sub / n_ok: number of leaves inside the slice *)
  t_ok : bool;          (* sub_ok *)
  t_mh : float; t_steps : nat; t_div : bool; t_out : bool }.
Arguments t_pl {P M} t. Arguments t_ml {P M} t. Arguments t_pr {P M} t. Arguments t_mr {P M} t.
Arguments t_p1 {P M} t. Arguments t_n {P M} t. Arguments t_ok {P M} t. Arguments t_mh {P M} t.
Arguments t_steps {P M} t. Arguments t_div {P M} t. Arguments t_out {P M} t.

Inductive nres (P D : Type) :=
| NBadInit                               (* ValueError: target(params0) is +-inf *)
| NStreamError                           (* recorded stream too short / wrong call order *)
| NChain (l : list P) (rest : list D).   (* samples[1:, :] and the unconsumed draws *)
Arguments NBadInit {P D}. Arguments NStreamError {P D}. Arguments NChain {P D} l rest.

Section Nuts.
  Variables P M Sz SV E U : Type.
  Variable base : Sz -> SV -> P -> M -> leaf P M.
  Variable uturn_ok : P -> M -> P -> M -> bool.   (* both inner products >= 0, args: left, right *)
  Variable sneg : Sz -> bool.                      (* step < 0 *)
  Variable sopp : Sz -> Sz.                         (* -stepsize *)
  Variable acc : U -> nat -> nat -> bool.         (* float(k) / n > u *)
  Variable dir : U -> bool.                       (* u < 0.5, i.e. direction = +1 *)
  Variable slice : P -> M -> E -> SV.             (* target(p) - 0.5 m.m - e *)
  Variable eps : nat -> Sz.                       (* stepsize during iteration ii *)
  Variable tinf : P -> bool.                      (* np.isinf(target(p)) *)

  Notation draw := (ndraw M E U).
  Notation tree := (tree P M).

  (** base case, mcmc.py:323-344 *)
  Definition leaf_tree (l : leaf P M) : tree :=
    {| t_pl := l_p l; t_ml := l_m l; t_pr := l_p l; t_mr := l_m l; t_p1 := l_p l;
       t_n := if l_in l then 1 else 0; t_ok := l_ok l; t_mh := l_mh l; t_steps := 1;
       t_div := negb (l_ok l); t_out := l_out l |}.

  (** mcmc.py:365-376 after both recursive calls; [a] = the proposal of the second subtree
      replaces that of the first *)
  Definition combine (neg : bool) (t1 t2 : tree) (a : bool) : tree :=
    let pl := if neg then t_pl t2 else t_pl t1 in
    let ml := if neg then t_ml t2 else t_ml t1 in
    let pr := if neg then t_pr t1 else t_pr t2 in
    let mr := if neg then t_mr t1 else t_mr t2 in
    {| t_pl := pl; t_ml := ml; t_pr := pr; t_mr := mr;
       t_p1 := if a then t_p1 t2 else t_p1 t1;
       t_n := t_n t1 + t_n t2;
       t_ok := t_ok t2 && uturn_ok pl ml pr mr;
       t_mh := (t_mh t1 + t_mh t2)%float;
       t_steps := t_steps t1 + t_steps t2;
       t_div := t_div t2; t_out := t_out t2 |}.

  (** [if k > 0: if float(k) / n > random_state.rand()] - the draw is made only when k > 0 *)
  Definition draw_if_pos (k n : nat) (st : list draw) : option (bool * list draw) :=
    if 0 <? k then
      match st with NU u :: r => Some (acc u k n, r) | _ => None end
    else Some (false, st).

  Fixpoint build (d : nat) (s : Sz) (sv : SV) (p : P) (m : M) (st : list draw)
    : option (tree * list draw) :=
    match d with
    | O => Some (leaf_tree (base s sv p m), st)
    | S d' =>
        match build d' s sv p m st with
        | None => None
        | Some (t1, st1) =>
            if t_ok t1 then
              let neg := sneg s in
              match build d' s sv (if neg then t_pl t1 else t_pr t1)
                          (if neg then t_ml t1 else t_mr t1) st1 with
              | None => None
              | Some (t2, st2) =>
                  match draw_if_pos (t_n t2) (t_n t1 + t_n t2) st2 with
                  | None => None
                  | Some (a, st3) => Some (combine neg t1 t2 a, st3)
                  end
              end
            else Some (t1, st1)
        end
    end.

  (** [if sub_ok == 1: if random_state.rand() < float(n_sub) / n_ok] - drawn whenever sub_ok *)
  Definition draw_if_ok (ok : bool) (k n : nat) (st : list draw) : option (bool * list draw) :=
    if ok then
      match st with NU u :: r => Some (acc u k n, r) | _ => None end
    else Some (false, st).

  (** the [while all_ok and depth <= max_depth] loop; entered with [all_ok = True],
      [fuel = max_depth + 1 - depth] *)
  Fixpoint dloop (fuel depth : nat) (s : Sz) (sv : SV) (cur pl : P) (ml : M) (pr : P) (mr : M)
           (nok : nat) (st : list draw) : option (P * list draw) :=
    match fuel with
    | O => Some (cur, st)
    | S f =>
        match st with
        | NU ud :: st1 =>
            let neg := negb (dir ud) in
            match build depth (if neg then sopp s else s) sv
                        (if neg then pl else pr) (if neg then ml else mr) st1 with
            | None => None
            | Some (t, st2) =>
                let pl' := if neg then t_pl t else pl in
                let ml' := if neg then t_ml t else ml in
                let pr' := if neg then pr else t_pr t in
                let mr' := if neg then mr else t_mr t in
                match draw_if_ok (t_ok t) (t_n t) nok st2 with
                | None => None
                | Some (a, st3) =>
                    let cur' := if a then t_p1 t else cur in
                    if t_ok t && uturn_ok pl' ml' pr' mr'
                    then dloop f (S depth) s sv cur' pl' ml' pr' mr' (nok + t_n t) st3
                    else Some (cur', st3)
                end
            end
        | _ => None
        end
    end.

  (** one iteration of [for ii in range(1, n_iter + 1)] *)
  Definition iter (max_depth ii : nat) (prev : P) (st : list draw) : option (P * list draw) :=
    match st with
    | NM m0 :: NE e :: st1 =>
        dloop (S max_depth) 0 (eps ii) (slice prev m0 e) prev prev m0 prev m0 1 st1
    | _ => None
    end.

  Fixpoint iters (max_depth k ii : nat) (prev : P) (st : list draw) : option (list P * list draw) :=
    match k with
    | O => Some ([], st)
    | S k' =>
        match iter max_depth ii prev st with
        | None => None
        | Some (x, st') =>
            match iters max_depth k' (S ii) x st' with
            | None => None
            | Some (l, st'') => Some (x :: l, st'')
            end
        end
    end.

  (** the initial step-size search draws one momentum per try; the number of tries is an input *)
  Fixpoint skip_init (k : nat) (st : list draw) : option (list draw) :=
    match k with
    | O => Some st
    | S k' => match st with NM _ :: r => skip_init k' r | _ => None end
    end.

  Definition nuts (n_iter max_depth n_init : nat) (p0 : P) (st : list draw) : nres P draw :=
    if tinf p0 then NBadInit else
    match skip_init n_init st with
    | None => NStreamError
    | Some st0 =>
        match iters max_depth n_iter 1 p0 st0 with
        | None => NStreamError
        | Some (l, rest) => NChain l rest
        end
    end.
End Nuts.

(** ---- correspondence-check interface: positions, momenta, step sizes, slice variables and
    exponential draws are interned by the harness (equal bytes = equal id, ids start at 1);
    uniforms are binary64 values and [acc]/[dir] are computed bit-exactly ---- *)

Definition of_nat (n : nat) : float := of_uint63 (Uint63.of_Z (Z.of_nat n)).
Definition acc_f (u : float) (k n : nat) : bool := (u <? of_nat k / of_nat n)%float.
Definition dir_f (u : float) : bool := (u <? 0x1p-1)%float.

Definition step_t := (N * bool)%type.      (* (id of |stepsize|, step < 0) *)

Definition idraw := ndraw N N float.
Definition itree := tree N N.
Definition ileaf := leaf N N.

Definition key5_eqb (a b : N * bool * N * N * N) : bool :=
  let '(a1, a2, a3, a4, a5) := a in let '(b1, b2, b3, b4, b5) := b in
  N.eqb a1 b1 && Bool.eqb a2 b2 && N.eqb a3 b3 && N.eqb a4 b4 && N.eqb a5 b5.

Definition missing_leaf : ileaf :=
  {| l_p := 0%N; l_m := 0%N; l_in := false; l_ok := false; l_out := false; l_mh := nan |}.

Fixpoint lookup_base (tbl : list ((N * bool * N * N * N) * ileaf)) (k : N * bool * N * N * N) : ileaf :=
  match tbl with
  | [] => missing_leaf
  | (k', v) :: r => if key5_eqb k' k then v else lookup_base r k
  end.

Definition key4_eqb (a b : N * N * N * N) : bool :=
  let '(a1, a2, a3, a4) := a in let '(b1, b2, b3, b4) := b in
  N.eqb a1 b1 && N.eqb a2 b2 && N.eqb a3 b3 && N.eqb a4 b4.

Fixpoint lookup_uturn (tbl : list ((N * N * N * N) * bool)) (k : N * N * N * N) : bool :=
  match tbl with
  | [] => false
  | (k', v) :: r => if key4_eqb k' k then v else lookup_uturn r k
  end.

Definition key3_eqb (a b : N * N * N) : bool :=
  let '(a1, a2, a3) := a in let '(b1, b2, b3) := b in N.eqb a1 b1 && N.eqb a2 b2 && N.eqb a3 b3.

Fixpoint lookup_slice (tbl : list ((N * N * N) * N)) (k : N * N * N) : N :=
  match tbl with
  | [] => 0%N
  | (k', v) :: r => if key3_eqb k' k then v else lookup_slice r k
  end.

Fixpoint lookup_good (tbl : list (N * bool)) (k : N) : bool :=
  match tbl with
  | [] => false
  | (k', v) :: r => if N.eqb k' k then v else lookup_good r k
  end.

Inductive nimpl :=
| NIBadInit
| NIChain (l : list N).

(** one logged internal node ([depth > 0]) of the real recursion *)
Record node := {
  nd_neg : bool;                 (* step < 0 *)
  nd_t1 : itree;                 (* what the first recursive call returned *)
  nd_t2 : option itree;          (* what the second recursive call returned, if it was made *)
  nd_u : option float;           (* the rand() drawn between the second call and the return *)
  nd_res : itree                 (* what this call returned *)
}.

Record ncase := {
  nc_iter : nat;
  nc_maxdepth : nat;
  nc_ninit : nat;                                       (* momentum draws before the first iteration *)
  nc_p0 : N;
  nc_tinf : bool;                                       (* np.isinf(target(params0)) *)
  nc_stream : list idraw;
  nc_base : list ((N * bool * N * N * N) * ileaf);      (* (|step| id, step<0, slice id, params id, momentum id) *)
  nc_uturn : list ((N * N * N * N) * bool);             (* criterion recomputed by the harness *)
  nc_slice : list ((N * N * N) * N);                    (* (prev id, momentum id, exponential id) -> slice id *)
  nc_eps : list N;                                      (* |stepsize| id per iteration *)
  nc_good : list (N * bool);                            (* params id -> target is neither -inf nor nan *)
  nc_svok : list (N * bool);                            (* slice id -> log_slicevar is neither -inf nor nan *)
  nc_leaves : list itree;                               (* every depth-0 return value *)
  nc_nodes : list node;
  nc_impl : nimpl
}.

Fixpoint ids_eqb (a b : list N) : bool :=
  match a, b with
  | [], [] => true
  | x :: a', y :: b' => N.eqb x y && ids_eqb a' b'
  | _, _ => false
  end.

Definition tree_eqb (a b : itree) : bool :=
  N.eqb (t_pl a) (t_pl b) && N.eqb (t_ml a) (t_ml b) && N.eqb (t_pr a) (t_pr b)
  && N.eqb (t_mr a) (t_mr b) && N.eqb (t_p1 a) (t_p1 b) && (t_n a =? t_n b)
  && Bool.eqb (t_ok a) (t_ok b) && feqb (t_mh a) (t_mh b) && (t_steps a =? t_steps b)
  && Bool.eqb (t_div a) (t_div b) && Bool.eqb (t_out a) (t_out b).

Definition uturn_of (c : ncase) (pl ml pr mr : N) : bool := lookup_uturn (nc_uturn c) (pl, ml, pr, mr).

Definition nuts_of (c : ncase) : nres N idraw :=
  nuts N N step_t N N float
       (fun s sv p m => lookup_base (nc_base c) (fst s, snd s, sv, p, m))
       (uturn_of c)
       snd (fun s => (fst s, negb (snd s)))
       acc_f dir_f
       (fun p m e => lookup_slice (nc_slice c) (p, m, e))
       (fun ii => (nth (ii - 1) (nc_eps c) 0%N, false))
       (fun _ => nc_tinf c)
       (nc_iter c) (nc_maxdepth c) (nc_ninit c) (nc_p0 c) (nc_stream c).

(** the model's combine step replayed on one logged internal node *)
Definition node_agree (c : ncase) (nd : node) : bool :=
  let t1 := nd_t1 nd in
  if t_ok t1 then
    match nd_t2 nd with
    | None => false
    | Some t2 =>
        let a := if 0 <? t_n t2
                 then match nd_u nd with Some u => Some (acc_f u (t_n t2) (t_n t1 + t_n t2)) | None => None end
                 else match nd_u nd with None => Some false | Some _ => None end in
        match a with
        | None => false
        | Some a => tree_eqb (combine N N (uturn_of c) (nd_neg nd) t1 t2 a) (nd_res nd)
        end
    end
  else match nd_t2 nd, nd_u nd with
       | None, None => tree_eqb t1 (nd_res nd)
       | _, _ => false
       end.

(** a depth-0 return value has the shape of [leaf_tree] *)
Definition leaf_shape (t : itree) : bool :=
  N.eqb (t_pl t) (t_p1 t) && N.eqb (t_pr t) (t_p1 t) && N.eqb (t_ml t) (t_mr t)
  && (t_n t <=? 1) && (t_steps t =? 1) && Bool.eqb (t_div t) (negb (t_ok t))
  && (negb (t_out t) || negb (t_ok t)).

Definition nagree (c : ncase) : bool :=
  match nuts_of c, nc_impl c with
  | NBadInit, NIBadInit => true
  | NChain l [], NIChain l' => ids_eqb l l'
  | _, _ => false
  end
  && forallb (node_agree c) (nc_nodes c)
  && forallb leaf_shape (nc_leaves c).

(** support invariant on one returned tree: a selectable proposal has a good target *)
Definition tree_inv_b (c : ncase) (t : itree) : bool :=
  negb (0 <? t_n t) || lookup_good (nc_good c) (t_p1 t).

(** the property on the implementation's output: the logged run is a run of the algorithm (the
    chain is the replayed chain, every internal node combined its subtrees as Algorithm 6 says:
    [nagree]); [n_iter] states; from a good start and with
    slice variables that are not -inf, every returned state and every selectable subtree
    proposal has a target that is neither -inf nor nan *)
Definition nok (c : ncase) : bool :=
  nagree c &&
  match nc_impl c with
  | NIBadInit => nc_tinf c
  | NIChain l =>
      negb (nc_tinf c) && (length l =? nc_iter c)
      && (negb (lookup_good (nc_good c) (nc_p0 c))
          || negb (forallb snd (nc_svok c))
          || (forallb (lookup_good (nc_good c)) l
              && forallb (tree_inv_b c) (nc_leaves c)
              && forallb (fun nd => tree_inv_b c (nd_res nd)) (nc_nodes c)))
  end.

(** ---- one case type for the whole property ---- *)
Inductive c09case :=
| CMet (c : Mcmc.case)
| CNuts (c : ncase).

Definition agree (c : c09case) : bool :=
  match c with CMet m => Mcmc.agree m | CNuts n => nagree n end.

Definition ok (c : c09case) : bool :=
  match c with CMet m => Mcmc.ok m | CNuts n => nok n end.

(** ---- histories of calls in ONE process (wave 3) ----------------------------------------------
    A process makes several [nuts()] / [metropolis()] calls one after the other: on the same target
    callable or on different ones, with equal or different starts, seeds and settings, with a given
    step size or a searched one.  The property says each chain is a function of its own arguments
    and seed.  In the model that is the absence of any state between calls: the module has no
    mutable global, the generator is built from the seed inside the call.  It is made explicit here
    by threading through the calls the most a process could remember (every earlier call with its
    result, [pstate]) and NOT reading it. *)

Inductive mres :=
| MRMet (r : Mcmc.result)
| MRNuts (r : nres N idraw).

(** the model's answer to one call: a function of the call's own arguments, stream and oracles *)
Definition model_result (c : c09case) : mres :=
  match c with CMet m => MRMet (Mcmc.model_of m) | CNuts n => MRNuts (nuts_of n) end.

Definition pstate := list (c09case * mres).

(** one call in a process that has been through [prev]: the result is that of the call alone *)
Definition call_in (prev : pstate) (c : c09case) : mres * pstate :=
  let r := model_result c in (r, prev ++ [(c, r)]).

Fixpoint history_results (prev : pstate) (h : list c09case) : list mres :=
  match h with
  | [] => []
  | c :: r => let '(res, st) := call_in prev c in res :: history_results st r
  end.

(** [r] is what the call recorded in [c] returned (bit for bit / id for id) *)
Definition result_agrees (r : mres) (c : c09case) : bool :=
  match r, c with
  | MRMet m, CMet k => res_eqb m (c_impl k)
  | MRNuts NBadInit, CNuts k => match nc_impl k with NIBadInit => true | _ => false end
  | MRNuts (NChain l []), CNuts k => match nc_impl k with NIChain l' => ids_eqb l l' | _ => false end
  | _, _ => false
  end.

(** the call's inputs: the record with the observed result erased *)
Definition inputs (c : c09case) : c09case :=
  match c with
  | CMet m => CMet {| c_n := c_n m; c_warmup := c_warmup m; c_start := c_start m; c_sigma_in := c_sigma_in m;
                      c_stream := c_stream m; c_target := c_target m; c_exp := c_exp m;
                      c_out_f64 := true; c_impl := IBadInit |}
  | CNuts n => CNuts {| nc_iter := nc_iter n; nc_maxdepth := nc_maxdepth n; nc_ninit := nc_ninit n; nc_p0 := nc_p0 n;
                        nc_tinf := nc_tinf n; nc_stream := nc_stream n; nc_base := nc_base n; nc_uturn := nc_uturn n;
                        nc_slice := nc_slice n; nc_eps := nc_eps n; nc_good := []; nc_svok := [];
                        nc_leaves := []; nc_nodes := []; nc_impl := NIBadInit |}
  end.

(** one call of a history, recorded twice with one interning of positions / momenta / step sizes:
    [hc_fresh] = the call made as the only call ever (a new image of the module, new callables, new
    argument objects): its arguments, the generator draws it made, its oracle tables, its result;
    [hc_here] = the same call where it stands in the history (shared callables and objects, the
    module as the earlier calls left it): what it drew, evaluated and returned there. *)
Record hcall := { hc_fresh : c09case; hc_here : c09case }.

Definition draw_eqb (a b : Mcmc.draw) : bool :=
  match a, b with
  | DN x, DN y => veqb x y
  | DU x, DU y => feqb x y
  | _, _ => false
  end.

Definition idraw_eqb (a b : idraw) : bool :=
  match a, b with
  | NM x, NM y => N.eqb x y
  | NE x, NE y => N.eqb x y
  | NU x, NU y => feqb x y
  | _, _ => false
  end.

Fixpoint list_eqb {A} (e : A -> A -> bool) (a b : list A) : bool :=
  match a, b with
  | [], [] => true
  | x :: a', y :: b' => e x y && list_eqb e a' b'
  | _, _ => false
  end.

Definition num_eqb (a b : num) : bool :=
  match a, b with
  | NF x, NF y => feqb x y
  | NI x, NI y => Z.eqb x y
  | _, _ => false
  end.

(** same arguments *)
Definition same_args (a b : c09case) : bool :=
  match a, b with
  | CMet x, CMet y =>
      (c_n x =? c_n y) && (c_warmup x =? c_warmup y) && list_eqb num_eqb (c_start x) (c_start y)
      && list_eqb num_eqb (c_sigma_in x) (c_sigma_in y)
  | CNuts x, CNuts y =>
      (nc_iter x =? nc_iter y) && (nc_maxdepth x =? nc_maxdepth y) && N.eqb (nc_p0 x) (nc_p0 y)
  | _, _ => false
  end.

(** the call drew the same numbers from its generator, in the same order, and saw the same
    oracle values (Metropolis: target and exp at the same points in the same order; NUTS: as many
    momentum draws in the initial step-size search, the same step size in every iteration) *)
Definition same_draws (a b : c09case) : bool :=
  match a, b with
  | CMet x, CMet y =>
      list_eqb draw_eqb (c_stream x) (c_stream y)
      && list_eqb (fun p q => veqb (fst p) (fst q) && feqb (snd p) (snd q)) (c_target x) (c_target y)
      && list_eqb (fun p q => feqb (fst p) (fst q) && feqb (snd p) (snd q)) (c_exp x) (c_exp y)
  | CNuts x, CNuts y =>
      list_eqb idraw_eqb (nc_stream x) (nc_stream y) && (nc_ninit x =? nc_ninit y)
      && ids_eqb (nc_eps x) (nc_eps y) && Bool.eqb (nc_tinf x) (nc_tinf y)
  | _, _ => false
  end.

Fixpoint all2 {A B} (f : A -> B -> bool) (l : list A) (m : list B) : bool :=
  match l, m with
  | [], [] => true
  | a :: l', b :: m' => f a b && all2 f l' m'
  | _, _ => false
  end.

(** the history corresponds to the model: the result of every call where it stands is the model's
    result for that call's fresh record (computed through [history_results], i.e. after the earlier
    calls), and both records of every call are runs of the model on their own *)
Definition hagree (h : list hcall) : bool :=
  all2 result_agrees (history_results [] (map hc_fresh h)) (map hc_here h)
  && forallb (fun c => agree (hc_fresh c) && agree (hc_here c)) h.

(** the property on a history: every call, alone and where it stands, satisfies the single-call
    property; where it stands it has the arguments of, drew exactly what, and returned exactly what
    the call alone did *)
Definition hok (h : list hcall) : bool :=
  hagree h
  && forallb (fun c => ok (hc_fresh c) && ok (hc_here c)
                       && same_args (hc_fresh c) (hc_here c) && same_draws (hc_fresh c) (hc_here c)) h.

(** ---- the case type of the check: one call, or a history of calls ---- *)
Inductive c09top :=
| Single (c : c09case)
| History (h : list hcall).

Definition agree_t (c : c09top) : bool :=
  match c with Single s => agree s | History h => hagree h end.

Definition ok_t (c : c09top) : bool :=
  match c with Single s => ok s | History h => hok h end.
